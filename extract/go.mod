module vextract

go 1.23
