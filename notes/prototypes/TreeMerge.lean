namespace T

inductive Prim where
  | nil | bool (b : Bool) | int (i : Int) | str (s : String)
  deriving Repr, DecidableEq, Inhabited

inductive Val where
  | prim (p : Prim)
  | sub (d : List (String × Val)) (a : List Val)
  deriving Repr, Inhabited

-- lookup
def dget : List (String × Val) → String → Option Val
  | [], _ => none
  | (k, v) :: r, n => if k = n then some v else dget r n

def dset : List (String × Val) → String → Val → List (String × Val)
  | [], n, x => [(n, x)]
  | (k, v) :: r, n, x => if k = n then (k, x) :: r else (k, v) :: dset r n x

mutual
def merge : Val → Val → Val
  | .sub d1 a1, .sub d2 a2 => .sub (mergeD d1 d2) (mergeA a1 a2)
  | _, v => v
def mergeD (d1 : List (String × Val)) : List (String × Val) → List (String × Val)
  | [] => d1
  | (k, v) :: r =>
    let d' := match dget d1 k with
      | none => dset d1 k v
      | some o => dset d1 k (merge o v)
    mergeD d' r
def mergeA : List Val → List Val → List Val
  | [], b => b
  | a, [] => a
  | x :: a, y :: b => merge x y :: mergeA a b
end

#eval merge (.sub [("a", .prim (.int 1))] []) (.sub [("b", .prim (.int 2))] [])
end T

namespace T
-- trees without dict part, to test nested induction pattern
def arrOnly : Val → Bool
  | .prim _ => true
  | .sub d a => d.isEmpty && arrOnlyL a
where arrOnlyL : List Val → Bool
  | [] => true
  | x :: r => arrOnly x && arrOnlyL r

mutual
theorem merge_self (v : Val) (h : arrOnly v = true) : merge v v = v := by
  match v with
  | .prim p => simp [merge]
  | .sub d a =>
    simp [arrOnly] at h
    obtain ⟨hd, ha⟩ := h
    have : d = [] := by simpa using hd
    subst this
    simp [merge, mergeD, mergeA_self a ha]
theorem mergeA_self (a : List Val) (h : arrOnly.arrOnlyL a = true) : mergeA a a = a := by
  match a with
  | [] => simp [mergeA]
  | x :: r =>
    simp [arrOnly.arrOnlyL] at h
    simp [mergeA, merge_self x h.1, mergeA_self r h.2]
end
#print axioms merge_self
end T
