namespace Fo

inductive LVal where
  | leaf (v : Nat) (fld : String) (par : Nat)
  | node (id : Nat) (fld : String) (par : Option Nat) (d : List (String × LVal))
  deriving Repr, Inhabited

def LVal.fld : LVal → String
  | .leaf _ f _ => f
  | .node _ f _ _ => f
def LVal.par : LVal → Option Nat
  | .leaf _ _ p => some p
  | .node _ _ p _ => p

mutual
def ctxOK : LVal → Bool
  | .leaf _ _ _ => true
  | .node id _ _ d => ctxOKd id d
def ctxOKd (holder : Nat) : List (String × LVal) → Bool
  | [] => true
  | (k, c) :: r => (c.fld == k) && (c.par == some holder) && ctxOK c && ctxOKd holder r
end

def dset (d : List (String × LVal)) (n : String) (x : LVal) : List (String × LVal) :=
  match d with
  | [] => [(n, x)]
  | (k, v) :: r => if k = n then (k, x) :: r else (k, v) :: dset r n x

/-- SetInt(name) at a node: namedField.SetValue stores the leaf and sets its context -/
def setLeaf : LVal → String → Nat → LVal
  | .node id f p d, n, v => .node id f p (dset d n (.leaf v n id))
  | l, _, _ => l

theorem ctxOKd_dset (h : Nat) (d : List (String × LVal)) (n : String) (x : LVal)
    (hd : ctxOKd h d = true) (hx : x.fld = n ∧ x.par = some h ∧ ctxOK x = true) :
    ctxOKd h (dset d n x) = true := by
  induction d with
  | nil => simp [dset, ctxOKd, hx]
  | cons kv r ih =>
    obtain ⟨k, c⟩ := kv
    simp only [ctxOKd, Bool.and_eq_true] at hd
    simp only [dset]
    split
    · rename_i hk; subst hk
      simp [ctxOKd, hx, hd.2]
    · simp only [ctxOKd, Bool.and_eq_true]
      exact ⟨hd.1, ih hd.2⟩

theorem setLeaf_ctxOK (t : LVal) (n : String) (v : Nat) (h : ctxOK t = true) :
    ctxOK (setLeaf t n v) = true := by
  cases t with
  | leaf => simpa [setLeaf] using h
  | node id f p d =>
    simp only [setLeaf, ctxOK] at *
    exact ctxOKd_dset id d n _ h ⟨rfl, rfl, by simp [ctxOK]⟩

/-- delAt as written today keeps stored fields: modelled on a list part -/
def idxOK (holder : Nat) : Nat → List LVal → Bool
  | _, [] => true
  | i, c :: r => (c.fld == toString i) && (c.par == some holder) && idxOK holder (i+1) r

def delAtCur (a : List LVal) (i : Nat) : List LVal := a.eraseIdx i

/-- witness: removing index 0 breaks the stored-index invariant -/
theorem delAt_breaks :
    idxOK 7 0 [.leaf 1 "0" 7, .leaf 2 "1" 7] = true ∧
    idxOK 7 0 (delAtCur [.leaf 1 "0" 7, .leaf 2 "1" 7] 0) = false := by decide

#print axioms setLeaf_ctxOK
#print axioms delAt_breaks
end Fo
