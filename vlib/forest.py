"""Forest histories: several configs (registers), merges of one into another (directly or embedded in maps / slices /
structs), writes, removals, child handles, reads; observed after every step through the fingerprint hook
(VerifFingerprint, build tag verif) and the public positional API. Oracles for C10, C11 and C15."""
import json
from .gens import *

NREGS = 5
NAMES = ["a", "b", "c", "l", "m"]
WORDS = ["x", "yy", "val", "one", "two"]


def leaf(rng, refs=False):
    r = rng.below(10)
    if refs and r < 3:
        return S(rng.pick(["${a}", "${b.c}", "p-${l.0}", "${nope:d}", "${r0v}", "${top}"]))
    if r < 4: return S(rng.pick(WORDS))
    if r < 7: return U(1 + rng.below(9))
    if r < 8: return I(-1 - rng.below(5))
    if r < 9: return B(rng.chance(0.5))
    return None


def tree(rng, depth, refs=False, top=False):
    r = rng.below(10)
    if depth <= 0 or (r < 4 and not top):
        return leaf(rng, refs)
    if r < 7 or top:
        ks = rng.shuffle(NAMES)[:1 + rng.below(3)]
        return M([(k, tree(rng, depth - 1, refs)) for k in ks])
    return A([tree(rng, depth - 1, refs) for _ in range(1 + rng.below(3))])


def embed(rng, t, regs, used, depth=0):
    """replace random positions of t by embedded registers"""
    if not regs:
        return t
    if isinstance(t, dict) and "m" in t:
        out = []
        for k, v in t["m"]:
            if rng.chance(0.3):
                j = rng.pick(regs); used.add(j)
                out.append([k, {"reg": j, **({"rep": "val"} if rng.chance(0.25) else {})}])
            else:
                out.append([k, embed(rng, v, regs, used, depth + 1)])
        if rng.chance(0.3):
            j = rng.pick(regs); used.add(j)
            out.append([rng.pick(["e1", "e2", "a", "l"]), {"reg": j}])
        d = dict(t, m=out)
        if rng.chance(0.15) and all(k and k[0].isalpha() and k.isalnum() for k, _ in out) and len(set(k for k, _ in out)) == len(out):
            # the same thing as a struct
            return {"st": [[k.upper(), k, v] for k, v in out]}
        return d
    if isinstance(t, dict) and "a" in t:
        out = []
        for v in t["a"]:
            if rng.chance(0.3):
                j = rng.pick(regs); used.add(j)
                out.append({"reg": j})
            else:
                out.append(embed(rng, v, regs, used, depth + 1))
        return dict(t, a=out)
    return t


def paths_of(t, prefix=()):
    """dotted names addressing nodes of a plain tree"""
    out = []
    if isinstance(t, dict) and "m" in t:
        for k, v in t["m"]:
            out.append(prefix + (k,))
            out += paths_of(v, prefix + (k,))
    elif isinstance(t, dict) and "a" in t:
        for i, v in enumerate(t["a"]):
            out.append(prefix + (str(i),))
            out += paths_of(v, prefix + (str(i),))
    return out


def history(rng, tier, refs=False, reads=False, flavour="c10"):
    ops = []
    sg = Groups(NREGS)   # static alias groups: SetChild must not attach relatives (that would build a cyclic structure)
    attached = set()     # registers holding a config that already has a parent (attaching it again is known finding D20)
    live = []          # registers that hold a config (statically assumed)
    shapes = {}        # reg -> a plain tree approximating its content (for picking names)
    copts = [opt("PathSep", ".")] + ([opt("VarExp")] if refs else [])
    def new_plain(r):
        t = tree(rng, 3, refs, top=True)
        ops.append({"op": "new", "r": r, "from": t, "opts": copts}); shapes[r] = t
        sg.fresh(r); attached.discard(r)
        if r not in live: live.append(r)
    new_plain(0)
    new_plain(1)
    nops = 3 + rng.below(6 if tier == "quick" else 10)
    for _ in range(nops):
        k = rng.wpick([(3, "merge-embed"), (2, "merge-reg"), (2, "new-embed"), (3, "set"), (3, "remove"), (2, "child"), (1, "setchild"),
                       (2 if reads else 0, "read"), (1, "diff"), (1, "merge-plain"), (1, "new"), (3 if flavour == "c05" else 0, "rename")])
        r = rng.pick(live)
        pol = rng.pick([[], [], [opt("Append")], [opt("Prepend")], [opt("Replace")], [opt("ReplaceArr")]])
        if refs and rng.chance(0.35):
            pol = pol + [{"o": "MetaData", "v": rng.pick(["overlay.yml", "b.json"])}]    # parts of a config from different sources
        names = [".".join(p) for p in paths_of(shapes.get(r))] or ["a"]
        if k == "new":
            new_plain(rng.below(NREGS))
        elif k == "merge-plain":
            t = tree(rng, 2, refs, top=True)
            ops.append({"op": "merge", "r": r, "from": t, "opts": copts + pol})
        elif k == "merge-reg":
            # (merging a config into its own descendant or ancestor is left out: the source changes under the iteration)
            others = [x for x in live if x != r and not sg.same(x, r)]
            if others:
                ops.append({"op": "merge", "r": r, "from": {"reg": rng.pick(others), **({"rep": "val"} if rng.chance(0.2) else {})}, "opts": copts + pol})
        elif k in ("merge-embed", "new-embed"):
            others = [x for x in live if x != r and not sg.same(x, r)] if k == "merge-embed" else list(live)
            used = set()
            t = embed(rng, tree(rng, 2, refs, top=True), others, used)
            if not used and others:
                j = rng.pick(others); used.add(j)
                t = M((t.get("m") or []) + [[rng.pick(["e1", "a", "b"]), {"reg": j}]]) if "m" in t else t
            if k == "merge-embed":
                ops.append({"op": "merge", "r": r, "from": t, "opts": copts + pol})
            else:
                to = rng.pick([x for x in range(NREGS) if x not in used] or [NREGS - 1])
                ops.append({"op": "new", "r": to, "from": t, "opts": copts})
                sg.fresh(to); attached.discard(to)
                if to not in live: live.append(to)
                shapes[to] = None
        elif k == "set":
            nm = rng.pick(names + ["l.0", "l.1", "l.2", "a.b", "z", "a.b.c", "l.0.x"])
            ops.append({"op": "set", "r": r, "name": nm, "idx": rng.pick([-1, -1, -1, 0, 1, 2]), "val": leaf(rng) or S("s"), "opts": [opt("PathSep", ".")]})
        elif k == "remove":
            nm = rng.pick(names + ["l.0", "l.1", "l", "a", "a.b"])
            ops.append({"op": "remove", "r": r, "name": nm, "idx": rng.pick([-1, -1, -1, 0, 1]), "opts": [opt("PathSep", ".")]})
        elif k == "child":
            nm = rng.pick(names + ["l.0", "l.1", "a", "e1", "l"])
            to = rng.pick([x for x in range(NREGS) if x != r])
            ops.append({"op": "child", "r": r, "name": nm, "idx": rng.pick([-1, -1, 0, 1]), "to": to, "opts": copts})
            sg.fresh(to); sg.join(to, r); attached.add(to)
            if to not in live: live.append(to)
            shapes[to] = None
        elif k == "setchild":
            others = [x for x in live if x != r and not sg.same(x, r) and x not in attached]
            if others:
                ch = rng.pick(others)
                sg.join(ch, r); attached.add(ch)
                ops.append({"op": "setchild", "r": r, "name": rng.pick(["k", "a", "l", "a.b", "l.1"]), "idx": rng.pick([-1, -1, 0, 1, 3]), "child": ch,
                            "opts": [opt("PathSep", ".")]})
        elif k == "rename":
            # a child moved to another name inside its own config (Child, SetChild under the new name, Remove the old one),
            # later embedded somewhere: what is copied is the config as it is now
            tops = [p[0] for p in paths_of(shapes.get(r)) if len(p) == 1 and not p[0].isdigit()]
            free = [x for x in range(NREGS) if x != r and x not in live] or [x for x in range(NREGS) if x != r]
            if tops and free:
                old_nm = rng.pick(tops); to = rng.pick(free); new_nm = rng.pick(["moved", "nn", "k2"])
                ops.append({"op": "child", "r": r, "name": old_nm, "idx": -1, "to": to, "opts": copts})
                ops.append({"op": "setchild", "r": r, "name": new_nm, "idx": -1, "child": to, "opts": [opt("PathSep", ".")]})
                if rng.chance(0.7):
                    ops.append({"op": "remove", "r": r, "name": old_nm, "idx": -1, "opts": [opt("PathSep", ".")]})
                sg.fresh(to); sg.join(to, r); attached.add(to)
                if to not in live: live.append(to)
                shapes[to] = None
                dest = rng.pick([x for x in range(NREGS) if x not in (r, to)])
                emb = M([(rng.pick(["e1", "e2"]), {"reg": r}), ("z", U(1))]) if rng.chance(0.7) else M([("w", A([{"reg": r}]))])
                ops.append({"op": "new", "r": dest, "from": emb, "opts": copts})
                sg.fresh(dest); attached.discard(dest)
                if dest not in live: live.append(dest)
                shapes[dest] = None
        elif k == "read":
            what = rng.pick(["view", "keys", "has", "count", "get", "typed", "childview", "diffself", "captured", "captured"])
            o = {"op": "read", "r": r, "what": what, "name": rng.pick(names + ["a", "l.0"]), "idx": rng.pick([-1, -1, 0]), "opts": copts}
            if what == "get": o["type"] = rng.pick(["String", "Int", "Bool"])
            if what == "typed": o["ty"] = rng.pick(["strings", "string", "int", "duration", "ifaces"])
            if what == "captured":
                # Unpack (twice or more, into the same target) into a struct capturing the setting as *Config / Config under a policy tag
                o["ty"] = rng.pick(["", "append", "prepend", "replace", "merge"]) + rng.pick(["", "", "|rebrand", "|rebrand"]) + rng.pick(["", "", "|value"])
                o["idx"] = 2 + rng.below(2)
            ops.append(o)
        elif k == "diff":
            # (any separator: both sides have to be flattened with the one that was asked for)
            ops.append({"op": "diff", "r": r, "r2": rng.pick(live), "opts": [opt("PathSep", rng.pick([".", ".", "/", "::"]))]})
    tags = sorted(set(o["op"] + ("-emb" if has_reg(o.get("from")) else "") for o in ops))
    return {"k": "forest", "regs": NREGS, "ops": ops, **({"reattach": True} if flavour == "c05" else {}), "_tag": "forest/" + flavour, "_nt": any("emb" in t or t in ("remove", "setchild", "child") for t in tags),
            "_sig": "%s|%s|%d" % (flavour, "+".join(tags), len(ops))}


def has_reg(t):
    if isinstance(t, dict):
        if "reg" in t:
            return True
        return any(has_reg(v) for v in t.values())
    if isinstance(t, list):
        return any(has_reg(v) for v in t)
    return False


def regs_in(t, acc=None):
    acc = set() if acc is None else acc
    if isinstance(t, dict):
        if "reg" in t:
            acc.add(int(t["reg"]))
        for v in t.values():
            regs_in(v, acc)
    elif isinstance(t, list):
        for v in t:
            regs_in(v, acc)
    return acc


# ---------------------------------------------------------------- fingerprint analysis

def walk(n, path=(), container=None):
    """yield (node, actual path, container node) for every node below (and including) n"""
    if n is None:
        return
    yield n, path, container
    for k, c in sorted((n.get("d") or {}).items()):
        yield from walk(c, path + (k,), n)
    for i, c in enumerate(n.get("a") or []):
        yield from walk(c, path + (str(i),), n)


def all_ids(n):
    return set(x["id"] for x, _, _ in walk(n) if x is not None)


def find_id(n, ident):
    for x, p, c in walk(n):
        if x is not None and x["id"] == ident:
            return x, p, c
    return None


def pure(n):
    """every object below n is a dictionary or a list, not both; no references"""
    for x, _, _ in walk(n):
        if x is None:
            continue
        if x["k"] == "dyn":
            return False
        if x["k"] == "sub" and x.get("d") and x.get("a"):
            return False
    return True


def leaf_keys(n):
    out = []
    for x, p, _ in walk(n):
        if x is not None and x["k"] not in ("sub", "nil") and p:
            out.append(".".join(p))
    return sorted(out)


def aliased_positions(regs):
    """ids reachable at two different positions (re-attached children)"""
    seen = {}
    dup = set()
    for r in regs:
        if not r or r["fp"].get("p"):
            continue
        for x, p, _ in walk(r["fp"]):
            if x is None:
                continue
            key = x["id"]
            if key in seen and seen[key] != (r["fp"]["id"], p):
                dup.add(key)
            seen[key] = (r["fp"]["id"], p)
    return dup


class Groups:
    """registers that are allowed to share nodes (child handles, SetChild)"""
    def __init__(self, n):
        self.g = list(range(n))
        self.next = n
    def fresh(self, r):
        self.g[r] = self.next; self.next += 1
    def join(self, a, b):
        ga, gb = self.g[a], self.g[b]
        self.g = [ga if x == gb else x for x in self.g]
    def same(self, a, b):
        return self.g[a] == self.g[b]


def analyze(case, impl):
    """-> list of (property, message, step index)"""
    out = []
    steps = (impl or {}).get("steps") if isinstance(impl, dict) else None
    if not isinstance(steps, list):
        return out
    ops = case["ops"]
    n = case.get("regs", NREGS)
    groups = Groups(n)
    reattached = set()
    prev = [None] * n
    for si, (op, st) in enumerate(zip(ops, steps)):
        if "panic" in st:
            out.append(("C07", "step %d (%s) panicked: %s" % (si, op["op"], st["panic"]), si))
        regs = st["regs"]
        kind = op["op"] if not st.get("skipped") else "skipped"

        r = op.get("r", 0)
        failed = st.get("err") is not None
        # ---- alias bookkeeping
        if kind == "new" and not failed:
            groups.fresh(r)
        if kind == "child" and not failed:
            groups.fresh(op["to"]); groups.join(op["to"], r)
        if kind == "setchild":
            groups.join(op["child"], r)
            pc = prev[op["child"]]
            if pc is not None and pc["fp"].get("p"):
                reattached.add(pc["fp"]["id"])      # it already had a parent: the D20 class
        srcs = regs_in(op.get("from")) if kind in ("new", "merge") else set()
        # ---- C10: the sources of a merge are untouched, and share nothing with the destination afterwards
        for j in srcs:
            if prev[j] is None or regs[j] is None:
                continue
            if kind == "merge" and groups.same(j, r):
                continue
            if json.dumps(prev[j], sort_keys=True) != json.dumps(regs[j], sort_keys=True):
                out.append(("C10", "step %d: %s from a value containing config r%d changed r%d: %s" % (si, kind, j, j, first_diff(prev[j], regs[j])), si))
            if not failed and regs[r] is not None and not groups.same(j, r):
                shared = all_ids(regs[r]["fp"]) & all_ids(regs[j]["fp"])
                if shared:
                    x, p, _ = find_id(regs[r]["fp"], sorted(shared)[0])
                    out.append(("C10", "step %d: after %s the destination r%d shares %d node(s) with the source r%d (e.g. at '%s')" % (si, kind, r, len(shared), j, ".".join(p)), si))
        # ---- C10 (later independence) / C11 (reads are pure): registers outside the written register's group do not change
        mutating = kind in ("new", "merge", "set", "setchild", "remove")
        for j in range(n):
            if prev[j] is None or regs[j] is None:
                continue
            if kind == "child" and j == op.get("to"):
                continue
            if kind == "new" and j == r:
                continue
            same = json.dumps(prev[j], sort_keys=True) == json.dumps(regs[j], sort_keys=True)
            if same:
                continue
            if not mutating:
                out.append(("C11", "step %d: the read operation %s on r%d changed r%d: %s" % (si, op.get("what", kind), r, j, first_diff(prev[j], regs[j])), si))
            elif not groups.same(j, r) and j not in srcs:
                out.append(("C10", "step %d: %s on r%d is visible through the unrelated config r%d: %s" % (si, kind, r, j, first_diff(prev[j], regs[j])), si))
        # ---- C05: a config embedded in the value given to NewFrom shows up with exactly its current content
        if kind == "new" and not failed and regs[r] is not None and not any(o2.get("o") == "PathSep" and False for o2 in op.get("opts", [])):
            for pth, j in embedded_positions(op.get("from")):
                if prev[j] is None:
                    continue
                hit = node_at(regs[r]["fp"], pth)
                if content(hit) != content(prev[j]["fp"]):
                    out.append(("C05", "step %d: config r%d embedded at '%s' arrives as %s, it holds %s" % (si, j, ".".join(pth), json.dumps(content(hit))[:200], json.dumps(content(prev[j]["fp"]))[:200]), si))
        # ---- C05: an existing config and what NewFrom makes of it unpack to the same value (a read marked "sameAsPrev" has
        # to return what the read before it returned)
        if kind == "read" and op.get("sameAsPrev") and si > 0 and "read" in st and "read" in steps[si - 1]:
            a, b = steps[si - 1]["read"], st["read"]
            if isinstance(a, dict) and isinstance(b, dict) and "ok" in a and "ok" in b and json.dumps(a, sort_keys=True) != json.dumps(b, sort_keys=True):
                out.append(("C05", "step %d: the config created from r%d unpacks to %s, the config itself to %s" % (si, ops[si - 1].get("r", 0), json.dumps(b)[:200], json.dumps(a)[:200]), si))
        # ---- C15: stored positions describe the structure
        # nodes attached at two positions at once (SetChild of an attached child: known finding D20) are outside the rule,
        # except in the known finding's own witness
        dup = set() if case.get("strict") else (aliased_positions(regs) | reattached)
        for j in range(n):
            R = regs[j]
            if R is None:
                continue
            fp = R["fp"]
            if not fp.get("p"):
                # a root: every node below it stores its actual name/index and container
                if fp.get("f"):
                    out.append(("C15", "step %d: root config r%d stores field name '%s'" % (si, j, fp["f"]), si))
                for x, p, c in walk(fp):
                    if x is None or c is None or x["id"] in dup or c["id"] in dup:
                        continue
                    if x["f"] != p[-1]:
                        out.append(("C15", "step %d: r%d: the node at '%s' stores the name '%s'" % (si, j, ".".join(p), x["f"]), si)); break
                    if x["p"] != c["id"]:
                        out.append(("C15", "step %d: r%d: the node at '%s' stores a parent that is not its container" % (si, j, ".".join(p)), si)); break
                if R["path"] != "" or R["parent"] != "":
                    out.append(("C15", "step %d: root config r%d reports Path '%s' / a parent" % (si, j, R["path"]), si))
            else:
                # a handle to a child: its Path / Parent against its actual position in its root (if a register holds that root)
                for i2 in range(n):
                    R2 = regs[i2]
                    if R2 is None or R2["fp"].get("p") or i2 == j:
                        continue
                    hit = find_id(R2["fp"], fp["id"])
                    if hit and fp["id"] not in dup:
                        x, p, c = hit
                        if R["path"] != ".".join(p):
                            out.append(("C15", "step %d: r%d sits at '%s' in r%d but its Path() is '%s'" % (si, j, ".".join(p), i2, R["path"]), si))
                        if c is not None and R["parent"] != c["id"]:
                            out.append(("C15", "step %d: Parent() of r%d (at '%s' in r%d) is not the node that contains it" % (si, j, ".".join(p), i2), si))
                        break
            if pure(fp):
                # FlattenedKeys speaks in paths from the root of the tree the config is attached to
                pre = R["path"] + "." if fp.get("p") and R["path"] else ""
                want = sorted(pre + k for k in leaf_keys(fp))
                if not (all_ids(fp) & dup) and fp["id"] not in dup and sorted(R["keys"]) == want and sorted(R.get("keys0", R["keys"])) != want:
                    out.append(("C15", "step %d: FlattenedKeys() of r%d without a PathSep option = %s, with the default separator they are %s" % (si, j, sorted(R["keys0"])[:8], want[:8]), si))
                if not (all_ids(fp) & dup) and fp["id"] not in dup and sorted(R["keys"]) != want:
                    out.append(("C15", "step %d: FlattenedKeys of r%d = %s, the non-nil primitive settings are %s" % (si, j, sorted(R["keys"])[:8], want[:8]), si))
        if kind == "diff" and "diff" in st and regs[r] is not None and regs[op["r2"]] is not None and pure(regs[r]["fp"]) and pure(regs[op["r2"]]["fp"]) \
                and not ((all_ids(regs[r]["fp"]) | all_ids(regs[op["r2"]]["fp"])) & dup):
            sep = next((o.get("v") for o in op.get("opts", []) if o.get("o") == "PathSep"), ".")
            def rooted(R):
                pre = R["path"] + "." if R["fp"].get("p") and R["path"] else ""
                return set((pre + k).replace(".", sep) for k in leaf_keys(R["fp"]))
            old, new = rooted(regs[r]), rooted(regs[op["r2"]])
            d = st["diff"]
            if set(d["keep"]) != old & new or set(d["add"]) != new - old or set(d["remove"]) != old - new or len(d["keep"]) + len(d["add"]) + len(d["remove"]) != len(old | new):
                out.append(("C15", "step %d: CompareConfigs(r%d, r%d) = %s does not partition the settings" % (si, r, op["r2"], json.dumps(d)[:200]), si))
            if old == new and d["changed"]:
                out.append(("C15", "step %d: CompareConfigs reports a change for equal key sets" % si, si))
        prev = regs
    return out


def first_diff(a, b, path="$"):
    if type(a) != type(b):
        return "%s: %s -> %s" % (path, json.dumps(a)[:60], json.dumps(b)[:60])
    if isinstance(a, dict):
        for k in sorted(set(a) | set(b)):
            if a.get(k) != b.get(k):
                return first_diff(a.get(k), b.get(k), path + "." + k)
    if isinstance(a, list):
        if len(a) != len(b):
            return "%s: length %d -> %d" % (path, len(a), len(b))
        for i, (x, y) in enumerate(zip(a, b)):
            if x != y:
                return first_diff(x, y, "%s[%d]" % (path, i))
    return "%s: %s -> %s" % (path, json.dumps(a)[:60], json.dumps(b)[:60])


def embedded_positions(t, path=()):
    """[(path, register)] of the configs embedded in a source value (through maps, structs and lists; keys without dots)"""
    out = []
    if isinstance(t, dict):
        if "reg" in t:
            return [(path, int(t["reg"]))]
        if "m" in t:
            keys = [k for k, _ in t["m"]]
            for k, v in t["m"]:
                if keys.count(k) == 1 and "." not in k and not k.isdigit():
                    out += embedded_positions(v, path + (k,))
        elif "st" in t:
            for _, tag, v in t["st"]:
                if "." not in tag and not tag.isdigit():
                    out += embedded_positions(v, path + (tag,))
        elif "a" in t:
            for i, v in enumerate(t["a"]):
                out += embedded_positions(v, path + (str(i),))
    return out


def node_at(n, path):
    for seg in path:
        if n is None:
            return None
        if seg.isdigit() and n.get("a") is not None and int(seg) < len(n["a"]) and not (n.get("d") or {}).get(seg):
            n = n["a"][int(seg)]
        else:
            n = (n.get("d") or {}).get(seg)
    return n


def content(n):
    """kinds, values and structure of a fingerprint, without identities and stored contexts"""
    if n is None:
        return None
    out = {"k": n["k"]}
    if "v" in n: out["v"] = n["v"]
    if n.get("d"): out["d"] = {k: content(c) for k, c in sorted(n["d"].items())}
    if n.get("a"): out["a"] = [content(c) for c in n["a"]]
    return out


def oracle_for(pid):
    def oracle(case, impl, model):
        if case.get("k") != "forest":
            return None
        found = [(p, m) for p, m, _ in analyze(case, impl) if p == pid or (p == "C07" and pid != "C07")]
        if found:
            return (False, found[0][1])
        return (True, "")
    return oracle


def canon_ids(res):
    """identities as small numbers in order of first appearance (addresses differ from run to run)"""
    table = {}
    def cid(x):
        if x == "" or x is None:
            return x
        if x not in table:
            table[x] = "n%d" % len(table)
        return table[x]
    def go(v):
        if isinstance(v, dict):
            return {k: (cid(x) if k in ("id", "p", "parent") and isinstance(x, str) else go(x)) for k, x in v.items()}
        if isinstance(v, list):
            return [go(x) for x in v]
        return v
    return go(res)


def strip_fp(n):
    if n is None:
        return None
    # (an unevaluated expression is dumped in Go's own notation for it: compared as a node, not by its text)
    out = {k: n[k] for k in ("id", "k", "f", "p", "v") if k in n and not (k == "v" and n.get("k") == "dyn")}
    if n.get("d"):
        out["d"] = {k: strip_fp(c) for k, c in n["d"].items()}
    if n.get("a"):
        out["a"] = [strip_fp(c) for c in n["a"]]
    return out


def project_steps(steps, cut):
    out = []
    for st in steps[:cut]:
        regs = []
        for R in st.get("regs") or []:
            regs.append(None if R is None else {"fp": strip_fp(R["fp"]), "path": R["path"], "parent": R["parent"]})
        out.append(regs)
    return out


def canon_sorted(res):
    """identities as small numbers in order of first appearance in a deterministic (key-sorted) traversal"""
    table = {}
    def cid(x):
        if x == "" or x is None:
            return x
        if x not in table:
            table[x] = "n%d" % len(table)
        return table[x]
    def go(v):
        if isinstance(v, dict):
            return {k: (cid(v[k]) if k in ("id", "p", "parent") and isinstance(v[k], str) else go(v[k])) for k in sorted(v)}
        if isinstance(v, list):
            return [go(x) for x in v]
        return v
    return go(res)


def normalize_pair(case, impl, model):
    """the modelled prefix of the history: fingerprints (identities up to renaming, stored names and parents, values),
    Path() and Parent() of every register after every step"""
    if not isinstance(model, dict) or not isinstance(model.get("steps"), list) or not isinstance(impl, dict) or not isinstance(impl.get("steps"), list):
        return None, None
    msteps = model["steps"]
    cut = next((i for i, st in enumerate(msteps) if "unmodelled" in st), len(msteps))
    # a step that panicked or a harness problem is not compared
    cut = min(cut, len(impl["steps"]))
    return canon_sorted(project_steps(impl["steps"], cut)), canon_sorted(project_steps(msteps, cut))


def modelled_prefix(model):
    st = (model or {}).get("steps") if isinstance(model, dict) else None
    if not isinstance(st, list):
        return 0
    return next((i for i, s in enumerate(st) if "unmodelled" in s), len(st))


def wellformed_data(t):
    if t is None:
        return True
    if not isinstance(t, dict):
        return False
    if "reg" in t:
        return isinstance(t["reg"], int)
    if "m" in t:
        return isinstance(t["m"], list) and all(isinstance(e, list) and len(e) == 2 and isinstance(e[0], str) and e[0] != "" and wellformed_data(e[1]) for e in t["m"]) \
            and len(set(e[0] for e in t["m"])) == len(t["m"])
    if "a" in t:
        return isinstance(t["a"], list) and all(wellformed_data(x) for x in t["a"])
    if "st" in t:
        return isinstance(t["st"], list) and all(isinstance(e, list) and len(e) == 3 and e[0] and e[0][0].isupper() and e[1] and wellformed_data(e[2]) for e in t["st"])
    return any(k in t for k in ("s", "i", "u", "b", "f"))


def fix_candidate(cand, base):
    """shrinking keeps histories well formed: non-empty names, complete operations, registers in range"""
    if cand.get("k") != "forest" or cand.get("regs") != base.get("regs") or not isinstance(cand.get("ops"), list):
        return None
    for o in cand["ops"]:
        if not isinstance(o, dict) or o.get("op") not in ("new", "merge", "set", "setchild", "remove", "child", "read", "diff"):
            return None
        if not isinstance(o.get("r"), int) or not isinstance(o.get("opts"), list):
            return None
        if o["op"] in ("new", "merge") and not ("from" in o and wellformed_data(o["from"]) and o["from"] is not None):
            return None
        whole = o["op"] == "read" and o.get("what") in ("view", "keys")      # reads of the whole config need no name
        if o["op"] in ("set", "setchild", "remove", "child", "read") and (not isinstance(o.get("name"), str) or (o["name"] == "" and not whole) or not isinstance(o.get("idx"), int)):
            return None
        if o["op"] == "set" and not (isinstance(o.get("val"), dict) and any(k in o["val"] for k in ("s", "i", "u", "b", "f"))):
            return None
        if o.get("name") and any(seg == "" for seg in o.get("name", "x").split(".")):
            return None
        for key in ("to", "child", "r2"):
            if key in o and not isinstance(o[key], int):
                return None
    for prev_o, o in zip([None] + cand["ops"], cand["ops"]):
        # a read compared with the read before it keeps that read
        if o.get("sameAsPrev") and not (prev_o is not None and prev_o.get("op") == "read" and prev_o.get("what") == "view"):
            return None
    if not static_ok(cand["ops"], cand.get("regs", NREGS), allow_reattach=bool(cand.get("reattach"))):
        return None
    return cand


def static_ok(ops, n, allow_reattach=False):
    """the generator's own restrictions, re-checked on shrunk histories: no merge between relatives (the source would
    change under the iteration), no SetChild of a relative (cyclic structure) or of a config that already has a parent
    (known finding D20)"""
    sg = Groups(n)
    attached = set()
    live = set()
    for o in ops:
        r = o["r"]
        if any(x < 0 or x >= n for x in [r] + [o[k] for k in ("to", "child", "r2") if k in o] + list(regs_in(o.get("from")))):
            return False
        needs = ([] if o["op"] == "new" else [r]) + [o[k] for k in ("child", "r2") if k in o] + list(regs_in(o.get("from")))
        if any(x not in live for x in needs):
            return False       # an operation on a register that holds nothing would be skipped
        if o["op"] == "new":
            live.add(r)
        if o["op"] == "child":
            live.add(o["to"])
        if o["op"] == "new":
            sg.fresh(r); attached.discard(r)
        elif o["op"] == "merge":
            if any(sg.same(j, r) for j in regs_in(o.get("from"))):
                return False
        elif o["op"] == "child":
            if o["to"] == r:
                return False
            sg.fresh(o["to"]); sg.join(o["to"], r); attached.add(o["to"])
        elif o["op"] == "setchild":
            ch = o["child"]
            if (sg.same(ch, r) or ch in attached) and not allow_reattach:
                return False
            if allow_reattach and ch == r:
                return False
            sg.join(ch, r); attached.add(ch)
    return True
