"""Catalogue of named Go types with methods (harness/vworker/catalog.go) described as method-less twins."""
from .gens import *
from . import typegen as TG


def F_(n, tag, ty, v=""):
    return {"n": n, "tag": tag, "v": v, "ty": ty}


RANGE = TG.T("struct", f=[F_("Min", "min", TG.T("int")), F_("Max", "max", TG.T("int")), F_("Name", "name", TG.T("string"))])
PTR = TG.T("struct", f=[F_("A", "a", TG.T("int"), "max=100"), F_("B", "b", TG.T("string"))])
DEFAULTS = TG.T("struct", f=[F_("Port", "port", TG.T("int"), "min=1"), F_("Host", "host", TG.T("string")), F_("Tags", "tags", TG.T("slice", e=TG.T("string")))])
OUTER = TG.T("struct", f=[F_("R", "r", RANGE), F_("P", "p", TG.T("ptr", e=PTR)), F_("L", "l", TG.T("slice", e=RANGE)),
                          F_("M", "m", TG.T("map", e=RANGE)), F_("N", "n", TG.T("int")), F_("Q", "q", PTR)])
WITHDEFAULTS = TG.T("struct", f=[F_("D", "d", DEFAULTS), F_("R", "r", RANGE), F_("K", "k", TG.T("int"))])
TAGGED = TG.T("struct", f=[F_("Tags", "tags", TG.T("slice", e=TG.T("string"))), F_("Labels", "labels", TG.T("map", e=TG.T("string"))), F_("N", "n", TG.T("int")),
                          F_("Inner", "inner", TG.T("map", e=TG.T("struct", f=[F_("T", "t", TG.T("slice", e=TG.T("string")))])))])
PORTS = TG.T("struct", f=[F_("Name", "name", TG.T("string")), F_("Ports", "ports", TG.T("slice", e=TG.T("int"))),
                            F_("ByName", "byname", TG.T("map", e=TG.T("int"))), F_("Fixed", "fixed", TG.T("array", n=2, e=TG.T("int"))),
                            F_("Levels", "levels", TG.T("slice", e=TG.T("int"))), F_("One", "one", TG.T("int"))])
CATALOG = {"Ports": PORTS, "Tagged": TAGGED, "Range": RANGE, "Ptr": PTR, "Defaults": DEFAULTS, "Outer": OUTER, "WithDefaults": WITHDEFAULTS}


def range_cfg(rng, bad=False):
    if bad:
        kv = [("min", U(9)), ("max", U(2))]
    else:
        kv = [("min", U(1 + rng.below(3))), ("max", U(5 + rng.below(3)))]
        kv = [e for e in kv if rng.chance(0.8)]
    if rng.chance(0.5):
        kv.append(("name", S(rng.pick(["x", "yy"]))))
    return M(rng.shuffle(kv))


def ptr_cfg(rng, bad=False):
    kv = []
    if rng.chance(0.7): kv.append(("a", U(rng.pick([1, 50, 100] + ([101] if rng.chance(0.1) else [])))))
    if bad: kv.append(("b", S("bad")))
    elif rng.chance(0.6): kv.append(("b", S(rng.pick(["ok", "fine", ""]))))
    return M(kv)


def defaults_cfg(rng, bad=False):
    kv = []
    if bad: kv.append(("port", U(0)))
    elif rng.chance(0.5): kv.append(("port", U(rng.pick([1, 80, 443]))))
    if rng.chance(0.4): kv.append(("host", S("h1")))
    if rng.chance(0.4): kv.append(("tags", A([S("t%d" % i) for i in range(rng.below(3))])))
    return M(kv)


def cat_case(rng):
    cat = rng.wpick([(2, "Range"), (2, "Ptr"), (2, "Defaults"), (6, "Outer"), (3, "WithDefaults"), (4, "Tagged"), (4, "Ports")])
    ty = CATALOG[cat]
    if cat == "Tagged":
        return tagged_case(rng)
    if cat == "Ports":
        return ports_case(rng)
    spots = {"Range": ["self"], "Ptr": ["self"], "Defaults": ["self"], "Outer": ["r", "p", "l", "m", "n", "q"], "WithDefaults": ["d", "r"]}[cat]
    badspot = rng.pick(spots) if rng.chance(0.45) else None
    if cat == "Range": cfg = range_cfg(rng, badspot == "self")
    elif cat == "Ptr": cfg = ptr_cfg(rng, badspot == "self")
    elif cat == "Defaults": cfg = defaults_cfg(rng, badspot == "self")
    elif cat == "Outer":
        kv = []
        if badspot == "r" or rng.chance(0.6): kv.append(("r", range_cfg(rng, badspot == "r")))
        if badspot == "p" or rng.chance(0.6): kv.append(("p", ptr_cfg(rng, badspot == "p")))
        if badspot == "q" or rng.chance(0.5): kv.append(("q", ptr_cfg(rng, badspot == "q")))
        if badspot == "l" or rng.chance(0.5):
            n = 1 + rng.below(3); b = rng.below(n)
            kv.append(("l", A([range_cfg(rng, badspot == "l" and i == b) for i in range(n)])))
        if badspot == "m" or rng.chance(0.5):
            ks = ["k%d" % i for i in range(1 + rng.below(3))]; b = rng.pick(ks)
            kv.append(("m", M([(k, range_cfg(rng, badspot == "m" and k == b)) for k in ks])))
        if badspot == "n": kv.append(("n", U(13)))
        elif rng.chance(0.5): kv.append(("n", U(rng.pick([1, 12, 14]))))
        cfg = M(rng.shuffle(kv))
    else:
        kv = []
        if badspot == "d" or rng.chance(0.6): kv.append(("d", defaults_cfg(rng, badspot == "d")))
        if badspot == "r" or rng.chance(0.6): kv.append(("r", range_cfg(rng, badspot == "r")))
        if rng.chance(0.5): kv.append(("k", U(3)))
        cfg = M(rng.shuffle(kv))
    old = None
    if rng.chance(0.4):
        old = TG.rand_value(rng, ty)
    uopts = [opt(rng.pick(["Append", "Prepend", "Replace", "ReplaceArr"]))] if rng.chance(0.15) else []
    return {"k": "catalog", "cat": cat, "ty": ty, "old": old, "from": cfg, "copts": [], "uopts": uopts,
            "_tag": "catalog/" + cat, "_nt": True, "_sig": "cat|%s|%s|%s|%s" % (cat, badspot, "old" if old else "zero", ",".join(sorted(k for k, _ in cfg["m"])))}


def ports_case(rng):
    """named int types with Validate (pointer receiver: ports 0..65535; value receiver: levels <= 9) as elements of slices, maps and
    arrays and as a plain field: set by the configuration or left as the caller pre-filled them, good or bad"""
    def port(bad): return rng.pick([70000, -1, 65536]) if bad else rng.pick([0, 80, 443, 65535])
    def level(bad): return rng.pick([10, 99]) if bad else rng.pick([0, 3, 9])
    spots = ["ports", "byname", "fixed", "levels", "one"]
    badcfg = rng.pick(spots) if rng.chance(0.3) else None
    badold = rng.pick(spots) if rng.chance(0.4) else None
    kv = []
    if rng.chance(0.6): kv.append(("name", S("x")))
    def lst(n, f, bad):
        b = rng.below(n) if bad else -1
        return [f(i == b) for i in range(n)]
    if badcfg == "ports" or rng.chance(0.3): kv.append(("ports", A([I(x) for x in lst(1 + rng.below(3), port, badcfg == "ports")])))
    if badcfg == "byname" or rng.chance(0.3):
        xs = lst(1 + rng.below(2), port, badcfg == "byname"); kv.append(("byname", M([("k%d" % i, I(x)) for i, x in enumerate(xs)])))
    if badcfg == "fixed" or rng.chance(0.3): kv.append(("fixed", A([I(x) for x in lst(2, port, badcfg == "fixed")])))
    if badcfg == "levels" or rng.chance(0.3): kv.append(("levels", A([I(x) for x in lst(1 + rng.below(3), level, badcfg == "levels")])))
    if badcfg == "one" or rng.chance(0.3): kv.append(("one", I(port(badcfg == "one"))))
    cfg = M(rng.shuffle(kv))
    old = None
    if badold or rng.chance(0.6):
        def iv(x): return {"i": str(x)}
        ps = lst(rng.below(4) if badold != "ports" else 1 + rng.below(3), port, badold == "ports")
        bn = lst(rng.below(3) if badold != "byname" else 1 + rng.below(2), port, badold == "byname")
        old = {"st": [{"s": ""}, {"sl": [iv(x) for x in ps] if ps or rng.chance(0.5) else None},
                      {"mp": {"p%d" % i: iv(x) for i, x in enumerate(bn)} if bn or rng.chance(0.5) else None},
                      {"ar": [iv(x) for x in lst(2, port, badold == "fixed")]},
                      {"sl": [iv(x) for x in lst(1 + rng.below(3), level, badold == "levels")]},
                      iv(port(badold == "one"))]}
    uopts = [opt(rng.pick(["Append", "Prepend", "Replace", "ReplaceArr"]))] if rng.chance(0.2) else []
    return {"k": "catalog", "cat": "Ports", "ty": PORTS, "old": old, "from": cfg, "copts": [], "uopts": uopts,
            "_tag": "catalog/Ports", "_nt": True,
            "_sig": "cat|Ports|%s|%s|%s" % (badcfg, badold, ",".join(sorted(k for k, _ in cfg["m"])))}


def tagged_case(rng):
    """named slice / map types with Validate: mentioned (non-empty or empty) or left as they are (nil, empty or filled)"""
    def tags(): return A([S("t%d" % i) for i in range(rng.below(3))])
    def labels(): return M([("l%d" % i, S("v")) for i in range(rng.below(3))])
    kv = []
    if rng.chance(0.5): kv.append(("tags", tags()))
    if rng.chance(0.5): kv.append(("labels", labels()))
    if rng.chance(0.6): kv.append(("n", U(rng.below(5))))
    if rng.chance(0.4): kv.append(("inner", M([("k%d" % i, M([("t", tags())] if rng.chance(0.7) else [])) for i in range(1 + rng.below(2))])))
    cfg = M(rng.shuffle(kv))
    old = None
    if rng.chance(0.7):
        def otags(): return rng.pick([{"sl": None}, {"sl": []}, {"sl": [{"s": "d"}]}, {"sl": [{"s": "d"}, {"s": "e"}]}])
        def olabels(): return rng.pick([{"mp": None}, {"mp": {}}, {"mp": {"a": {"s": "b"}}}])
        inner = rng.pick([{"mp": None}, {"mp": {"p0": {"st": [otags()]}}}, {"mp": {"k0": {"st": [otags()]}, "p1": {"st": [otags()]}}}])
        old = {"st": [otags(), olabels(), {"i": str(rng.below(3))}, inner]}
    return {"k": "catalog", "cat": "Tagged", "ty": TAGGED, "old": old, "from": cfg, "copts": [], "uopts": [],
            "_tag": "catalog/Tagged", "_nt": True, "_sig": "cat|Tagged|%s|%s" % ("old" if old else "zero", ",".join(sorted(k for k, _ in cfg["m"])))}


def any_err(res):
    if isinstance(res, dict) and "err" in res:
        return {"err": True}
    return res


def agree(impl):
    """is the real type's outcome what the twin's outcome plus the methods predict"""
    real, twin = impl.get("real") or {}, impl.get("twin") or {}
    if "create" in real or "create" in twin:
        return real == twin
    want_ok = "ok" in twin and impl.get("twinInvalid") is None
    if ("ok" in real) != want_ok:
        return False
    if want_ok and real["ok"] != twin["ok"]:
        return False
    return True


def normalize_pair(case, impl, model):
    if case.get("k") != "catalog" or not isinstance(impl, dict) or "twin" not in impl or not isinstance(model, dict):
        return impl, model
    return ({"twin": any_err(impl["twin"]), "agree": agree(impl)}, {"twin": any_err(model.get("twin")), "agree": True})


def crashed(impl):
    for side in ("real", "twin"):
        r = (impl or {}).get(side)
        if isinstance(r, dict) and ("panic" in r or "fatal" in r):
            return side
    if isinstance(impl, dict) and ("panic" in impl or "fatal" in impl):
        return "call"
    return None


def oracle_c04(case, impl, model):
    if case.get("k") != "catalog" or not isinstance(impl, dict):
        return None
    if crashed(impl):
        return (False, "Unpack crashed")
    if "ok" in (impl.get("real") or {}) and impl.get("realInvalid") is not None:
        return (False, "Unpack returned nil but a Validate method reachable in the result fails: " + str(impl["realInvalid"]))
    return (True, "")


def oracle_c13(case, impl, model):
    if case.get("k") != "catalog" or not isinstance(impl, dict):
        return None
    if crashed(impl):
        return (False, "Unpack crashed")
    real = impl.get("real") or {}
    if "err" in real and real.get("unchanged") is False:
        return (False, "Unpack failed but the struct passed in no longer holds its previous field values")
    return (True, "")
