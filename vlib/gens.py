"""Shared generator helpers (all randomness from common.Rng)."""

def I(n): return {"i": str(n)}
def U(n): return {"u": str(n)}
def S(s): return {"s": s}
def B(b): return {"b": bool(b)}
def F(bits): return {"f": "%016x" % bits}
def A(xs, **kw): return dict({"a": list(xs)}, **kw)
def M(kvs, **kw): return dict({"m": [[k, v] for k, v in kvs]}, **kw)

def opt(name, v=None):
    o = {"o": name}
    if v is not None:
        o["v"] = v
    return o

INT_LITERALS = ["0", "1", "7", "08", "007", "0x10", "0X1f", "0b101", "0o17", "017", "1_000", "0x_1", "1__0", "_1", "1_",
                "+5", "-1", "-0", "+0", "-0x1", "--1", "+-1", "1024", "1025", "1023", "4096", "65536", "0x400", "0x401",
                "9223372036854775807", "9223372036854775808", "-9223372036854775808", "-9223372036854775809",
                "18446744073709551615", "18446744073709551616", "1e3", "1.0", " 1", "1 ", "0x", "0b", "0o", "0b2", "09", "0_7",
                "１", "１２", "٣", "", "a", "1a", "0xg", "00", "0_0", "1_0_0", "0X_F", "0B1", "0O7", "0x1_", "١"]

# ---------------------------------------------------------------- configuration trees

KEYS = ["a", "b", "c", "l", "m"]
PRIMS = [lambda r: I(-r.below(5)), lambda r: U(1 + r.below(9)), lambda r: S(r.pick(["x", "y", "", "v w"])),
         lambda r: B(r.chance(0.5)), lambda r: F(r.pick([0x3ff8000000000000, 0x4000000000000000, 0xbfe0000000000000]))]


def rand_leaf(rng):
    if rng.chance(0.15):
        return None
    return rng.pick(PRIMS)(rng)


def rand_tree(rng, depth, allow_empty=True):
    """A plain data tree (protocol GoData): maps over a small key alphabet, lists, primitives, nil."""
    k = rng.below(10)
    if depth <= 0 or k < 3:
        return rand_leaf(rng)
    if k < 7:
        n = rng.below(4) if allow_empty else 1 + rng.below(3)
        keys = rng.shuffle(KEYS)[:n]
        return M([(key, rand_tree(rng, depth - 1)) for key in keys])
    n = rng.below(4) if allow_empty else 1 + rng.below(3)
    return A([rand_tree(rng, depth - 1) for _ in range(n)])


def rand_dict(rng, depth, minkeys=1):
    n = minkeys + rng.below(4 - minkeys + 1)
    keys = rng.shuffle(KEYS)[:n]
    return M([(key, rand_tree(rng, depth - 1)) for key in keys])


def mutate_tree(rng, t, depth):
    """A second tree that conflicts with t at shared positions: same keys with changed shape,
    lists of other lengths, nil / empty containers, extra and missing keys."""
    k = rng.below(10)
    if k < 2 or depth <= 0:
        return rand_tree(rng, depth)
    if isinstance(t, dict) and "m" in t:
        out = []
        for key, v in t["m"]:
            r = rng.below(10)
            if r < 2:
                continue
            if r < 7:
                out.append((key, mutate_tree(rng, v, depth - 1)))
            else:
                out.append((key, rand_tree(rng, depth - 1)))
        for key in KEYS:
            if all(key != k2 for k2, _ in out) and rng.chance(0.2):
                out.append((key, rand_tree(rng, depth - 1)))
        return M(rng.shuffle(out))
    if isinstance(t, dict) and "a" in t:
        xs = [mutate_tree(rng, v, depth - 1) if rng.chance(0.7) else rand_tree(rng, depth - 1) for v in t["a"]]
        r = rng.below(4)
        if r == 0 and xs:
            xs = xs[:rng.below(len(xs))]
        elif r == 1:
            xs = xs + [rand_tree(rng, depth - 1) for _ in range(1 + rng.below(2))]
        return A(xs)
    return rand_tree(rng, depth)


def add_reps(rng, t):
    """Decorate a tree with random Go representations (ignored by the model)."""
    if not isinstance(t, dict):
        return t
    t = dict(t)
    if "m" in t:
        t["m"] = [[k, add_reps(rng, v)] for k, v in t["m"]]
        r = rng.below(10)
        if r < 2: t["rep"] = "mii"
        elif r < 4: t["rep"] = "typed"
        elif r < 5 and not t["m"]: t["rep"] = "nil"
        if rng.chance(0.15): t["ptr"] = True
        elif rng.chance(0.08): t["wrap"] = rng.pick(["pi", "pip", "pipi", "ppi"])
    elif "a" in t:
        t["a"] = [add_reps(rng, v) for v in t["a"]]
        r = rng.below(10)
        if r < 2: t["rep"] = "array"
        elif r < 4: t["rep"] = "typed"
        elif r < 5 and not t["a"]: t["rep"] = "nil"
        if rng.chance(0.1): t["ptr"] = True
        elif rng.chance(0.08): t["wrap"] = rng.pick(["pi", "pip", "pipi"])
    elif "s" in t or "b" in t:
        if rng.chance(0.06): t["wrap"] = rng.pick(["pi", "pipi"])
    elif "i" in t:
        t["rep"] = rng.pick(["int", "int8", "int16", "int32", "int64"])
    elif "u" in t:
        t["rep"] = rng.pick(["uint", "uint8", "uint16", "uint32", "uint64", "uint64"])
    return t


def as_struct(rng, t):
    """Render a dict tree as a struct source (top level only): {"st": [[GoName, tag, v]...]}."""
    fields = []
    for k, v in t["m"]:
        if rng.chance(0.5):
            fields.append([k.upper() + "x", k, v])      # renamed by tag
        else:
            fields.append([k.upper(), "", v])          # lower-cased field name
    return {"st": fields}


def shape_of(t):
    if t is None: return "n"
    if "m" in t: return "{}" if not t["m"] else "{"
    if "a" in t: return "[]" if not t["a"] else "["
    return "p"


def conflict_sig(a, b, depth=0):
    """multiset of per-key conflict kinds between two trees"""
    out = set()
    if isinstance(a, dict) and isinstance(b, dict) and "m" in a and "m" in b:
        da, db = dict((k, v) for k, v in a["m"]), dict((k, v) for k, v in b["m"])
        for k in da:
            if k in db:
                out.add(shape_of(da[k]) + ">" + shape_of(db[k]))
                if depth < 2:
                    out |= conflict_sig(da[k], db[k], depth + 1)
    elif isinstance(a, dict) and isinstance(b, dict) and "a" in a and "a" in b:
        la, lb = len(a["a"]), len(b["a"])
        out.add("len" + ("<" if la < lb else ">" if la > lb else "="))
        for x, y in zip(a["a"], b["a"]):
            out.add(shape_of(x) + ">" + shape_of(y))
    return out


def fix_eval_candidate(cand, base):
    """shrinking keeps 'eval' cases with expectations well formed: the expectations were computed for exactly this
    configuration, so only whole (read, expectation) pairs may go"""
    if cand.get("k") == "eval" and "expect" in base:
        for k in ("from", "merges", "opts", "ropts"):
            if cand.get(k) != base.get(k):
                return None
        br, be = base.get("reads") or [], base.get("expect") or []
        cr, ce = cand.get("reads"), cand.get("expect")
        if not isinstance(cr, list) or not isinstance(ce, list) or len(br) != len(be):
            return None
        if len(cr) == len(br) - 1 and ce == be:
            i = next((j for j in range(len(cr)) if cr[j] != br[j]), len(cr))
            if cr != br[:i] + br[i + 1:]:
                return None
            cand["expect"] = be[:i] + be[i + 1:]
        elif cr != br or ce != be:
            return None
        if not cand["reads"]:
            return None
    return cand
