"""Shared generator helpers (all randomness from common.Rng)."""

def I(n): return {"i": str(n)}
def U(n): return {"u": str(n)}
def S(s): return {"s": s}
def B(b): return {"b": bool(b)}
def F(bits): return {"f": "%016x" % bits}
def A(xs, **kw): return dict({"a": list(xs)}, **kw)
def M(kvs, **kw): return dict({"m": [[k, v] for k, v in kvs]}, **kw)

def opt(name, v=None):
    o = {"o": name}
    if v is not None:
        o["v"] = v
    return o

INT_LITERALS = ["0", "1", "7", "08", "007", "0x10", "0X1f", "0b101", "0o17", "017", "1_000", "0x_1", "1__0", "_1", "1_",
                "+5", "-1", "-0", "+0", "-0x1", "--1", "+-1", "1024", "1025", "1023", "4096", "65536", "0x400", "0x401",
                "9223372036854775807", "9223372036854775808", "-9223372036854775808", "-9223372036854775809",
                "18446744073709551615", "18446744073709551616", "1e3", "1.0", " 1", "1 ", "0x", "0b", "0o", "0b2", "09", "0_7",
                "１", "１２", "٣", "", "a", "1a", "0xg", "00", "0_0", "1_0_0", "0X_F", "0B1", "0O7", "0x1_", "١"]
