"""The check engine: one run of one property's check.

  extractor -> lake build (model, driver, Props.<id>) -> axiom/sorry audit ->
  go build -tags verif (worker, against the repository's working tree) ->
  corpus + known-finding witnesses + generated cases -> real code and Lean model on
  the same cases -> compare + oracle -> classify -> shrink -> replay, evidence, exit code.
"""
import copy, glob, importlib, json, os, re, sys, time, traceback

from . import common as C
from .common import log

BAD_TOKENS = re.compile(r"\b(sorry|admit|native_decide|bv_decide|implemented_by)\b|^\s*axiom\s|unsafe\s|maxHeartbeats\s+0")


def strip_comments(src):
    src = re.sub(r"/-.*?-/", "", src, flags=re.S)
    return "\n".join(l.split("--")[0] for l in src.split("\n"))


def theorems_in(path):
    src = strip_comments(open(path).read())
    ns = []
    names = []
    for l in src.split("\n"):
        m = re.match(r"\s*namespace\s+(\S+)", l)
        if m:
            ns.append(m.group(1))
            continue
        m = re.match(r"\s*end\s+(\S+)", l)
        if m and ns and ns[-1] == m.group(1):
            ns.pop()
            continue
        m = re.match(r"\s*(?:protected\s+|private\s+)?theorem\s+(\S+)", l)
        if m:
            names.append(".".join(ns + [m.group(1)]))
    return names


def audit(prop_module):
    """Build Props.<id>, list its theorems, print their axioms. Returns dict."""
    res = {"module": prop_module, "built": False, "theorems": [], "bad_axioms": [], "bad_tokens": [], "log": ""}
    rc, out = C.lake_build([prop_module])
    res["log"] = out[-4000:]
    if rc != 0:
        return res
    res["built"] = True
    path = os.path.join(C.LEAN, prop_module.replace(".", "/") + ".lean")
    names = theorems_in(path)
    # textual audit over every non-generated Lean source of the library
    for f in glob.glob(os.path.join(C.LEAN, "Ucfg", "**", "*.lean"), recursive=True):
        body = strip_comments(open(f).read())
        for i, l in enumerate(body.split("\n")):
            if BAD_TOKENS.search(l):
                res["bad_tokens"].append("%s:%d: %s" % (os.path.relpath(f, C.LEAN), i + 1, l.strip()[:80]))
    src = "import %s\n" % prop_module + "".join("#print axioms %s\n" % n for n in names)
    tmp = os.path.join(C.LEAN, ".lake", "audit_%s.lean" % prop_module.split(".")[-1])
    open(tmp, "w").write(src)
    rc, so, se = C.run(["lake", "env", "lean", tmp], cwd=C.LEAN)
    txt = so + se
    for n in names:
        m = re.search(r"'%s' depends on axioms: \[([^\]]*)\]" % re.escape(n), txt)
        if m:
            ax = [a.strip() for a in m.group(1).replace("\n", " ").split(",") if a.strip()]
        elif re.search(r"'%s' does not depend on any axioms" % re.escape(n), txt):
            ax = []
        else:
            ax = ["<not-printed>"]
        res["theorems"].append({"name": n, "axioms": ax})
        bad = [a for a in ax if a not in C.ALLOWED_AXIOMS]
        if bad:
            res["bad_axioms"].append({"name": n, "axioms": bad})
    return res


def load_known_findings(pid):
    out = []
    p = os.path.join(C.VERIF, "known_findings.jsonl")
    if os.path.exists(p):
        for l in open(p):
            l = l.strip()
            if l and not l.startswith("#"):
                e = json.loads(l)
                if e.get("property") == pid:
                    out.append(e)
    return out


def load_corpus(pid):
    cases = []
    for f in sorted(glob.glob(os.path.join(C.VERIF, "corpus", pid, "*.json"))):
        try:
            for l in open(f):
                if l.strip():
                    c = json.loads(l)
                    c["_src"] = "corpus:" + os.path.basename(f)
                    cases.append(c)
        except Exception as e:
            log("bad corpus file", f, e)
    return cases


# ---------------------------------------------------------------- one evaluation pass

def evaluate(mod, cases, std):
    """Run impl + model on cases. Returns list of records."""
    for i, c in enumerate(cases):
        c["i"] = i
    clean = [{k: v for k, v in c.items() if not k.startswith("_")} for c in cases]
    impl = C.run_worker(clean)
    std.seed_from_cases(clean)
    lines = [dict(c, impl=r) for c, r in zip(clean, impl)]
    drv = C.run_driver(lines, std)
    recs = []
    for c, r, d in zip(cases, impl, drv):
        rec = {"case": c, "impl": r, "model": d.get("model"), "drv_error": d.get("drvError"),
               "oracle": d.get("oracle"), "kf": d.get("kf"), "msig": d.get("sig")}
        recs.append(rec)
    return recs


def classify(mod, rec):
    """-> (status, why). status in pass, skip, violation, mismatch, harness"""
    impl, model = rec["impl"], rec["model"]
    if rec["drv_error"]:
        return "harness", "driver: " + rec["drv_error"]
    if isinstance(impl, dict) and "harness" in impl:
        return "harness", "worker: " + str(impl["harness"])
    if C.unsupported(model):
        return "skip", "outside the model"
    # a fatal crash / panic of the real code is a violation of every property's totality premise
    oracle = rec["oracle"]
    pyor = getattr(mod, "oracle", None)
    if pyor is not None and (oracle is None or oracle.get("ok", True)):
        r = pyor(rec["case"], impl, model)
        if r is not None:
            oracle = {"ok": r[0], "why": r[1]}
    nr = getattr(mod, "normalize_result", None)
    npair = getattr(mod, "normalize_pair", None)
    if npair is not None:
        a, b = npair(rec["case"], impl, model)
        eq = C.same(a, b)
    elif nr is not None:
        eq = C.same(nr(rec["case"], model), nr(rec["case"], impl))
    else:
        eq = C.same(model, impl)
    if oracle is not None and not oracle.get("ok", True):
        return "violation", oracle.get("why", "oracle failed")
    if eq:
        return "pass", ""
    if getattr(mod, "MODEL_IS_SPEC", False):
        # the property is itself "behaves like this model" (e.g. C12: like a plain tree under the same
        # operations): a disagreement on a concrete input is a failing input for the property
        return "violation", "the implementation's observable behaviour differs from the tree model on this history"
    if oracle is None:
        # no independent oracle for this kind: a disagreement with the proved model is
        # a correspondence break on this input
        return "mismatch", "model and implementation disagree"
    return "mismatch", "model and implementation disagree (property predicate still holds on the implementation's output)"


# ---------------------------------------------------------------- shrinking

def why_class(why):
    """the kind of failure, without the names and numbers of the instance: a shrunk case has to fail the same way"""
    import re
    head = (why or "").split(":")[0]
    return re.sub(r"'[^']*'|\"[^\"]*\"|[0-9]+", "", head)[:80]


def shrink_candidates(v):
    """Yield smaller variants of a JSON value (structure-preserving where possible)."""
    if isinstance(v, list):
        for i in range(len(v)):
            yield v[:i] + v[i + 1:]
        for i, x in enumerate(v):
            for y in shrink_candidates(x):
                yield v[:i] + [y] + v[i + 1:]
    elif isinstance(v, dict):
        for k in list(v.keys()):
            if k in ("k", "p", "i"):
                continue
            for y in shrink_candidates(v[k]):
                d = dict(v)
                d[k] = y
                yield d
    elif isinstance(v, str) and len(v) > 0 and not re.fullmatch(r"[0-9a-f]{16}|-?\d+", v):
        yield v[:len(v) // 2]
        yield v[1:]
        yield v[:-1]


def shrink(mod, rec, std, status, budget=150):
    best = rec
    want_class = why_class(classify(mod, rec)[1])
    tried = 0
    improved = True
    while improved and tried < budget:
        improved = False
        base = {k: v for k, v in best["case"].items() if not k.startswith("_")}
        for cand in shrink_candidates(base):
            if tried >= budget:
                break
            tried += 1
            fixer = getattr(mod, "fix_candidate", None)
            if fixer is not None:
                try:
                    cand = fixer(copy.deepcopy(cand), base)
                except Exception:
                    cand = None
                if cand is None:
                    continue
            try:
                r = evaluate(mod, [copy.deepcopy(cand)], std)[0]
            except Exception:
                continue
            st, why = classify(mod, r)
            if st == status and why_class(why) == want_class and len(json.dumps(cand)) < len(json.dumps(base)):
                r["case"]["_shrunk_from"] = best["case"].get("_shrunk_from") or json.dumps(base)
                best = r
                improved = True
                break
    return best


# ---------------------------------------------------------------- main

def write_replay(pid, kind, rec=None, theorem=None, correspondence=None, extra=None):
    d = os.path.join(C.VERIF, "replays")
    os.makedirs(d, exist_ok=True)
    path = os.path.join(d, "%s-%s-%d.json" % (pid, kind, int(time.time() * 1000) % 10**9))
    body = {"property": pid, "kind": kind, "theorem": theorem, "correspondence": correspondence,
            "how_to_replay": "bin/check %s --replay %s" % (pid, path)}
    if rec is not None:
        case = {k: v for k, v in rec["case"].items() if not k.startswith("_")}
        body.update({"case": case, "impl": rec["impl"], "model": rec["model"], "oracle": rec.get("oracle"),
                     "shrunk_from": rec["case"].get("_shrunk_from"), "why": rec.get("why")})
    if extra:
        body.update(extra)
    with open(path, "w") as f:
        json.dump(body, f, indent=1)
    return path


def main(argv):
    pid = argv[1]
    tier = os.environ.get("VERIF_TIER", "quick")
    replay = None
    args = argv[2:]
    while args:
        a = args.pop(0)
        if a in ("quick", "thorough"):
            tier = a
        elif a == "--replay":
            replay = args.pop(0)
    seed = int(os.environ.get("VERIF_SEED", "1"))
    t0 = time.time()
    mod = importlib.import_module("vlib.props." + pid.lower())
    violations = []      # (replay_path, suffix)
    notes = []
    ev = {"property_id": pid, "tier": tier, "seed": seed, "level": "proof", "coverage": {}, "assumptions": [],
          "wall_s": 0.0, "violations": 0}

    # ---- 1. tie (a): regenerate facts, rebuild, audit
    with C.Lock():
        try:
            facts = C.regenerate_extracted()
        except Exception as e:
            facts = {"stale": ["<extractor failed: %s>" % str(e)[:300]], "facts": 0}
            notes.append("extractor failed; correspondence only")
        rc, out = C.lake_build(["ucfgdrv"])
        drv_ok = rc == 0
        aud = audit(mod.LEAN_MODULE)
        okw, werr = C.build_worker(race=bool(getattr(mod, "NEEDS_RACE", False)))
    if not okw:
        # the repository does not build with the hook tag: nothing can be checked
        p = write_replay(pid, "build-broken", extra={"log": werr[-3000:]})
        print("VIOLATION property=%s replay=%s no-failing-input-found" % (pid, p))
        finish(ev, t0, 1, mod, aud, facts, [], [], notes)
        return 1
    proof_broken = None
    if not drv_ok:
        proof_broken = "model/driver does not build against the regenerated facts"
    elif not aud["built"]:
        proof_broken = "proof module %s no longer checks" % mod.LEAN_MODULE
    elif aud["bad_axioms"] or aud["bad_tokens"]:
        proof_broken = "audit: %s" % json.dumps({"axioms": aud["bad_axioms"], "tokens": aud["bad_tokens"]})[:500]
    site_problem = None
    if hasattr(mod, "check_facts"):
        site_problem = mod.check_facts(facts)

    recs = []
    kf_lines = []
    if drv_ok:
        std = C.StdOracle()
        # ---- 2. cases: replay | corpus, known findings, generated
        if replay:
            rb = json.load(open(replay))
            cases = [rb["case"]] if "case" in rb else []
        else:
            cases = load_corpus(pid)
            rng = C.Rng(seed).fork(pid)
            gen = list(mod.gen(rng, tier))
            for g in gen:
                g.setdefault("p", pid)
            cases += gen
        kfs = load_known_findings(pid)
        kf_cases = []
        for e in kfs:
            if e.get("status") == "open" and e.get("witness"):
                w = copy.deepcopy(e["witness"])
                w["_kf"] = e["id"]
                kf_cases.append(w)
        B = 4000
        allc = kf_cases + cases
        for off in range(0, len(allc), B):
            recs += evaluate(mod, allc[off:off + B], std)
        # ---- 3. classify
        open_kf = {e["id"]: e for e in kfs if e.get("status") == "open"}
        seen_kf = set()
        first_mismatch = None
        for r in recs:
            st, why = classify(mod, r)
            r["status"], r["why"] = st, why
            kfid = r["case"].get("_kf") or r.get("kf")
            kc = getattr(mod, "known_class", None)
            if kfid is None and kc is not None and st == "violation":
                # the module recognises the failure as an instance of a recorded open finding's class
                kfid = kc(r["case"], r["impl"], why)
            if st in ("violation", "mismatch") and kfid in open_kf and C.same(r["model"], r["impl"]):
                # the code misbehaves exactly as the recorded, modelled defect
                r["status"] = "known"
                seen_kf.add(kfid)
                continue
            if st == "mismatch" and kfid in open_kf and (r.get("oracle") or {}).get("ok"):
                # inside a known-finding class the conforming behaviour is accepted as well
                # (the code may have been repaired; the model still mirrors the defect)
                r["status"] = "pass"
                continue
            if st == "violation" and kfid in open_kf and r["case"].get("_kf"):
                r["status"] = "known"
                seen_kf.add(kfid)
                continue
        for kid in sorted(seen_kf):
            kf_lines.append("KNOWN-FINDING: property=%s %s: %s" % (pid, kid, open_kf[kid].get("what", "")))
        viol = [r for r in recs if r["status"] == "violation"]
        mism = [r for r in recs if r["status"] == "mismatch"]
        harn = [r for r in recs if r["status"] == "harness"]
        if harn:
            notes.append("%d harness errors, first: %s" % (len(harn), harn[0]["why"]))
        if viol:
            r = shrink(mod, viol[0], std, "violation") if not replay else viol[0]
            r.setdefault("why", viol[0]["why"])
            st, why = classify(mod, r)
            r["why"] = why or viol[0]["why"]
            violations.append((write_replay(pid, "counterexample", r), ""))
        elif mism:
            r = shrink(mod, mism[0], std, "mismatch") if not replay else mism[0]
            st, why = classify(mod, r)
            r["why"] = why
            violations.append((write_replay(pid, "correspondence-broken", r,
                                            correspondence=getattr(mod, "CORRESPONDENCE", mod.LEAN_MODULE)),
                               " no-failing-input-found"))
        if harn and not viol and not mism and len(harn) > len(recs) // 2:
            violations.append((write_replay(pid, "harness-broken", harn[0]), " no-failing-input-found"))
    if not violations and (proof_broken or site_problem):
        violations.append((write_replay(pid, "proof-broken", theorem=mod.LEAN_MODULE,
                                        extra={"reason": proof_broken or site_problem, "log": aud["log"][-3000:],
                                               "searched_cases": len(recs)}),
                           " no-failing-input-found"))
    for l in kf_lines:
        print(l)
    for p, suffix in violations:
        print("VIOLATION property=%s replay=%s%s" % (pid, p, suffix))
    code = 1 if violations else 0
    finish(ev, t0, len(violations), mod, aud, facts, recs, kf_lines, notes)
    return code


def outcome_class(impl):
    """a coarse class of what the real code did (input distribution for the evidence)"""
    if not isinstance(impl, dict):
        return "list" if isinstance(impl, list) else "none"
    if "panic" in impl or "fatal" in impl or "race" in impl:
        return "crash"
    if "err" in impl and isinstance(impl["err"], dict):
        return "err:" + str(impl["err"].get("reason"))
    if "ok" in impl:
        return "ok"
    for k in ("res", "first", "real", "twin"):
        if isinstance(impl.get(k), dict):
            return k + ">" + outcome_class(impl[k])
    if "stage" in impl:
        return "stage:" + str(impl["stage"])
    if "steps" in impl:
        errs = sum(1 for st in impl["steps"] if isinstance(st, dict) and st.get("err"))
        return "history:%d-steps:%s" % (min(len(impl["steps"]) // 3 * 3, 12), "some-fail" if errs else "all-ok")
    if "reads" in impl and isinstance(impl["reads"], list):
        errs = sum(1 for x in impl["reads"] if isinstance(x, dict) and "err" in x)
        return "reads:" + ("all-ok" if errs == 0 else ("all-err" if errs == len(impl["reads"]) else "mixed"))
    return "other:" + ",".join(sorted(impl.keys()))[:30]


def finish(ev, t0, nviol, mod, aud, facts, recs, kf_lines, notes):
    tier = ev["tier"]
    sigs = set()
    counted = [r for r in recs if r.get("status") in ("pass", "known", "violation", "mismatch")]
    for r in counted:
        r["case"].setdefault("_tag", r["case"].get("_src", "corpus"))
        try:
            if mod.nontrivial(r["case"], r["impl"]):
                sigs.add(mod.sig(r["case"], r["impl"]))
        except Exception:
            pass
    samples = []
    for r in counted[:: max(1, len(counted) // 6)][:6]:
        samples.append({"case": {k: v for k, v in r["case"].items() if not k.startswith("_")}, "impl": r["impl"]})
    thms = aud.get("theorems", [])
    discharged = [t for t in thms if all(a in C.ALLOWED_AXIOMS for a in t["axioms"])] if aud.get("built") else []
    dist = {}
    stream = {}
    outcomes = {}
    for r in recs:
        full = r["case"].get("_tag", "untagged")
        t = full.split("/")[0]
        dist[t] = dist.get(t, 0) + 1
        stream[full] = stream.get(full, 0) + 1
        oc = outcome_class(r.get("impl"))
        outcomes[oc] = outcomes.get(oc, 0) + 1
    ev["coverage"] = {
        "obligations": max(1, len(thms)),
        "discharged": len(discharged) if aud.get("built") else 0,
        "checker_cmd": "cd /verif/lean && lake build %s && lake env lean .lake/audit_%s.lean   # #print axioms of every theorem"
                       % (mod.LEAN_MODULE, mod.LEAN_MODULE.split(".")[-1]),
        "trusted_base": mod.TRUSTED_BASE,
        "theorems": thms,
        "extracted": {"stale": (facts.get("stale") or []), "facts": facts.get("facts", 0)},
        "evaluations": max(1, len(recs)),
        "distinct_nontrivial": len(sigs),
        "rule": mod.RULE,
        "samples": samples or [{"note": "no cases were run"}],
        "exhaustive": bool(getattr(mod, "EXHAUSTIVE", {}).get(tier, False)),
        "status_counts": {s: sum(1 for r in recs if r.get("status") == s)
                          for s in ("pass", "skip", "known", "violation", "mismatch", "harness")},
        "generator": {"by_tag": dist, "by_stream": dict(sorted(stream.items(), key=lambda kv: -kv[1])[:40]),
                      "implementation_outcomes": dict(sorted(outcomes.items(), key=lambda kv: -kv[1])[:25])},
        "known_findings_replayed": kf_lines,
        "notes": notes,
    }
    # histories: how much of what the implementation did was compared step by step with the model (the model answers
    # "unmodelled" where its glue does not describe a situation; the comparison stops there)
    hist = []
    for r in recs:
        i, m = r.get("impl"), r.get("model")
        if isinstance(i, dict) and isinstance(i.get("steps"), list) and isinstance(m, dict) and isinstance(m.get("steps"), list):
            cut = next((k for k, st in enumerate(m["steps"]) if isinstance(st, dict) and "unmodelled" in st), len(m["steps"]))
            hist.append((len(i["steps"]), min(cut, len(i["steps"]))))
    if hist:
        ev["coverage"]["history_steps"] = {"implementation": sum(a for a, _ in hist), "compared_with_model": sum(b for _, b in hist),
                                           "histories": len(hist), "histories_modelled_to_the_end": sum(1 for a, b in hist if a == b)}
    ev["assumptions"] = mod.ASSUMPTIONS
    ev["violations"] = nviol
    ev["wall_s"] = round(time.time() - t0, 2)
    os.makedirs(os.path.join(C.VERIF, "evidence"), exist_ok=True)
    with open(os.path.join(C.VERIF, "evidence", ev["property_id"] + ".json"), "w") as f:
        json.dump(ev, f, indent=1)
