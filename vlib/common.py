"""Shared machinery of the /verif checks: build, run the real code and the Lean
model on the same cases, compare, classify, shrink, write evidence."""
import fcntl, hashlib, json, os, re, shutil, subprocess, sys, tempfile, time

VERIF = os.path.dirname(os.path.dirname(os.path.abspath(__file__)))
REPO = os.environ.get("VERIF_REPO", "/repo")
LEAN = os.path.join(VERIF, "lean")
HARNESS = os.path.join(VERIF, "harness")
EXTRACT = os.path.join(VERIF, "extract")
DRV = os.path.join(LEAN, ".lake", "build", "bin", "ucfgdrv")
WORKER = os.path.join(HARNESS, "bin", "vworker")
GOENV = dict(os.environ, GOFLAGS="-mod=mod", GOPROXY="off", GOSUMDB="off", GOTOOLCHAIN="local",
             CGO_ENABLED="0")

ALLOWED_AXIOMS = {"propext", "Classical.choice", "Quot.sound"}


def log(*a):
    print(*a, file=sys.stderr, flush=True)


class Lock:
    def __init__(self, name=".build.lock"):
        self.path = os.path.join(VERIF, name)

    def __enter__(self):
        self.f = open(self.path, "w")
        fcntl.flock(self.f, fcntl.LOCK_EX)
        return self

    def __exit__(self, *a):
        fcntl.flock(self.f, fcntl.LOCK_UN)
        self.f.close()


def run(cmd, cwd=None, env=None, timeout=3600, input=None):
    p = subprocess.run(cmd, cwd=cwd, env=env, timeout=timeout, input=input,
                       stdout=subprocess.PIPE, stderr=subprocess.PIPE, text=True)
    return p.returncode, p.stdout, p.stderr


# ---------------------------------------------------------------- builds

def write_if_changed(path, content):
    try:
        if open(path).read() == content:
            return False
    except FileNotFoundError:
        pass
    with open(path, "w") as f:
        f.write(content)
    return True


def build_extractor():
    out = os.path.join(EXTRACT, "bin", "vextract")
    rc, so, se = run(["go", "build", "-o", out, "."], cwd=EXTRACT, env=GOENV)
    if rc != 0:
        raise RuntimeError("extractor build failed:\n" + se)
    return out


def regenerate_extracted():
    """Run the go/ast extractor over REPO; (re)write Ucfg/Extracted.lean and extract/out/*.json.
    Returns the facts dict (including 'stale' list)."""
    exe = build_extractor()
    os.makedirs(os.path.join(EXTRACT, "out"), exist_ok=True)
    rc, so, se = run([exe, "-repo", REPO, "-reviewed", os.path.join(EXTRACT, "reviewed.json")],
                     cwd=EXTRACT, env=GOENV)
    if rc != 0:
        raise RuntimeError("extractor failed:\n" + se + so)
    facts = json.loads(so)
    write_if_changed(os.path.join(LEAN, "Ucfg", "Extracted.lean"), facts["lean"])
    with open(os.path.join(EXTRACT, "out", "facts.json"), "w") as f:
        json.dump({k: v for k, v in facts.items() if k != "lean"}, f, indent=1)
    return facts


def lake_build(targets):
    rc, so, se = run(["lake", "build"] + targets, cwd=LEAN, timeout=3600)
    return rc, so + se


WORKER_RACE = os.path.join(HARNESS, "bin", "vworker-race")


def build_worker(race=False):
    gomod = open(os.path.join(HARNESS, "go.mod.tmpl")).read().replace("@REPO@", REPO)
    write_if_changed(os.path.join(HARNESS, "go.mod"), gomod)
    shutil.copyfile(os.path.join(REPO, "go.sum"), os.path.join(HARNESS, "go.sum"))
    rc, so, se = run(["go", "build", "-tags", "verif", "-o", WORKER, "./vworker"], cwd=HARNESS, env=GOENV)
    if rc != 0:
        return False, se + so
    if race:
        # the same worker under the race detector (kind "concurrent")
        rc, so, se = run(["go", "build", "-race", "-tags", "verif", "-o", WORKER_RACE, "./vworker"], cwd=HARNESS, env=dict(GOENV, CGO_ENABLED="1"))
        if rc != 0:
            return False, se + so
    return True, ""


def run_race_worker(cases):
    """cases of kind "concurrent" on the race-detector build, one process per case: a reported race ends the process
    (GORACE halt_on_error) and becomes the result of that case"""
    out = []
    env = dict(GOENV, GOTRACEBACK="none", GORACE="halt_on_error=1 exitcode=66")
    for c in cases:
        p = None
        # a case takes a second or two; a timeout is believed only when it repeats with a longer limit (a loaded machine
        # is not a hang of the library)
        for limit in (120, 300, 600):
            try:
                p = subprocess.run([WORKER_RACE, "exec"], input=json.dumps(c) + "\n", env=env, stdout=subprocess.PIPE, stderr=subprocess.PIPE,
                                   text=True, timeout=limit)
                break
            except subprocess.TimeoutExpired:
                p = None
        if p is None:
            out.append({"fatal": "timeout under the race detector (three attempts: 120 s, 300 s, 600 s)"})
            continue
        if "WARNING: DATA RACE" in (p.stderr or ""):
            rep = [l.strip() for l in p.stderr.split("\n") if l.strip()]
            frames = [l for l in rep if "go-ucfg" in l or "/repo/" in l][:6]
            out.append({"race": " | ".join(frames)[:600] or rep[1][:200]})
            continue
        res = None
        for l in (p.stdout or "").split("\n"):
            if l.strip():
                try:
                    res = json.loads(l).get("res")
                except Exception:
                    pass
        out.append(res if res is not None else {"fatal": "exit %s: %s" % (p.returncode, (p.stderr or "").strip().split("\n")[0][:160])})
    return out


# ---------------------------------------------------------------- running cases

def run_worker(cases, timeout_per_case=20):
    """Execute cases on the real code. Survives crashes of the worker process
    (fatal errors, stack overflow, OOM): the case that killed it gets a FATAL result."""
    if any(c.get("k") == "concurrent" for c in cases):
        idx = [i for i, c in enumerate(cases) if c.get("k") == "concurrent"]
        rest = [c for c in cases if c.get("k") != "concurrent"]
        rr = run_race_worker([cases[i] for i in idx])
        other = run_worker(rest, timeout_per_case) if rest else []
        merged, it = [], iter(other)
        rmap = dict(zip(idx, rr))
        for i in range(len(cases)):
            merged.append(rmap[i] if i in rmap else next(it))
        return merged
    results = [None] * len(cases)
    pos = 0
    env = dict(GOENV, GOMEMLIMIT="1GiB", GOTRACEBACK="none")
    while pos < len(cases):
        chunk = cases[pos:]
        data = "".join(json.dumps(c) + "\n" for c in chunk)
        try:
            p = subprocess.run(["bash", "-c", "ulimit -v 6000000; exec %s exec" % WORKER], input=data, env=env,
                               stdout=subprocess.PIPE, stderr=subprocess.PIPE, text=True,
                               timeout=60 + timeout_per_case * len(chunk) // 50)
            out, rc, err = p.stdout, p.returncode, p.stderr
        except subprocess.TimeoutExpired as e:
            out = e.stdout.decode() if isinstance(e.stdout, bytes) else (e.stdout or "")
            rc, err = -9, "timeout"
        lines = [l for l in out.split("\n") if l.strip()]
        n = 0
        for l in lines:
            try:
                r = json.loads(l)
            except Exception:
                break
            results[pos + n] = r.get("res")
            n += 1
            if n >= len(chunk):
                break
        pos += n
        if n > 0 and isinstance(results[pos - 1], dict) and "fatal" in results[pos - 1]:
            continue        # the worker reported the fatal case itself and exited
        if pos < len(cases) and (n < len(chunk)):
            # the worker died (or hung) on cases[pos]
            why = "timeout" if err == "timeout" else ("exit %s: %s" % (rc, (err or "").strip().split("\n")[0][:160]))
            results[pos] = {"fatal": why}
            pos += 1
    # a reported hang is believed only when it repeats alone, in a fresh process, with a limit of 20 s per call (the first
    # three of a run are re-examined: when they are confirmed, so are the others)
    confirmed = 0
    for i, r in enumerate(results):
        if isinstance(r, dict) and isinstance(r.get("fatal"), str) and r["fatal"].startswith("timeout"):
            if confirmed >= 3:
                break
            try:
                p = subprocess.run(["bash", "-c", "ulimit -v 6000000; exec %s exec" % WORKER], input=json.dumps(cases[i]) + "\n",
                                   env=dict(env, VWORKER_CASE_TIMEOUT="20"), stdout=subprocess.PIPE, stderr=subprocess.PIPE, text=True, timeout=90)
                lines = [l for l in p.stdout.split("\n") if l.strip()]
                if lines:
                    results[i] = json.loads(lines[0]).get("res")
                    if isinstance(results[i], dict) and "fatal" in results[i]:
                        results[i]["fatal"] = str(results[i]["fatal"]) + " (repeated alone with a 20 s limit)"
                        confirmed += 1
            except Exception:
                pass
    return results


class StdOracle:
    """Answers to standard-library queries (strconv.ParseFloat, fmt %v, time.ParseDuration, ...),
    computed by the real stdlib through `vworker std`, cached for the run."""

    def __init__(self):
        self.tables = {"pf": {}, "ff": {}, "pd": {}, "ds": {}, "re": {}}

    def query(self, qs):
        qs = [(fn, arg) for fn, arg in qs if arg not in self.tables[fn]]
        if not qs:
            return 0
        data = "".join(json.dumps({"fn": fn, "arg": arg}) + "\n" for fn, arg in qs)
        rc, so, se = run([WORKER, "std"], input=data, env=GOENV)
        for l in so.split("\n"):
            if l.strip():
                r = json.loads(l)
                self.tables[r["fn"]][r["arg"]] = r["val"]
        return len(qs)

    def seed_from_cases(self, cases):
        qs = set()

        def walk(v):
            if isinstance(v, dict):
                for k, x in v.items():
                    if k == "f" and isinstance(x, str):
                        qs.add(("ff", x))
                    elif k == "durns" and isinstance(x, str):
                        qs.add(("ds", x))
                    else:
                        walk(x)
            elif isinstance(v, list):
                for x in v:
                    walk(x)
            elif isinstance(v, str) and len(v) <= 64:
                qs.add(("pf", v))
                qs.add(("pd", v))
        for c in cases:
            walk(c)
        self.query(sorted(qs))

    def write(self, path):
        with open(path, "w") as f:
            json.dump(self.tables, f)


def run_driver(lines, std, max_passes=25):
    """Run the Lean driver on the given input lines (dicts). Resolves stdlib table
    misses by querying the oracle and re-running."""
    with tempfile.TemporaryDirectory(prefix="verif-drv-") as td:
        tpath = os.path.join(td, "std.json")
        data = "".join(json.dumps(c) + "\n" for c in lines)
        for _ in range(max_passes):
            std.write(tpath)
            p = subprocess.run([DRV, tpath], input=data, stdout=subprocess.PIPE, stderr=subprocess.PIPE, text=True,
                               timeout=3600)
            misses = set()
            for l in p.stderr.split("\n"):
                m = re.match(r"STDLIB-MISS (\w+) ([0-9a-f]*)$", l.strip())
                if m:
                    misses.add((m.group(1), bytes.fromhex(m.group(2)).decode("utf-8", "replace")))
            if p.returncode != 0 and not p.stdout.strip():
                raise RuntimeError("driver failed: " + p.stderr[:2000])
            if not misses or std.query(sorted(misses)) == 0:
                break
        out = []
        for l in p.stdout.split("\n"):
            if l.strip():
                out.append(json.loads(l))
        if len(out) != len(lines):
            raise RuntimeError("driver produced %d lines for %d cases; stderr: %s" % (len(out), len(lines), p.stderr[-2000:]))
        return out


# ---------------------------------------------------------------- comparison

def norm(v):
    """Normalise JSON values for comparison (numbers to int where integral)."""
    if isinstance(v, float) and v == int(v):
        return int(v)
    if isinstance(v, dict):
        return {k: norm(x) for k, x in v.items()}
    if isinstance(v, list):
        return [norm(x) for x in v]
    return v


def same(model, impl):
    """model 'covers' impl: error objects are compared on the fields the model predicts."""
    if isinstance(model, dict) and isinstance(impl, dict):
        if "err" in model and "err" in impl and isinstance(model["err"], dict) and isinstance(impl["err"], dict):
            me, ie = model["err"], impl["err"]
            for k in ("reason", "typed", "path", "class"):
                if k in me and me[k] != ie.get(k):
                    return False
            return True
        if set(model.keys()) != set(impl.keys()):
            return False
        return all(same(model[k], impl[k]) for k in model)
    if isinstance(model, list) and isinstance(impl, list):
        return len(model) == len(impl) and all(same(a, b) for a, b in zip(model, impl))
    return norm(model) == norm(impl)


def unsupported(model):
    s = json.dumps(model)
    return "MODEL-UNSUPPORTED" in s


# ---------------------------------------------------------------- PRNG

class Rng:
    """splitmix64; every random choice of a run derives from one seed."""

    def __init__(self, seed):
        self.s = seed & 0xFFFFFFFFFFFFFFFF

    def next(self):
        self.s = (self.s + 0x9E3779B97F4A7C15) & 0xFFFFFFFFFFFFFFFF
        z = self.s
        z = ((z ^ (z >> 30)) * 0xBF58476D1CE4E5B9) & 0xFFFFFFFFFFFFFFFF
        z = ((z ^ (z >> 27)) * 0x94D049BB133111EB) & 0xFFFFFFFFFFFFFFFF
        return z ^ (z >> 31)

    def below(self, n):
        return self.next() % n if n > 0 else 0

    def chance(self, p):
        return self.next() % 1000 < int(p * 1000)

    def pick(self, xs):
        return xs[self.below(len(xs))]

    def wpick(self, pairs):
        tot = sum(w for w, _ in pairs)
        r = self.below(tot)
        for w, x in pairs:
            if r < w:
                return x
            r -= w
        return pairs[-1][1]

    def shuffle(self, xs):
        xs = list(xs)
        for i in range(len(xs) - 1, 0, -1):
            j = self.below(i + 1)
            xs[i], xs[j] = xs[j], xs[i]
        return xs

    def fork(self, tag):
        h = hashlib.sha256(("%d/%s" % (self.s, tag)).encode()).digest()
        return Rng(int.from_bytes(h[:8], "big"))
