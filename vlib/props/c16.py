"""C16 — a per-field merge policy applies to exactly the named subtree."""
from ..gens import *

ID = "C16"
LEAN_MODULE = "Ucfg.Props.C16"
CORRESPONDENCE = "Merge.mergeF/fieldOptsOverride ~ (*Config).Merge(..., FieldXValues(path), global policy)"
RULE = ("pairs of dictionary trees (dictionaries nested 1-4 deep over a 5-key alphabet, lists and primitives at any key), a global "
        "policy, and 1-3 per-field options (4 kinds) whose dotted paths are present / absent in either tree and name dictionaries, "
        "lists or primitives, including paths that share their last component with settings at another depth; PathSep applied "
        "before or after the Field option. Oracle: Spec.C01.merge with the policy of the longest configured path that is a "
        "prefix of the setting's path (Spec.C01.polOf). Non-trivial: some configured path exists in both trees. Distinct by "
        "(global policy, field policies, path depth, where the path's last component also occurs, conflict kinds).")
TRUSTED_BASE = ["Lean 4 kernel", "extractor: configHandling enumeration order",
                "Model/Merge.lean (fieldOptsOverride, fhNode, includeWildcard) transcribes merge.go/opts.go (differential check)",
                "Spec.C01.merge/polOf: executable oracle", "correspondence harness"]
ASSUMPTIONS = ["configured paths traverse dictionaries only (a '*' segment / list index semantics is existing tested behaviour and is "
               "exercised only against the model, not the oracle)", "no '**' wildcard in generated options"]
POLICIES = [None, "Replace", "ReplaceArr", "Append", "Prepend"]
FIELD = ["FieldMerge", "FieldReplace", "FieldAppend", "FieldPrepend"]


def dict_tree(rng, depth):
    """dictionaries on the spine, anything at the leaves"""
    n = 1 + rng.below(4)
    keys = rng.shuffle(KEYS)[:n]
    out = []
    for k in keys:
        if depth > 1 and rng.chance(0.55):
            out.append((k, dict_tree(rng, depth - 1)))
        elif rng.chance(0.5):
            out.append((k, A([rand_leaf(rng) if rng.chance(0.8) else M([("a", U(1))]) for _ in range(rng.below(4))])))
        else:
            out.append((k, rand_leaf(rng)))
    return M(out)


def dict_paths(t, prefix=()):
    """all key paths through dictionaries"""
    out = []
    if isinstance(t, dict) and "m" in t:
        for k, v in t["m"]:
            p = prefix + (k,)
            out.append(p)
            out += dict_paths(v, p)
    return out


def mutate_dicts(rng, t, depth):
    if isinstance(t, dict) and "m" in t:
        out = []
        for k, v in t["m"]:
            r = rng.below(10)
            if r < 1:
                continue
            if r < 8:
                out.append((k, mutate_dicts(rng, v, depth - 1)))
            else:
                out.append((k, rand_leaf(rng)))
        for k in KEYS:
            if all(k != k2 for k2, _ in out) and rng.chance(0.15):
                out.append((k, dict_tree(rng, 1) if rng.chance(0.5) else rand_leaf(rng)))
        return M(out)
    if isinstance(t, dict) and "a" in t:
        return A([rand_leaf(rng) if rng.chance(0.8) else M([("a", U(2)), ("b", S("q"))]) for _ in range(rng.below(4))])
    return rand_leaf(rng) if rng.chance(0.7) else t


def gen(rng, tier):
    n = 1500 if tier == "quick" else 12000
    for _ in range(n):
        d = 2 + rng.below(3)
        a = dict_tree(rng, d)
        b = mutate_dicts(rng, a, d)
        pa, pb = dict_paths(a), dict_paths(b)
        both = [p for p in pa if p in pb]
        opts = []
        sep_first = rng.chance(0.85)
        if sep_first:
            opts.append(opt("PathSep", "."))
        g = rng.pick(POLICIES)
        if g:
            opts.append(opt(g))
        names = []
        kinds = []
        for _ in range(rng.wpick([(6, 1), (3, 2), (1, 3)])):
            r = rng.below(10)
            if r < 6 and both:
                p = rng.pick(both)
            elif r < 8 and (pa or pb):
                p = rng.pick(pa + pb)
            else:
                p = tuple(rng.pick(KEYS) for _ in range(1 + rng.below(3)))
            name = ".".join(p)
            if rng.chance(0.1):
                name += ".*"
            fk = rng.pick(FIELD)
            opts.append(opt(fk, [name]))
            names.append(p)
            kinds.append(fk)
        if not sep_first:
            opts.append(opt("PathSep", "."))
        # where else does the last component of a configured path occur?
        elsewhere = any(q[-1] == p[-1] and q != p for p in names for q in pa + pb)
        nt = any(p in both for p in names)
        yield {"k": "merge", "a": a, "optsA": [], "steps": [{"b": b, "opts": opts}],
               "_tag": "field/" + (g or "default"),
               "_sig": "%s|%s|%s|%s|%s|%s" % (g, "+".join(kinds), max(len(p) for p in names), elsewhere, sep_first,
                                              ",".join(sorted(conflict_sig(a, b)))),
               "_nt": nt}


def nontrivial(case, impl):
    return bool(case.get("_nt"))


def sig(case, impl):
    return case.get("_sig", "")
