"""C16 — a per-field merge policy applies to exactly the named subtree."""
from ..gens import *

ID = "C16"
LEAN_MODULE = "Ucfg.Props.C16"
LEVEL_TEXT = 'Theorems on the field-option tree: no tree = global policy, a non-matching key drops the tree, a matching one applies exactly there, wildcards; Spec.C01 with a per-field policy map as oracle.'
CORRESPONDENCE = "Merge.mergeF/fieldOptsOverride ~ (*Config).Merge(..., FieldXValues(path), global policy)"
RULE = ("pairs of dictionary trees (dictionaries nested 1-4 deep over a 5-key alphabet, lists and primitives at any key), a global "
        "policy, and 1-3 per-field options (4 kinds) whose dotted paths are present / absent in either tree and name dictionaries, "
        "lists or primitives, including paths that share their last component with settings at another depth; PathSep applied "
        "before or after the Field option; index and '*' segments over lists of objects, lists of lists and names below lists. Oracle: Spec.C01.merge with the policy of the longest configured path that is a "
        "prefix of the setting's path (Spec.C01.polOf). Plus: index and '*' segments decided by the oracle (lists of objects, lists of lists, names below lists), '**' wildcards next to exact paths and Option values reused for a second merge (model comparison); a policy on a path together with another on a longer path extending it by an index, '*' or name (either order). Non-trivial: some configured path exists in both trees. Distinct by "
        "(global policy, field policies, path depth, where the path's last component also occurs, conflict kinds).")
TRUSTED_BASE = ["Lean 4 kernel", "extractor: configHandling enumeration order",
                "Model/Merge.lean (fieldOptsOverride, fhNode, includeWildcard) transcribes merge.go/opts.go (differential check)",
                "Spec.C01.merge/polOf: executable oracle", "correspondence harness"]
ASSUMPTIONS = ["the oracle reads a numeric path segment as that list index and '*' as every list index (merge_test.go's own reading); "
               "option sets with a '**' wildcard, with a '*' and an index competing for one element, or with 'p' next to 'p.*.q' "
               "(one tree slot for two meanings) are compared with the model only"]
POLICIES = [None, "Replace", "ReplaceArr", "Append", "Prepend"]
FIELD = ["FieldMerge", "FieldReplace", "FieldAppend", "FieldPrepend"]


def dict_tree(rng, depth):
    """dictionaries on the spine, anything at the leaves"""
    n = 1 + rng.below(4)
    keys = rng.shuffle(KEYS)[:n]
    out = []
    for k in keys:
        if depth > 1 and rng.chance(0.55):
            out.append((k, dict_tree(rng, depth - 1)))
        elif rng.chance(0.5):
            out.append((k, A([rand_leaf(rng) if rng.chance(0.8) else M([("a", U(1))]) for _ in range(rng.below(4))])))
        else:
            out.append((k, rand_leaf(rng)))
    return M(out)


def dict_paths(t, prefix=()):
    """all key paths through dictionaries"""
    out = []
    if isinstance(t, dict) and "m" in t:
        for k, v in t["m"]:
            p = prefix + (k,)
            out.append(p)
            out += dict_paths(v, p)
    return out


def mutate_dicts(rng, t, depth):
    if isinstance(t, dict) and "m" in t:
        out = []
        for k, v in t["m"]:
            r = rng.below(10)
            if r < 1:
                continue
            if r < 8:
                out.append((k, mutate_dicts(rng, v, depth - 1)))
            else:
                out.append((k, rand_leaf(rng)))
        for k in KEYS:
            if all(k != k2 for k2, _ in out) and rng.chance(0.15):
                out.append((k, dict_tree(rng, 1) if rng.chance(0.5) else rand_leaf(rng)))
        return M(out)
    if isinstance(t, dict) and "a" in t:
        return A([rand_leaf(rng) if rng.chance(0.8) else M([("a", U(2)), ("b", S("q"))]) for _ in range(rng.below(4))])
    return rand_leaf(rng) if rng.chance(0.7) else t


def gen(rng, tier):
    n = 1500 if tier == "quick" else 12000
    yield from gen_index(rng.fork("index"), n // 3)
    yield from gen_index_directed(rng.fork("indexd"), n // 3)
    yield from gen_through_lists(rng.fork("through"), n // 4)
    yield from gen_nested_policies(rng.fork("nestedpol"), n // 4)
    for _ in range(n):
        d = 2 + rng.below(3)
        a = dict_tree(rng, d)
        b = mutate_dicts(rng, a, d)
        pa, pb = dict_paths(a), dict_paths(b)
        both = [p for p in pa if p in pb]
        opts = []
        sep_first = rng.chance(0.85)
        if sep_first:
            opts.append(opt("PathSep", "."))
        g = rng.pick(POLICIES)
        if g:
            opts.append(opt(g))
        names = []
        kinds = []
        for _ in range(rng.wpick([(6, 1), (3, 2), (1, 3)])):
            r = rng.below(10)
            if r < 6 and both:
                p = rng.pick(both)
            elif r < 8 and (pa or pb):
                p = rng.pick(pa + pb)
            else:
                p = tuple(rng.pick(KEYS) for _ in range(1 + rng.below(3)))
            name = ".".join(p)
            if rng.chance(0.1):
                name += ".*"
            fk = rng.pick(FIELD)
            if g and rng.chance(0.35):
                # a per-field policy equal to the one already in force, next to other options
                fk = {"Replace": "FieldReplace", "Append": "FieldAppend", "Prepend": "FieldPrepend"}.get(g, fk)
            opts.append(opt(fk, [name]))
            names.append(p)
            kinds.append(fk)
        if not sep_first:
            opts.append(opt("PathSep", "."))
        # where else does the last component of a configured path occur?
        elsewhere = any(q[-1] == p[-1] and q != p for p in names for q in pa + pb)
        nt = any(p in both for p in names)
        if rng.chance(0.2):
            # wildcard paths next to the exact ones: '**' (any depth) and '*' (one level)
            leafk = rng.pick(KEYS)
            wname = rng.pick(["**." + leafk, "*." + leafk, "**", rng.pick(KEYS) + ".**." + leafk, "**." + leafk + ".*"])
            wopt = opt(rng.pick(FIELD), [wname])
            pos = rng.below(len(opts) + 1) if sep_first else rng.below(len(opts))
            pos = max(pos, 1) if sep_first else pos
            opts.insert(pos, wopt)
            kinds.append("wild")
        steps = [{"b": b, "opts": opts}]
        if rng.chance(0.15):
            # the same option values used again for a second merge onto a fresh A, this time only some of them
            keep = [o for o in opts if o["o"] in ("PathSep",) or not o["o"].startswith("Field") or rng.chance(0.5)]
            steps.append({"restart": True, "b": b, "opts": keep})
            kinds.append("reuse")
        yield {"k": "merge", "a": a, "optsA": [], "steps": steps,
               "_tag": "field/" + (g or "default"),
               "_sig": "%s|%s|%s|%s|%s|%s" % (g, "+".join(kinds), max(len(p) for p in names), elsewhere, sep_first,
                                              ",".join(sorted(conflict_sig(a, b)))),
               "_nt": nt}


def list_tree(rng, depth):
    """dictionaries whose values are lists of objects and nested lists (for index / '*' field paths)"""
    out = []
    for k in rng.shuffle(KEYS)[:1 + rng.below(3)]:
        r = rng.below(4)
        if r == 0 and depth > 1:
            out.append((k, list_tree(rng, depth - 1)))
        elif r <= 2:
            elems = []
            for _ in range(1 + rng.below(3)):
                elems.append(M([(k2, A([rand_leaf(rng) for _ in range(rng.below(3))]) if rng.chance(0.5) else rand_leaf(rng))
                                for k2 in rng.shuffle(KEYS)[:1 + rng.below(2)]]) if rng.chance(0.7) else rand_leaf(rng))
            out.append((k, A(elems)))
        else:
            out.append((k, rand_leaf(rng)))
    return M(out)


def gen_index(rng, n):
    """field paths with list-index and '*' segments (existing, tested behaviour): model comparison only"""
    for _ in range(n):
        a = list_tree(rng, 3)
        b = mutate_dicts(rng, a, 3) if rng.chance(0.5) else list_tree(rng, 3)
        # keep list shapes comparable: merge b's structure from a second draw of the same generator seed family
        opts = [opt("PathSep", ".")]
        g = rng.pick(POLICIES)
        if g:
            opts.append(opt(g))
        for _ in range(1 + rng.below(2)):
            p = [rng.pick(KEYS)]
            for _ in range(rng.below(3)):
                p.append(rng.pick([str(rng.below(3)), "*", rng.pick(KEYS), rng.pick(KEYS)]))
            opts.append(opt(rng.pick(FIELD), [".".join(p)]))
        yield {"k": "merge", "a": a, "optsA": [], "steps": [{"b": b, "opts": opts}], "_tag": "field-index/" + (g or "default"),
               "_sig": "index|%s|%s" % (g, ",".join(sorted(conflict_sig(a, b)))), "_nt": True}


def gen_index_directed(rng, n):
    """an index (or '*') path whose named prefix is an object in the data, with lists of objects one or two
    levels further down in both trees: the index policy must not reach those nested lists"""
    def objs(tagkeys):
        return A([M([(rng.pick(tagkeys) + str(i), S(rng.pick(["old", "new", "x"])))] + ([("s", U(i))] if rng.chance(0.4) else []))
                  for i in range(2 + rng.below(2))])
    for _ in range(n):
        k1, k2, k3 = rng.pick(KEYS), rng.pick(KEYS), rng.pick(KEYS)
        shape = rng.below(3)
        if shape == 0:      # k1 is an object holding a list under k2
            a = M([(k1, M([(k2, objs(["k"]))]))]); b = M([(k1, M([(k2, objs(["n"]))]))])
        elif shape == 1:    # k1 is the list itself
            a = M([(k1, objs(["k"]))]); b = M([(k1, objs(["n"]))])
        else:               # two levels down
            a = M([(k1, M([(k2, M([(k3, objs(["k"]))]))]))]); b = M([(k1, M([(k2, M([(k3, objs(["n"]))]))]))])
        seg = rng.pick(["0", "1", "2", "*"])
        path = rng.pick([[k1, seg], [k1, k2, seg], [k1, seg, "s"], [k1, "*", k2]])
        opts = [opt("PathSep", ".")]
        g = rng.pick(POLICIES)
        if g:
            opts.append(opt(g))
        opts.append(opt(rng.pick(FIELD), [".".join(path)]))
        yield {"k": "merge", "a": a, "optsA": [], "steps": [{"b": b, "opts": opts}], "_tag": "field-index-directed/" + (g or "default"),
               "_sig": "indexd|%s|%s|%s|%s" % (g, shape, seg, len(path)), "_nt": True}


def gen_through_lists(rng, n):
    """lists of lists and lists of objects below a configured path: an index path must not govern the same index of a list
    nested in a later element, and a name path must not govern that name inside the elements of a list"""
    def nums(k):
        return A([U(rng.below(9)) for _ in range(k)])
    def nest(depth, width):
        return A([nums(1 + rng.below(3)) if depth <= 1 or rng.chance(0.5) else nest(depth - 1, width) for _ in range(width)])
    for _ in range(n):
        k1, k2 = rng.pick(KEYS), rng.pick(KEYS)
        shape = rng.below(3)
        w = 2 + rng.below(2)
        if shape == 0:      # lists of lists of lists
            a = M([(k1, nest(3, w))]); b = M([(k1, nest(3, w))])
            path = [k1] + [str(rng.below(w)) for _ in range(1 + rng.below(2))]
        elif shape == 1:    # a name below a list of objects
            def objs():
                return A([M([(k2, nums(1 + rng.below(2))), ("z", U(i))]) for i in range(w)])
            a = M([(k1, objs())]); b = M([(k1, objs())])
            path = rng.pick([[k1, k2], [k1, str(rng.below(w)), k2], [k1, "*", k2]])
        else:               # an index below an object holding lists of lists
            a = M([(k1, M([(k2, nest(2, w))]))]); b = M([(k1, M([(k2, nest(2, w))]))])
            path = rng.pick([[k1, str(rng.below(w))], [k1, k2, str(rng.below(w))], [k1, k2, str(rng.below(w)), str(rng.below(w))]])
        opts = [opt("PathSep", ".")]
        g = rng.pick(POLICIES)
        if g:
            opts.append(opt(g))
        opts.append(opt(rng.pick(FIELD), [".".join(path)]))
        yield {"k": "merge", "a": a, "optsA": [], "steps": [{"b": b, "opts": opts}], "_tag": "field-through-lists/" + (g or "default"),
               "_sig": "through|%s|%s|%s" % (g, shape, len(path)), "_nt": True}


def gen_nested_policies(rng, n):
    """a policy on a path and another one on a longer path that extends it by an index, a '*' or a name (in either order,
    with and without a global policy): the longer path governs its own subtree, the shorter one everything else below it"""
    def objs(tag, w):
        return A([M([(tag + str(i), S(rng.pick(["old", "new", "x"]))), ("s", U(i))] + ([("q", A([U(i), U(i + 1)]))] if rng.chance(0.5) else []))
                  for i in range(w)])
    for _ in range(n):
        k1, k2 = rng.pick(KEYS), rng.pick(KEYS)
        w = 2 + rng.below(2)
        shape = rng.below(3)
        if shape == 0:      # k1 is a list of objects
            a = M([(k1, objs("k", w))]); b = M([(k1, objs("n", w))]); base = [k1]
        elif shape == 1:    # k1.k2 is
            a = M([(k1, M([(k2, objs("k", w))]))]); b = M([(k1, M([(k2, objs("n", w))]))]); base = [k1, k2]
        else:               # k1 is an object of objects holding lists
            a = M([(k1, M([(k2, M([("q", A([U(1), U(2)])), ("k", S("old"))]))]))]); b = M([(k1, M([(k2, M([("q", A([U(3)])), ("n", S("new"))]))]))]); base = [k1]
        ext = [rng.pick([str(rng.below(w)), str(rng.below(w)), "*"])] if shape < 2 else [k2]
        if rng.chance(0.4):
            ext.append("q")
        f1, f2 = rng.pick(FIELD), rng.pick(FIELD)
        o1, o2 = opt(f1, [".".join(base)]), opt(f2, [".".join(base + ext)])
        opts = [opt("PathSep", ".")]
        g = rng.pick(POLICIES)
        if g:
            opts.append(opt(g))
        opts += [o1, o2] if rng.chance(0.5) else [o2, o1]
        yield {"k": "merge", "a": a, "optsA": [], "steps": [{"b": b, "opts": opts}], "_tag": "field-nested-policies/" + (g or "default"),
               "_sig": "nestedpol|%s|%s|%s|%s|%s" % (g, shape, f1, f2, len(ext)), "_nt": True}


def nontrivial(case, impl):
    return bool(case.get("_nt"))


def sig(case, impl):
    return case.get("_sig", "")
