"""C08 — reference resolution terminates: cycles are errors, everything else resolves."""
import json
from ..gens import *
from . import c02

ID = "C08"
LEAN_MODULE = "Ucfg.Props.C08"
LEVEL_TEXT = 'Theorems: a re-entered reference is an error at that point, active sets are scoped (repeated uses and diamonds are not cycles), the cache holds primitives only, FlattenedKeys stops on revisit, fuel is never a value. PARTIAL: fuel sufficiency for acyclic graphs not proved; divergence of the real code decided by stack/time limits; known finding D17.'
CORRESPONDENCE = "Eval.{force,dynValue,resolveRef,flattenedKeysE} ~ every read API on configs created with VarExp"
RULE = ("Plus: read, change what a computed name ${${sel}} selects by a merge (a cycle goes away / comes into being / another setting), read again - the second read is decided by the configuration as it is then (reads0). Main stream: reference graphs over n <= 8 settings: self references, references to ancestors and descendants (a nested object "
        "referencing its parent, the parent referencing a child), chains, diamonds, repeated uses in one string, references inside "
        "default/alternative operands and inside reference names; read through every entry point: String getter per setting, Unpack "
        "(whole config), Unpack of one setting into typed fields ([]string, []interface{}, [1]string, time.Duration, int64, *string, string), Has, CountField, Child+Unpack, FlattenedKeys, diff.CompareConfigs. The worker runs each case in a process with "
        "a 64 MiB stack limit and a 4 s watchdog: divergence is a FATAL/timeout result = violation. Oracle: terminates; for settings "
        "in the reference evaluator's scope the value is the substitution, an error iff a reference is re-entered (unless absorbed by "
        "a default). Plus: cycles (through plain references, longer strings, existence tests) absorbed at the point of re-entry by a resolver or an Env that knows one of the names, read setting by setting. Non-trivial: the graph has a cycle, a diamond or a repeated use. Distinct by (graph class, entry point, outcome).")
TRUSTED_BASE = ["Lean 4 kernel", "Model/Eval.lean (fuelled; a `fuel` result is reported as a disagreement, never defaulted)",
                "Python reference evaluator (oracle)", "process-level watchdog for divergence", "correspondence harness"]
ASSUMPTIONS = ["resolver results contain no further ${...}", "order dependence of mutually defaulting settings read in one Unpack is the open known finding D17"]


def graph_case(rng, tier):
    E = c02.Env()
    n = 2 + rng.below(7)
    names = ["s%d" % i for i in range(n)]
    kind = rng.pick(["self", "chain", "cycle", "diamond", "repeat", "default-cycle", "default-cycle-1", "ancestor", "descendant", "name-ref", "random", "cycle-resolver", "cycle-resolver"])
    E.root["leaf"] = [("lit", "alpha")]
    E.root["lf2"] = [("lit", "x-y")]
    def ref(nm): return ("ref", [("lit", nm)])
    nested = None
    if kind == "self":
        E.root["s0"] = [("lit", "q"), ref("s0")]
        for nm in names[1:]:
            E.root[nm] = [ref(rng.pick(["s0", "leaf"]))]
    elif kind == "chain":
        for i, nm in enumerate(names):
            E.root[nm] = [ref(names[i + 1])] if i + 1 < n else [ref("leaf")]
    elif kind == "cycle":
        for i, nm in enumerate(names):
            E.root[nm] = [("lit", "c"), ref(names[(i + 1) % n])]
    elif kind == "cycle-resolver":
        # a cycle (through plain references, references inside longer strings, existence tests) that a resolver or an Env
        # knowing one of the names absorbs at the point of re-entry
        k = 1 + rng.below(min(3, n))
        for i in range(k):
            nxt = names[(i + 1) % k]
            r = rng.below(4)
            E.root[names[i]] = ([ref(nxt)] if r == 0 else [("lit", "x-"), ref(nxt)] if r == 1 else [ref(nxt), ("lit", "-y")] if r == 2
                                else [("op", ":+", [("lit", nxt)], [("lit", "set")])])
        known = {nm: "R" + nm for nm in names[:k] if rng.chance(0.6)} or {names[0]: "R0"}
        (E.envs if rng.chance(0.3) else E.res).append(known)
        for nm in names[k:]:
            E.root[nm] = [ref(rng.pick(names[:k]))] if rng.chance(0.7) else [("lit", "p "), ref(rng.pick(names[:k]))]
    elif kind == "diamond":
        E.root["s0"] = [ref("s1"), ("lit", " "), ref("s2 top".split()[0] if n > 2 else "s1")]
        E.root["s1"] = [ref("leaf")]
        for nm in names[2:]:
            E.root[nm] = [ref("s1"), ref("leaf")]
    elif kind == "repeat":
        E.root["s0"] = [ref("leaf"), ("lit", " "), ref("leaf"), ref("lf2"), ref("leaf")]
        for nm in names[1:]:
            E.root[nm] = [ref("s0"), ref("s0")]
    elif kind == "default-cycle":
        # a cycle absorbed by a default somewhere
        for i, nm in enumerate(names):
            nxt = names[(i + 1) % n]
            if i == n - 1 or rng.chance(0.3):
                E.root[nm] = [("op", ":", [("lit", nxt)], [("lit", "dflt")])]
            else:
                E.root[nm] = [("lit", "c"), ref(nxt)]
    elif kind == "default-cycle-1":
        # a cycle absorbed by exactly one default, and further settings that reference into it
        k = 2 + rng.below(min(3, n - 1))
        for i in range(k):
            nxt = names[(i + 1) % k]
            E.root[names[i]] = [("op", ":", [("lit", nxt)], [("lit", "dflt")])] if i == k - 1 else [ref(nxt)]
        for nm in names[k:]:
            E.root[nm] = [ref(rng.pick(names[:k]))]
    elif kind == "descendant":
        # a reference whose path runs through a setting that is still being evaluated: its own descendant, or a
        # descendant of a setting that refers back
        r = rng.below(3)
        if r == 0:
            E.root["s0"] = [ref("s0.b")]
        elif r == 1:
            E.root["s0"] = [("lit", "x "), ref("s0.b"), ("lit", " y")]
        else:
            E.root["s0"] = [ref("s1.k")]
            E.root["s1"] = [ref("s0")]
        for nm in names:
            if nm not in E.root:
                E.root[nm] = [ref(rng.pick(["s0", "leaf", "s0.b"]))]
    elif kind == "ancestor":
        # o.child references o (its ancestor); a top-level setting references o.child
        nested = True
        E.root["o.kid"] = [ref("o")] if rng.chance(0.5) else [("lit", "z"), ref("o.other")]
        E.root["o.other"] = [ref("leaf")] if rng.chance(0.5) else [ref("o.kid")]
        for nm in names:
            E.root[nm] = [ref(rng.pick(["o.kid", "o.other", "leaf"]))]
    elif kind == "name-ref":
        E.root["ptr"] = [("lit", rng.pick(names))]
        for nm in names:
            E.root[nm] = [("ref", [ref("ptr")])] if rng.chance(0.5) else [ref("leaf")]
    else:
        for nm in names:
            E.root[nm] = c02.rand_tmpl(rng, 2, names + ["leaf", "lf2"])
    return E, names, kind


def gen(rng, tier):
    n = 500 if tier == "quick" else 5000
    for _ in range(n):
        E, names, kind = graph_case(rng, tier)
        c = c02.to_case(rng, E, names, {}, tier)
        # all entry points
        extra = []
        has_ops = any(c02.has_ops(E.root[nm]) - {"ref"} for nm in names)
        c["reads"] = [r for r in c["reads"] if r.get("r") != "view"][:len(names)]
        c["expect"] = c["expect"][:len(c["reads"])]
        # (what a cycle absorbed at the point of re-entry evaluates to depends on where the evaluation entered it: one Unpack of
        # the whole configuration is order dependent for such graphs - the D17 class - so they are read setting by setting)
        if (not has_ops or kind == "default-cycle-1") and kind != "cycle-resolver":
            extra.append({"r": "view"})
        # the same settings through typed Unpack targets (list, duration, number, pointer): a reference that is not
        # re-entered may fail to convert, but never with a cyclic-reference error; where the string is known the
        # one-element list / the string itself is demanded
        typed, texp = [], []
        for rd, ex in list(zip(c["reads"], c["expect"])):
            if rd.get("r") != "get" or ex is None:
                continue
            for ty in rng.shuffle(["strings", "ifaces", "duration", "int", "ptrstring", "string", "array1"])[:2]:
                typed.append({"r": "typed", "name": rd["name"], "ty": ty})
                if "anyerr" in ex:
                    # a reference to an object (the ancestor graphs) is an error as a string but a legitimate (empty) list
                    texp.append(None if kind == "ancestor" and ty in ("strings", "ifaces", "array1") else {"anyerr": True})
                elif ty == "string":
                    texp.append({"ok": {"s": ex["ok"]["s"]}})
                elif ty == "ptrstring":
                    texp.append({"ok": {"p": {"s": ex["ok"]["s"]}}})
                elif ty == "strings":
                    texp.append({"ok": {"sl": [{"s": ex["ok"]["s"]}]}})
                elif ty == "array1":
                    texp.append({"ok": {"ar": [{"s": ex["ok"]["s"]}]}})
                elif ty == "ifaces":
                    texp.append({"okany": True})
                else:
                    texp.append({"notcyclic": True})
        c["reads"] += typed
        c["expect"] += texp
        extra += [{"r": "has", "name": rng.pick(names), "idx": -1}, {"r": "count", "name": rng.pick(names)}, {"r": "keys"}, {"r": "diffself"}]
        if kind == "ancestor":
            extra.append({"r": "childview", "name": "o", "idx": -1})
        c["reads"] += extra
        c["expect"] += [None] * len(extra)
        c["repeat"] = 3 if (not has_ops or kind == "default-cycle-1") and kind != "cycle-resolver" else 1
        c["_tag"] = "graph/" + kind
        c["_nt"] = kind != "chain"
        c["_sig"] = "%s|%d" % (kind, len(names))
        yield c
    yield from list_graph_cases(rng.fork("lists"), tier)
    yield from rectarget_cases(rng.fork("rectarget"), tier)
    yield from reread_cases(rng.fork("reread"), tier)


def reread_cases(rng, tier):
    """read, change what a computed name selects (a cycle goes away, a cycle comes into being, another setting is
    selected), read again: the second read is decided by the configuration as it is then"""
    VO = [opt("PathSep", "."), opt("VarExp")]
    for i in range(60 if tier == "quick" else 600):
        tail = rng.pick(["", "-t", "/x"])
        form = rng.pick(["${${sel}}", "${${sel}}", "p${${sel}}", "${${sel}:dflt}"])
        first, then = rng.pick([("v", "x"), ("x", "v"), ("x", "y"), ("y", "x"), ("v", "y")])
        src = M(rng.shuffle([("sel", S(first)), ("v", S(form)), ("x", S("one")), ("y", S("two")), ("w", S("${v}" + tail))]))
        def val(sel):
            if sel == "v":
                return None if "dflt" not in form else None     # re-entry: an error, or absorbed by the default (not decided here)
            base = {"x": "one", "y": "two"}[sel]
            return ("p" if form.startswith("p") else "") + base
        want_v = val(then)
        reads = [{"r": "get", "type": "String", "name": "v", "idx": -1}, {"r": "get", "type": "String", "name": "w", "idx": -1}]
        if want_v is None:
            expect = [({"anyerr": True} if "dflt" not in form else None), ({"anyerr": True} if "dflt" not in form else None)]
        else:
            expect = [{"ok": {"s": want_v}}, {"ok": {"s": want_v + tail}}]
        reads0 = list(reads) + ([{"r": "view"}] if rng.chance(0.5) else [])
        yield {"k": "eval", "from": src, "opts": VO, "reads0": reads0, "merges": [{"b": M([("sel", S(then))]), "opts": VO}], "ropts": VO,
               "reads": reads, "expect": expect, "repeat": 2, "_tag": "reread/" + first + "-" + then, "_nt": True,
               "_sig": "reread|%s|%s|%s|%s" % (first, then, form, tail)}


def list_graph_cases(rng, tier):
    """reference graphs that run through list elements and nested objects, closed or completed by a later Merge"""
    copts = [opt("PathSep", "."), opt("VarExp")]
    for _ in range(60 if tier == "quick" else 600):
        shape = rng.below(6)
        a = rng.pick(["a", "bb", "val"])
        if shape == 4:      # an element of a list refers to the object that holds the list: FlattenedKeys / diff must come back
            frm = M([("o", M([("n", S(a)), ("list", A([M([("up", S("${o}"))]), S("e1")]))]))])
            merges = [{"b": M([("unrelated", U(1))]), "opts": copts}]
            reads = [("o.n", a), ("o.list.1", "e1"), ("o.list.0.up.n", a)]
        elif shape == 5:    # ... two lists deep, closed by the merge
            frm = M([("o", M([("n", S(a)), ("ll", A([A([S("x"), M([("up", S("${back}"))])])]))]))])
            merges = [{"b": M([("back", S("${o}"))]), "opts": copts}]
            reads = [("o.n", a), ("o.ll.0.0", "x")]
        elif shape == 0:      # a cycle closed by the second merge, through a list element
            frm = M([("l", A([S("${v}"), S("k")])), ("v", S(a))])
            merges = [{"b": M([("v", S("${l.0}"))]), "opts": copts}]
            reads = [("l.0", "err"), ("v", "err"), ("l.1", "k")]
        elif shape == 1:    # a target added by the second merge
            frm = M([("l", A([S("${w}"), S("p-${w}")])), ("o", M([("in", A([S("${w}")]))]))])
            merges = [{"b": M([("w", S(a))]), "opts": copts}]
            reads = [("l.0", a), ("l.1", "p-" + a), ("o.in.0", a)]
        elif shape == 2:    # a chain through list elements of two lists, completed by the merge; no cycle
            frm = M([("l", A([S("${m.0}")])), ("m", A([S("${leafx}")]))])
            merges = [{"b": M([("leafx", S(a))]), "opts": copts}]
            reads = [("l.0", a), ("m.0", a)]
        else:               # a cycle through a nested object inside a list, closed later
            frm = M([("l", A([M([("k", S("${t}"))])])), ("t", S(a))])
            merges = [{"b": M([("t", S("x${l.0.k}"))]), "opts": copts}]
            reads = [("l.0.k", "err"), ("t", "err")]
        if rng.chance(0.3):
            merges.append({"b": M([("unrelated", U(1))]), "opts": copts})
        rd = [{"r": "get", "type": "String", "name": nm, "idx": -1} for nm, _ in reads]
        ex = [({"anyerr": True} if want == "err" else {"ok": {"s": want}}) for _, want in reads]
        extra = [{"r": "count", "name": "l"}, {"r": "keys"}, {"r": "has", "name": reads[0][0], "idx": -1}, {"r": "typed", "name": reads[0][0], "ty": "string"}]
        if shape >= 4:
            extra[0] = {"r": "diffself"}
        yield {"k": "eval", "from": frm, "opts": copts, "merges": merges, "ropts": copts, "reads": rd + extra,
               "expect": ex + [None, None, None, ({"anyerr": True} if reads[0][1] == "err" else {"ok": {"s": reads[0][1]}})], "repeat": 2,
               "_tag": "graph/lists-after-merge", "_nt": True, "_sig": "listgraph|%d|%d" % (shape, len(merges))}


def rectarget_cases(rng, tier):
    """recursive Go target types (hand-written in the worker: struct through a pointer, map of itself, list of itself,
    struct through slices and maps): references that lead back to an enclosing object are reported as cyclic by Unpack,
    finite nestings - also reached through references - come out as they are"""
    co = [opt("PathSep", "."), opt("VarExp")]
    for i in range(80 if tier == "quick" else 800):
        shape = rng.below(9)
        n = 1 + rng.below(9)
        want = "cyclic"
        merges = []
        if shape == 0:      # a: {b: ${a}}
            frm = M([("a", M([("b", S("${a}")), ("n", U(n))]))])
        elif shape == 1:    # two levels down, back to the top object
            frm = M([("a", M([("n", U(n)), ("b", M([("n", U(2)), ("b", S("${a}"))]))]))])
        elif shape == 2:    # a map of itself
            frm = M([("m", M([("k", M([("up", S("${m}"))]))]))])
        elif shape == 3:    # a list of itself
            frm = M([("l", A([A([]), S("${l}")]))])
        elif shape == 4:    # through slices and maps of a struct, closed by a later merge
            frm = M([("s", M([("n", U(n)), ("kids", A([M([("n", U(1)), ("by", M([("x", S("${back}"))]))])]))]))])
            merges = [{"b": M([("back", S("${s}"))]), "opts": co}]
        elif shape == 5:    # not a cycle: a reference to a finite sibling object, used twice
            want = {"a": {"n": n, "b": {"n": 7, "b": {"n": 7, "b": None}}}, "m": None, "l": None, "s": {"n": 0, "kids": [], "by": {}}}
            frm = M([("a", M([("n", U(n)), ("b", S("${t}"))])), ("t", M([("n", U(7)), ("b", S("${u}"))])), ("u", M([("n", U(7))]))])
        elif shape == 6:    # not a cycle: plain nesting
            want = {"a": {"n": 0, "b": None}, "m": {"k": {"j": {}}}, "l": [[], [[]]], "s": {"n": n, "kids": [{"n": 1, "kids": [], "by": {}}], "by": {}}}
            frm = M([("m", M([("k", M([("j", M([]))]))])), ("l", A([A([]), A([A([])])])), ("s", M([("n", U(n)), ("kids", A([M([("n", U(1))])]))]))])
        elif shape == 7:    # the cycle runs through two references
            frm = M([("a", M([("n", U(n)), ("b", S("${t}"))])), ("t", M([("n", U(2)), ("b", S("${a.b}"))]))])
        else:               # a reference to an enclosing object from inside a map of a struct
            frm = M([("s", M([("by", M([("k", M([("kids", A([S("${s}")]))]))]))]))])
        if shape in (6,) and rng.chance(0.5):
            co2 = []
        else:
            co2 = co
        yield {"k": "rectarget", "from": frm, "copts": co2, "merges": merges, "uopts": co2, "want": want,
               "_tag": "rectarget/%d" % shape, "_nt": True, "_sig": "rectarget|%d|%d" % (shape, n % 3)}


def normalize_pair(case, impl, model):
    if case.get("k") == "rectarget":
        return {"unmodelled": True}, {"unmodelled": True}      # decided by the oracle on the implementation's result
    return normalize_result(case, impl), normalize_result(case, model)


def oracle(case, impl, model):
    if case.get("k") != "rectarget":
        return None
    if not isinstance(impl, dict):
        return (False, "no result")
    if any(k in impl for k in ("panic", "fatal", "timeout")):
        return (False, "Unpack into a recursive target type did not return: " + json.dumps(impl)[:160])
    want = case.get("want")
    if want == "cyclic":
        if "err" not in impl:
            return (False, "the configuration refers back to an enclosing object, Unpack reported no error")
        return (True, "")
    if "ok" not in impl:
        return (False, "a finite configuration was refused: " + json.dumps(impl)[:160])
    if impl["ok"] != want:
        return (False, "a finite configuration came out differently: " + json.dumps(impl["ok"])[:200])
    return (True, "")


def normalize_result(case, res):
    """typed reads are outside the model: decided by the expectation oracle only"""
    if isinstance(res, dict) and isinstance(res.get("reads"), list):
        rs = case.get("reads") or []
        return dict(res, reads=[{"unmodelled": True} if i < len(rs) and rs[i].get("r") == "typed" else x for i, x in enumerate(res["reads"])])
    return res


def fix_candidate(cand, base):
    if cand.get("k") == "rectarget":
        from . import c07
        ok = c07.wf_data(cand.get("from")) and isinstance(cand.get("from"), dict) and "m" in cand["from"] and cand.get("want") == base.get("want")
        ok = ok and all(isinstance(m, dict) and c07.wf_data(m.get("b")) and m.get("opts") in [x.get("opts") for x in base.get("merges") or []]
                        for m in cand.get("merges") or [])
        ok = ok and cand.get("copts") == base.get("copts") and cand.get("uopts") == base.get("uopts")
        return cand if ok else None
    return fix_eval_candidate(cand, base)


def nontrivial(case, impl):
    return bool(case.get("_nt"))


def sig(case, impl):
    return c02.sig(case, impl)


def check_facts(facts):
    """the repairs this property relies on sit in two or more functions: see c07.check_calls"""
    from . import c07
    return c07.check_calls(facts)
