"""C14 — every failure is a typed error that names the offending setting."""
from ..gens import *
import json
from .. import typegen as TG

ID = "C14"
LEAN_MODULE = "Ucfg.Props.C14"
LEVEL_TEXT = 'Every error the model raises is typed with Reason and Class: per site (conversion, getter, path get/set, validation) and LIFTED to the whole typed unpacker (unpack_error_typed / unpack_failure_is_ucfg_error: for every target type without interface{} - structs with any tags incl. inline, pointers, slices, arrays, maps, regexp, Config - every pre-filled value, option set and configuration, an error returned by Unpack is a ucfg.Error; induction over the fuel with a claim per model function); path and source in the message are decided on the implementation with exactly one injected fault confirmed by the model (metadata is not modelled: partial).'
CORRESPONDENCE = "Err values of Unpack/Path/Conv models ~ errors returned by NewFrom / Merge / Unpack / getters / Remove / Has / CountField"
RULE = ("Plus: one unresolvable reference at a random depth below objects and lists of a configuration read as a whole into interface{} values - the error names the setting that holds the reference (D61). Plus: one *Config of defaults merged as it is into the root and, through a handle, into an object below it, a fault in a setting that came from it (shared-defaults). Main stream: valid (configuration, target type) pairs from C04's generators with exactly ONE fault injected at a random setting at any depth "
        "(inside lists, maps, pointers, inline fields): wrong kind, failed conversion, out of range, failed validator, wrong list "
        "length, unparsable duration/regexp, a primitive where an object is required; with and without MetaData(source); in a third of the "
        "cases one list of the configuration is grown to its final form by a later Merge (AppendValues, PrependValues, or a longer list "
        "merged over a shorter one) so that list elements get their paths from fields.append / the merge code. Oracle: the "
        "call fails with a ucfg.Error (typed, Reason and Class set) whose text names the full dotted path of exactly that setting and, "
        "with metadata, the source; plus every error produced by the low-level API in C12-style histories is typed. Plus: settings read by hand-written Unpack methods (all seven Unpacker interfaces) failing with plain errors and with errors that already are ucfg.Errors; the empty list and a list one short as the faulty setting. Non-trivial: the "
        "fault is nested at depth >= 2. Distinct by (fault kind, depth, container kinds on the way, with/without source).")
TRUSTED_BASE = ["Lean 4 kernel", "the generator's knowledge of where it injected the fault (the expected path)", "correspondence harness"]
ASSUMPTIONS = ["message wording is not compared, only the quoted path and the source", "types without inline maps (an inline map captures every key: D24)"]


def normalize_result(case, res):
    if case.get("k") == "unpackers":
        if isinstance(res, dict) and ("panic" in res or "fatal" in res or "harness" in res):
            return res
        return {"unmodelled": True}
    if case.get("k") == "eval" and isinstance(res, dict) and isinstance(res.get("reads"), list):
        # the path an error names is decided by the expectation (`errpath`), the model's errors carry none
        return dict(res, reads=[({"err": {k: v for k, v in r["err"].items() if k != "path"}} if isinstance(r, dict) and isinstance(r.get("err"), dict) else r)
                                for r in res["reads"]])
    return TG.normalize_unpack_result(case, res)


def grow_by_merge(rng, c, cfg):
    """grow one of the lists by a later merge (append / prepend / a longer list over a shorter one): the final
    configuration is the same, so is the path of the faulty setting"""
    lists = list_positions(cfg)
    if not lists:
        return None
    pth, L = rng.pick(lists)
    k = 1 + rng.below(len(L) - 1)
    how = rng.pick(["Append", "Prepend", "longer"])
    def nestp(v):
        for seg in reversed(pth):
            v = M([(seg, v)])
        return v
    if how == "Append":
        c["from"] = TG.replace_at(cfg, pth, A(L[:k])); c["merges"] = [{"b": nestp(A(L[k:])), "opts": [opt("Append")]}]
    elif how == "Prepend":
        c["from"] = TG.replace_at(cfg, pth, A(L[k:])); c["merges"] = [{"b": nestp(A(L[:k])), "opts": [opt("Prepend")]}]
    else:
        c["from"] = TG.replace_at(cfg, pth, A(L[:k])); c["merges"] = [{"b": nestp(A(L)), "opts": []}]
    return how


def gen(rng, tier):
    n = 1500 if tier == "quick" else 15000
    made = 0
    tries = 0
    while made < n and tries < n * 20:
        tries += 1
        ty = TG.rand_type(rng, 1 + rng.below(3 if tier == "quick" else 4), top=True)
        if TG.has_inline_map(ty):
            continue
        valid = TG.config_for(rng, ty, 3, None, mention=1.0)
        pts = TG.fault_points(ty, valid, extra=True)
        if not pts:
            continue
        path, kind, repl = rng.pick(pts)
        cfg = TG.replace_at(valid, path, repl)
        p = ".".join(path)
        if kind.startswith("null-struct:"):
            p += "." + kind.split(":", 1)[1]           # the failing field below the null setting
            kind = "null-struct"
        elif kind.startswith("absent-struct:"):
            if not struct_only_path(ty, path):
                continue
            cfg = drop_key(valid, path)
            p += "." + kind.split(":", 1)[1]
            kind = "absent-struct"
        c = {"k": "unpack", "ty": ty, "old": None, "from": cfg, "validFrom": valid, "copts": [], "uopts": [], "faultPath": p, "strictErr": False,
             "_tag": "fault/" + kind, "_nt": p.count(".") >= 1,
             "_sig": "%s|%d|%s" % (kind, p.count("."), TG.type_sig(ty, 1))}
        if rng.chance(0.35):
            how = grow_by_merge(rng, c, cfg)
            if how:
                c["_tag"] += "+grown"
                c["_sig"] += "|grown-" + how
        elif rng.chance(0.2) or (rng.chance(0.6) and any(len(pth) >= 2 and tuple(path[:len(pth)]) == tuple(pth) for pth, _ in list_positions(cfg, minlen=1))):
            # one list of an object below the root arrives by a Merge through a handle on that object (Child): its elements
            # belong to the place the handle stands for, and so do the paths of their faults (preferably the list with the fault)
            lists = [(pth, L) for pth, L in list_positions(cfg, minlen=1) if len(pth) >= 2]
            hit = [x for x in lists if tuple(path[:len(x[0])]) == tuple(x[0])]
            lists = hit or lists
            if lists:
                pth, L = rng.pick(lists)
                c["from"] = TG.replace_at(cfg, pth, A([]))
                c["from"] = drop_key(c["from"], pth)
                c["merges"] = [{"at": ".".join(pth[:-1]), "b": M([(pth[-1], A(L))]), "opts": []}]
                c["copts"] = [opt("PathSep", ".")]
                c["_tag"] += "+via-child"
                c["_sig"] += "|via-child"
        elif rng.chance(0.35):
            # the same configuration with some names spelled with dots (PathSep): the objects in between are created by the
            # path code, not by the normalizer - the path of the faulty setting and its source stay the same
            from . import c05
            fk = set()
            flat = c05.flatten_partial(rng, cfg, ".", fk)
            if fk:
                c["from"] = flat
                c["copts"] = [opt("PathSep", ".")]
                c["uopts"] = [opt("PathSep", ".")]
                c["_tag"] += "+dotted"
                c["_sig"] += "|dotted"
        if rng.chance(0.4):
            src = rng.pick(["conf.yml", "/etc/app/a.json", "in-memory"])
            c["copts"] = c["copts"] + [{"o": "MetaData", "v": src}]
            for m in c.get("merges", []):
                m["opts"] = m["opts"] + [{"o": "MetaData", "v": src}]
            if kind != "absent-struct":        # nothing was loaded for a setting that is not there: no source to name
                c["source"] = src
            c["_sig"] += "|src"
        made += 1
        yield c
    yield from gen_api_errors(rng.fork("api"), n // 5)
    yield from gen_unpackers(rng.fork("unpackers"), n // 5)
    yield from gen_nested_ref_faults(rng.fork("nested-ref"), n // 10)
    yield from gen_shared_defaults(rng.fork("shared-defaults"), n // 20)
    yield from gen_via_child(rng.fork("via-child"), n // 10)


def gen_shared_defaults(rng, n):
    """one *Config of defaults merged as it is into the root AND, through a handle, into an object below the root (the
    defaults pattern); a fault in a setting that came from it is named by the path it has in the config that is unpacked"""
    for i in range(n):
        k1 = rng.pick(["output", "srv"])
        fk, fty, bad, good = rng.pick([("timeout", "int", S("abc"), U(5)), ("port", "uint8", U(300), U(80)), ("ttl", "duration", S("1 parsec"), S("2s"))])
        ty = TG.T("struct", f=[{"n": "F", "tag": fk, "v": "", "ty": TG.T(fty)}, {"n": "Name", "tag": "name", "v": "", "ty": TG.T("string")},
                               {"n": "O", "tag": k1, "v": "", "ty": TG.T("struct", f=[{"n": "Name", "tag": "name", "v": "", "ty": TG.T("string")},
                                                                                    {"n": "Extra", "tag": "extra", "v": "", "ty": TG.T("string")}])}])
        def shared(v):
            return {"shared": "D", "c": {"v": M([(fk, v), ("extra", S("e"))]), "opts": []}}
        frm = M([("name", S("top")), (k1, M([("name", S("sub"))]))])
        order = rng.chance(0.5)
        def merges(v):
            ms = [{"b": shared(v), "opts": []}, {"at": k1, "b": shared(v), "opts": []}]
            return ms if order else ms[::-1]
        c = {"k": "unpack", "ty": ty, "old": None, "from": frm, "copts": [opt("PathSep", ".")], "uopts": [opt("PathSep", ".")],
             "merges": merges(bad), "validFrom": M([("name", S("top")), (fk, good), ("extra", S("e")), (k1, M([("name", S("sub")), (fk, good), ("extra", S("e"))]))]),
             "faultPath": fk, "strictErr": False, "_tag": "fault/shared-defaults", "_nt": True, "_sig": "shareddef|%s|%s|%s" % (fk, k1, order)}
        yield c


def gen_via_child(rng, n):
    """a list (of numbers or of objects) merged into an object below the root through a handle on that object, one element
    faulty: the error names the element's path from the root"""
    for _ in range(n):
        k1, k2 = rng.pick(["output", "srv", "a"]), rng.pick(["ports", "hosts", "l"])
        objs = rng.chance(0.5)
        if objs:
            ety = TG.T("struct", f=[{"n": "W", "tag": "w", "v": "", "ty": TG.T("int8")}, {"n": "N", "tag": "n", "v": "", "ty": TG.T("string")}])
            good = lambda i: M([("w", U(1 + i)), ("n", S("h%d" % i))])
            bad = M([("w", rng.pick([U(300), S("x"), M([("zz", U(1))])])), ("n", S("b"))])
            suffix = ".w"
        else:
            ety = TG.T("uint8")
            good = lambda i: U(1 + i)
            bad = rng.pick([U(300), {"i": "-2"}, S("x")])
            suffix = ""
        L = [good(i) for i in range(1 + rng.below(3))]
        pos = rng.below(len(L) + 1)
        L.insert(pos, bad)
        inner = TG.T("struct", f=[{"n": "L", "tag": k2, "v": "", "ty": TG.T("slice", e=ety)}, {"n": "Z", "tag": "z", "v": "", "ty": TG.T("int")}])
        deep = rng.chance(0.3)
        if deep:
            ty = TG.T("struct", f=[{"n": "O", "tag": "top", "v": "", "ty": TG.T("struct", f=[{"n": "I", "tag": k1, "v": "", "ty": inner}])}])
            frm = M([("top", M([(k1, M([("z", U(1))]))]))]); at = "top." + k1
        else:
            ty = TG.T("struct", f=[{"n": "O", "tag": k1, "v": "", "ty": inner}])
            frm = M([(k1, M([("z", U(1))]))]); at = k1
        full = at + "." + k2
        valid_list = A([x for i, x in enumerate(L) if i != pos])
        def nest(pathstr, v):
            for seg in reversed(pathstr.split(".")):
                v = M([(seg, v)])
            return v
        c = {"k": "unpack", "ty": ty, "old": None, "from": frm, "copts": [opt("PathSep", ".")], "uopts": [opt("PathSep", ".")],
             "merges": [{"at": at, "b": M([(k2, A(L))]), "opts": rng.pick([[], [opt("Append")], [opt("Prepend")]])}],
             "validFrom": nest(at, M([("z", U(1)), (k2, valid_list)])),
             "faultPath": "%s.%d%s" % (full, pos, suffix), "strictErr": False,
             "_tag": "fault/via-child-directed", "_nt": True, "_sig": "viachild|%s|%s|%d|%d" % (objs, deep, pos, len(L))}
        if rng.chance(0.4):
            src = rng.pick(["conf.yml", "in-memory"])
            c["merges"][0]["opts"] = c["merges"][0]["opts"] + [{"o": "MetaData", "v": src}]
            c["source"] = src
        yield c


def gen_unpackers(rng, n):
    """settings read by hand-written Unpack methods (harness/vworker/unpackers.go: the seven Unpacker interfaces), which fail
    with plain errors or with errors that already are ucfg.Errors (the method used ucfg on the value it was handed)"""
    def endpoint():
        return S(rng.pick(["localhost", "example.org"])) if rng.chance(0.5) else M([("host", S("h")), ("port", U(rng.pick([80, 443, 65535])))])
    def F(x):
        return {"f": "%016x" % TG._fbits(x)}
    for _ in range(n):
        nout = 1 + rng.below(3)
        outputs = [M([("endpoint", endpoint()), ("name", S(rng.pick(["Abc", "x"])))]) for _ in range(nout)]
        node = [("name", S("Node")), ("b", {"b": True}), ("i", U(5)), ("u", U(7)), ("f", F(1.5)),
                ("c", M([("n", U(2)), ("s", S("x"))])), ("p", M([("n", U(3))]))]
        node = [e for e in node if rng.chance(0.8)]
        mk = ["k%d" % i for i in range(1 + rng.below(2))]
        cfg = {"outputs": A(outputs), "node": M(node), "m": M([(k, endpoint()) for k in mk]), "l": A([U(1 + i) for i in range(1 + rng.below(3))]),
               "tail": S("t")}
        copts, uopts = [], []
        i = rng.below(nout)
        faults = [
            (("outputs", str(i), "endpoint"), U(5), None, "plain"),
            (("outputs", str(i), "endpoint"), M([("host", S("h")), ("port", U(70000))]), None, "nested-ucfg"),
            (("outputs", str(i), "endpoint"), M([("host", M([("x", U(1))]))]), None, "nested-ucfg"),
            (("outputs", str(i), "name"), S("bad!"), None, "plain"),
            (("outputs", str(i), "name"), M([("x", U(1))]), None, "conversion"),
            (("node", "name"), S("Bad!"), None, "plain"),
            (("node", "b"), S("notabool"), None, "conversion"),
            (("node", "i"), {"i": "-1"}, None, "plain"),
            (("node", "i"), S("x"), None, "conversion"),
            (("node", "u"), U(101), None, "plain"),
            (("node", "u"), {"i": "-2"}, None, "conversion"),
            (("node", "f"), F(-0.5), None, "plain"),
            (("node", "c"), M([("n", U(0))]), ("node", "c", "n"), "nested-ucfg"),
            (("node", "c"), M([("n", S("x"))]), ("node", "c", "n"), "nested-ucfg"),
            (("node", "c"), U(5), None, "conversion"),
            (("node", "p"), M([("n", U(0))]), ("node", "p", "n"), "nested-ucfg"),
            (("node", "p"), S("zz"), None, "conversion"),
            (("m", mk[0]), U(5), None, "plain"),
            (("m", mk[0]), M([("port", U(70000))]), None, "nested-ucfg"),
            (("l", "0"), {"i": "-1"}, None, "plain"),
            (("l", str(len(cfg["l"]["a"]) - 1)), S("x"), None, "conversion"),
        ]
        fault = None
        if rng.chance(0.85):
            fault = rng.pick(faults)
        cyclic = fault is None and rng.chance(0.5)
        def put(tree, path, v):
            head = path[0]
            if len(path) == 1:
                if "m" in tree:
                    tree["m"] = [(k, x) for k, x in tree["m"] if k != head] + [(head, v)]
                else:
                    tree["a"][int(head)] = v
                return
            nxt = dict(tree["m"])[head] if "m" in tree else tree["a"][int(head)]
            put(nxt, path[1:], v)
        top = M([(k, v) for k, v in cfg.items()])
        want = None
        kind = "valid"
        if fault:
            path, repl, alt, kind = fault
            put(top, path, repl)
            want = [".".join(path)] + ([".".join(alt)] if alt else [])
        elif cyclic:
            put(top, ("node", "name"), S("${node.alias}"))
            put(top, ("node", "alias"), S("${node.name}"))
            copts = [opt("VarExp"), opt("PathSep", ".")]; uopts = [opt("VarExp"), opt("PathSep", ".")]
            want = ["node.name", "node.alias"]; kind = "cyclic"
        c = {"k": "unpackers", "from": top, "copts": copts, "uopts": uopts, "merges": [], "wantPaths": want,
             "_tag": "unpackers/" + kind, "_nt": True, "_sig": "unpackers|%s|%s" % (kind, ".".join(fault[0][:1] + fault[0][-1:]) if fault else "")}
        if rng.chance(0.25) and len(cfg["l"]["a"]) >= 2:
            # the list grown by a later merge
            L = dict(top["m"])["l"]["a"]
            put(top, ("l",), A(L[:1]))
            c["merges"] = [{"b": M([("l", A(L[1:]))]), "opts": [opt("Append")]}]
            c["_sig"] += "|grown"
        if rng.chance(0.5):
            src = rng.pick(["conf.yml", "/etc/app/a.json"])
            c["copts"] = c["copts"] + [{"o": "MetaData", "v": src}]
            for m in c["merges"]:
                m["opts"] = m["opts"] + [{"o": "MetaData", "v": src}]
            if kind != "absent-struct":        # nothing was loaded for a setting that is not there: no source to name
                c["source"] = src
            c["_sig"] += "|src"
        yield c


def struct_only_path(ty, path):
    """path runs through (non-inline) struct fields only"""
    cur = ty
    for seg in path:
        if cur["t"] != "struct":
            return False
        nxt = [f for f in cur["f"] if TG.field_key(f) == seg and "inline" not in TG.tag_opts(f) and "ignore" not in TG.tag_opts(f)]
        if not nxt:
            return False
        cur = nxt[0]["ty"]
    return cur["t"] == "struct"


def drop_key(cfg, path):
    """the configuration without the setting at path (through dictionaries)"""
    if not path or not (isinstance(cfg, dict) and "m" in cfg):
        return cfg
    if len(path) == 1:
        return M([(k, v) for k, v in cfg["m"] if k != path[0]])
    return M([(k, drop_key(v, path[1:]) if k == path[0] else v) for k, v in cfg["m"]])


def list_positions(cfg, path=(), minlen=2):
    """lists with at least minlen elements reachable through dictionaries only: [(path of keys, elements)]"""
    out = []
    if isinstance(cfg, dict) and "m" in cfg:
        for k, v in cfg["m"]:
            if isinstance(v, dict) and "a" in v and len(v["a"]) >= minlen:
                out.append((path + (k,), v["a"]))
            out += list_positions(v, path + (k,), minlen)
    return out


def gen_api_errors(rng, n):
    """errors of the low-level API: failing references / wrong kinds read through every getter, Has, CountField, Child, Remove"""
    vals = [S("${nope}"), S("${a.b.c}"), S("${self}"), S("x${nope}y"), S("${nope:?boom}"), S("plain"), U(5), M([("k", U(1))]), A([U(1), U(2)]), None]
    for _ in range(n):
        settings = [("self", S("${self}"))] + [(k, rng.pick(vals)) for k in ["a", "b", "c"]]
        reads = []
        for _ in range(6):
            k = rng.pick(["a", "b", "c", "self", "a.k", "b.0", "zz", "a.k.z"])
            r = rng.pick(["get", "has", "count", "childview"])
            rd = {"r": r, "name": k if r != "count" else k.split(".")[0], "idx": rng.pick([-1, -1, 0, 3])}
            if r == "get":
                rd["type"] = rng.pick(["Bool", "Int", "Uint", "Float", "String"])
            reads.append(rd)
        yield {"k": "eval", "from": M(settings), "opts": [opt("PathSep", "."), opt("VarExp")], "merges": [],
               "ropts": [opt("PathSep", "."), opt("VarExp")], "reads": reads, "repeat": 1, "apiErrors": True,
               "_tag": "api-errors", "_nt": True, "_sig": "api|" + ",".join(sorted(set(r["r"] for r in reads)))}


def gen_nested_ref_faults(rng, n):
    """one unresolvable reference somewhere below objects and lists, read by a whole-config Unpack into interface{} values:
    the error names the setting that holds the reference (D61), not the top-level key it lies below"""
    vo = [opt("PathSep", "."), opt("VarExp")]
    for _ in range(n):
        top = rng.pick(["a", "srv", "out"])
        path = [top]
        def build(depth):
            r = rng.below(3)
            if depth <= 0:
                return S(rng.pick(["${nope}", "x-${nope}", "${nope.deeper}"]))
            if r == 0:
                k = rng.pick(["b", "c", "d"])
                path.append(k)
                return M(rng.shuffle([(k, build(depth - 1)), ("ok", U(1))]))
            if r == 1:
                pos = rng.below(2)
                path.append(str(pos))
                xs = [U(1), S("v")]
                xs[pos] = build(depth - 1)
                return A(xs)
            k = rng.pick(["e", "f"])
            path.append(k)
            return M([(k, build(depth - 1))])
        val = build(1 + rng.below(3))
        full = ".".join(path)
        frm = M(rng.shuffle([(top, val), ("plain", S("p")), ("n", U(2))]))
        yield {"k": "eval", "from": frm, "opts": vo, "merges": [], "ropts": vo, "reads": [{"r": "view", "path": True}],
               "expect": [{"errpath": full}], "repeat": 1, "_tag": "fault/nested-ref-generic", "_nt": True,
               "_sig": "nestedref|%d|%s" % (len(path), "".join("i" if p_.isdigit() else "n" for p_ in path))}


def oracle(case, impl, model):
    """every error the API returns is a ucfg.Error"""
    if case.get("k") == "unpackers" and isinstance(impl, dict):
        want = case.get("wantPaths")
        if "create" in impl:
            return (False, "the configuration could not be created: %s" % json.dumps(impl)[:200])
        if "ok" in impl:
            return (False, "a configuration with a faulty setting was unpacked without error") if want else (True, "")
        e = impl.get("err")
        if not isinstance(e, dict):
            return (False, "Unpack crashed: " + json.dumps(impl)[:200])
        if not want:
            return (False, "a valid configuration was refused: " + str(e.get("text"))[:200])
        if e.get("typed") is not True:
            return (False, "Unpack returned an error that is not a ucfg.Error")
        if e.get("reason") in (None, "nil") or e.get("class") in (None, "nil"):
            return (False, "the error has no Reason or no Class")
        text = e.get("text") or ""
        if not any(("'" + w + "'") in text for w in want):
            return (False, "the error does not name the offending setting %s: %s" % (" / ".join(want), text[:300]))
        if case.get("source") and case["source"] not in text:
            return (False, "the error does not mention the source %s: %s" % (case["source"], text[:300]))
        return (True, "")
    if not case.get("apiErrors") or not isinstance(impl, dict):
        return None
    for rd, res in zip(case["reads"], impl.get("reads") or []):
        if isinstance(res, dict) and "err" in res and res["err"].get("typed") is False:
            return (False, "%s(%s) returned an error that is not a ucfg.Error" % (rd["r"], rd.get("name")))
    return (True, "")


fix_candidate = TG.fix_typed_candidate


def nontrivial(case, impl):
    return bool(case.get("_nt"))


def sig(case, impl):
    r = (impl or {}).get("err", {}).get("reason") if isinstance(impl, dict) else None
    return case.get("_sig", "") + "|" + str(r)


def check_facts(facts):
    """the repairs this property relies on sit in two or more functions: see c07.check_calls"""
    from . import c07
    return c07.check_calls(facts)
