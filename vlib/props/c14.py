"""C14 — every failure is a typed error that names the offending setting."""
from ..gens import *
from .. import typegen as TG

ID = "C14"
LEAN_MODULE = "Ucfg.Props.C14"
LEVEL_TEXT = 'Every error the model raises is typed with Reason and Class (conversion, getter, path get/set, validation); path and source in the message are decided on the implementation with exactly one injected fault confirmed by the model (metadata is not modelled: partial).'
CORRESPONDENCE = "Err values of Unpack/Path/Conv models ~ errors returned by NewFrom / Merge / Unpack / getters / Remove / Has / CountField"
RULE = ("valid (configuration, target type) pairs from C04's generators with exactly ONE fault injected at a random setting at any depth "
        "(inside lists, maps, pointers, inline fields): wrong kind, failed conversion, out of range, failed validator, wrong list "
        "length, unparsable duration/regexp, a primitive where an object is required; with and without MetaData(source); in a third of the "
        "cases one list of the configuration is grown to its final form by a later Merge (AppendValues, PrependValues, or a longer list "
        "merged over a shorter one) so that list elements get their paths from fields.append / the merge code. Oracle: the "
        "call fails with a ucfg.Error (typed, Reason and Class set) whose text names the full dotted path of exactly that setting and, "
        "with metadata, the source; plus every error produced by the low-level API in C12-style histories is typed. Non-trivial: the "
        "fault is nested at depth >= 2. Distinct by (fault kind, depth, container kinds on the way, with/without source).")
TRUSTED_BASE = ["Lean 4 kernel", "the generator's knowledge of where it injected the fault (the expected path)", "correspondence harness"]
ASSUMPTIONS = ["message wording is not compared, only the quoted path and the source", "types without inline maps (an inline map captures every key: D24)"]
normalize_result = TG.normalize_unpack_result


def gen(rng, tier):
    n = 1500 if tier == "quick" else 15000
    made = 0
    tries = 0
    while made < n and tries < n * 20:
        tries += 1
        ty = TG.rand_type(rng, 1 + rng.below(3 if tier == "quick" else 4), top=True)
        if TG.has_inline_map(ty):
            continue
        valid = TG.config_for(rng, ty, 3, None, mention=1.0)
        pts = TG.fault_points(ty, valid)
        if not pts:
            continue
        path, kind, repl = rng.pick(pts)
        cfg = TG.replace_at(valid, path, repl)
        p = ".".join(path)
        c = {"k": "unpack", "ty": ty, "old": None, "from": cfg, "validFrom": valid, "copts": [], "uopts": [], "faultPath": p, "strictErr": False,
             "_tag": "fault/" + kind, "_nt": p.count(".") >= 1,
             "_sig": "%s|%d|%s" % (kind, p.count("."), TG.type_sig(ty, 1))}
        if rng.chance(0.35):
            # grow one of the lists by a later merge (append / prepend / a longer list over a shorter one): the final
            # configuration is the same, so is the path of the faulty setting
            lists = list_positions(cfg)
            if lists:
                pth, L = rng.pick(lists)
                k = 1 + rng.below(len(L) - 1)
                how = rng.pick(["Append", "Prepend", "longer"])
                def nestp(v):
                    for seg in reversed(pth):
                        v = M([(seg, v)])
                    return v
                if how == "Append":
                    c["from"] = TG.replace_at(cfg, pth, A(L[:k])); c["merges"] = [{"b": nestp(A(L[k:])), "opts": [opt("Append")]}]
                elif how == "Prepend":
                    c["from"] = TG.replace_at(cfg, pth, A(L[k:])); c["merges"] = [{"b": nestp(A(L[:k])), "opts": [opt("Prepend")]}]
                else:
                    c["from"] = TG.replace_at(cfg, pth, A(L[:k])); c["merges"] = [{"b": nestp(A(L)), "opts": []}]
                c["_tag"] += "+grown"
                c["_sig"] += "|grown-" + how
        elif rng.chance(0.35):
            # the same configuration with some names spelled with dots (PathSep): the objects in between are created by the
            # path code, not by the normalizer - the path of the faulty setting and its source stay the same
            from . import c05
            fk = set()
            flat = c05.flatten_partial(rng, cfg, ".", fk)
            if fk:
                c["from"] = flat
                c["copts"] = [opt("PathSep", ".")]
                c["uopts"] = [opt("PathSep", ".")]
                c["_tag"] += "+dotted"
                c["_sig"] += "|dotted"
        if rng.chance(0.4):
            src = rng.pick(["conf.yml", "/etc/app/a.json", "in-memory"])
            c["copts"] = c["copts"] + [{"o": "MetaData", "v": src}]
            for m in c.get("merges", []):
                m["opts"] = m["opts"] + [{"o": "MetaData", "v": src}]
            c["source"] = src
            c["_sig"] += "|src"
        made += 1
        yield c
    yield from gen_api_errors(rng.fork("api"), n // 5)


def list_positions(cfg, path=()):
    """lists with at least two elements reachable through dictionaries only: [(path of keys, elements)]"""
    out = []
    if isinstance(cfg, dict) and "m" in cfg:
        for k, v in cfg["m"]:
            if isinstance(v, dict) and "a" in v and len(v["a"]) >= 2:
                out.append((path + (k,), v["a"]))
            out += list_positions(v, path + (k,))
    return out


def gen_api_errors(rng, n):
    """errors of the low-level API: failing references / wrong kinds read through every getter, Has, CountField, Child, Remove"""
    vals = [S("${nope}"), S("${a.b.c}"), S("${self}"), S("x${nope}y"), S("${nope:?boom}"), S("plain"), U(5), M([("k", U(1))]), A([U(1), U(2)]), None]
    for _ in range(n):
        settings = [("self", S("${self}"))] + [(k, rng.pick(vals)) for k in ["a", "b", "c"]]
        reads = []
        for _ in range(6):
            k = rng.pick(["a", "b", "c", "self", "a.k", "b.0", "zz", "a.k.z"])
            r = rng.pick(["get", "has", "count", "childview"])
            rd = {"r": r, "name": k if r != "count" else k.split(".")[0], "idx": rng.pick([-1, -1, 0, 3])}
            if r == "get":
                rd["type"] = rng.pick(["Bool", "Int", "Uint", "Float", "String"])
            reads.append(rd)
        yield {"k": "eval", "from": M(settings), "opts": [opt("PathSep", "."), opt("VarExp")], "merges": [],
               "ropts": [opt("PathSep", "."), opt("VarExp")], "reads": reads, "repeat": 1, "apiErrors": True,
               "_tag": "api-errors", "_nt": True, "_sig": "api|" + ",".join(sorted(set(r["r"] for r in reads)))}


def oracle(case, impl, model):
    """every error the API returns is a ucfg.Error"""
    if not case.get("apiErrors") or not isinstance(impl, dict):
        return None
    for rd, res in zip(case["reads"], impl.get("reads") or []):
        if isinstance(res, dict) and "err" in res and res["err"].get("typed") is False:
            return (False, "%s(%s) returned an error that is not a ucfg.Error" % (rd["r"], rd.get("name")))
    return (True, "")


fix_candidate = TG.fix_typed_candidate


def nontrivial(case, impl):
    return bool(case.get("_nt"))


def sig(case, impl):
    r = (impl or {}).get("err", {}).get("reason") if isinstance(impl, dict) else None
    return case.get("_sig", "") + "|" + str(r)
