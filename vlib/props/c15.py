"""C15 — Path, Parent, FlattenedKeys and diff describe the structure."""
from ..gens import *
from .. import forest as FO

ID = "C15"
LEAN_MODULE = "Ucfg.Props.C15"
CORRESPONDENCE = "Forest model ~ histories over several configs observed through VerifFingerprint (build tag verif) and Path/Parent/FlattenedKeys/CompareConfigs"
TRUSTED_BASE = ["Lean 4 kernel", "the fingerprint hook verif_fingerprint.go (add-only, build tag verif)", "correspondence harness"]
ASSUMPTIONS = []
RULE = ("reference-free histories over up to 5 configs (creation, merges with every list policy incl. embedded configs, Set*, Remove from "
        "the middle of lists, Child handles, SetChild) observed after every step. Oracle: every node below a root stores the name/index and "
        "the container it actually has; Path()/Parent() of every handle equal its actual position in its root; FlattenedKeys equals the "
        "root-relative paths of the non-nil primitive settings (for configs whose nodes are dictionaries or lists, not both); "
        "CompareConfigs partitions the two key sets into keep/add/remove and reports no change for equal key sets. Nodes attached at two "
        "positions at once (a child attached a second time) are outside the rule. Non-trivial: the history removes from a list, moves "
        "elements or attaches a child. Distinct by (operation multiset, history length).")


def gen(rng, tier):
    n = 600 if tier == "quick" else 6000
    for i in range(n):
        yield FO.history(rng, tier, refs=False, reads=(i % 4 == 0), flavour="c15")


oracle = FO.oracle_for("C15")


normalize_pair = FO.normalize_pair
fix_candidate = FO.fix_candidate


def nontrivial(case, impl):
    return bool(case.get("_nt"))


def sig(case, impl):
    return case.get("_sig", "")
