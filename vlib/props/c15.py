"""C15 — Path, Parent, FlattenedKeys and diff describe the structure."""
from ..gens import *
from .. import forest as FO

ID = "C15"
LEAN_MODULE = "Ucfg.Props.C15"
LEVEL_TEXT = 'Identity-level theorems. THE INVARIANT OVER HISTORIES: WP (every dictionary entry / list element of every node stores that node as its parent and its key / index as its name) holds for the empty heap and is kept by deep copies, fields.append, Merge as a whole under every list policy (merge_keeps_positions: induction over the fuel, a claim per merge function), Set* along whole paths (set_keeps_positions), NewFrom and Merge of source values with embedded configs (newFrom_keeps_positions, mergeSrc_keeps_positions) and therefore by every history of NewFrom, Merge and Set* calls starting from nothing (history_keeps_positions, wp_empty); under WP, Path() of a node reached from a root along stored entries is the list of keys and indices leading to it (wp_path_is_position). Per primitive: storedPath along linked nodes is the actual position; fields.append assigns the next indices; fields.delAt renumbers (the repaired D19); SetValue stores the context; CompareConfigs partitions the key sets and reports no change for equal sets. Merge, Set* and SetChild through whole paths are model functions (mergeH, setPathH, setChildH) the driver runs the histories through; CompareConfigs also under separators other than the dot. Remove keeps WP as single steps (remove_name_keeps_positions, remove_index_keeps_positions - the latter for lists whose nodes are listed once). PARTIAL: the side condition of Remove is not carried through histories; SetChild of an attached config is the known finding D20.'
CORRESPONDENCE = ("Model/Forest.lean (heap of nodes with stored contexts: cpy, appendCpy, setAt, delAt, SetValue, attach, storedPath) composed by "
                  "Driver/ForestDrv.lean ~ histories over several configs dumped after every step through VerifFingerprint (build tag verif): node "
                  "identities up to renaming, stored parents and names, values, Path(), Parent()")
TRUSTED_BASE = ["Lean 4 kernel", "the fingerprint hook verif_fingerprint.go (add-only, build tag verif)",
                "Driver/ForestDrv.lean composes the proved primitives into Merge/NewFrom/Set*/Remove/SetChild (glue, compared on every history up to the first step it does not cover: references, nulls meeting objects, dotted source keys, missing intermediate nodes)",
                "addresses as identities (the worker switches the garbage collector off for the duration of a history)", "correspondence harness"]
ASSUMPTIONS = []
RULE = ("reference-free histories over up to 5 configs (creation, merges with every list policy incl. embedded configs, Set*, Remove from "
        "the middle of lists, Child handles, SetChild) observed after every step. Oracle: every node below a root stores the name/index and "
        "the container it actually has; Path()/Parent() of every handle equal its actual position in its root; FlattenedKeys equals the "
        "root-relative paths of the non-nil primitive settings (for configs whose nodes are dictionaries or lists, not both); "
        "CompareConfigs partitions the two key sets into keep/add/remove and reports no change for equal key sets. Nodes attached at two "
        "positions at once (a child attached a second time) are outside the rule. Non-trivial: the history removes from a list, moves "
        "elements or attaches a child. Distinct by (operation multiset, history length).")


def gen(rng, tier):
    n = 600 if tier == "quick" else 6000
    for i in range(n):
        yield FO.history(rng, tier, refs=False, reads=(i % 4 == 0), flavour="c15")


oracle = FO.oracle_for("C15")


normalize_pair = FO.normalize_pair
fix_candidate = FO.fix_candidate


def nontrivial(case, impl):
    return bool(case.get("_nt"))


def sig(case, impl):
    return case.get("_sig", "")
