"""C09 — results never depend on map iteration order."""
from ..gens import *
from . import c05

ID = "C09"
LEAN_MODULE = "Ucfg.Props.C09"
CORRESPONDENCE = "Normalize.normMapInto (explicit entry order) / Merge.mergeDictP ~ NewFrom / Merge / Unpack repeated on identical arguments"
RULE = ("the C05 inputs biased to keys that overlap after dotted-path expansion (a dotted and a nested definition of the same "
        "prefix, index keys next to lists, primitives under a prefix that is also a dictionary) and merges of such configs; every "
        "case is executed 12 times (thorough 48) on maps built with permuted insertion orders (for <= 8 keys the Go runtime iterates "
        "a rotation of the insertion order) and the set of outcomes (same data / same error kind) must be a singleton; the model is "
        "evaluated on the given and the reversed entry order. Non-trivial: at least two keys overlap after expansion. Distinct by "
        "(overlap kind, outcome kind, number of keys).")
TRUSTED_BASE = ["Lean 4 kernel", "Model/Normalize.lean with the map iteration order as the explicit entry order of GoData.map",
                "the Go runtime's iteration order can only be sampled (steered by insertion order), not enumerated", "correspondence harness"]
ASSUMPTIONS = ["order dependence through the per-call evaluation cache of references (mutually defaulting settings) is the known "
               "finding D17 and is exercised under C08/C02 generators"]

OVER = ["a", "b", "c"]


def overlapping(rng):
    """an input map whose keys overlap after expansion"""
    kinds = set()
    entries = []
    base = rng.pick(OVER)
    r = rng.below(7)
    if r == 0:       # a.0 next to a: [..]
        entries = [(base + ".0", U(1)), (base, A([U(2), U(3)]))]; kinds.add("index-vs-list")
    elif r == 1:     # a: prim, a.b: prim
        entries = [(base, U(1)), (base + ".b", U(2))]; kinds.add("prim-vs-prefix")
    elif r == 2:     # a.b: 1, a: {b: {c: 1}}
        entries = [(base + ".b", U(1)), (base, M([("b", M([("c", U(1))]))]))]; kinds.add("prim-vs-dict")
    elif r == 3:     # disjoint halves of one dict
        entries = [(base + ".x", U(1)), (base, M([("y", U(2))])), (base + ".z.w", S("q"))]; kinds.add("disjoint")
    elif r == 4:     # nil next to a definition
        entries = [(base, None), (base + ".b", U(1))]; kinds.add("nil-vs-prefix")
    elif r == 5:     # lists defined in two halves
        entries = [(base + ".1", U(1)), (base + ".0", U(0)), (base, A([None, None, U(2)]))]; kinds.add("list-halves")
    else:            # same key twice in both spellings at depth 2
        entries = [(base + ".b.c", U(1)), (base + ".b", M([("c", U(2))])), (base, M([("d", U(3))]))]; kinds.add("deep-dup")
    for _ in range(rng.below(3)):
        k = rng.pick([x for x in OVER if x != base] + ["l", "m"])
        if all(k != e[0] for e in entries):
            entries.append((k, rand_tree(rng, 2)))
    return M(rng.shuffle(entries)), kinds


def gen(rng, tier):
    n = 500 if tier == "quick" else 5000
    rep = 12 if tier == "quick" else 48
    for _ in range(n):
        src, kinds = overlapping(rng)
        yield {"k": "norm", "from": src, "opts": [opt("PathSep", ".")], "repeat": rep, "_tag": "order/" + "+".join(sorted(kinds)),
               "_nt": True, "_sig": "%s|%d" % ("+".join(sorted(kinds)), len(src["m"]))}
    for c in c05.gen(rng.fork("c05"), "quick"):
        if rng.chance(0.4 if tier == "quick" else 1.0):
            c["repeat"] = rep
            c["_tag"] = "order/" + c["_tag"]
            yield c


def nontrivial(case, impl):
    return bool(case.get("_nt"))


def sig(case, impl):
    f = (impl or {}).get("first")
    out = "ok" if isinstance(f, dict) and "ok" in f else ("err:" + str((f or {}).get("err", {}).get("reason")) if isinstance(f, dict) else "x")
    return case.get("_sig", "") + "|" + out
