"""C09 — results never depend on map iteration order."""
import json
from ..gens import *
from . import c05

ID = "C09"
LEAN_MODULE = "Ucfg.Props.C09"
LEVEL_TEXT = 'Permutation theorems for dictionary lookup, dictionary merge and normalizeMapInto over any number of distinct simple keys (normMapInto_order_independent); normalisation of overlapping dotted keys under permutation is compared (model on given and reversed order; 12/48 permuted repetitions on the real code) - partial.'
CORRESPONDENCE = "Normalize.normMapInto (explicit entry order) / Merge.mergeDictP ~ NewFrom / Merge / Unpack repeated on identical arguments"
RULE = ("Plus: the overlapping spellings merged onto an existing config under every list policy (global and per field), with empty lists / objects / nulls at a name next to a longer name below it. Main stream: the C05 inputs biased to keys that overlap after dotted-path expansion (a dotted and a nested definition of the same "
        "prefix, index keys next to lists, primitives under a prefix that is also a dictionary, nulls and list padding in one spelling "
        "against values in the other, sparse overlays of one address space) and merges of such configs, plus the C08 reference graphs "
        "read by one whole-config Unpack; every "
        "case is executed 12 times (thorough 48) on maps built with permuted insertion orders (for <= 8 keys the Go runtime iterates "
        "a rotation of the insertion order) and the set of outcomes (same data / same error kind) must be a singleton; the model is "
        "evaluated on the given and the reversed entry order. Plus: random overlaps of a small address space (names that are prefixes of each other, also through list indices and index 0 of a primitive) with values of every shape incl. null. Non-trivial: at least two keys overlap after expansion. Distinct by "
        "(overlap kind, outcome kind, number of keys).")
TRUSTED_BASE = ["Lean 4 kernel", "Model/Normalize.lean with the map iteration order as the explicit entry order of GoData.map",
                "the Go runtime's iteration order can only be sampled (steered by insertion order), not enumerated", "correspondence harness"]
ASSUMPTIONS = ["order dependence through the per-call evaluation cache of references (mutually defaulting settings) is the known "
               "finding D17 and is exercised under C08/C02 generators"]

OVER = ["a", "b", "c"]


def overlapping(rng):
    """an input map whose keys overlap after expansion"""
    kinds = set()
    entries = []
    base = rng.pick(OVER)
    r = rng.below(13)
    if r == 7:       # a null leaf in the dotted spelling, the value in the nested one
        entries = [(base + ".b", None), (base, M([("b", U(1))]))]; kinds.add("nil-leaf-vs-dict")
    elif r == 8:
        entries = [(base + ".b.c", None), (base, M([("b", M([("c", U(1)), ("d", U(2))]))]))]; kinds.add("nil-deep-vs-dict")
    elif r == 9:     # an index beyond the nested list: the padding in front of it meets the list's elements
        k = 1 + rng.below(3)
        entries = [(base + "." + str(k), U(1)), (base, A([U(7 + i) for i in range(rng.below(k + 1))]))]; kinds.add("padding-vs-list")
    elif r == 10:    # the null nested, the value dotted
        entries = [(base, M([("b", None), ("c", U(3))])), (base + ".b", U(1))]; kinds.add("dict-nil-vs-leaf")
    elif r in (11, 12):
        # a sparse overlay: every leaf of a small address space gets its value in one spelling and null (or nothing) in the other
        leaves = ["b", "c", "d.e", "d.f", "l.0", "l.1"]
        nested, dotted = {}, []
        for lf in leaves:
            w = rng.below(4)
            val = U(1 + rng.below(9))
            if w == 0:
                dotted.append((base + "." + lf, val)); nested[lf] = None if rng.chance(0.5) else "absent"
            elif w == 1:
                nested[lf] = val
                if rng.chance(0.5): dotted.append((base + "." + lf, None))
            elif w == 2:
                nested[lf] = val
        def build():
            d = []
            for k in ("b", "c"):
                if nested.get(k, "absent") != "absent": d.append((k, nested[k]))
            sub = [(k.split(".")[1], nested[k]) for k in ("d.e", "d.f") if nested.get(k, "absent") != "absent"]
            if sub: d.append(("d", M(sub)))
            l = [nested.get(k, "absent") for k in ("l.0", "l.1")]
            if l[1] != "absent": d.append(("l", A([None if l[0] == "absent" else l[0], l[1]])))
            elif l[0] != "absent": d.append(("l", A([l[0]])))
            return M(d)
        entries = dotted + [(base, build())]; kinds.add("sparse-overlay")
    elif r == 0:       # a.0 next to a: [..]
        entries = [(base + ".0", U(1)), (base, A([U(2), U(3)]))]; kinds.add("index-vs-list")
    elif r == 1:     # a: prim, a.b: prim
        entries = [(base, U(1)), (base + ".b", U(2))]; kinds.add("prim-vs-prefix")
    elif r == 2:     # a.b: 1, a: {b: {c: 1}}
        entries = [(base + ".b", U(1)), (base, M([("b", M([("c", U(1))]))]))]; kinds.add("prim-vs-dict")
    elif r == 3:     # disjoint halves of one dict
        entries = [(base + ".x", U(1)), (base, M([("y", U(2))])), (base + ".z.w", S("q"))]; kinds.add("disjoint")
    elif r == 4:     # nil next to a definition
        entries = [(base, None), (base + ".b", U(1))]; kinds.add("nil-vs-prefix")
    elif r == 5:     # lists defined in two halves
        entries = [(base + ".1", U(1)), (base + ".0", U(0)), (base, A([None, None, U(2)]))]; kinds.add("list-halves")
    else:            # same key twice in both spellings at depth 2
        entries = [(base + ".b.c", U(1)), (base + ".b", M([("c", U(2))])), (base, M([("d", U(3))]))]; kinds.add("deep-dup")
    for _ in range(rng.below(3)):
        k = rng.pick([x for x in OVER if x != base] + ["l", "m"])
        if all(k != e[0] for e in entries):
            entries.append((k, rand_tree(rng, 2)))
    return M(rng.shuffle(entries)), kinds


def gen(rng, tier):
    n = 500 if tier == "quick" else 5000
    rep = 12 if tier == "quick" else 48
    for _ in range(n):
        src, kinds = overlapping(rng)
        yield {"k": "norm", "from": src, "opts": [opt("PathSep", ".")], "repeat": rep, "_tag": "order/" + "+".join(sorted(kinds)),
               "_nt": True, "_sig": "%s|%d" % ("+".join(sorted(kinds)), len(src["m"]))}
    # a small address space spelled in every way at once: two to four entries whose names are prefixes of each other (also
    # through list indices, index 0 of a primitive included) with values of every shape (null, scalars, empty and non-empty
    # objects and lists)
    orng = rng.fork("random-overlap")
    NAMES = ["a", "a.0", "a.b", "a.0.0", "a.0.b", "a.b.0", "a.1", "a.b.c"]
    def shape():
        return orng.pick([lambda: None, lambda: None, lambda: U(1 + orng.below(3)), lambda: S("s"), lambda: M([("b", U(5))]), lambda: M([("b", None)]),
                          lambda: A([U(6)]), lambda: A([None]), lambda: A([]), lambda: M([]), lambda: A([M([("b", U(7))])]), lambda: M([("0", U(8))])])()
    for _ in range(n // 2):
        ks = orng.shuffle(NAMES)[:2 + orng.below(3)]
        src = M([(k, shape()) for k in ks])
        yield {"k": "norm", "from": src, "opts": [opt("PathSep", ".")], "repeat": rep, "_tag": "order/random-overlap",
               "_nt": True, "_sig": "rov|%s|%s" % (",".join(sorted(ks)), ",".join(sorted(json.dumps(v)[:12] for _, v in src["m"])))}
    # the same overlapping spellings merged into an existing config under every list policy (global and per field): the
    # result must not depend on the order the source's entries are visited in
    brng = rng.fork("overlap-onto-base")
    for _ in range(n // 3):
        ks = brng.shuffle(NAMES)[:2 + brng.below(3)]
        src = M([(k, shape()) for k in ks])
        base = brng.pick([M([("a", A([U(1), U(2)]))]), M([("a", M([("b", A([U(1), U(2)])), ("c", U(3))]))]), M([("a", A([M([("b", U(1))]), U(2)]))]),
                          M([("a", A([A([U(1), U(2)]), U(3)]))])])
        pol = brng.pick([[], [opt("ReplaceArr")], [opt("Replace")], [opt("Append")], [opt("Prepend")], [opt("FieldReplace", ["a"])], [opt("FieldAppend", ["a.b"])]])
        yield {"k": "norm", "from": src, "base": base, "bopts": [opt("PathSep", ".")], "opts": [opt("PathSep", ".")] + pol, "repeat": rep,
               "_tag": "order/overlap-onto-base", "_nt": True,
               "_sig": "ovbase|%s|%s|%s" % (pol[0]["o"] if pol else "", ",".join(sorted(ks)), json.dumps(base)[:30])}
    # ... directed: an empty list / object / null at a name next to a longer name below it, over a base that holds a list or an
    # object there, under the replacing policies (whether the empty value "is there" must not depend on the visiting order)
    for _ in range(n // 6):
        two = brng.chance(0.3)
        P = "a.b" if two else "a"
        base = M([("a", M([("b", A([U(1), U(2)])), ("c", U(3))]))]) if two else brng.pick([M([("a", A([U(1), U(2)]))]), M([("a", M([("x", U(1))]))])])
        src = M(brng.shuffle([(P, brng.pick([A([]), A([]), M([]), None])), (P + "." + brng.pick(["b", "x", "0", "1", "x.y"]), brng.pick([U(7), S("s"), M([("q", U(1))])]))]
                             + ([("z", U(1))] if brng.chance(0.3) else [])))
        pol = brng.pick([[opt("ReplaceArr")], [opt("Replace")], [opt("FieldReplace", [P])], [opt("FieldReplace", ["a"])], [], [opt("Append")]])
        yield {"k": "norm", "from": src, "base": base, "bopts": [opt("PathSep", ".")], "opts": [opt("PathSep", ".")] + pol, "repeat": rep,
               "_tag": "order/empty-next-to-longer-name", "_nt": True,
               "_sig": "emptylonger|%s|%s|%s" % (pol[0]["o"] if pol else "", P, json.dumps(src)[:40])}
    # names that run through a setting which is a reference (with variable expansion on): a reference is not a container, the
    # second definition is a duplicate in every order - never a write into the referenced object
    rrng = rng.fork("through-reference")
    for _ in range(n // 8):
        k, t = rrng.pick(["a", "c"]), rrng.pick(["b", "tgt"])
        tail = rrng.pick(["y", "x", "0", "y.z"])
        entries = [(k, S(rrng.pick(["${%s}", "${%s}", "p-${%s}"]) % t)), (t, rrng.pick([M([("x", U(1))]), A([U(1), U(2)]), U(5)])),
                   (k + "." + tail, rrng.pick([U(2), M([("q", U(3))]), None]))]
        if rrng.chance(0.3):
            entries.append((rrng.pick(["m", "l"]), rand_tree(rrng, 1)))
        yield {"k": "norm", "from": M(rrng.shuffle(entries)), "opts": [opt("PathSep", "."), opt("VarExp")], "repeat": rep,
               "_tag": "order/through-reference", "_nt": True, "_sig": "thruref|%s|%s|%d" % (tail, json.dumps(entries[1][1])[:10], len(entries))}
    # one config holding a reference, copied into the config that is read AND embedded in the Env it is read with: the two copies
    # resolve against different roots and must not share what one of them evaluated to
    srng = rng.fork("shared-base")
    for _ in range(n // 12):
        vo = [opt("VarExp")]
        x, v, w, q = srng.pick(["x", "port"]), srng.pick(["v", "addr"]), srng.pick(["w", "other"]), srng.pick(["q", "base"])
        tmpl = srng.pick(["${%s}", "a-${%s}", "${%s}${%s}"])
        base = {"shared": "B", "c": {"v": M([(v, S(tmpl.replace("%s", x))), ("lit", S("k"))]), "opts": vo}}
        b2 = M(srng.shuffle([(x, U(1)), (w, S("${%s.%s}" % (q, v)))] + ([("u", S("${%s}" % v))] if srng.chance(0.5) else [])))
        env = {"o": "Env", "v": M([(q, base), (x, U(2))]), "opts": []}
        yield {"k": "eval", "from": base, "opts": vo, "merges": [{"b": b2, "opts": vo + [opt("PathSep", ".")]}],
               "ropts": [opt("PathSep", "."), opt("VarExp"), env], "reads": [{"r": "view"}], "expect": [None], "repeat": 24 if tier == "quick" else 48,
               "_tag": "order/shared-base", "_nt": True, "_sig": "sharedbase|%s|%d" % (tmpl, len(b2["m"]))}
    # references: one Unpack of a whole config whose settings reference each other must not depend on which setting
    # the runtime visits first (mutually defaulting settings are the open known finding D17 and are left out)
    from . import c08
    for c in c08.gen(rng.fork("refs"), "quick"):
        if c.get("k") != "eval":
            continue                # C08's hand-written kinds (recursive target types) are its own business
        if any(r.get("r") == "view" for r in c["reads"]) and rng.chance(0.5 if tier == "quick" else 1.0):
            c["repeat"] = 8 if tier == "quick" else 24
            c["_tag"] = "order/refs-" + c["_tag"]
            yield c
    # merges whose source holds references (to objects, lists and scalars of the source) over targets that hold containers
    # or scalars under the same names: the reference is resolved in the source, whatever has been merged so far
    mrng = rng.fork("mergerefs")
    vo = [opt("PathSep", "."), opt("VarExp")]
    for _ in range(120 if tier == "quick" else 1200):
        names = ["a", "b", "c", "d"]
        def obj(): return M([(k, U(1 + mrng.below(9))) for k in mrng.shuffle(["x", "y", "z", "w"])[:1 + mrng.below(3)]])
        def lst(): return A([U(mrng.below(9)) for _ in range(1 + mrng.below(3))])
        tgt = M([(k, mrng.pick([obj, obj, lst, lambda: U(5), lambda: S("txt")])()) for k in names[:2 + mrng.below(3)]])
        srcs = []
        plain = [k for k in names if mrng.chance(0.7)] or ["b"]
        for k in plain:
            srcs.append((k, mrng.pick([obj, obj, lst, lambda: U(7)])()))
        for k in names:
            if k not in plain or mrng.chance(0.3):
                ref = mrng.pick(plain)
                if ref != k:
                    srcs = [e for e in srcs if e[0] != k] + [(k, S(mrng.pick(["${%s}", "${%s}", "pre-${%s}"]) % ref))]
        pol = mrng.pick([[], [], [opt("Append")], [opt("Prepend")], [opt("Replace")]])
        yield {"k": "mergerep", "a": tgt, "optsA": vo, "steps": [{"b": M(mrng.shuffle(srcs)), "opts": vo + pol}], "ropts": vo, "repeat": rep,
               "_tag": "order/merge-refs", "_nt": True, "_sig": "mergerefs|%s|%d|%d" % (pol[0]["o"] if pol else "", len(tgt["m"]), len(srcs))}
    for c in c05.gen(rng.fork("c05"), "quick"):
        if c.get("k") != "norm":
            continue
        if rng.chance(0.4 if tier == "quick" else 1.0):
            c["repeat"] = rep
            c["_tag"] = "order/" + c["_tag"]
            yield c


def normalize_result(case, res):
    from . import c08
    if case.get("k") == "mergerep":
        return {"unmodelled": True}
    return c08.normalize_result(case, res)


def oracle(case, impl, model):
    if case.get("k") != "mergerep" or not isinstance(impl, dict):
        return None
    if "panic" in impl or "fatal" in impl:
        return (False, "merge crashed: " + str(impl)[:200])
    if "expectFirst" in case and impl.get("first") != case["expectFirst"]:
        return (False, "merge result %s, expected %s" % (json.dumps(impl.get("first"))[:300], json.dumps(case["expectFirst"])[:300]))
    if impl.get("outcomes", 1) > 1:
        return (False, "%d different outcomes for one merge of one input, depending on map iteration order: %s" % (impl["outcomes"], " | ".join(impl.get("two", []))[:500]))
    return (True, "")


fix_candidate = fix_eval_candidate


def nontrivial(case, impl):
    return bool(case.get("_nt"))


def sig(case, impl):
    f = (impl or {}).get("first")
    out = "ok" if isinstance(f, dict) and "ok" in f else ("err:" + str((f or {}).get("err", {}).get("reason")) if isinstance(f, dict) else "x")
    return case.get("_sig", "") + "|" + out
