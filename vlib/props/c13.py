"""C13 — Unpack changes only what the config mentions and nothing when it fails."""
import json
from ..gens import *
from .. import typegen as TG
from .. import catalog as CAT

ID = "C13"
LEAN_MODULE = "Ucfg.Props.C13"
LEVEL_TEXT = 'Frame theorems per field, lifted to whole structs (struct_frame, unpack_frame) and RECURSIVELY (unpack_frame_rec: after a successful Unpack into a struct of any field types, everything the configuration has nothing for - ignored / unexported fields, fields without a setting or with a null one - holds what it held at every depth reachable through struct fields, non-nil pointers and fixed-size arrays; induction over the fuel with a claim for mergeValue / reifyStructT / getField / doArray); slices and map entries are rebuilt by policy: their frames, atomicity on failure and the frame of whole results are oracles on the implementation (recursive frame oracle frameRec, shallow key before/after incl. slice elements; catalogue types for Validate ordering).'
CORRESPONDENCE = "Unpack.{reifyStructT,getField',mergeValue,sliceMerge} ~ (*Config).Unpack into pre-filled reflect.StructOf targets"
RULE = ("Plus: pointers to a type with InitDefaults (kind ptrinit, hand-written target: pointer field, list and map of pointers), pre-filled by the caller, with no / a null / an object setting, unpacked once or twice: no setting leaves the pointer and what it points to alone, an object setting writes the mentioned fields and leaves the others as they were or as InitDefaults sets them. Main stream: C04's type generator with pre-filled targets (every field holds a random value of its type) x configurations mentioning a "
        "random subset of the fields (possibly none) x slice policies (append/prepend/replace/merge tags and global options) x one fault "
        "(conversion, range, validator, wrong kind, array size) injected at a random field position in half of the cases. The worker "
        "snapshots the target before the call ('shallow': maps and pointees by identity) and compares after a failure. Oracle: on "
        "success every non-struct field without a setting equals its previous value; on failure the struct is unchanged (shallow); "
        "the stored values equal the model's. Plus: pre-filled arrays / slices / maps / pointers of structs mentioned only in part (recursive frame oracle frameRec); the same struct type read under two tag namespaces (StructTag / ValidatorTag) one call after the other in one process. Non-trivial: the target is pre-filled and the config mentions a strict subset of the "
        "fields or fails. Distinct by (type signature, mentioned subset, fault kind and position, outcome).")
TRUSTED_BASE = ["Lean 4 kernel", "Model/Unpack.lean (reifyStruct as copy -> per-field update -> assign back; differential check)",
                "the worker's before/after snapshot", "correspondence harness"]
ASSUMPTIONS = ["'unchanged' is shallow: contents of maps and pointed-to objects the struct shares may differ (the statement's exemption)",
               "no InitDefaults methods (reflect.StructOf types)"]
def normalize_pair(case, impl, model):
    if case.get("k") == "catalog":
        return CAT.normalize_pair(case, impl, model)
    if case.get("k") == "ptrinit":
        return {"unmodelled": True}, {"unmodelled": True}        # decided by the oracle on the implementation's result
    return TG.normalize_unpack_result(case, impl), TG.normalize_unpack_result(case, model)


PI_DEFAULT = {"port": 8080, "host": "localhost"}


def ptrinit_oracle(case, impl):
    """pointers to a type with InitDefaults: no setting (or a null one) leaves the pointer and what it points to alone; an
    object setting writes the mentioned fields, every other field is what it was or what InitDefaults sets"""
    if not isinstance(impl, dict):
        return (False, "no result")
    if "panic" in impl or "fatal" in impl:
        return (False, "Unpack crashed: " + json.dumps(impl)[:200])
    ok = impl.get("ok")
    if not isinstance(ok, dict):
        return (True, "")                 # an error: nothing to compare (atomicity is the business of the typed stream)
    top = dict((k, v) for k, v in case["from"]["m"])
    def plain(d):
        if isinstance(d, dict) and "u" in d: return int(d["u"])
        if isinstance(d, dict) and "s" in d: return d["s"]
        return d
    def check(where, pre, setting, mentioned, got):
        if not mentioned or setting is None:
            if got != pre:
                return "%s has no setting (or a null one) and held %s: afterwards it holds %s" % (where, json.dumps(pre), json.dumps(got))
            return None
        if not (isinstance(setting, dict) and "m" in setting):
            return None
        if got is None:
            return "%s has an object setting and is nil afterwards" % where
        sd = dict((k, v) for k, v in setting["m"])
        for f in ("port", "host"):
            if f in sd and sd[f] is not None:
                if got.get(f) != plain(sd[f]):
                    return "%s.%s is set to %s and reads %s" % (where, f, json.dumps(plain(sd[f])), json.dumps(got.get(f)))
            else:
                allowed = [PI_DEFAULT[f]] + ([pre[f]] if pre is not None else [])
                if got.get(f) not in allowed:
                    return "%s.%s has no setting: it reads %s, it held %s (InitDefaults sets %s)" % (where, f, json.dumps(got.get(f)), json.dumps(pre[f] if pre else None), json.dumps(PI_DEFAULT[f]))
        return None
    pre_p = case.get("p")
    if pre_p is not None: pre_p = {"port": pre_p.get("port", 0), "host": pre_p.get("host", ""), "tags": pre_p.get("tags", [])}
    why = check("p", pre_p, top.get("p"), "p" in top, ok.get("p"))
    if why is None and ("p" not in top or top["p"] is None) and pre_p is not None and ok.get("samePtr") is False:
        why = "p has no setting and points to another object afterwards"
    return (False, why) if why else (True, "")


def oracle(case, impl, model):
    if case.get("k") == "ptrinit":
        return ptrinit_oracle(case, impl)
    return CAT.oracle_c13(case, impl, model)


def ptrinit_cases(rng, tier):
    for i in range(150 if tier == "quick" else 1500):
        def pre():
            if rng.chance(0.2): return None
            return {"port": rng.pick([5, 7, 100, 8080]), "host": rng.pick(["h", "old", "localhost"]), "tags": rng.pick([[], ["t"]])}
        top = []
        r = rng.below(5)
        if r == 1: top.append(("p", None))
        elif r == 2: top.append(("p", M([("host", S("new"))])))
        elif r == 3: top.append(("p", M([("port", U(9)), ("host", S("new"))])))
        elif r == 4: top.append(("p", M([])))
        top.append(("n", U(1 + rng.below(5))))
        if rng.chance(0.3):
            top.append(("l", A([rng.pick([None, M([("port", U(3))])]) for _ in range(rng.below(3))])))
        yield {"k": "ptrinit", "p": pre(), "l": [pre() for _ in range(rng.below(3))], "m": {"k%d" % j: pre() for j in range(rng.below(3))},
               "from": M(top), "copts": [], "uopts": [], "repeat": 1 + rng.below(2), "_tag": "ptrinit", "_nt": True,
               "_sig": "ptrinit|%d|%d" % (r, i % 11)}


def gen(rng, tier):
    yield from ptrinit_cases(rng.fork("ptrinit"), tier)
    n = 1500 if tier == "quick" else 15000
    for _ in range(n):
        ty = TG.rand_type(rng, 1 + rng.below(3 if tier == "quick" else 4), top=True)
        fault = None
        if rng.chance(0.5):
            fault = (rng.pick(TG.FAULTS), {})
        cfg = TG.config_for(rng, ty, 3, fault, mention=rng.pick([0.0, 0.3, 0.6, 0.9]))
        old = TG.rand_value(rng, ty) if rng.chance(0.9) else None
        uopts = []
        if rng.chance(0.25):
            uopts.append(opt(rng.pick(["Append", "Prepend", "Replace", "ReplaceArr"])))
        mentioned = ",".join(k for k, _ in cfg["m"])
        c = {"k": "unpack", "ty": ty, "old": old, "from": cfg, "copts": [], "uopts": uopts,
             "_tag": "frame/" + (fault[0] if fault and "path" in fault[1] else "valid"),
             "_nt": old is not None and (len(cfg["m"]) < len(ty["f"]) or bool(fault and "path" in fault[1])),
             "_sig": "%s|%s|%s" % (TG.type_sig(ty), mentioned, fault[0] + "@" + fault[1].get("path", "-") if fault else "-")}
        yield c
    # pre-filled containers of structs (fixed-size arrays, slices, maps, pointers) whose elements the configuration mentions only
    # in part: the other fields of every element - ignored ones included - keep what they held
    prng = rng.fork("prefilled-elements")
    for _ in range(n // 5):
        efields = [{"n": "H", "tag": "h", "v": "", "ty": TG.T("string")},
                   {"n": "P", "tag": "", "v": "", "ty": TG.T(prng.pick(["int", "uint16", "float64"]))},
                   {"n": "T", "tag": ",ignore" if prng.chance(0.6) else "t", "v": "", "ty": TG.T("string")},
                   {"n": "D", "tag": "", "v": "", "ty": TG.T(prng.pick(["bool", "duration", "int8"]))}]
        ety = TG.T("struct", f=efields[:2 + prng.below(3)])
        kind = prng.pick(["array", "array", "slice", "map", "ptr", "struct"])
        nold = 1 + prng.below(3)
        def elcfg():
            kv = []
            for f in ety["f"]:
                if "ignore" in f["tag"] or not prng.chance(0.5):
                    continue
                k = TG.field_key(f)
                kv.append((k, TG.good_scalar(prng, f["ty"]["t"], "")[1]))
            return M(kv)
        def elold():
            return {"st": [TG.good_scalar(prng, f["ty"]["t"], "")[0] for f in ety["f"]]}
        pol = prng.pick(["", "", ",append", ",prepend", ",replace", ",merge"]) if kind in ("slice",) else ""
        if kind == "array":
            fty = TG.T("array", n=nold, e=ety); setting = A([elcfg() for _ in range(nold)])
        elif kind == "slice":
            fty = TG.T("slice", e=ety); setting = A([elcfg() for _ in range(prng.below(nold + 2))])
        elif kind == "map":
            fty = TG.T("map", e=ety); setting = None
        elif kind == "ptr":
            fty = TG.T("ptr", e=ety); setting = elcfg()
        else:
            fty = ety; setting = elcfg()
        ty = TG.T("struct", f=[{"n": "L", "tag": "l" + pol, "v": "", "ty": fty}, {"n": "Z", "tag": "", "v": "", "ty": TG.T("string")}])
        if kind == "array": oldv = {"ar": [elold() for _ in range(nold)]}
        elif kind == "slice": oldv = {"sl": [elold() for _ in range(nold)]}
        elif kind == "map":
            keys = ["k%d" % i for i in range(nold)]
            oldv = {"mp": {k: elold() for k in keys}}
            setting = M([(k, elcfg()) for k in keys if prng.chance(0.7)] + ([("fresh", elcfg())] if prng.chance(0.3) else []))
        elif kind == "ptr": oldv = {"p": elold()}
        else: oldv = elold()
        old = {"st": [oldv, {"s": "z0"}]}
        cfg = M([("l", setting)] + ([("z", S("zz"))] if prng.chance(0.4) else []))
        uopts = [opt(prng.pick(["Append", "Prepend", "Replace", "ReplaceArr"]))] if prng.chance(0.2) else []
        yield {"k": "unpack", "ty": ty, "old": old, "from": cfg, "copts": [], "uopts": uopts,
               "_tag": "frame/prefilled-elements/" + kind, "_nt": True,
               "_sig": "prefel|%s|%s|%d|%s|%s" % (kind, pol, len(ety["f"]), ",".join(k for k, _ in (setting["m"] if "m" in setting else [])) if isinstance(setting, dict) else "",
                                                 uopts[0]["o"] if uopts else "")}
    # maps with several keys whose values are lists of structs, under every list policy (tag or option): the policy holds for
    # every key, whatever the elements under the keys before it did
    mrng = rng.fork("map-of-lists")
    for _ in range(n // 10):
        ety = TG.T("struct", f=[{"n": "P", "tag": "p", "v": "", "ty": TG.T("int")}, {"n": "H", "tag": "h", "v": "", "ty": TG.T("string")}])
        fty = TG.T("map", e=TG.T("slice", e=ety))
        pol = mrng.pick(["", ",append", ",prepend", ",replace", ",merge"])
        keys = ["k%d" % i for i in range(2 + mrng.below(3))]
        def oel(i): return {"st": [{"i": str(i)}, {"s": "o%d" % i}]}
        old = {"st": [{"mp": {k: {"sl": [oel(j) for j in range(1 + mrng.below(2))]} for k in keys}}, {"s": "z0"}]}
        setting = M([(k, A([M([("p", U(10 * (j + 1)))] + ([("h", S("n"))] if mrng.chance(0.5) else [])) for j in range(1 + mrng.below(2))])) for k in keys if mrng.chance(0.85)])
        ty = TG.T("struct", f=[{"n": "M", "tag": "m" + pol, "v": "", "ty": fty}, {"n": "Z", "tag": "", "v": "", "ty": TG.T("string")}])
        uopts = [opt(mrng.pick(["Append", "Prepend", "Replace", "ReplaceArr"]))] if mrng.chance(0.35) else []
        yield {"k": "unpack", "ty": ty, "old": old, "from": M([("m", setting)]), "copts": [], "uopts": uopts,
               "_tag": "frame/map-of-lists", "_nt": True,
               "_sig": "mapoflists|%s|%d|%s|%d" % (pol, len(keys), uopts[0]["o"] if uopts else "", len(setting["m"]))}
    # the same struct type read under two tag namespaces (StructTag / ValidatorTag), one call after the other in one process:
    # which fields a call overwrites is decided by the options of that call alone
    arng = rng.fork("alt-tags")
    for _ in range(n // 6):
        pool = arng.shuffle(["x", "y", "z", "w"])
        nf = 2 + arng.below(3)
        alts = arng.shuffle(pool[:nf]) if arng.chance(0.7) else [p + "2" for p in pool[:nf]]
        fs = []
        for i in range(nf):
            kind = arng.pick(["int", "string", "uint8", "float64"])
            f = {"n": "F%d" % i, "tag": pool[i] + (",ignore" if arng.chance(0.1) else ""), "v": "", "ty": TG.T(kind),
                 "alt": alts[i] + (",ignore" if arng.chance(0.15) else "")}
            if kind != "string" and arng.chance(0.4):
                f["v"] = arng.pick(["min=1", "positive", "max=50"]); f["valt"] = arng.pick(["max=100", "nonzero", "min=0"])
            fs.append(f)
        ty = TG.T("struct", f=fs)
        old = {"st": [TG.good_scalar(arng, f["ty"]["t"], "")[0] for f in fs]}
        names = sorted(set(pool[:nf] + [a for a in alts]))
        kv = []
        for nm in names:
            if arng.chance(0.5):
                k = arng.pick([f["ty"]["t"] for f in fs if TG.field_key(f) == nm or f["alt"].split(",")[0] == nm])
                kv.append((nm, TG.good_scalar(arng, k, "")[1] if arng.chance(0.8) else S("7")))
        alt_opts = [opt("StructTag", "alt")] + ([opt("ValidatorTag", "valt")] if arng.chance(0.5) else [])
        first_default = arng.chance(0.6)
        c = {"k": "unpack", "ty": ty, "old": old, "from": M(kv), "copts": [],
             "uopts": alt_opts if first_default else [], "warmOpts": [] if first_default else alt_opts,
             "_tag": "frame/alt-tags/" + ("default-then-alt" if first_default else "alt-then-default"), "_nt": True,
             "_sig": "alt|%d|%s|%s|%s" % (nf, first_default, ",".join(k for k, _ in kv), len(alt_opts))}
        if arng.chance(0.15):
            del c["warmOpts"]
        yield c
    # named types with Validate / InitDefaults methods next to their method-less twins
    crng = rng.fork("catalog")
    for _ in range(n // 4):
        yield CAT.cat_case(crng)


def fix_candidate(cand, base):
    if cand.get("k") == "ptrinit":
        from .. import forest as FO
        return cand if FO.wellformed_data(cand.get("from")) and isinstance(cand.get("l"), list) and isinstance(cand.get("m"), dict) else None
    return TG.fix_typed_candidate(cand, base)


def check_facts(facts):
    """the struct tags the harness writes (`config`, `validate`) are the ones the code reads by default (opts.go makeOptions,
    regenerated on every run)"""
    d = (facts.get("info") or {}).get("defaultTagNames", "")
    if '("config", "validate")' not in d:
        return "opts.go makeOptions no longer reads the struct tags config / validate by default: " + d
    return None


def nontrivial(case, impl):
    return bool(case.get("_nt"))


def sig(case, impl):
    out = "ok" if isinstance(impl, dict) and "ok" in impl else "err"
    return case.get("_sig", "") + "|" + out
