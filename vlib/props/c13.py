"""C13 — Unpack changes only what the config mentions and nothing when it fails."""
from ..gens import *
from .. import typegen as TG
from .. import catalog as CAT

ID = "C13"
LEAN_MODULE = "Ucfg.Props.C13"
LEVEL_TEXT = 'Frame theorems per field (skipped, unmentioned primitive/pointer fields unchanged; list lengths) and lifted to whole structs (struct_frame, unpack_frame: after a successful Unpack every field the configuration has nothing for - at any position among any other fields - holds what it held); atomicity on failure and the frame of whole results are oracles on the implementation (shallow key before/after incl. slice elements; catalogue types for Validate ordering).'
CORRESPONDENCE = "Unpack.{reifyStructT,getField',mergeValue,sliceMerge} ~ (*Config).Unpack into pre-filled reflect.StructOf targets"
RULE = ("C04's type generator with pre-filled targets (every field holds a random value of its type) x configurations mentioning a "
        "random subset of the fields (possibly none) x slice policies (append/prepend/replace/merge tags and global options) x one fault "
        "(conversion, range, validator, wrong kind, array size) injected at a random field position in half of the cases. The worker "
        "snapshots the target before the call ('shallow': maps and pointees by identity) and compares after a failure. Oracle: on "
        "success every non-struct field without a setting equals its previous value; on failure the struct is unchanged (shallow); "
        "the stored values equal the model's. Non-trivial: the target is pre-filled and the config mentions a strict subset of the "
        "fields or fails. Distinct by (type signature, mentioned subset, fault kind and position, outcome).")
TRUSTED_BASE = ["Lean 4 kernel", "Model/Unpack.lean (reifyStruct as copy -> per-field update -> assign back; differential check)",
                "the worker's before/after snapshot", "correspondence harness"]
ASSUMPTIONS = ["'unchanged' is shallow: contents of maps and pointed-to objects the struct shares may differ (the statement's exemption)",
               "no InitDefaults methods (reflect.StructOf types)"]
def normalize_pair(case, impl, model):
    if case.get("k") == "catalog":
        return CAT.normalize_pair(case, impl, model)
    return TG.normalize_unpack_result(case, impl), TG.normalize_unpack_result(case, model)


oracle = CAT.oracle_c13


def gen(rng, tier):
    n = 1500 if tier == "quick" else 15000
    for _ in range(n):
        ty = TG.rand_type(rng, 1 + rng.below(3 if tier == "quick" else 4), top=True)
        fault = None
        if rng.chance(0.5):
            fault = (rng.pick(TG.FAULTS), {})
        cfg = TG.config_for(rng, ty, 3, fault, mention=rng.pick([0.0, 0.3, 0.6, 0.9]))
        old = TG.rand_value(rng, ty) if rng.chance(0.9) else None
        uopts = []
        if rng.chance(0.25):
            uopts.append(opt(rng.pick(["Append", "Prepend", "Replace", "ReplaceArr"])))
        mentioned = ",".join(k for k, _ in cfg["m"])
        c = {"k": "unpack", "ty": ty, "old": old, "from": cfg, "copts": [], "uopts": uopts,
             "_tag": "frame/" + (fault[0] if fault and "path" in fault[1] else "valid"),
             "_nt": old is not None and (len(cfg["m"]) < len(ty["f"]) or bool(fault and "path" in fault[1])),
             "_sig": "%s|%s|%s" % (TG.type_sig(ty), mentioned, fault[0] + "@" + fault[1].get("path", "-") if fault else "-")}
        yield c
    # named types with Validate / InitDefaults methods next to their method-less twins
    crng = rng.fork("catalog")
    for _ in range(n // 4):
        yield CAT.cat_case(crng)


fix_candidate = TG.fix_typed_candidate


def nontrivial(case, impl):
    return bool(case.get("_nt"))


def sig(case, impl):
    out = "ok" if isinstance(impl, dict) and "ok" in impl else "err"
    return case.get("_sig", "") + "|" + out
