"""C19 — repeated flags accumulate like sequential merges with the flag's options."""
from ..gens import *

ID = "C19"
LEAN_MODULE = "Ucfg.Props.C19"
LEVEL_TEXT = "Collector/flag theorems: the first error sticks, settings accumulate as merges with the flag's options, empty values ignored, bare keys mean true."
CORRESPONDENCE = "Flag.flagSets/collectorAdd ~ flag.NewFlagKeyValue(...).Set / cfgutil.Collector.Add"
RULE = ("argument sequences (1-8) of key=value / bare key / key= / =value / malformed values at a random position; keys with dots "
        "and indices over an overlapping address space; values in every syntax parse.Value accepts (numbers, bools, quoted strings, "
        "lists, objects, top-level comma lists); option sets with and without PathSep and each merge policy; autoBool on/off. Oracle: "
        "Config() = fold of Merge over the arguments' configs with the flag's options up to the first failing argument, Error() set "
        "exactly when one failed, and Error() read after every Set never changes once it is non-nil; the collector keeps the options. A fifth of the sequences address a top-level list (keys whose first segment is an index). Non-trivial: two arguments address overlapping settings or one is "
        "malformed. Distinct by (policy, PathSep, multiset of argument kinds, error position).")
TRUSTED_BASE = ["Lean 4 kernel", "Model/Flag.lean transcribes flag/util.go, flag/value.go, cfgutil.go; Parse/Normalize/Merge models", "correspondence harness"]
ASSUMPTIONS = ["file flags (NewFlagFiles) share the collector and are covered through it, their loaders are the C18 front-ends"]

KEYS2 = ["a", "b", "a.b", "a.c", "l.0", "l.1", "l.0.x", "a.b.c", "m"]
VALS = ["1", "-2", "0x10", "1.5", "true", "off", "null", "str", "'q s'", '"d\\"q"', "[1,2]", "[a, b, c]", "{x: 1}", "{x: {y: 2}}", "a,b", "1,2,3",
        "[]", "{}", " spaced ", "${x}", "$", "x=y", "=", "a=b=c", "'k=v'", "{x: 'p=q'}", "[a=1, b=2]"]
BAD = ["[1,", "{a:1", '"unterminated', "{a}", "[1 2]", "'x", "{a=1", "[=,"]


def gen(rng, tier):
    n = 900 if tier == "quick" else 8000
    for _ in range(n):
        opts = []
        sep = rng.chance(0.75)
        if sep:
            opts.append(opt("PathSep", "."))
        pol = rng.pick([None, None, "Replace", "ReplaceArr", "Append", "Prepend"])
        if pol:
            opts.append(opt(pol))
        args = []
        kinds = set()
        # in a fifth of the sequences the settings address a top-level list (keys whose first segment is an index)
        keyset = KEYS2 if rng.chance(0.8) else ["0", "1", "0.a", "0.b", "1.x", "2", "name", "0.l.0"]
        if keyset is not KEYS2: kinds.add("toplist")
        for _ in range(1 + rng.below(8)):
            r = rng.below(20)
            key = rng.pick(keyset)
            if r < 12:
                args.append(key + "=" + rng.pick(VALS)); kinds.add("kv")
            elif r < 14:
                args.append(key); kinds.add("bare")
            elif r < 16:
                args.append(key + "="); kinds.add("empty")
            elif r < 17:
                args.append("=" + rng.pick(VALS)); kinds.add("nokey")
            elif r < 19:
                args.append(key + "=" + rng.pick(BAD)); kinds.add("bad")
            else:
                args.append(""); kinds.add("blank")
        if rng.chance(0.15):
            # two failing arguments with different messages: the first one has to stay
            for _ in range(2):
                args.insert(rng.below(len(args) + 1), rng.pick(KEYS2) + "=" + rng.pick(BAD)); kinds.add("bad")
        ab = rng.chance(0.8)
        keys = [a.split("=")[0] for a in args]
        nt = len(set(keys)) < len(keys) or "bad" in kinds or any(k1 != k2 and (k1.startswith(k2 + ".") or k2.startswith(k1 + ".")) for k1 in keys for k2 in keys)
        yield {"k": "flags", "args": args, "opts": opts, "autoBool": ab, "_tag": "flags/" + (pol or "default"),
               "_sig": "%s|%s|%s|%s" % (pol, sep, ab, "+".join(sorted(kinds))), "_nt": nt}


def normalize_result(case, res):
    if isinstance(res, dict):
        return {k: v for k, v in res.items() if k not in ("setErr", "errText")}
    return res


def oracle(case, impl, model):
    """error stickiness on the texts Error() returned after every Set (the model compares positions and reasons)"""
    if not isinstance(impl, dict) or "setErr" not in impl:
        return None
    se = impl["setErr"]
    first = next((i for i, e in enumerate(se) if e is not None), None)
    if first is None:
        if impl.get("errText") is not None:
            return (False, "Error() is set although it was nil after every Set")
        return None
    for j in range(first + 1, len(se)):
        if se[j] != se[first]:
            return (False, "Error() was %r after argument %d and %r after argument %d: the first error did not stay" % (se[first], first, se[j], j))
    if impl.get("errText") != se[first]:
        return (False, "Error() reports %r, after the first failing argument it reported %r" % (impl.get("errText"), se[first]))
    return None


def nontrivial(case, impl):
    return bool(case.get("_nt"))


def sig(case, impl):
    pos = "-"
    if isinstance(impl, dict) and impl.get("set"):
        pos = str(next((i for i, b in enumerate(impl["set"]) if b), "-"))
    return case.get("_sig", "") + "|" + pos
