"""C19 — repeated flags accumulate like sequential merges with the flag's options."""
from ..gens import *

ID = "C19"
LEAN_MODULE = "Ucfg.Props.C19"
LEVEL_TEXT = "The statement as a whole for any loader (collect_eq_spec: after any sequence of Set calls the collector holds the configs before the first failing argument merged in order with the flag's options, and that first failure), instantiated for -flag key=value (flag_is_fold_of_merges) and file flags (fileflag_is_fold_of_merges, file_failure_recorded); the first error sticks, empty values ignored, bare keys mean true."
CORRESPONDENCE = "Flag.flagSets/fileSets/collectorAdd ~ flag.NewFlagKeyValue(...).Set / flag.NewFlagFiles(...).Set / cfgutil.Collector.Add"
RULE = ("argument sequences (1-8) of key=value / bare key / key= / =value / malformed values at a random position; keys with dots "
        "and indices over an overlapping address space; values in every syntax parse.Value accepts (numbers, bools, quoted strings, "
        "lists, objects, top-level comma lists); option sets with and without PathSep and each merge policy; autoBool on/off. Oracle: "
        "Config() = fold of Merge over the arguments' configs with the flag's options up to the first failing argument, Error() set "
        "exactly when one failed, and Error() read after every Set never changes once it is non-nil; the collector keeps the options. File flags (kind fileflags): 1-5 yaml / json files with overlapping settings per flag, among them files whose extension has no loader (with and without the \"\" fallback), missing and malformed files at any position, under every policy. A fifth of the sequences address a top-level list (keys whose first segment is an index). Non-trivial: two arguments address overlapping settings or one is "
        "malformed. Distinct by (policy, PathSep, multiset of argument kinds, error position).")
TRUSTED_BASE = ["Lean 4 kernel", "Model/Flag.lean transcribes flag/util.go, flag/value.go, cfgutil.go; Parse/Normalize/Merge models", "correspondence harness"]
ASSUMPTIONS = ["the loaders registered for file flags are the C18 front-ends (yaml / json NewConfigWithFile); the decoded document is given to the model"]

KEYS2 = ["a", "b", "a.b", "a.c", "l.0", "l.1", "l.0.x", "a.b.c", "m"]
VALS = ["1", "-2", "0x10", "1.5", "true", "off", "null", "str", "'q s'", '"d\\"q"', "[1,2]", "[a, b, c]", "{x: 1}", "{x: {y: 2}}", "a,b", "1,2,3",
        "[]", "{}", " spaced ", "${x}", "$", "x=y", "=", "a=b=c", "'k=v'", "{x: 'p=q'}", "[a=1, b=2]"]
BAD = ["[1,", "{a:1", '"unterminated', "{a}", "[1 2]", "'x", "{a=1", "[=,"]


def gen(rng, tier):
    n = 900 if tier == "quick" else 8000
    for _ in range(n):
        opts = []
        sep = rng.chance(0.75)
        if sep:
            opts.append(opt("PathSep", "."))
        pol = rng.pick([None, None, "Replace", "ReplaceArr", "Append", "Prepend"])
        if pol:
            opts.append(opt(pol))
        args = []
        kinds = set()
        # in a fifth of the sequences the settings address a top-level list (keys whose first segment is an index)
        keyset = KEYS2 if rng.chance(0.8) else ["0", "1", "0.a", "0.b", "1.x", "2", "name", "0.l.0"]
        if keyset is not KEYS2: kinds.add("toplist")
        for _ in range(1 + rng.below(8)):
            r = rng.below(20)
            key = rng.pick(keyset)
            if r < 12:
                args.append(key + "=" + rng.pick(VALS)); kinds.add("kv")
            elif r < 14:
                args.append(key); kinds.add("bare")
            elif r < 16:
                args.append(key + "="); kinds.add("empty")
            elif r < 17:
                args.append("=" + rng.pick(VALS)); kinds.add("nokey")
            elif r < 19:
                args.append(key + "=" + rng.pick(BAD)); kinds.add("bad")
            else:
                args.append(""); kinds.add("blank")
        if rng.chance(0.15):
            # two failing arguments with different messages: the first one has to stay
            for _ in range(2):
                args.insert(rng.below(len(args) + 1), rng.pick(KEYS2) + "=" + rng.pick(BAD)); kinds.add("bad")
        ab = rng.chance(0.8)
        keys = [a.split("=")[0] for a in args]
        nt = len(set(keys)) < len(keys) or "bad" in kinds or any(k1 != k2 and (k1.startswith(k2 + ".") or k2.startswith(k1 + ".")) for k1 in keys for k2 in keys)
        yield {"k": "flags", "args": args, "opts": opts, "autoBool": ab, "_tag": "flags/" + (pol or "default"),
               "_sig": "%s|%s|%s|%s" % (pol, sep, ab, "+".join(sorted(kinds))), "_nt": nt}


def gen_files(rng, n):
    """file flags: 1-5 files per flag (yaml and json documents with overlapping settings), among them files whose
    extension has no loader (with and without the "" fallback), files that do not exist and files the decoder refuses, at any
    position"""
    from . import c18
    def doc():
        ks = rng.shuffle(["a", "b", "l", "m"])[:1 + rng.below(3)]
        def val(k):
            r = rng.below(6)
            if k == "l" or r == 0: return A([U(rng.below(5)) for _ in range(1 + rng.below(3))])
            if k == "m" or r == 1: return M([(rng.pick(["x", "y"]), U(rng.below(9))), ("s", S(rng.pick(["p", "q"])))][:1 + rng.below(2)])
            if r == 2: return S(rng.pick(["one", "two"]))
            if r == 3: return B(rng.chance(0.5))
            return U(rng.below(100))
        return M([(k, val(k)) for k in ks])
    for i in range(n):
        opts = []
        if rng.chance(0.6): opts.append(opt("PathSep", "."))
        pol = rng.pick([None, None, "Replace", "ReplaceArr", "Append", "Prepend"])
        if pol: opts.append(opt(pol))
        files, kinds = [], set()
        for j in range(1 + rng.below(5)):
            r = rng.below(12)
            d = doc()
            ext = rng.pick([".yml", ".json"])
            f = {"name": rng.pick(["conf", "app", "over"]), "ext": ext, "doc": c18.ints_to_i(d), "text": c18.render(d)}
            if r == 0:
                f["ext"] = rng.pick([".txt", ".yaml", "", ".conf"]); kinds.add("noloader")
            elif r == 1:
                f["missing"] = True; kinds.add("missing")
            elif r == 2:
                f["doc"] = None; f["text"] = rng.pick(['{"a": ', "a: [1, 2", '{"a": [1, {"b": ']); kinds.add("malformed")
            else:
                kinds.add(ext)
            files.append(f)
        yield {"k": "fileflags", "files": files, "opts": opts, "fallback": rng.chance(0.25), "_tag": "fileflags/" + (pol or "default"),
               "_nt": len(files) > 1, "_sig": "files|%s|%s|%d" % (pol, "+".join(sorted(kinds)), len(files))}


def fix_candidate(cand, base):
    """shrinking file flags: files are dropped, never edited (text and document belong together)"""
    if cand.get("k") == "fileflags":
        fs = cand.get("files")
        if not isinstance(fs, list) or not all(f in base.get("files", []) for f in fs):
            return None
    return cand


_gen_kv = gen


def gen(rng, tier):
    yield from _gen_kv(rng, tier)
    yield from gen_files(rng.fork("files"), 300 if tier == "quick" else 3000)


def normalize_result(case, res):
    if isinstance(res, dict):
        return {k: v for k, v in res.items() if k not in ("setErr", "errText")}
    return res


def oracle(case, impl, model):
    """error stickiness on the texts Error() returned after every Set (the model compares positions and reasons)"""
    if not isinstance(impl, dict) or "setErr" not in impl:
        return None
    se = impl["setErr"]
    first = next((i for i, e in enumerate(se) if e is not None), None)
    if first is None:
        if impl.get("errText") is not None:
            return (False, "Error() is set although it was nil after every Set")
        return None
    for j in range(first + 1, len(se)):
        if se[j] != se[first]:
            return (False, "Error() was %r after argument %d and %r after argument %d: the first error did not stay" % (se[first], first, se[j], j))
    if impl.get("errText") != se[first]:
        return (False, "Error() reports %r, after the first failing argument it reported %r" % (impl.get("errText"), se[first]))
    return None


def nontrivial(case, impl):
    return bool(case.get("_nt"))


def sig(case, impl):
    pos = "-"
    if isinstance(impl, dict) and impl.get("set"):
        pos = str(next((i for i, b in enumerate(impl["set"]) if b), "-"))
    return case.get("_sig", "") + "|" + pos
