"""C20 — numeric path segments index lists only within [0, MaxIdx]."""
from ..gens import *

ID = "C20"
LEAN_MODULE = "Ucfg.Props.C20"
LEVEL_TEXT = 'parseField characterised through the regenerated guard (index iff non-negative integer literal within MaxIdx, otherwise a name), multi-segment rule, write growth bounded by MaxIdx+1.'
CORRESPONDENCE = "Path.parseField/parsePath + Normalize.newFrom ~ ucfg.NewFrom(map{key: v}, opts)"
RULE = ("key strings from the Go integer-literal grammar and near misses (plus random mutations of them), as whole keys and as "
        "dotted segments, x MaxIdx in {-1,0,1,7,1024,2^40} x EnableNumKeys x PathSep; kind 'intlit' compares IntLit.parseInt/"
        "parseUint with strconv exhaustively on short strings. Plus: histories of Set / getters / Has / Remove / CountField over names that spell numbers with a separate option set per call (kind 'ops', oracle: the path model, whose segment rule is proved equal to the statement's). Non-trivial: the key contains a digit. Distinct by "
        "(literal class, MaxIdx, EnableNumKeys, PathSep, outcome shape).")
TRUSTED_BASE = ["Lean 4 kernel", "extractor: guard_parseField, guard_idxSet_reject, defaultMaxIdx (regenerated from path.go/opts.go)",
                "IntLit.parseInt = strconv.ParseInt(s,0,64) (validated by kind 'intlit')",
                "correspondence harness (vworker, ucfgdrv, comparison)"]
ASSUMPTIONS = ["strconv.ParseInt/ParseUint behave as IntLit (checked exhaustively on short strings each run)",
               "Model/Normalize+Merge transcribe merge.go (checked differentially)"]
EXHAUSTIVE = {"quick": False, "thorough": False}

ALPHA = list("019_-+xXbo a.e") + ["１"]


def lit_class(k):
    import re
    if re.fullmatch(r"[+-]?0[xX][0-9a-fA-F_]+", k): return "hex"
    if re.fullmatch(r"[+-]?0[bB][01_]+", k): return "bin"
    if re.fullmatch(r"[+-]?0[oO]?[0-7_]+", k): return "oct"
    if re.fullmatch(r"[+-]?[0-9_]+", k): return "dec"
    if re.search(r"\d", k): return "near"
    return "name"


def gen(rng, tier):
    n = 1500 if tier == "quick" else 12000
    maxidxs = [None, -1, 0, 1, 7, 1024, 1 << 40]
    # strconv validation: exhaustive short strings over the literal alphabet
    alpha = list("01_-+xb9") if tier == "quick" else list("0179_-+xXbo a")
    L = 4 if tier == "quick" else 4

    def rec(prefix, depth):
        yield prefix
        if depth < L:
            for ch in alpha:
                yield from rec(prefix + ch, depth + 1)
    for s in rec("", 0):
        yield {"k": "intlit", "s": s, "_tag": "intlit"}
    for s in INT_LITERALS:
        yield {"k": "intlit", "s": s, "_tag": "intlit"}
    for _ in range(n):
        base = rng.pick(INT_LITERALS)
        if rng.chance(0.3):
            # mutate
            chars = list(base)
            for _ in range(1 + rng.below(2)):
                op = rng.below(3)
                pos = rng.below(len(chars) + 1)
                if op == 0:
                    chars.insert(pos, rng.pick(ALPHA))
                elif op == 1 and chars:
                    chars.pop(min(pos, len(chars) - 1))
                elif chars:
                    chars[min(pos, len(chars) - 1)] = rng.pick(ALPHA)
            base = "".join(chars)
        opts = []
        sep = rng.wpick([(5, ""), (4, "."), (1, "/")])
        if sep:
            opts.append(opt("PathSep", sep))
        mi = rng.pick(maxidxs)
        if mi is not None:
            opts.append(opt("MaxIdx", str(mi)))
        if rng.chance(0.35):
            opts.append(opt("EnableNumKeys", rng.chance(0.8)))
        key = base
        if sep and rng.chance(0.6):
            segs = [base] + [rng.pick(["a", "0", "2", "-1", "x1", rng.pick(INT_LITERALS)]) for _ in range(1 + rng.below(2))]
            key = sep.join(rng.shuffle(segs))
        # keep list growth small enough to run: with a huge MaxIdx a key such as 65536 legitimately creates a list of that
        # size (fields.append is quadratic): only small indices are generated in that configuration
        if mi is not None and mi > 4096:
            def big(seg):
                try:
                    return int(seg.replace("_", ""), 0) > 2048
                except ValueError:
                    return False
            if any(big(seg) for seg in (key.split(sep) if sep else [key])):
                continue
        val = rng.pick([I(-3), U(7), S("v"), B(True)])
        c = {"k": "key", "key": key, "val": val, "opts": opts, "_tag": "key/" + lit_class(base)}
        yield c
        if rng.chance(0.1):
            yield {"k": "intlit", "s": base, "_tag": "intlit"}
    yield from gen_ops(rng.fork("keyops"), n // 3)


OPSETS = [[], [opt("MaxIdx", "0")], [opt("MaxIdx", "3")], [opt("EnableNumKeys", True)], [opt("MaxIdx", "-1")],
          [opt("PathSep", ".")], [opt("PathSep", "."), opt("MaxIdx", "3")], [opt("PathSep", "."), opt("EnableNumKeys", True)]]
SMALL = ["0", "1", "2", "3", "4", "5", "+2", "-0", "-1", "007", "0x2", "0b1", "0_1", "1_", "a", "a.1", "1.a", "0.0", "2.5", "a.+1"]


def gen_ops(rng, n):
    """the same rule seen through every path-addressed call: short histories of Set / getters / Has / Remove / CountField / Child
    over names that spell numbers, every call with its own option set (a name stored as a key under one option set is read,
    overwritten or removed under another)"""
    for _ in range(n):
        base = rng.pick(OPSETS)
        ops = []
        kinds = set()
        for _ in range(2 + rng.below(7)):
            o_opts = base if rng.chance(0.65) else rng.pick(OPSETS)
            name = rng.pick(SMALL)
            k = rng.wpick([(8, "set"), (6, "get"), (4, "has"), (4, "remove"), (2, "count"), (1, "setchild")])
            o = {"op": k, "h": 0, "name": name, "idx": rng.pick([-1, -1, -1, 0, 1]), "opts": list(o_opts)}
            if k == "set":
                o["val"] = rng.pick([S("v"), U(7), S("w")])
            elif k == "get":
                o["type"] = "String"
            elif k == "count":
                del o["idx"]
            elif k == "setchild":
                o["val"] = M([("k", U(1))]); o["copts"] = []
            ops.append(o)
            kinds.add(k + ("" if o_opts is base else "~"))
        init = M([]) if rng.chance(0.6) else M([(rng.pick(["1", "2", "a"]), S("i"))])
        yield {"k": "ops", "init": init, "optsInit": list(base), "ops": ops, "_tag": "keyops",
               "_sig": "keyops|%s|%s" % (",".join(sorted(kinds)), ",".join(x["o"] + str(x.get("v")) for x in base))}


def oracle(case, impl, model):
    """kind 'ops': the path model classifies a segment exactly as the statement does (Props/C20: parseField_index_iff,
    parseField_name_otherwise), so a history on which the implementation leaves the model is a history on which some call did
    not apply the rule"""
    if case.get("k") != "ops":
        return None
    from .. import common as C
    if C.unsupported(model) or not isinstance(impl, dict) or not isinstance(model, dict):
        return None
    if C.same(model, impl):
        return (True, "")
    return (False, "a path-addressed call did not classify its name by the rule (result differs from the path model under the same options)")


def nontrivial(case, impl):
    import re
    if case.get("k") == "ops":
        return True
    return bool(re.search(r"\d", case.get("key", case.get("s", ""))))


def sig(case, impl):
    if case["k"] == "ops":
        return case.get("_sig", "ops")
    if case["k"] == "intlit":
        r = (impl or {}).get("ok") or {}
        return "intlit/%s/%s/%s" % (lit_class(case["s"]), r.get("int") is not None, r.get("uint") is not None)
    o = {x["o"]: x.get("v", True) for x in case.get("opts", [])}
    shape = "err"
    if isinstance(impl, dict) and "ok" in impl:
        shape = "A" if impl["ok"].get("isArray") else "D"
    return "key/%s/%s/%s/%s/%s" % (lit_class(case["key"]), o.get("MaxIdx"), o.get("EnableNumKeys"), o.get("PathSep"), shape)
