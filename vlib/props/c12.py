"""C12 — path-addressed reads, writes and removals behave like a tree."""
from ..gens import *

ID = "C12"
LEAN_MODULE = "Ucfg.Props.C12"
LEVEL_TEXT = 'Get/Set/Remove/Has theorems on the path model: read-your-writes for WHOLE paths (pathGet_pathSet_same: any path of names and indices, any node, any value - a write that succeeds is read back through the same path; Has follows), the frame of a write (pathSet_named_frame / pathGet_after_set_elsewhere: other names and all list elements of the starting node read as before), single-field laws, removal shifts and handles, has iff get; MODEL_IS_SPEC: any disagreement with the model on a history is a violation.'
CORRESPONDENCE = "Ops.opStep (Path.pathGet/pathSet/pathRemove/pathHas, Conv) ~ (*Config).Set*/SetChild/Remove/Merge/getters/Has/CountField/Child"
RULE = ("operation histories (length <= 25, thorough 60) of Set*/SetChild/Remove/Merge/Child and reads (typed getters, Has, CountField, "
        "IsDict/IsArray/GetFields) over a small overlapping address space: names a,b,c, dotted paths, indices 0..3 and past the end, "
        "negative and huge indices, with and without PathSep, on the root and on child handles obtained along the way (a handle is "
        "dropped by the generator when an operation may detach its node; handles on list elements are kept across removals in front of "
        "them and must follow their node); after every step the whole root is unpacked and compared "
        "with the model's tree (state comparison), at the end every handle's view. Non-trivial: the history has a write followed by "
        "a read or removal at an overlapping address. Distinct by the multiset of (op kind, address class, outcome).")
TRUSTED_BASE = ["Lean 4 kernel", "extractor: guards of idxField.GetValue/SetValue, fields.delAt, parseField",
                "Model/Path.lean, Ops.lean transcribe path.go/getset.go (differential check)", "correspondence harness"]
MODEL_IS_SPEC = True
ASSUMPTIONS = ["reference-free configs", "a handle is modelled as the absolute path of its node; histories that detach a live handle's "
               "node are generated only for C15/C10 (identity-level model)"]

NAMES = ["a", "b", "c"]
SETVALS = [I(5), I(-2), U(7), S("s"), S("12"), S("true"), B(True), F(0x3ff8000000000000), F(0x7ff8000000000001), S("0x10"), S("")]


def rand_addr(rng, sep):
    """(name, idx)"""
    r = rng.below(10)
    segs = [rng.pick(NAMES) for _ in range(1 + rng.below(2 if sep else 1))]
    if sep and rng.chance(0.3):
        segs.insert(rng.below(len(segs)) + 1, str(rng.below(4)))
    name = (sep or ".").join(segs) if sep else segs[0]
    if not sep and rng.chance(0.25):
        name = str(rng.below(4))          # without a separator a name that spells an index is still that index
    idx = -1
    if r < 3:
        idx = rng.below(5)
    elif r == 3:
        name, idx = "", rng.below(4)
    elif r == 4 and rng.chance(0.3):
        idx = rng.pick([-5, -2, 1 << 40, 2000])
    return name, idx


def gen(rng, tier):
    n = 400 if tier == "quick" else 3000
    maxlen = 25 if tier == "quick" else 60
    for _ in range(n):
        sep = rng.pick(["", ".", "."])
        base_opts = [opt("PathSep", sep)] if sep else []
        init = rand_dict(rng, 3, 0) if rng.chance(0.7) else M([])
        ops = []
        live = [0]           # usable handles
        nh = 1
        kinds = set()
        wrote = set()
        nt = False
        for _ in range(1 + rng.below(maxlen)):
            h = rng.pick(live)
            name, idx = rand_addr(rng, sep)
            k = rng.wpick([(30, "set"), (6, "setchild"), (10, "remove"), (5, "merge"), (8, "child"), (22, "get"), (8, "has"), (5, "count"), (6, "info")])
            o = {"op": k, "h": h, "name": name, "idx": idx, "opts": list(base_opts)}
            if k == "set":
                o["val"] = rng.pick(SETVALS)
                wrote.add(name)
            elif k == "setchild":
                o["val"] = rand_dict(rng, 2, 0) if rng.chance(0.8) else A([rand_leaf(rng) for _ in range(rng.below(3))])
                o["copts"] = []
                wrote.add(name)
            elif k == "merge":
                o["from"] = rand_dict(rng, 2, 0)
                if rng.chance(0.3):
                    o["opts"].append(opt(rng.pick(["Replace", "ReplaceArr", "Append", "Prepend"])))
                del o["name"], o["idx"]
            elif k == "get":
                o["type"] = rng.pick(["Bool", "Int", "Uint", "Float", "String"])
                nt = nt or name in wrote
            elif k == "count":
                o["name"] = rng.pick(NAMES + [""])
                del o["idx"]
            elif k == "info":
                del o["name"], o["idx"]
            elif k == "remove":
                nt = nt or name in wrote
            ops.append(o)
            if k == "remove" and rng.chance(0.5):
                # look at the container the element was removed from (emptied lists stay lists)
                ops.append({"op": "count", "h": h, "name": name.split(sep)[0] if sep else name})
                if idx >= 0 and rng.chance(0.6):
                    ops.append({"op": "remove", "h": h, "name": name, "idx": 0, "opts": list(base_opts)})
                    ops.append({"op": "remove", "h": h, "name": name, "idx": 0, "opts": list(base_opts)})
                    ops.append({"op": "count", "h": h, "name": name.split(sep)[0] if sep else name})
            kinds.add(k + ("@h" if h else "") + ("#" if idx >= 0 else "") + ("." if sep and sep in name else ""))
            if k == "child":
                # the worker appends a handle only on success; we learn that from the run, so the generator
                # assumes success only for addresses it has just written as containers - simplest: never reuse
                pass
            # an operation that may detach nodes invalidates every non-root handle
            if k in ("setchild", "remove", "merge", "set"):
                live = [0]
        yield {"k": "ops", "init": init, "optsInit": list(base_opts), "ops": ops, "_tag": "ops/" + (sep or "nosep"),
               "_sig": ",".join(sorted(kinds)), "_nt": nt}
    # directed histories through child handles: build a child, take a handle, write through it, read via the parent
    for _ in range(n // 2):
        sep = "."
        bo = [opt("PathSep", sep)]
        key = rng.pick(NAMES)
        ops = [{"op": "setchild", "h": 0, "name": key, "idx": -1, "val": rand_dict(rng, 2, 0), "copts": [], "opts": bo},
               {"op": "child", "h": 0, "name": key, "idx": -1, "opts": bo}]
        kinds = set()
        for _ in range(2 + rng.below(8)):
            name, idx = rand_addr(rng, sep)
            k = rng.wpick([(5, "set"), (1, "remove"), (4, "get"), (2, "has"), (1, "info")])
            h = 1
            o = {"op": k, "h": h, "name": name, "idx": idx, "opts": bo}
            if k == "set":
                o["val"] = rng.pick(SETVALS)
            if k == "get":
                o["type"] = rng.pick(["Bool", "Int", "Uint", "Float", "String"])
            if k == "info":
                del o["name"], o["idx"]
            if rng.chance(0.15):
                # a merge into the parent that touches the handle's key: the handle stays a live view
                ops.append({"op": "merge", "h": 0, "from": M([(key, rand_dict(rng, 2, 0))] + ([(rng.pick([x for x in NAMES if x != key]), rand_leaf(rng))] if rng.chance(0.5) else [])), "opts": bo})
                kinds.add("merge@parent")
            ops.append(o)
            # read the same address through the parent with the dotted path
            if k == "set" and name and rng.chance(0.7):
                ops.append({"op": "get", "h": 0, "type": "String", "name": key + sep + name, "idx": idx, "opts": bo})
            kinds.add(k + "@child")
        yield {"k": "ops", "init": M([]), "optsInit": bo, "ops": ops, "cmpHandles": True, "_tag": "ops/child", "_sig": "child:" + ",".join(sorted(kinds)), "_nt": True}


    # handles on list elements that are shifted by removals in front of them: a handle follows its node
    for _ in range(n // 4):
        sep = "."
        bo = [opt("PathSep", sep)]
        m = 3 + rng.below(3)
        L = [M([("x%d" % i, U(i + 1))] + ([("inner", A([M([("q", U(9))]), U(5)]))] if rng.chance(0.3) else [])) for i in range(m)]
        init = M([("l", A(L)), ("keep", U(1))])
        ops = []
        handles = {}          # handle number -> current index of its element (generator's bookkeeping)
        nh = 0
        kinds = set()
        for _ in range(1 + rng.below(2)):
            j = 1 + rng.below(m - 1)
            nh += 1
            if rng.chance(0.5):
                ops.append({"op": "child", "h": 0, "name": "l", "idx": j, "opts": bo})
            else:
                ops.append({"op": "child", "h": 0, "name": "l.%d" % j, "idx": -1, "opts": bo})
            handles[nh] = j
        length = m
        for _ in range(2 + rng.below(6)):
            r = rng.below(10)
            live = [h for h, j in handles.items() if j is not None]
            if r < 3 and length > 1:
                i = rng.below(length)
                ops.append({"op": "remove", "h": 0, "name": "l", "idx": i, "opts": bo})
                length -= 1
                for h, j in list(handles.items()):
                    if j is None: continue
                    handles[h] = None if j == i else (j - 1 if j > i else j)
                kinds.add("remove-before" if any(j is not None for j in handles.values()) else "remove")
            elif r < 7 and live:
                h = rng.pick(live)
                nm = rng.pick(["w", "x0", "z.y"])
                ops.append({"op": "set", "h": h, "name": nm, "idx": -1, "val": rng.pick(SETVALS), "opts": bo})
                ops.append({"op": "get", "h": 0, "type": "String", "name": "l.%d.%s" % (handles[h], nm), "idx": -1, "opts": bo})
                kinds.add("write-through-handle")
            elif r < 9 and live:
                h = rng.pick(live)
                nm = rng.pick(["v", "x1"])
                ops.append({"op": "set", "h": 0, "name": "l.%d.%s" % (handles[h], nm), "idx": -1, "val": rng.pick(SETVALS), "opts": bo})
                ops.append({"op": "get", "h": h, "type": "String", "name": nm, "idx": -1, "opts": bo})
                kinds.add("write-through-parent")
            elif live:
                ops.append({"op": "info", "h": rng.pick(live)})
        if any(j is None for j in handles.values()):
            continue          # a handle into a removed element is a detached config: outside the tree model
        yield {"k": "ops", "init": init, "optsInit": bo, "ops": ops, "cmpHandles": True, "_tag": "ops/shifted-handle",
               "_sig": "shift:" + ",".join(sorted(kinds)) + ":%d" % len(handles), "_nt": True}
    # trees whose children have been attached under further names, renamed, removed and then copied (identity-level model of
    # C05/C10/C15): every setting of the tree is still there under its name afterwards
    from .. import forest as FO
    frng = rng.fork("forest")
    for _ in range(100 if tier == "quick" else 1000):
        yield FO.history(frng, tier, refs=False, reads=False, flavour="c05")


def oracle(case, impl, model):
    if case.get("k") == "forest":
        from .. import forest as FO
        return FO.oracle_for("C05")(case, impl, model)
    return None


def normalize_pair(case, impl, model):
    if case.get("k") == "forest":
        from .. import forest as FO
        return FO.normalize_pair(case, impl, model)
    return model, impl          # engine: C.same(first, second) reads the first as the model (covering comparison of errors)


def fix_candidate(cand, base):
    if cand.get("k") == "forest":
        from .. import forest as FO
        return FO.fix_candidate(cand, base)
    return cand


def nontrivial(case, impl):
    return bool(case.get("_nt"))


def sig(case, impl):
    outs = set()
    if isinstance(impl, dict):
        for s in impl.get("steps", []) or []:
            r = s.get("r", {})
            outs.add("ok" if "ok" in r else ("err:" + r["err"].get("reason", "?") if "err" in r else "crash"))
    return case.get("_sig", "") + "|" + ",".join(sorted(outs))
