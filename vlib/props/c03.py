"""C03 — typed unpacking preserves the value or fails - it never wraps around."""
import struct
from ..gens import *

ID = "C03"
LEAN_MODULE = "Ucfg.Props.C03"
LEVEL_TEXT = 'Characterisation theorems for every float64 bit pattern and every target width through the guards regenerated from types.go (float_toInt, float_toUint, int_never_wraps, duration_*); Spec.C03 as oracle; exact dyadic float arithmetic, no floats in Lean.'
CORRESPONDENCE = "PrimUnpack.reifyPrim / Conv.Prim.to* ~ (*Config).Unpack into struct{V T} and the typed getters"
RULE = ("boundary-directed: for each of the 14 primitive kinds + time.Duration (plus pointer-to and named variants) the values "
        "{min-1,min,min+1,-1,0,1,max-1,max,max+1} of every sized type, +-2^63, 2^64, 2^53+-1, NaN, +-Inf, +-0, subnormals, the floats "
        "adjacent to each integer boundary, random bit patterns, duration boundaries (+-9223372036 s), and strings in every literal "
        "syntax (0x, 0o, 0b, underscores, signs, exponents, inf, nan, durations); each value literal and behind ${...}; plus the typed "
        "getters (kind 'ops'). Oracle: Spec.C03.specConv (exact value, range, truncation toward zero, seconds). Plus: reads through a reference after the referenced setting held another value and was read once ('before'). Non-trivial: the value "
        "is not representable in, or lies on a boundary of, the target. Distinct by (source kind, target kind, decision of the oracle, "
        "boundary class).")
TRUSTED_BASE = ["Lean 4 kernel", "extractor: guards of cfgFloat.toInt/toUint, cfgUint.toInt, cfgInt.toUint (regenerated from types.go)",
                "F64 (Base/F64.lean): float64 decode/round/multiply as exact integer arithmetic, validated differentially",
                "strconv.ParseFloat, time.ParseDuration, fmt %v as parameters (answered by the real stdlib during the run)",
                "amd64 result of out-of-range float->int conversions (only reachable when a guard is wrong)", "correspondence harness"]
ASSUMPTIONS = ["for float targets 'exactly the value' means the correctly rounded value (via float64)",
               "float seconds -> Duration means trunc(float64(f*1e9))"]

TARGETS = ["bool", "string", "int", "int8", "int16", "int32", "int64", "uint", "uint8", "uint16", "uint32", "uint64",
           "float32", "float64", "duration", "named-int8", "named-uint16", "named-float32", "named-string", "named-bool"]


def fbits(x):
    return struct.unpack(">Q", struct.pack(">d", x))[0]


def ints():
    out = set()
    for b in (8, 16, 32, 64):
        for base in (-(1 << (b - 1)), (1 << (b - 1)) - 1, (1 << b) - 1):
            for d in (-1, 0, 1):
                out.add(base + d)
    out |= {-1, 0, 1, 2, 1 << 53, (1 << 53) + 1, (1 << 53) - 1, 9223372036, 9223372037, -9223372036, -9223372037, 1 << 62}
    return sorted(out)


def floats():
    out = set()
    for b in (8, 16, 32, 64):
        for base in (-(1 << (b - 1)), (1 << (b - 1)) - 1, (1 << (b - 1)), (1 << b) - 1, 1 << b):
            f = float(base)
            fb = fbits(f)
            for d in (-1, 0, 1):
                out.add((fb + d) & 0xFFFFFFFFFFFFFFFF)
            out.add(fbits(base + 0.5) if abs(base) < (1 << 50) else fb)
            out.add(fbits(base - 0.5) if abs(base) < (1 << 50) else fb)
    out |= {0, 1 << 63, fbits(0.5), fbits(-0.5), fbits(1.5), fbits(-1.5), fbits(0.1), 1, 0x000FFFFFFFFFFFFF, 0x0010000000000000,
            0x7FF0000000000000, 0xFFF0000000000000, 0x7FF8000000000001, 0x7FF0000000000001, 0xFFF8000000000000,
            fbits(3.4028234663852886e38), fbits(3.4028235677973366e38), fbits(3.5e38), fbits(1e39), fbits(-3.5e38),
            fbits(1e-46), fbits(1.401298464324817e-45), fbits(16777217.0), fbits(9223372036.0), fbits(9223372036.854775),
            fbits(9223372036.854776), fbits(9223372037.0), fbits(-9223372036.854776), fbits(-9223372037.0), fbits(1e10), fbits(1e19),
            fbits(1e300), fbits(2.5), fbits(1e-10), 0x7FEFFFFFFFFFFFFF}
    return sorted(out)


STRINGS = ["0", "1", "-1", "127", "128", "-128", "-129", "255", "256", "0x7f", "0x80", "0xff", "0X100", "0b1111111", "0o177", "0177", "1_000",
           "+5", "-0", "1e3", "1.5", "-1.5", ".5", "1e400", "inf", "-Inf", "NaN", "nan", "Infinity", "0x1p-2", "1_0.5", "true", "false",
           "T", "F", "1", "0", "TRUE", "yes", "on", "", " 1", "1 ", "abc", "9223372036854775807", "9223372036854775808",
           "-9223372036854775808", "18446744073709551615", "18446744073709551616", "1s", "1.5h", "-2m", "100ms", "1h2m3s", "1d", "s",
           "9223372036s", "9223372037s", "2562047h", "2562048h", "1e3s", "3.4028235e38", "3.5e38", "1e39"]


def cls(target, v):
    if v is None: return "nil"
    k = next(iter([x for x in v if x in "iufsb"]), "?")
    return k


def gen(rng, tier):
    vals = [I(x) if x < 0 or (x <= 0) else (I(x) if x < (1 << 63) and rng.chance(0.5) else U(x)) for x in ints() if -(1 << 63) <= x < (1 << 64)]
    vals += [F(b) for b in floats()]
    vals += [S(s) for s in STRINGS]
    vals += [B(True), B(False)]
    full = tier == "thorough"
    for v in vals:
        for t in TARGETS:
            if not full and t.startswith("named-") and rng.chance(0.6):
                continue
            c = {"k": "conv", "v": v, "target": t, "_tag": "conv/" + t}
            if rng.chance(0.2):
                c["ptr"] = True
            yield c
            if rng.chance(0.15 if not full else 0.5):
                yield dict(c, via="ref", _tag="conv-ref/" + t)
                if rng.chance(0.5):
                    # the referenced setting held another value before and was read through the reference once
                    yield dict(c, via="ref", before=rng.pick([U(5), I(-1), S("7"), U(300), S("x")]), _tag="conv-ref-after-change/" + t)
            # integers that arrive as text assembled by variable expansion (two spliced halves, a resolver's answer) and
            # are parsed again
            if ("i" in v or "u" in v) and len(v.get("i", v.get("u"))) >= 2 and rng.chance(0.2 if not full else 0.6):
                yield dict({k: x for k, x in c.items() if k != "ptr"}, via=rng.pick(["splice", "resolver"]), _tag="conv-splice/" + t)
    n = 300 if tier == "quick" else 6000
    for _ in range(n):
        v = F(rng.next()) if rng.chance(0.7) else (I(rng.next() - (1 << 63)) if rng.chance(0.5) else U(rng.next()))
        yield {"k": "conv", "v": v, "target": rng.pick(TARGETS), "_tag": "conv/random"}
    # the typed getters on the same values
    for v in vals:
        for g in ["Bool", "Int", "Uint", "Float", "String"]:
            if not full and rng.chance(0.5):
                continue
            yield {"k": "conv", "v": v, "getter": g, "target": "getter-" + g, "_tag": "getter/" + g}


def nontrivial(case, impl):
    return True


def sig(case, impl):
    out = "ok" if isinstance(impl, dict) and "ok" in impl else ("err" if isinstance(impl, dict) and "err" in impl else "x")
    if True:
        v = case["v"]
        src = [x for x in v if x in "iufsb"][0]
        val = v[src]
        return "conv/%s/%s/%s/%s/%s" % (src, case["target"], out, case.get("via", "lit"), str(val)[:12])
    st = (impl or {}).get("steps") or [{}]
    r = st[0].get("r", {})
    return "getter/%s/%s/%s" % (case["ops"][0]["type"], "ok" if "ok" in r else "err", str(case["init"])[:40])
