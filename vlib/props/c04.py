"""C04 — a successful Unpack returns only values that satisfy every declared validator."""
import json
from ..gens import *
from .. import typegen as TG
from .. import catalog as CAT

ID = "C04"
LEAN_MODULE = "Ucfg.Props.C04"
LEVEL_TEXT = "Per-constructor validation theorems over the typed Unpack model, lifted to whole targets: unpack_flat_valid (structs of primitive fields) and unpack_plain_valid / unpack_plain_list_valid / unpack_plain_map_valid (structs, pointers, slices, fixed-size arrays and maps nested to any depth, any tags except inline, any validators, any well-shaped pre-filled value and any configuration: a nil error implies recValidate reports nothing; one induction over the fuel with a claim per model function, results keep the shape of the type - the attempt exposed defect D43). For interface{} / inline / regexp / Config targets the lifted statement is PARTIAL: it is the Lean-evaluated oracle on the implementation's result over type-directed cases and a catalogue of named types with Validate/InitDefaults."
CORRESPONDENCE = "Unpack.{unpack,mergeValue,reifyValue,reifyMapT,reifyStructT,sliceMerge,doArray,recValidate,runValidators} ~ (*Config).Unpack into reflect.StructOf targets"
RULE = ("Plus: values with validators held in interface{} fields, map entries and list elements of a pre-filled hand-written target (kind ifaceheld; the result is checked by reflection in the worker: after a nil error no reachable value violates its tag or is rejected by its own Validate method), and the path of the one injected fault named by the error - also in lists that reached their length by a later merge. Main stream: type generator (structs nested through pointers, slices, arrays, maps, interface{} and inline fields, depth <= 4, random config "
        "tags incl. rename/inline/ignore/append/prepend/replace, random validate tags incl. duration bounds) realised with "
        "reflect.StructOf, x a configuration mentioning a random subset of the fields with valid values or one value violating a "
        "validator / of the wrong kind, x a pre-filled target (zero, valid, or invalid at a random position). Oracle (Lean): when Unpack "
        "returns nil, recValidate on the populated target - every validator of every reachable field, through pointers, slices, arrays, "
        "maps - reports nothing; success/failure and the stored values must equal the model's. Plus: null settings inside lists and maps for element types that have to be created (pointers to arrays / slices / structs); two validator namespaces (ValidatorTag) on one type in one process; named slice / map types with Validate (catalogue); interface{} fields with every validator spelling receiving scalars, lists, objects and nulls (D50). Non-trivial: the type declares at least "
        "one validator. Distinct by (type signature, which fields are mentioned, pre-fill class, outcome).")
TRUSTED_BASE = ["Lean 4 kernel", "Model/Unpack.lean transcribes reify.go/validator.go over the type universe Ty (differential check)",
                "reflect's behaviour (kinds, addressability, Convert) as modelled", "Stdlib parameters (ParseFloat, ParseDuration, regexp)",
                "correspondence harness"]
ASSUMPTIONS = ["no user types with Validate()/InitDefaults()/Unpack() methods (reflect.StructOf cannot give them methods); the catalogue of "
               "named types with methods is exercised by kind 'catalog' only against recorded expectations",
               "reference-free configurations in the typed model (C03 covers primitives behind references)"]


def ifaceheld_cases(irng, tier):
    """values with validators held in interface{} fields, map entries and list elements of the pre-filled target (kind
    ifaceheld, checked on the result by reflection in the worker): settings for other keys / elements, for the held values
    themselves, nulls, nothing; structs and fixed-size arrays held by value and by pointer"""
    for i in range(150 if tier == "quick" else 1500):
        def held(bad):
            r = irng.below(6)
            if r == 0: return {"plain": U(3)}
            if r == 1: return None
            if bad and irng.chance(0.4):
                # passes its tag, rejected by its own Validate() method
                return {"max": 2 + irng.below(5), "name": "bad", "ptr": irng.chance(0.4)}
            return {"max": (0 if bad else 2 + irng.below(5)), "ptr": irng.chance(0.4)}
        nm = 1 + irng.below(3)
        badk = irng.below(nm) if irng.chance(0.6) else None
        m = {"k%d" % j: held(j == badk) for j in range(nm)}
        nl = irng.below(3)
        badl = irng.below(nl) if nl and irng.chance(0.4) else None
        l = [held(j == badl) for j in range(nl)]
        ih = held(irng.chance(0.2))
        # the configuration: other keys of the map (values, nulls, objects), settings for some of the held values, or nothing
        ms = []
        for j in range(irng.below(3)):
            k = irng.pick(["k%d" % (nm + j), "k%d" % irng.below(nm)])
            if any(k == k2 for k2, _ in ms): continue
            ms.append((k, irng.pick([None, None, U(5), S("x"), M([("max", U(4))]), M([("name", S("n"))])])))
        top = []
        if ms or irng.chance(0.3): top.append(("m", M(ms)))
        if irng.chance(0.4): top.append(("l", A([irng.pick([None, U(1), M([("name", S("q"))])]) for _ in range(irng.below(3))])))
        if irng.chance(0.3): top.append(("i", irng.pick([None, U(2), M([("name", S("z"))])])))
        top.append(("n", U(1)))
        uopts = [opt(irng.pick(["Append", "Prepend", "Replace"]))] if irng.chance(0.2) else []
        yield {"k": "ifaceheld", "m": m, "l": l, "ih": ih, "from": M(top), "copts": [], "uopts": uopts, "_tag": "ifaceheld", "_nt": True,
               "_sig": "ifaceheld|%s|%s|%d|%d" % (badk is not None, badl is not None, len(ms), len(top))}


def gen(rng, tier):
    n = 1500 if tier == "quick" else 15000
    for _ in range(n):
        ty = TG.rand_type(rng, 1 + rng.below(3 if tier == "quick" else 4), top=True)
        mode = rng.wpick([(5, "valid"), (3, "validator"), (2, "other-fault"), (2, "prefilled")])
        old = None
        if mode == "prefilled" or rng.chance(0.3):
            old = TG.rand_value(rng, ty)
        cfg = TG.config_for(rng, ty, 3, None)
        valid, fault = None, None
        if mode in ("validator", "other-fault"):
            # one fault injected into a configuration; the fault-free twin lets the model tell whether it is the only one
            pts = [p for p in TG.fault_points(ty, cfg) if p[1].startswith("validator") == (mode == "validator")]
            if pts:
                path, kind, repl = rng.pick(pts)
                valid, cfg, fault = cfg, TG.replace_at(cfg, path, repl), kind
        uopts = []
        if rng.chance(0.15):
            uopts.append(opt(rng.pick(["Append", "Prepend", "Replace", "ReplaceArr"])))
        has_v = "!" in TG.type_sig(ty, 4)
        c = {"k": "unpack", "ty": ty, "old": old, "from": cfg, "copts": [], "uopts": uopts,
             "strictErr": bool(fault is not None and not TG.has_inline_map(ty) and old is None),
             "_tag": "unpack/" + mode + ("/" + fault if fault else ""), "_nt": has_v,
             "_sig": "%s|%s|%s|%s|%s" % (TG.type_sig(ty), mode, fault, "old" if old else "zero", ",".join(k for k, _ in cfg["m"]))}
        if valid is not None:
            c["validFrom"] = valid
            if c["strictErr"] and not uopts:
                # "... makes Unpack fail with an error naming that field": the one injected fault is the one reported, by its
                # path - also when the list it sits in reached its length by a later merge
                c["faultPath"] = ".".join(path)
                if rng.chance(0.3):
                    from . import c14
                    how = c14.grow_by_merge(rng, c, cfg)
                    if how:
                        c["_tag"] += "+grown"
        yield c
    # a validator fault inside a list element, the list having reached its length by a later merge (append / prepend / a
    # longer list): the error names the element by the index it has in the merged configuration
    grng = rng.fork("grown-lists")
    from . import c14
    made = 0
    for _ in range(4000):
        if made >= (120 if tier == "quick" else 1200):
            break
        ty = TG.rand_type(grng, 2 + grng.below(2), top=True)
        if TG.has_inline_map(ty):
            continue
        valid = TG.config_for(grng, ty, 3, None, mention=1.0)
        pts = [p for p in TG.fault_points(ty, valid) if p[1].startswith("validator") and any(seg.isdigit() for seg in p[0])]
        if not pts:
            continue
        path, kind, repl = grng.pick(pts)
        cfg = TG.replace_at(valid, path, repl)
        c = {"k": "unpack", "ty": ty, "old": None, "from": cfg, "validFrom": valid, "copts": [], "uopts": [], "strictErr": True,
             "faultPath": ".".join(path), "_tag": "unpack/validator-in-grown-list", "_nt": True,
             "_sig": "grownlist|%s|%d|%s" % (kind, len(path), TG.type_sig(ty, 1))}
        how = c14.grow_by_merge(grng, c, cfg)
        if not how:
            continue
        c["_sig"] += "|" + how
        made += 1
        yield c
    yield from ifaceheld_cases(rng.fork("ifaceheld"), tier)
    # pre-filled containers holding one element that violates a validator, under every list policy (tag and option): the
    # defaults are validated "just as if the values came from the configuration", wherever the policy leaves them
    prng = rng.fork("prefilled-invalid")
    for _ in range(n // 6):
        elem_struct = prng.chance(0.6)
        if elem_struct:
            ety = TG.T("struct", f=[{"n": "N", "tag": "", "v": prng.pick(["min=1", "nonzero", "positive", "max=5"]), "ty": TG.T(prng.pick(["int", "uint8", "float64", "int16"]))},
                                    {"n": "S", "tag": "", "v": "", "ty": TG.T("string")}])
            vtag = ety["f"][0]["v"]; nk = ety["f"][0]["ty"]["t"]
            def mk(goodv):
                x = (3 if goodv else {"min=1": 0, "nonzero": 0, "positive": -1, "max=5": 9}[vtag])
                if nk.startswith("u") and x < 0: x = 0 if vtag != "positive" else 3
                enc = {"f": "%016x" % TG._fbits(x)} if nk.startswith("float") else ({"u": str(x)} if nk.startswith("u") else {"i": str(x)})
                return {"st": [enc, {"s": "v"}]}
            def cfgel(): return M([("n", U(4)), ("s", S("c"))])
            ftag_v = ""
        else:
            nk = prng.pick(["int", "uint16", "float32"])
            ety = TG.T(nk)
            ftag_v = prng.pick(["min=1", "nonzero", "positive"])      # a validator on the list field applies to the list, elements are primitives
            def mk(goodv):
                x = 3 if goodv else 0
                return {"f": "%016x" % TG._fbits(x)} if nk.startswith("float") else ({"u": str(x)} if nk.startswith("u") else {"i": str(x)})
            def cfgel(): return U(4)
        pol_tag = prng.pick(["", ",append", ",prepend", ",replace", ",merge"])
        kind = prng.pick(["slice", "slice", "map", "array"])
        nold = 1 + prng.below(3)
        badpos = prng.below(nold) if prng.chance(0.7) else None
        if kind == "slice":
            fty = TG.T("slice", e=ety); oldv = {"sl": [mk(i != badpos) for i in range(nold)]}
            setting = A([cfgel() for _ in range(prng.below(3))])
        elif kind == "array":
            fty = TG.T("array", n=nold, e=ety); oldv = {"ar": [mk(i != badpos) for i in range(nold)]}
            setting = A([cfgel() for _ in range(nold)])
        else:
            fty = TG.T("map", e=ety); oldv = {"mp": {"k%d" % i: mk(i != badpos) for i in range(nold)}}
            setting = M([("k%d" % (nold + i), cfgel()) for i in range(prng.below(2))] + ([("k0", cfgel())] if prng.chance(0.3) else []))
        ty = TG.T("struct", f=[{"n": "L", "tag": "l" + pol_tag, "v": ftag_v if kind != "map" else "", "ty": fty}, {"n": "Z", "tag": "", "v": "", "ty": TG.T("int")}])
        mention = prng.chance(0.8)
        cfg = M(([("l", setting)] if mention else []) + [("z", U(1))])
        uopts = [opt(prng.pick(["Append", "Prepend", "Replace", "ReplaceArr"]))] if prng.chance(0.25) else []
        yield {"k": "unpack", "ty": ty, "old": {"st": [oldv, {"i": "0"}]}, "from": cfg, "copts": [], "uopts": uopts, "strictErr": False,
               "_tag": "unpack/prefilled-invalid/" + kind, "_nt": True,
               "_sig": "prefinv|%s|%s|%s|%s|%s|%s" % (kind, pol_tag, elem_struct, badpos is not None, mention, uopts[0]["o"] if uopts else "")}
    # null settings inside lists and maps: the element the null stands for (a zero value, whatever a nil pointer is replaced
    # by) is part of the result and has to satisfy the validators declared inside it
    nrng = rng.fork("null-elements")
    for _ in range(n // 6):
        S_ = TG.T("struct", f=[{"n": "A", "tag": "a", "v": nrng.pick(["required", "min=1", "nonzero", "positive", ""]), "ty": TG.T(nrng.pick(["int", "string", "float64", "uint8"]))},
                               {"n": "B", "tag": "b", "v": "", "ty": TG.T("string")}])
        if S_["f"][0]["ty"]["t"] == "string" and S_["f"][0]["v"] in ("min=1", "positive"):
            S_["f"][0]["v"] = "required"
        def good():
            return M([("a", TG.good_scalar(nrng, S_["f"][0]["ty"]["t"], S_["f"][0]["v"])[1]), ("b", S("x"))])
        ek = nrng.pick(["S", "ptrS", "ptrArr", "ptrSlice", "arr", "ptrptrArr", "ptrInt", "sliceS"])
        ety = {"S": S_, "ptrS": TG.T("ptr", e=S_), "ptrArr": TG.T("ptr", e=TG.T("array", n=1 + nrng.below(2), e=S_)),
               "ptrSlice": TG.T("ptr", e=TG.T("slice", e=S_)), "arr": TG.T("array", n=1, e=S_),
               "ptrptrArr": TG.T("ptr", e=TG.T("ptr", e=TG.T("array", n=1, e=S_))),
               "ptrInt": TG.T("ptr", e=TG.T("int")), "sliceS": TG.T("slice", e=S_)}[ek]
        def el(nullp):
            if nrng.chance(nullp):
                return None
            if ek in ("S", "ptrS"): return good()
            if ek in ("ptrSlice", "sliceS"): return A([good() for _ in range(nrng.below(3))])
            if ek == "ptrInt": return U(3)
            return None if ek in ("ptrArr", "ptrptrArr") else A([good()])
        ck = nrng.pick(["slice", "map", "array", "field"])
        if ck == "slice":
            fty = TG.T("slice", e=ety); setting = A([el(0.5) for _ in range(1 + nrng.below(3))])
        elif ck == "array":
            k = 1 + nrng.below(2)
            fty = TG.T("array", n=k, e=ety); setting = A([el(0.5) for _ in range(k)])
        elif ck == "map":
            fty = TG.T("map", e=ety); setting = M([("k%d" % i, el(0.5)) for i in range(1 + nrng.below(3))])
        else:
            fty = ety; setting = el(0.7)
        ty = TG.T("struct", f=[{"n": "L", "tag": "l", "v": "", "ty": fty}, {"n": "Z", "tag": "", "v": "", "ty": TG.T("int")}])
        old = None
        if nrng.chance(0.3):
            old = TG.rand_value(nrng, ty)
        yield {"k": "unpack", "ty": ty, "old": old, "from": M([("l", setting), ("z", U(1))]), "copts": [], "uopts": [], "strictErr": False,
               "_tag": "unpack/null-elements/" + ck, "_nt": True,
               "_sig": "nullel|%s|%s|%s|%s|%s" % (ck, ek, S_["f"][0]["v"], S_["f"][0]["ty"]["t"], "old" if old else "zero")}
    # two validator namespaces on one struct type (ValidatorTag option), one call after the other in one process: the validators
    # a call applies are the ones of the tag it asked for
    vrng = rng.fork("validator-tags")
    for _ in range(n // 8):
        fs, kv = [], []
        for i in range(1 + vrng.below(3)):
            kind = vrng.pick(["int", "float64", "uint16", "string"])
            pool = ["required", "nonzero"] if kind == "string" else ["min=1", "max=5", "positive", "nonzero", "min=3", "max=0"]
            f = {"n": "F%d" % i, "tag": "f%d" % i, "v": vrng.pick(pool + [""]), "ty": TG.T(kind), "valt": vrng.pick(pool + [""])}
            fs.append(f)
            r = vrng.below(4)
            if r == 0:
                continue
            which = f["v"] if r == 1 else f["valt"]
            if r == 3 or not which:
                val = TG.good_scalar(vrng, kind, "")[1]
            else:
                class R:
                    def pick(self, xs): return vrng.pick(xs)
                    def chance(self, p): return vrng.chance(p)
                val = TG.violating(R(), kind, which) or TG.good_scalar(vrng, kind, "")[1]
            kv.append((f["tag"], val))
        ty = TG.T("struct", f=fs)
        alt = [opt("ValidatorTag", "valt")]
        first_default = vrng.chance(0.5)
        c = {"k": "unpack", "ty": ty, "old": None, "from": M(kv), "copts": [], "strictErr": False,
             "uopts": alt if first_default else [], "warmOpts": [] if first_default else alt,
             "_tag": "unpack/validator-tags/" + ("default-then-alt" if first_default else "alt-then-default"), "_nt": True,
             "_sig": "vtags|%s|%s|%s" % (first_default, ",".join(f["v"] + "/" + f["valt"] for f in fs), ",".join(k for k, _ in kv))}
        yield c
    # interface{} fields with validators: the value an interface receives is validated like a typed one (D50)
    irng = rng.fork("iface-validators")
    ivals = [I(0), I(1), I(-1), I(5), S(""), S("x"), F(0), F(0x4004000000000000), A([]), A([I(1)]), M([]), M([("k", I(1))]), None, B(False)]
    ivs = ["required", "nonzero", "positive", "min=1", "min=3", "max=2", "min=2, max=9", "min", "max=x", "nonzero, min=1"]
    for _ in range(n // 6):
        fs, kv = [], []
        for nm in TG.FIELD_NAMES[:1 + irng.below(3)]:
            fs.append({"n": nm, "tag": "", "v": irng.pick(ivs) if irng.chance(0.85) else "", "ty": TG.T("iface")})
            if irng.chance(0.85):
                kv.append((nm.lower(), irng.pick(ivals)))
        yield {"k": "unpack", "ty": TG.T("struct", f=fs), "old": None, "from": M(kv), "copts": [], "uopts": [], "strictErr": False,
               "_tag": "unpack/iface-validators", "_nt": True}
    # named types with Validate / InitDefaults methods next to their method-less twins
    crng = rng.fork("catalog")
    for _ in range(n // 4):
        yield CAT.cat_case(crng)


def normalize_pair(case, impl, model):
    if case.get("k") == "catalog":
        return CAT.normalize_pair(case, impl, model)
    if case.get("k") == "ifaceheld":
        return {"unmodelled": True}, {"unmodelled": True}     # decided by the oracle on the implementation's result
    return TG.normalize_unpack_pair(case, impl, model)


PTR_DEFAULT_WHY = "a non-nil pointer field passes Unpack although what it points to breaks the field's validate tag"


def ptr_default_violation(ty, val, path=""):
    """the open finding D55: a struct field of type pointer to a number or string that is non-nil in the result while the
    value it points to breaks min / max / positive (numbers) or nonzero (strings) of its tag. Whatever the configuration
    sets is validated as the value itself, so such a result can only be a pre-filled default the configuration left alone.
    Decides only the unambiguous validator spellings; returns the path of the field or None."""
    import re
    if not isinstance(ty, dict) or not isinstance(val, dict):
        return None
    t = ty.get("t")
    if t == "ptr":
        return ptr_default_violation(ty["e"], val.get("p"), path) if isinstance(val.get("p"), dict) else None
    if t != "struct" or not isinstance(val.get("st"), list):
        return None
    for f, x in zip(ty["f"], val["st"]):
        fty = f["ty"]
        here = path + "." + f["n"]
        if "ignore" in (f.get("tag") or "") or not f["n"][:1].isupper():
            continue
        if fty.get("t") == "ptr" and isinstance(x, dict) and isinstance(x.get("p"), dict):
            inner, pv = fty["e"], x["p"]
            k = inner.get("t")
            for tok in [z.strip() for z in (f.get("v") or "").split(",") if z.strip()]:
                m = re.fullmatch(r"(min|max)=(-?\d+)", tok)
                if k in TG.INT_KINDS + TG.UINT_KINDS and ("i" in pv or "u" in pv):
                    n = int(pv.get("i", pv.get("u")))
                    if m and ((m.group(1) == "min" and n < int(m.group(2))) or (m.group(1) == "max" and n > int(m.group(2)))):
                        return here
                    if tok == "positive" and n < 0:
                        return here
                if k == "string" and tok == "nonzero" and pv.get("s") == "":
                    return here
            r = ptr_default_violation(inner, pv, here)
            if r:
                return r
        elif fty.get("t") == "struct":
            r = ptr_default_violation(fty, x, here)
            if r:
                return r
    return None


def known_class(case, impl, why):
    return "D55" if (why or "").startswith(PTR_DEFAULT_WHY) else None


def oracle(case, impl, model):
    if case.get("k") == "unpack" and isinstance(impl, dict) and isinstance(impl.get("ok"), dict):
        where = ptr_default_violation(case.get("ty"), impl["ok"])
        if where:
            return (False, PTR_DEFAULT_WHY + " (" + where + ")")
    if case.get("k") == "ifaceheld":
        if not isinstance(impl, dict):
            return (False, "no result")
        if "panic" in impl or "fatal" in impl:
            return (False, "Unpack crashed: " + json.dumps(impl)[:200])
        ok = impl.get("ok")
        if isinstance(ok, dict) and ok.get("invalidReachable"):
            return (False, "Unpack returned nil but the result holds a value that violates its validate tag at %s (held in an interface)"
                    % ", ".join(ok["invalidReachable"][:4]))
        return (True, "")
    return CAT.oracle_c04(case, impl, model)


def fix_candidate(cand, base):
    if cand.get("k") == "ifaceheld":
        from .. import forest as FO
        if not FO.wellformed_data(cand.get("from")) or not isinstance(cand.get("m"), dict) or not isinstance(cand.get("l"), list):
            return None
        return cand
    return TG.fix_typed_candidate(cand, base)


def check_facts(facts):
    """the struct tags the harness writes (`config`, `validate`) are the ones the code reads by default (opts.go makeOptions,
    regenerated on every run)"""
    d = (facts.get("info") or {}).get("defaultTagNames", "")
    if '("config", "validate")' not in d:
        return "opts.go makeOptions no longer reads the struct tags config / validate by default: " + d
    return None


def nontrivial(case, impl):
    return bool(case.get("_nt"))


def sig(case, impl):
    out = "ok" if isinstance(impl, dict) and "ok" in impl else ("err:" + str((impl or {}).get("err", {}).get("reason")) if isinstance(impl, dict) else "x")
    return case.get("_sig", "") + "|" + out
