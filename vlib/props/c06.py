"""C06 — struct -> Config -> struct is the identity."""
from ..gens import *
from .. import typegen as TG

ID = "C06"
LEAN_MODULE = "Ucfg.Props.C06"
LEVEL_TEXT = 'Round-trip theorems per primitive kind (value -> setting -> same value) and the lift to whole structs of primitive fields (flat_struct_roundtrip: NewFrom(struct) followed by Unpack into the zero value returns exactly the struct, for any number of exported untagged fields with distinct simple names, any options without per-field policies: normalisation keeps a sorted dictionary, the merge into the empty config keeps every entry, the field loop finds and converts each); the lift through tags, pointers, containers and nested structs is PARTIAL and decided by the roundtrip correspondence over generated struct types; known finding D24.'
CORRESPONDENCE = "Normalize.normStructInto + Unpack.unpack ~ ucfg.NewFrom(v) then (*Config).Unpack(&zero)"
RULE = ("struct types from the type generator restricted to the supported kinds (no interface{}, no arrays as map values) with tags "
        "(rename, inline struct - also with a name in the same tag -, ignore, embedded structs, dotted tags reaching into a sibling struct's subtree under PathSep, dotted tags addressing the elements of one list in any order of declaration) x values of those types incl. zero values, extreme numbers (MinInt64, MaxUint64, +-Inf, NaN, "
        "sized-type boundaries), empty and nil collections, nil and non-nil pointers, durations, regular expressions and strings over "
        "'$', '.', ',', braces, quotes and spaces. Oracle: the unpacked value equals the original (nil = empty collection). "
        "Non-trivial: the value has a non-zero field below the top level. Distinct by (type signature, value classes).")
TRUSTED_BASE = ["Lean 4 kernel", "Model/Normalize.lean (struct sources) + Model/Unpack.lean (differential check)",
                "Duration.String / time.ParseDuration round trip (Stdlib parameter, answered by the real stdlib)", "correspondence harness"]
ASSUMPTIONS = ["not claimed by the property: nil pointers as list/map elements, arrays as map values",
               "an inline map next to named fields is the open known finding D24",
               "map keys that are integer literals are list indices by C20 (unless EnableNumKeys) and are not generated as map keys", "ignored fields are compared as zero (they are not transported)"]

STRINGS = ["", "x", "$", "${a}", "a.b", "1,2", "{x}", "[1]", "a:b", "'q'", '"dq"', " sp ", "$$", "${", "日本", "null", "true", "07"]
INT_EDGE = {"int": [-(1 << 63), (1 << 63) - 1, 0, -1, 1], "int8": [-128, 127, 0], "int16": [-32768, 32767], "int32": [-(1 << 31), (1 << 31) - 1],
            "int64": [-(1 << 63), (1 << 63) - 1]}
UINT_EDGE = {"uint": [0, (1 << 64) - 1, 1], "uint8": [0, 255], "uint16": [65535], "uint32": [(1 << 32) - 1], "uint64": [(1 << 64) - 1, 1 << 63]}
FLOATS = [0, 1 << 63, 0x3ff8000000000000, 0x7ff0000000000000, 0xfff0000000000000, 0x7ff8000000000001, 0x7fefffffffffffff, 1, 0x3fb999999999999a]
FLOATS32 = [0, 0x3ff8000000000000, 0x7ff0000000000000, 0x47efffffe0000000, 0x36a0000000000000]


def rt_type(rng, depth, top=False):
    if top or (depth > 0 and rng.chance(0.3)):
        fields = []
        # one struct in eight carries exported names that start with an upper-case letter outside ASCII (unicode.IsUpper /
        # strings.ToLower: Latin-1, Greek, Cyrillic)
        names = TG.FIELD_NAMES if not rng.chance(0.125) else rng.shuffle(["\u00c9mile", "\u03a9mega", "\u00d6l", "\u042frus", "A"])
        for name in names[:1 + rng.below(4)]:
            fty = rt_type(rng, depth - 1)
            tag = ""
            r = rng.below(10)
            if r == 0: tag = name.lower() + "_r"
            elif r == 1 and fty["t"] == "struct":
                # inline with and without a name in front (the name is ignored in both directions)
                tag = rng.pick([",inline", ",inline", name.lower() + "_n,inline"])
            elif r == 2: tag = ",ignore"
            f = {"n": name, "tag": tag, "v": "", "ty": fty}
            if fty["t"] == "struct" and "ignore" not in tag and rng.chance(0.3):
                f["emb"] = True        # an embedded struct: without ',inline' it is a setting named after the field like any other
            fields.append(f)
        # inlined structs must not define a key twice
        seen = set()
        ok = []

        def flat_keys(f):
            # the names a field contributes to its struct's namespace (inlines nest)
            if "ignore" in f["tag"]:
                return []
            if "inline" in f["tag"] and f["ty"]["t"] == "struct":
                return [k for x in f["ty"]["f"] for k in flat_keys(x)]
            return [TG.field_key(f)]
        for f in fields:
            keys = flat_keys(f)
            if "ignore" in f["tag"]:
                ok.append(f); continue
            if any(k in seen for k in keys):
                f = dict(f, tag="")
                keys = [TG.field_key(f)]
                if keys[0] in seen:
                    continue
            seen.update(keys)
            ok.append(f)
        return TG.T("struct", f=ok)
    r = rng.below(20)
    if depth <= 0 or r < 9:
        return TG.rand_prim(rng)
    def small_container():
        k = rng.below(3)
        if k == 0: return TG.T("array", n=1 + rng.below(3), e=TG.rand_prim(rng))
        if k == 1: return TG.T("slice", e=TG.rand_prim(rng))
        return TG.T("map", e=TG.rand_prim(rng))
    if r < 11:
        q = rng.below(10)
        return TG.T("ptr", e=TG.rand_prim(rng) if q < 4 else (rt_type(rng, depth - 1, top=True) if q < 7 else small_container()))
    if r < 14:
        q = rng.below(10)
        return TG.T("slice", e=TG.rand_prim(rng) if q < 6 else (rt_type(rng, depth - 1, top=True) if q < 9 else TG.T("array", n=1 + rng.below(2), e=TG.rand_prim(rng))))
    if r < 15:
        q = rng.below(10)
        return TG.T("array", n=1 + rng.below(3), e=TG.rand_prim(rng) if q < 6 else (rt_type(rng, depth - 1, top=True) if q < 9 else TG.T("ptr", e=TG.rand_prim(rng))))
    if r < 18: return TG.T("map", e=TG.rand_prim(rng) if rng.chance(0.6) else rt_type(rng, depth - 1, top=True))
    if r < 19: return TG.T("ptr", e=TG.T("regexp"))
    return rt_type(rng, depth - 1, top=True)


def rt_value(rng, ty, elem=False):
    t = ty["t"]
    if t in TG.INT_KINDS:
        x = rng.pick(INT_EDGE.get(t, [0])) if rng.chance(0.4) else rng.below(100) - 50
        return {"i": str(x)}
    if t in TG.UINT_KINDS:
        x = rng.pick(UINT_EDGE.get(t, [0])) if rng.chance(0.4) else rng.below(100)
        return {"u": str(x)}
    if t == "float64": return {"f": "%016x" % rng.pick(FLOATS)}
    if t == "float32": return {"f": "%016x" % rng.pick(FLOATS32)}
    if t == "bool": return {"b": rng.chance(0.5)}
    if t == "string": return {"s": rng.pick(STRINGS)}
    if t == "duration": return {"dur": str(rng.pick([0, 1, 1500000000, -3600 * 10**9, 90061 * 10**9, (1 << 63) - 1, 123456789]))}
    if t == "ptr":
        if ty["e"]["t"] == "regexp":
            return {"p": {"re": rng.pick(["a+", "^x$", "", "\\\\d{2}"])}} if (elem or rng.chance(0.7)) else {"p": None}
        if not elem and rng.chance(0.3): return {"p": None}
        return {"p": rt_value(rng, ty["e"])}
    if t == "slice":
        r = rng.below(5)
        if r == 0: return {"sl": None}
        if r == 1: return {"sl": []}
        return {"sl": [rt_value(rng, ty["e"], elem=True) for _ in range(1 + rng.below(3))]}
    if t == "array": return {"ar": [rt_value(rng, ty["e"], elem=True) for _ in range(ty["n"])]}
    if t == "map":
        r = rng.below(5)
        if r == 0: return {"mp": None}
        if r == 1: return {"mp": {}}
        return {"mp": {k: rt_value(rng, ty["e"], elem=True) for k in rng.shuffle(["k", "key two", "a.b", "n0", "x$"])[:1 + rng.below(3)]}}
    if t == "struct":
        return {"st": [TG.zero_val(f["ty"]) if "ignore" in f["tag"] else rt_value(rng, f["ty"]) for f in ty["f"]]}
    return TG.zero_val(ty)


def gen(rng, tier):
    n = 1500 if tier == "quick" else 15000
    for _ in range(n):
        ty = rt_type(rng, 1 + rng.below(3 if tier == "quick" else 4), top=True)
        v = rt_value(rng, ty)
        yield {"k": "roundtrip", "ty": ty, "val": v, "opts": [], "byPtr": rng.chance(0.3), "_tag": "roundtrip", "_nt": True,
               "_sig": TG.type_sig(ty, 3)}
    # dotted tags that reach into the namespace of a sibling struct field (with a path separator): the two spellings
    # of one subtree are combined on the way in and read back through both
    for _ in range(n // 8):
        depth = 1 + rng.below(3)                    # how deep the dotted tag reaches below the sibling's name
        names = ["srv", "tls", "opt", "lvl"][:depth]
        inner = TG.T("struct", f=[{"n": "Cert", "tag": "cert", "v": "", "ty": TG.T("string")}, {"n": "Verify", "tag": "", "v": "", "ty": TG.T("bool")},
                                  {"n": "N", "tag": "", "v": "", "ty": TG.T("int")}])
        for nm in reversed(names[1:]):
            inner = TG.T("struct", f=[{"n": nm.capitalize(), "tag": nm, "v": "", "ty": inner}, {"n": "Other", "tag": "other_" + nm, "v": "", "ty": TG.T("uint8")}])
        dotted = {"n": "Enabled", "tag": ".".join(names + ["enabled"]), "v": "", "ty": TG.rand_prim(rng)}
        nested = {"n": "Srv", "tag": names[0], "v": "", "ty": inner}
        extra = {"n": "Z", "tag": "", "v": "", "ty": TG.rand_prim(rng)}
        fields = [dotted, nested, extra] if rng.chance(0.6) else [nested, dotted, extra]
        if rng.chance(0.3):
            fields.insert(rng.below(3), {"n": "Port", "tag": ".".join(names[:1] + ["port"]), "v": "", "ty": TG.T("uint16")})
        if rng.chance(0.35):
            # a list field and dotted siblings below its name: one node holds the list and the named settings
            fields = [{"n": "Hosts", "tag": "srv", "v": "", "ty": TG.T("slice", e=TG.T(rng.pick(["string", "int", "uint16"])))},
                      {"n": "Name", "tag": "srv.name", "v": "", "ty": TG.T("string")}, {"n": "Port", "tag": "srv.port", "v": "", "ty": TG.T("uint16")}, extra]
            fields = rng.shuffle(fields)
        ty = TG.T("struct", f=fields)
        yield {"k": "roundtrip", "ty": ty, "val": rt_value(rng, ty), "opts": [opt("PathSep", ".")], "byPtr": rng.chance(0.3), "_tag": "roundtrip/dotted-tags",
               "_nt": True, "_sig": "dotted|%d|%s" % (depth, fields[0]["n"])}


    # dotted tags that address the elements of one list, declared in any order (a higher index first pads the lower slots with
    # nulls, which the later fields fill): the fields read their own elements back
    irng = rng.fork("index-tags")
    for _ in range(n // 12):
        base = irng.pick(["hosts", "srv.ports", "l"])
        k = 2 + irng.below(3)
        idxs = irng.shuffle(list(range(k + (1 if irng.chance(0.3) else 0))))[:k]      # sometimes a slot no field addresses
        et = irng.pick(["string", "int", "uint16", "bool"])
        fields = [{"n": "E%d" % i, "tag": "%s.%d" % (base, i), "v": "", "ty": TG.T(et)} for i in idxs]
        if irng.chance(0.4):
            fields.insert(irng.below(len(fields) + 1), {"n": "Z", "tag": "", "v": "", "ty": TG.rand_prim(irng)})
        ty = TG.T("struct", f=fields)
        yield {"k": "roundtrip", "ty": ty, "val": rt_value(irng, ty), "opts": [opt("PathSep", ".")], "byPtr": irng.chance(0.3), "_tag": "roundtrip/index-tags",
               "_nt": True, "_sig": "indextags|%s|%s|%s" % (base, et, ",".join(map(str, idxs)))}


fix_candidate = TG.fix_typed_candidate


def nontrivial(case, impl):
    return True


def sig(case, impl):
    out = "ok" if isinstance(impl, dict) and "ok" in impl else "err"
    return case.get("_sig", "") + "|" + out
