"""C05 — every input shape normalizes to the same canonical tree."""
import json
from ..gens import *

ID = "C05"
LEAN_MODULE = "Ucfg.Props.C05"
LEVEL_TEXT = 'Normalisation theorems for primitives and for combining duplicate definitions, and the lift newFrom_then_reify: for every plain input map (scalars, non-empty lists and string-keyed maps nested to any depth, keys that are single path segments and all different, no variable expansion) NewFrom followed by the generic reify returns exactly the view `expect` written on the data alone (entries sorted by key, positive integers unsigned, durations / regexps as text) - mutual induction over the data (norm_expect), sorted dictionaries, the merge into the empty config as a deep copy (mergeDictP_sorted, reifyP_cpy); representation erasure and partial flattenings are decided by the correspondence over 8 Go representations with permuted map orders (partial).'
CORRESPONDENCE = "Normalize.newFrom/normValue/setField/combineV ~ ucfg.NewFrom"
RULE = ("Plus: a config with a history of writes and removals read as it is and through a config created from it (directly, embedded in a map, embedded in a list): both unpack to the same value. Main stream: plain data trees (depth <= 5, 5-key alphabet, nil/empty containers) in up to 8 Go representations of the same tree "
        "(map[string]interface{}, map[interface{}]interface{}, typed maps/slices, [N]T, pointers, alternating pointer/interface layers, reflect.StructOf structs with tags, "
        "*Config embedded at random positions) x random partial flattenings into dotted keys (PathSep '.', mixtures of nested and "
        "dotted definitions, list elements addressed by index) x injected duplicate definitions. Oracle: the config unpacks to the "
        "tree the input denotes (numbers by value, nil = empty), re-feeding the result gives the same data, a duplicate is rejected "
        "with ErrDuplicateKey, and 8 repetitions with permuted map insertion orders give one outcome. Non-trivial: the input uses "
        "a non-default representation, a flattening or a duplicate. Further streams: a setting defined below a primitive one ('a' and "
        "'a.zz', must be rejected as a duplicate in every insertion order) and objects that mix integer-literal keys with names (model "
        "comparison only). Distinct by (representation set, flattening kind, dup kind, shape).")
TRUSTED_BASE = ["Lean 4 kernel", "Model/Normalize.lean transcribes merge.go normalize* (differential check)",
                "Spec.C01.render/canon as the denotation of plain data", "correspondence harness"]
ASSUMPTIONS = ["keys of the plain tree contain no separator and are not integer literals",
               "Go representations are erased in the model (one GoData per tree); the harness feeds the real code each representation"]


def flatten_partial(rng, t, sep, kinds):
    """Rewrite a dict tree with some nested definitions as dotted keys (a partial flattening)."""
    if not (isinstance(t, dict) and "m" in t):
        if isinstance(t, dict) and "a" in t:
            return A([flatten_partial(rng, x, sep, kinds) for x in t["a"]])
        return t
    out = []
    for k, v in t["m"]:
        if isinstance(v, dict) and "m" in v and v["m"] and rng.chance(0.5):
            kids = [(k2, flatten_partial(rng, v2, sep, kinds)) for k2, v2 in v["m"]]
            # re-flatten one more level sometimes
            lifted, kept = [], []
            for k2, v2 in kids:
                (lifted if rng.chance(0.6) else kept).append((k2, v2))
            for k2, v2 in lifted:
                out.append((k + sep + k2, v2))
            if kept:
                out.append((k, M(kept)))
                kinds.add("mixed")
            kinds.add("dotted")
        elif isinstance(v, dict) and "a" in v and v["a"] and rng.chance(0.25):
            for i, x in enumerate(v["a"]):
                out.append((k + sep + str(i), flatten_partial(rng, x, sep, kinds)))
            kinds.add("index")
        else:
            out.append((k, flatten_partial(rng, v, sep, kinds)))
    return M(rng.shuffle(out))


def embed_configs(rng, t, kinds, opts=()):
    if isinstance(t, dict) and "m" in t:
        if t["m"] and rng.chance(0.15):
            kinds.add("config")
            return {"c": {"v": t, "opts": list(opts)}, **({"rep": "val"} if rng.chance(0.3) else {})}
        return dict(t, m=[[k, embed_configs(rng, v, kinds, opts)] for k, v in t["m"]])
    if isinstance(t, dict) and "a" in t:
        return dict(t, a=[embed_configs(rng, v, kinds, opts) for v in t["a"]])
    return t


def leaf_paths(t, prefix=()):
    out = []
    if isinstance(t, dict) and "m" in t:
        for k, v in t["m"]:
            out += leaf_paths(v, prefix + (k,))
    elif t is not None and not (isinstance(t, dict) and "a" in t):
        out.append(prefix)
    return out


def gen(rng, tier):
    n = 1200 if tier == "quick" else 12000
    maxd = 4 if tier == "quick" else 5
    for _ in range(n):
        d = 1 + rng.below(maxd)
        plain = rand_dict(rng, d) if rng.chance(0.9) else A([rand_tree(rng, d - 1) for _ in range(rng.below(4))])
        kinds = set()
        src = plain
        opts = []
        r = rng.below(10)
        dup = False
        if r < 4 and "m" in plain:
            opts = [opt("PathSep", ".")]
            src = flatten_partial(rng, plain, ".", kinds)
            if rng.chance(0.25):
                # define one primitive setting a second time, in the other spelling
                lp = [p for p in leaf_paths(plain) if len(p) >= 2]
                if lp:
                    p = rng.pick(lp)
                    cut = 1 + rng.below(len(p) - 1)
                    inner = U(9)
                    for seg in reversed(p[cut:]):
                        inner = M([(seg, inner)])
                    key = ".".join(p[:cut])
                    if all(k != key for k, _ in src["m"]):
                        src = M(src["m"] + [[key, inner]])
                    else:
                        key2 = ".".join(p)
                        if all(k != key2 for k, _ in src["m"]):
                            src = M(src["m"] + [[key2, U(9)]])
                        else:
                            key = None
                    if key is not None:
                        dup = True
                        kinds.add("dup")
            elif rng.chance(0.15):
                # a setting below a primitive one: 'a: 1' together with 'a.zz: 9' defines a twice
                lp = leaf_paths(plain)
                if lp:
                    p = rng.pick(lp)
                    key = ".".join(p) + ".zz" + (".y" if rng.chance(0.3) else "")
                    # spell the primitive's own definition nested or dotted
                    if all(k != key for k, _ in src["m"]):
                        src = M(rng.shuffle(src["m"] + [[key, U(9)]]))
                        dup = True
                        kinds.add("dup-prefix")
        elif r < 6 and "m" in plain and plain["m"]:
            src = as_struct(rng, plain)
            kinds.add("struct")
        elif r == 6:
            # numeric keys next to named ones in nested objects (both the dict and the list part of one node are used)
            def mix(t, depth):
                if isinstance(t, dict) and "m" in t:
                    kv = [[k, mix(v, depth + 1)] for k, v in t["m"]]
                    if depth >= 1 or rng.chance(0.3):
                        for i in range(rng.below(3)):
                            kv.append([str(i), rng.pick([U(7), S("x"), M([("q", U(1))])])])
                    return M(rng.shuffle(kv))
                return t
            src = mix(plain, 0)
            if src != plain:
                kinds.add("numkeys")
                if rng.chance(0.5):
                    opts = [opt("PathSep", ".")]
        if not dup and "numkeys" not in kinds:
            src2 = add_reps(rng, src) if "st" not in src else src
            if src2 != src:
                kinds.add("reps")
            src = src2
            if rng.chance(0.3) and "st" not in src:
                src = embed_configs(rng, src, kinds, opts)
        c = {"k": "norm", "from": src, "opts": opts, "repeat": 6, "_tag": "norm/" + ("+".join(sorted(kinds)) or "plain"),
             "_nt": bool(kinds), "_sig": "%s|%s|%s" % ("+".join(sorted(kinds)), shape_of(plain), d)}
        if dup:
            c["dup"] = True
        elif "numkeys" not in kinds:
            c["plain"] = plain
        yield c


    # regular expressions and durations as source values, held by pointer and by value, in maps, lists and nested objects:
    # they normalise to their text
    xrng = rng.fork("regexps")
    for _ in range(60 if tier == "quick" else 600):
        def rx():
            p_ = xrng.pick(["a+", "^x$", "", "\\d{2}", "(a|b)*c"])
            return ({"re": p_, **({"rep": "val"} if xrng.chance(0.5) else {})}, S(p_))
        def node(depth):
            r_ = xrng.below(5)
            if depth <= 0 or r_ < 2:
                return rx()
            if r_ == 2:
                xs = [node(depth - 1) for _ in range(1 + xrng.below(2))]
                return (A([a for a, _ in xs]), A([b for _, b in xs]))
            ks = xrng.shuffle(["r", "s", "t"])[:1 + xrng.below(3)]
            xs = [(k, node(depth - 1)) for k in ks]
            return (M([(k, a) for k, (a, _) in xs]), M([(k, b) for k, (_, b) in xs]))
        ks = xrng.shuffle(["a", "b", "c"])[:1 + xrng.below(3)]
        xs = [(k, node(2)) for k in ks]
        yield {"k": "norm", "from": M([(k, a) for k, (a, _) in xs] + [("n", U(1))]), "opts": [], "repeat": 2,
               "plain": M([(k, b) for k, (_, b) in xs] + [("n", U(1))]), "_tag": "norm/regexp-values", "_nt": True,
               "_sig": "regexps|%s" % shape_of(M([(k, b) for k, (_, b) in xs]))}

    # float32 inputs keep their numeric value (widened exactly, not through their decimal text): values that are not
    # short in decimal, as slice elements, map values and plain settings, next to the same numbers given as float64
    f32 = [0x3fb99999a0000000, 0x3f50624de0000000, 0x40091eb860000000, 0xbfd3333340000000, 0x3ff8000000000000, 0x4155555560000000]
    frng = rng.fork("float32")
    for _ in range(40 if tier == "quick" else 400):
        def fl():
            b_ = frng.pick(f32)
            return (dict(F(b_), **({"rep": "float32"} if frng.chance(0.7) else {})), F(b_))
        xs = [fl() for _ in range(1 + frng.below(3))]
        ys = [("k%d" % i, fl()) for i in range(1 + frng.below(2))]
        one = fl()
        lrep = frng.pick([{}, {"rep": "typed"}, {"rep": "array"}])
        mrep = frng.pick([{}, {"rep": "typed"}])
        yield {"k": "norm", "from": M([("l", dict(A([a for a, _ in xs]), **lrep)), ("m", dict(M([(k, a) for k, (a, _) in ys]), **mrep)), ("x", one[0])]),
               "opts": [], "repeat": 2, "plain": M([("l", A([b for _, b in xs])), ("m", M([(k, b) for k, (_, b) in ys])), ("x", one[1])]),
               "_tag": "norm/float32", "_nt": True, "_sig": "float32|%d|%d|%s" % (len(xs), len(ys), lrep.get("rep"))}

    # values no setting can be made from (complex numbers, uintptr, functions, channels, unsafe pointers) and zero-value
    # Configs, anywhere in the source: an error or an empty object, never a crash
    urng = rng.fork("unsupported")
    for _ in range(60 if tier == "quick" else 600):
        def odd():
            if urng.chance(0.5):
                return {"unsup": urng.pick(["complex", "complex64", "uintptr", "func", "chan", "unsafeptr"])}
            return {"c": {"v": M([]), "opts": []}, "zero": True, **({"rep": "val"} if urng.chance(0.5) else {})}
        def wrap(x, depth):
            r_ = urng.below(4)
            if depth <= 0 or r_ == 0:
                return x
            if r_ == 1:
                return A(urng.shuffle([wrap(x, depth - 1), U(1)]))
            return M(urng.shuffle([("k", wrap(x, depth - 1)), ("n", S("v"))]))
        top = odd() if urng.chance(0.15) else M(urng.shuffle([("a", wrap(odd(), 2)), ("b", U(2))]))
        yield {"k": "norm", "from": top, "opts": [], "repeat": 2, "_tag": "norm/unsupported-kinds", "_nt": True,
               "_sig": "unsup|%s" % json.dumps(top)[:60]}

    # the same setting given in both spellings with a null or list padding in one of them (legal, must be accepted in every
    # insertion order) and the other overlap classes of C09
    from . import c09
    orng = rng.fork("overlap")
    for _ in range(150 if tier == "quick" else 1500):
        src, kinds = c09.overlapping(orng)
        yield {"k": "norm", "from": src, "opts": [opt("PathSep", ".")], "repeat": 8, "_tag": "norm/overlap-" + "+".join(sorted(kinds)),
               "_nt": True, "_sig": "overlap|%s|%d" % ("+".join(sorted(kinds)), len(src["m"]))}


    # existing configs as (part of) the input, after a history of their own (children renamed, attached, removed): what is
    # normalized is the config as it is now
    from .. import forest as FO
    frng = rng.fork("forest")
    for _ in range(120 if tier == "quick" else 1200):
        yield FO.history(frng, tier, refs=False, reads=False, flavour="c05")
    # a config that has a history of writes and removals (nodes that held named settings and list elements at some time),
    # read as it is and read through a config created from it: the two unpack to the same value
    PS = [opt("PathSep", ".")]
    drng = rng.fork("forest-views")
    for i in range(60 if tier == "quick" else 600):
        ops = [{"op": "new", "r": 0, "from": M([("n", M([("z", U(1))])), ("k", U(2))]), "opts": PS}]
        names = ["n.0", "n.1", "n.x", "n.y", "m.0", "m.a", "m.a.b", "l.0.q", "l.0.0"]
        written = []
        for _ in range(2 + drng.below(5)):
            nm = drng.pick(names)
            ops.append({"op": "set", "r": 0, "name": nm, "idx": -1, "val": drng.pick([U(3), S("s"), B(True)]), "opts": PS}); written.append(nm)
        for _ in range(1 + drng.below(3)):
            ops.append({"op": "remove", "r": 0, "name": drng.pick(written + ["n.z"]), "idx": -1, "opts": PS})
        how = drng.pick(["direct", "embedded", "embedded-list"])
        src = {"reg": 0} if how == "direct" else (M([("e", {"reg": 0})]) if how == "embedded" else M([("w", A([{"reg": 0}]))]))
        ops.append({"op": "new", "r": 1, "from": src, "opts": PS})
        ops.append({"op": "read", "r": 0, "what": "view", "name": "", "idx": -1, "opts": PS})
        if how == "direct":
            ops.append({"op": "read", "r": 1, "what": "view", "name": "", "idx": -1, "opts": PS, "sameAsPrev": True})
        else:
            ops.append({"op": "read", "r": 1, "what": "childview", "name": "e" if how == "embedded" else "w.0", "idx": -1, "opts": PS, "sameAsPrev": True})
        yield {"k": "forest", "regs": 5, "ops": ops, "reattach": True, "_tag": "forest/views", "_nt": True,
               "_sig": "views|%s|%d|%d" % (how, len(ops), i % 7)}


def oracle(case, impl, model):
    if case.get("k") == "forest":
        from .. import forest as FO
        return FO.oracle_for("C05")(case, impl, model)
    return None


def normalize_pair(case, impl, model):
    if case.get("k") == "forest":
        from .. import forest as FO
        return FO.normalize_pair(case, impl, model)
    return impl, model


def fix_candidate(cand, base):
    if cand.get("k") == "forest":
        from .. import forest as FO
        return FO.fix_candidate(cand, base)
    return cand


def nontrivial(case, impl):
    return bool(case.get("_nt"))


def sig(case, impl):
    out = "ok" if isinstance((impl or {}).get("first"), dict) and "ok" in impl["first"] else "err"
    return case.get("_sig", "") + "|" + out
