"""C18 — the YAML, JSON and HJSON front-ends agree and record where settings came from."""
import json
import struct
from fractions import Fraction
from ..gens import *
from .. import typegen as TG

ID = "C18"
LEAN_MODULE = "Ucfg.Props.C18"
LEVEL_TEXT = 'jsonFlavour keeps shape and non-numeric leaves; integers below 2^53 keep their value through every numeric read (exact representability lemma decode_ofInt), with 2^53+1 as the boundary example. PARTIAL: decoders are third-party (exercised through six loaders per text, compared with the model per flavour); source metadata decided on the implementation.'
CORRESPONDENCE = ("Frontends.jsonFlavour + Normalize.newFrom + Eval.viewE + Unpack.unpack ~ {yaml,json,hjson}.NewConfig / NewConfigWithFile "
                  "followed by generic and typed Unpack")
RULE = ("JSON-expressible documents rendered as one JSON text (valid YAML flow syntax and valid HJSON): (a) random trees (depth <= 5) over "
        "keys with dots, spaces, digits, non-ASCII and the empty key; strings over a wide alphabet (quotes, backslashes, control "
        "characters, non-ASCII, '$', '#', ': ', text that looks like a number / boolean / null / YAML indicator); integers incl. 0, "
        "negative, +-2^31, +-2^53 (beyond 2^53 the by-value oracle is off: float64 cannot hold them), floats (fractions, exponents, "
        "-0.0, denormals, 1e308), booleans, nulls, empty containers; (b) (type, configuration) pairs of the C04 type generator, valid "
        "or with one fault (with PathSep often respelled with dotted names), and structs of integer/float fields, slices and maps fed "
        "with odd integers up to 2^53-1, so that the same text is unpacked into a typed struct. Each text goes through the three loaders in memory "
        "and through *WithFile from a temporary directory, with no options / PathSep / VarExp / both. Oracle: all loaders accept the "
        "text; the generic views are equal with numbers compared by value; typed results are identical with numbers held by interface{} fields compared by value (value or failure); each "
        "*WithFile result equals its in-memory counterpart; a typed failure about a setting names the file - also after in-memory settings were merged over the loaded document around (not over) the faulty setting (overlay); a missing file is an "
        "error. The yaml and json results are also compared with the Lean model on the document in the respective number "
        "representation. Plus: integers beyond 2^53 that float64 holds exactly (up to the int64 limits) into typed targets; objects that exist only as the prefix of dotted names with a typed failure located on them; one option slice with spare capacity handed to all loader calls (must come back unchanged). Non-trivial: the document contains a number, or the typed unpack fails. Distinct by (shape, number "
        "classes, option set, outcome).")
TRUSTED_BASE = ["Lean 4 kernel", "gopkg.in/yaml.v2, encoding/json and hjson-go are exercised, not modelled: the model starts at the decoded value",
                "the assumption that they differ only in the representation of numbers is itself checked by comparing both flavours with the model",
                "Python's rendering of the document", "correspondence harness"]
ASSUMPTIONS = ["documents are rendered by the generator (JSON text); hand-written YAML/HJSON-only syntax is covered by C07's byte streams only",
               "integers beyond +-2^53 and number-to-string conversions are compared with the model per front-end, not across front-ends",
               "source metadata is not part of the Lean model: the file-name oracle is decided on the implementation alone"]

KEYS18 = ["a", "b", "c", "k.d", "k.e", "x y", "0", "1", "", "ключ", "a-b", "K", "true", "null", "1e3"]
STR18 = ["", "x", "hello world", " lead", "trail ", "q\"uote", "back\\slash", "tab\tin", "new\nline", "ünïcödé", "日本語", "emoji 😀", "a: b", "# not a comment",
         "- dash", "[1, 2]", "{a: 1}", "123", "-7", "1.5", "1e3", "0x10", "true", "false", "null", "~", "yes", "no", "on", "off", "$", "${a}", "$${a}", "${a:dflt}",
         "${nope}", "a,b", "'single'", "&anchor", "*alias", "!tag", "%percent", "@at", "`tick`", "|", ">", "?", " nbsp", " ls", "\x7f", "<<"]
INTS18 = [0, 1, -1, 7, 255, 65536, 2**31 - 1, -2**31, 2**31, 2**53 - 1, -(2**53 - 1), 2**53, 123456789, 10**15]
EDGE18 = [0, 1, -1, 3, -3, 2**31 - 1, -2**31, 2**32 + 1, 2**52 + 1, -(2**52 + 1), 2**52 + 3, 4503599627370497, 2**53 - 1, -(2**53 - 1), 2**53 - 3,
          6755399441055745, 9007199254740989, 123456789012345, 999999999999999,
          # beyond 2^53 but exactly representable as float64, up to the int64 limits
          -2**63, 2**62, -(2**62), 2**53 + 2, 2**60 + 2**10, -(2**63 - 2**10), 2**63 - 2**10,
          # ... and up to the uint64 limit (unsigned and float targets only)
          2**63, 2**63 + 2**11, 10**19, 2**64 - 2**11]
BIGINTS18 = [2**53 + 1, 2**62, 2**63 - 1, -2**63, 10**18 + 1]
FLOATS18 = [0.5, -0.25, 1.5, 3.0, 1e3, 1e-7, 123.456, 1e21, 1e22, 5e-324, 1.7976931348623157e308, -0.0, 0.1, 2.5e-5, 4.0]


def IU(x):
    """an integer setting: values above MaxInt64 only exist as unsigned ones"""
    return U(x) if x >= 2**63 else I(x)


def fbits(x):
    return struct.unpack(">Q", struct.pack(">d", x))[0]


def rand_doc(rng, depth, stats, top=False):
    r = rng.below(13) if not top else 11
    if depth <= 0 and r >= 10:
        r = rng.below(10)
    if r < 3:
        stats.add("str"); return S(rng.pick(STR18))
    if r < 5:
        stats.add("int"); return I(rng.pick(INTS18))
    if r == 5:
        if rng.chance(0.3):
            stats.add("bigint"); return I(rng.pick(BIGINTS18))
        stats.add("int"); return I(rng.below(2000) - 1000)
    if r < 8:
        stats.add("float"); return F(fbits(rng.pick(FLOATS18)))
    if r == 8:
        stats.add("bool"); return B(rng.chance(0.5))
    if r == 9:
        stats.add("null"); return None
    if r == 10:
        stats.add("list"); return A([rand_doc(rng, depth - 1, stats) for _ in range(rng.below(4))])
    keys = rng.shuffle(KEYS18)[:rng.below(5) + (1 if top else 0)]
    stats.add("dict")
    return M([(k, rand_doc(rng, depth - 1, stats)) for k in keys])


def ints_to_i(d):
    """yaml.v2 decodes every integer literal that fits to Go's int: {"u": n} -> {"i": n}"""
    if isinstance(d, dict):
        if "u" in d:
            return {"i": d["u"]}
        if "m" in d:
            return dict(d, m=[[k, ints_to_i(v)] for k, v in d["m"]])
        if "a" in d:
            return dict(d, a=[ints_to_i(v) for v in d["a"]])
    return d


def to_py(d):
    if d is None:
        return None
    if "i" in d: return int(d["i"])
    if "u" in d: return int(d["u"])
    if "f" in d: return struct.unpack(">d", struct.pack(">Q", int(d["f"], 16)))[0]
    if "s" in d: return d["s"]
    if "b" in d: return d["b"]
    if "a" in d: return [to_py(x) for x in d["a"]]
    if "m" in d: return {k: to_py(v) for k, v in d["m"]}
    raise ValueError(d)


def render(d):
    # ", " and ": " separators: YAML flow syntax wants the space after ':' for unquoted-looking values
    t = json.dumps(to_py(d), ensure_ascii=False, separators=(", ", ": "))
    # DEL, C1 controls and the line/paragraph separators are not printable in YAML: escape them (\uXXXX is understood by all three)
    return "".join("\\u%04x" % ord(ch) if (0x7f <= ord(ch) <= 0x9f or ord(ch) in (0x2028, 0x2029, 0xfeff)) else ch for ch in t)


def expressible(d):
    """finite numbers only, int64 range, no duplicate keys"""
    if d is None:
        return True
    if "f" in d:
        x = to_py(d)
        return x == x and x not in (float("inf"), float("-inf"))
    if "i" in d or "u" in d:
        return -2**63 <= int(d.get("i", d.get("u"))) < 2**64
    if "a" in d:
        return all(expressible(x) for x in d["a"])
    if "m" in d:
        ks = [k for k, _ in d["m"]]
        return len(set(ks)) == len(ks) and all(expressible(v) for _, v in d["m"])
    return True


def has(d, pred):
    if pred(d):
        return True
    if isinstance(d, dict) and "a" in d:
        return any(has(x, pred) for x in d["a"])
    if isinstance(d, dict) and "m" in d:
        return any(has(v, pred) for _, v in d["m"])
    return False


def gen(rng, tier):
    n = 600 if tier == "quick" else 6000
    optsets = [[], [opt("PathSep", ".")], [opt("VarExp")], [opt("PathSep", "."), opt("VarExp")]]
    for i in range(n):
        stats = set()
        typed = rng.chance(0.45)
        if typed:
            ty = TG.rand_type(rng, 1 + rng.below(3 if tier == "quick" else 4), top=True)
            cfg = TG.config_for(rng, ty, 3, None)
            fault = None
            if rng.chance(0.35):
                pts = TG.fault_points(ty, cfg)
                if pts:
                    path, fault, repl = rng.pick(pts)
                    cfg = TG.replace_at(cfg, path, repl)
            doc = ints_to_i(cfg)
            opts = rng.pick([[], [opt("PathSep", ".")]])
            if opts and rng.chance(0.6):
                # the same settings spelled with dotted names: the objects in between are created by the path code
                from . import c05
                fk = set()
                doc = c05.flatten_partial(rng, doc, ".", fk)
                if fk: stats.add("dotted")
            stats.add("typed")
            if fault: stats.add("fault:" + fault)
        elif rng.chance(0.25):
            # integers at the edges of what float64 holds exactly, into typed integer / float fields
            typed = True
            kinds = ["int", "int64", "uint64", "float64", "int32", "uint"]
            fs, kv = [], []
            for j, nm in enumerate(TG.FIELD_NAMES[:2 + rng.below(3)]):
                k = rng.pick(kinds)
                r = rng.below(4)
                pool = [x for x in EDGE18 if (x >= 0 or not k.startswith("u")) and (abs(x) < 2**31 or k != "int32") and (x < 2**63 or k in ("uint64", "uint", "float64"))]
                if r == 0:
                    fs.append({"n": nm, "tag": "", "v": "", "ty": TG.T("slice", e=TG.T(k))}); kv.append((nm.lower(), A([IU(rng.pick(pool)) for _ in range(1 + rng.below(3))])))
                elif r == 1:
                    fs.append({"n": nm, "tag": "", "v": "", "ty": TG.T("map", e=TG.T(k))}); kv.append((nm.lower(), M([("k%d" % q, IU(rng.pick(pool))) for q in range(1 + rng.below(3))])))
                else:
                    fs.append({"n": nm, "tag": "", "v": "", "ty": TG.T(k)}); kv.append((nm.lower(), IU(rng.pick(pool))))
            ty = TG.T("struct", f=fs)
            doc = M(kv)
            opts = rng.pick([[], [opt("PathSep", ".")]])
            stats.add("typed"); stats.add("edge-int")
        else:
            ty = None
            doc = rand_doc(rng, 1 + rng.below(4 if tier == "quick" else 5), stats, top=True)
            opts = rng.pick(optsets)
        if not expressible(doc):
            continue
        # with a path separator the same setting may be defined twice (k.d next to k: {d: ...}): still one document, any outcome must agree
        # by-value comparison across front-ends wherever float64 holds every integer of the document exactly
        exact = not has(doc, lambda d: isinstance(d, dict) and "i" in d and int(float(int(d["i"]))) != int(d["i"]))
        c = {"k": "frontends", "doc": doc, "text": render(doc), "opts": opts, "ty": ty, "fileName": rng.pick(["conf", "app config", "ünï"]),
             "exact": exact, "_tag": "frontends/" + ("typed" if typed else "generic"),
             "_nt": bool(stats & {"int", "float", "bigint"}) or typed,
             "_sig": "%s|%s|%s|%s" % ("+".join(sorted(stats)), "+".join(o["o"] for o in opts), shape_of(doc), i % 7)}
        yield c
    yield from gen_dotted_prefix(rng.fork("dotted-prefix"), n // 8)
    yield from gen_overlay(rng.fork("overlay"), n // 8)


def gen_dotted_prefix(rng, n):
    """objects that exist only as the prefix of dotted names (created by the path code, not by a decoder), and a typed
    failure located on such an object: it still names the file"""
    for i in range(n):
        k1, k2, k3 = rng.pick(["a", "b", "srv"]), rng.pick(["x", "y"]), rng.pick(["p", "q"])
        shape = rng.below(3)
        if shape == 0:      # an object where the target wants a number
            ty = TG.T("struct", f=[{"n": "A", "tag": k1, "v": "", "ty": TG.T(rng.pick(["int", "string", "bool", "float64"]))}])
            doc = M([(k1 + "." + k2, I(1))] + ([(k1 + "." + k3, S("t"))] if rng.chance(0.5) else []))
            want = k1
        elif shape == 1:    # a required setting missing from the prefix object
            inner = TG.T("struct", f=[{"n": "X", "tag": k2, "v": "", "ty": TG.T("int")},
                                      {"n": "D", "tag": "d", "v": rng.pick(["required", "nonzero"]), "ty": TG.T(rng.pick(["string", "int"]))}])
            ty = TG.T("struct", f=[{"n": "A", "tag": k1, "v": "", "ty": inner}])
            doc = M([(k1 + "." + k2, I(3))])
            want = k1 + ".d"
        else:               # two levels of prefix objects, the fault on the inner one
            inner = TG.T("struct", f=[{"n": "X", "tag": k2, "v": "", "ty": TG.T("int")}])
            ty = TG.T("struct", f=[{"n": "A", "tag": k1, "v": "", "ty": inner}])
            doc = M([(k1 + "." + k2 + "." + k3, I(3))])
            want = k1 + "." + k2
        yield {"k": "frontends", "doc": doc, "text": render(doc), "opts": [opt("PathSep", ".")], "ty": ty, "fileName": rng.pick(["conf", "app config"]),
               "exact": True, "_tag": "frontends/dotted-prefix", "_nt": True, "_sig": "dotted-prefix|%d|%s|%d" % (shape, want, i % 5)}


def gen_overlay(rng, n):
    """settings from memory merged over the loaded file before it is unpacked, touching the objects around the fault but
    not the faulty setting: what was read from the file still names the file"""
    for i in range(n):
        k1, k2, k3 = rng.pick(["a", "b", "srv"]), rng.pick(["x", "y"]), rng.pick(["p", "q"])
        shape = rng.below(4)
        if shape == 0:      # an object where the target wants a number; the overlay adds a setting to the object
            ty = TG.T("struct", f=[{"n": "A", "tag": k1, "v": "", "ty": TG.T(rng.pick(["int", "string", "bool", "float64"]))}])
            doc = M([(k1, M([(k2, I(1))]))]); over = M([(k1, M([(k3, S("t"))]))])
            want = k1
        elif shape == 1:    # a required setting missing from an object that the overlay touches
            inner = TG.T("struct", f=[{"n": "X", "tag": k2, "v": "", "ty": TG.T("int")}, {"n": "P", "tag": k3, "v": "", "ty": TG.T("int")},
                                      {"n": "D", "tag": "d", "v": rng.pick(["required", "nonzero"]), "ty": TG.T(rng.pick(["string", "int"]))}])
            ty = TG.T("struct", f=[{"n": "A", "tag": k1, "v": "", "ty": inner}])
            doc = M([(k1, M([(k2, I(3))]))]); over = M([(k1, M([(k3, I(4))]))])
            want = k1 + ".d"
        elif shape == 2:    # the fault two levels down, the overlay touches both levels
            inner = TG.T("struct", f=[{"n": "X", "tag": k2, "v": "", "ty": TG.T("int")}, {"n": "O", "tag": "o", "v": "", "ty": TG.T("int")}])
            ty = TG.T("struct", f=[{"n": "A", "tag": k1, "v": "", "ty": inner}])
            doc = M([(k1, M([(k2, M([(k3, I(3))]))]))]); over = M([(k1, M([("o", I(1)), (k2, M([("z", I(1))]))]))])
            want = k1 + "." + k2
        else:               # a wrong leaf next to settings the overlay replaces
            ty = TG.T("struct", f=[{"n": "A", "tag": k1, "v": "", "ty": TG.T("struct", f=[{"n": "X", "tag": k2, "v": "", "ty": TG.T("int")},
                                                                                       {"n": "P", "tag": k3, "v": "", "ty": TG.T("string")}])}])
            doc = M([(k1, M([(k2, S("not a number")), (k3, S("old"))]))]); over = M([(k1, M([(k3, S("new"))]))])
            want = k1 + "." + k2
        yield {"k": "frontends", "doc": doc, "text": render(doc), "overlay": over, "opts": rng.pick([[], [opt("PathSep", ".")]]), "ty": ty,
               "fileName": rng.pick(["conf", "app config"]), "exact": True, "_tag": "frontends/overlay", "_nt": True,
               "_sig": "overlay|%d|%s|%d" % (shape, want, i % 5)}


def numval(d):
    """canonical data with numbers as exact rationals"""
    if isinstance(d, dict):
        if "i" in d and isinstance(d["i"], str): return ("num", Fraction(int(d["i"])))
        if "u" in d and isinstance(d["u"], str): return ("num", Fraction(int(d["u"])))
        if "f" in d and isinstance(d["f"], str):
            x = struct.unpack(">d", struct.pack(">Q", int(d["f"], 16)))[0]
            return ("num", Fraction(x)) if x == x and abs(x) != float("inf") else ("f", d["f"])
        return {k: numval(v) for k, v in d.items()}
    if isinstance(d, list):
        return [numval(x) for x in d]
    return d


def strip_flags(r):
    """an observation without the source-mention flags; which of several faults a typed Unpack reports depends on map
    iteration order, so a failure is just a failure"""
    if isinstance(r, dict) and "err" in r and isinstance(r["err"], dict) and "reason" in r["err"]:
        return {"err": True}
    if isinstance(r, dict):
        return {k: strip_flags(v) for k, v in r.items() if k not in ("namesFile", "namesSource")}
    if isinstance(r, list):
        return [strip_flags(x) for x in r]
    return r


def find_crash(v):
    if isinstance(v, dict):
        if "panic" in v or "fatal" in v:
            return json.dumps(v)[:200]
        for x in v.values():
            r = find_crash(x)
            if r: return r
    elif isinstance(v, list):
        for x in v:
            r = find_crash(x)
            if r: return r
    return None


def oracle(case, impl, model):
    if not isinstance(impl, dict) or "yaml" not in impl:
        return None
    cr = find_crash(impl)
    if cr:
        return (False, "a loader or Unpack crashed: " + cr)
    names = ["yaml", "json", "hjson"]
    if impl.get("optsChanged"):
        return (False, "a loader modified the option list it was called with (the later calls ran with other options)")
    for l in names:
        r = impl[l]
        if not r.get("missingFileErr"):
            return (False, "%s.NewConfigWithFile on a missing file returned no error" % l)
        # *WithFile behaves like the in-memory loader
        if strip_flags(r["file"]) != strip_flags(r["mem"]):
            return (False, "%s.NewConfigWithFile differs from %s.NewConfig on the same text: %s vs %s" % (l, l, json.dumps(strip_flags(r["file"]))[:300], json.dumps(strip_flags(r["mem"]))[:300]))
        # ... and attaches the file name: a failure about a setting names it
        te = (r["file"].get("typed") or {}).get("err") if isinstance(r["file"].get("typed"), dict) else None
        if te and te.get("path") and te.get("namesFile") is False:
            return (False, "%s: the error about setting '%s' does not mention the file it was read from" % (l, te.get("path")))
    loaded = [("load" not in impl[l]["mem"]) for l in names]
    if not all(loaded):
        if any(loaded):
            bad = [l for l, ok in zip(names, loaded) if not ok]
            return (False, "the text is accepted by some front-ends but rejected by %s" % ", ".join(bad))
        return None
    ref = impl["yaml"]["mem"]
    for l in names[1:]:
        r = impl[l]["mem"]
        if case.get("exact") and numval(r.get("view")) != numval(ref.get("view")):
            return (False, "generic views differ between yaml and %s: %s vs %s" % (l, json.dumps(ref.get("view"), ensure_ascii=False)[:300], json.dumps(r.get("view"), ensure_ascii=False)[:300]))
        if case.get("exact") and case.get("ty") is not None:
            a, b = strip_flags(ref.get("typed")), strip_flags(r.get("typed"))
            if isinstance(a, dict) and "err" in a and isinstance(b, dict) and "err" in b:
                continue      # which of several faults is reported depends on map iteration order
            if numval(a) != numval(b):
                return (False, "typed results differ between yaml and %s: %s vs %s" % (l, json.dumps(a, ensure_ascii=False)[:300], json.dumps(b, ensure_ascii=False)[:300]))
    return (True, "")


def normalize_pair(case, impl, model):
    def side(r):
        if not isinstance(r, dict):
            return r
        if "load" in r:
            return {"load": True}
        t = r.get("typed")
        if isinstance(t, dict) and "err" in t:
            t = {"err": True}
        return {"view": r.get("view"), "typed": t}
    if not isinstance(impl, dict) or "yaml" not in impl or not isinstance(model, dict):
        return impl, model
    return ({"yaml": side(impl["yaml"]["mem"]), "json": side(impl["json"]["mem"])},
            {"yaml": side(model.get("yaml")), "json": side(model.get("json"))})


def fix_candidate(cand, base):
    """shrinking: the text is always the rendering of the document"""
    if not isinstance(cand.get("doc"), (dict, type(None))) or cand.get("ty") != base.get("ty") or cand.get("exact") != base.get("exact") \
            or cand.get("overlay") != base.get("overlay"):
        return None
    try:
        if not expressible(cand["doc"]):
            return None
        cand["text"] = render(cand["doc"])
    except Exception:
        return None
    return cand


def nontrivial(case, impl):
    return bool(case.get("_nt"))


def sig(case, impl):
    out = "?"
    if isinstance(impl, dict) and "yaml" in impl:
        m = impl["yaml"]["mem"]
        out = "load-err" if "load" in m else ("typed-err" if isinstance(m.get("typed"), dict) and "err" in m["typed"] else "ok")
    return case.get("_sig", "") + "|" + out
