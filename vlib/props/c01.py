"""C01 — merge follows the selected policy exactly."""
from ..gens import *

ID = "C01"
LEAN_MODULE = "Ucfg.Props.C01"
LEVEL_TEXT = "Theorems over the merge model for every policy (pointwise dictionary merge, survival of keys, right-wins for non-containers, append/prepend/replace order and length); model tied to merge.go by differential runs incl. merged-config sources; independent Lean spec (Spec.C01) as oracle on the implementation's output."
CORRESPONDENCE = "Merge.mergeCfg/Normalize.cfgMerge ~ (*Config).Merge"
RULE = ("pairs and chains (1-3 merges) of plain data trees over a 5-key alphabet, depth <= 4 (thorough: 6), B derived from A by "
        "mutations that force shape conflicts at the same key (primitive/object/list/nil/empty x same), unequal list lengths; five "
        "global policies; source given as generic map, typed map/slice/array, pointer, struct (reflect.StructOf) or *Config; result "
        "observed by Unpack into map[string]interface{} / []interface{}. Oracle: Spec.C01.merge (union of dictionaries, right wins, "
        "nil keeps containers, list policy), empty containers = nil. Plus: *Config sources whose objects lost all their settings again (empty, non-nil dictionaries), a list doubled by a self-merge followed by index-wise merges naming one element. Non-trivial: both sides non-empty and sharing a key or both "
        "lists. Distinct by (policy, representation, multiset of per-key conflict kinds, list-length relation).")
TRUSTED_BASE = ["Lean 4 kernel", "extractor: configHandling enumeration order",
                "Model/Merge.lean, Normalize.lean transcribe merge.go (differential check)",
                "Spec.C01.merge is an executable (partial) definition used as oracle; the theorems are pointwise laws of the model",
                "correspondence harness"]
ASSUMPTIONS = ["trees contain no unevaluated references (C02 covers those)",
               "nil, {} and [] are one value when comparing merged data"]
POLICIES = [None, "Replace", "ReplaceArr", "Append", "Prepend"]


def source_variant(rng, t):
    """The same tree as map / struct / *Config (top level)."""
    r = rng.below(10)
    if isinstance(t, dict) and "m" in t and t["m"]:
        if r < 2:
            return as_struct(rng, t), "struct"
        if r < 4:
            return {"c": {"v": t, "opts": []}}, "config"
    return add_reps(rng, t), "map"


def gen(rng, tier):
    n = 1500 if tier == "quick" else 15000
    maxd = 4 if tier == "quick" else 6
    for _ in range(n):
        d = 1 + rng.below(maxd)
        a = rand_dict(rng, d) if rng.chance(0.85) else A([rand_tree(rng, d - 1) for _ in range(rng.below(4))])
        steps = []
        cur = a
        sigs = set()
        reps = []
        for _ in range(rng.wpick([(7, 1), (2, 2), (1, 3)])):
            b = mutate_tree(rng, cur, d) if rng.chance(0.9) else rand_dict(rng, d, 0)
            if not isinstance(b, dict) or ("m" not in b and "a" not in b):
                b = rand_dict(rng, d)
            if rng.chance(0.03):
                b = a                                  # self merge
            pol = rng.pick(POLICIES)
            sigs |= conflict_sig(cur, b)
            src, rep = source_variant(rng, b)
            if rng.chance(0.12) and isinstance(b, dict) and "m" in b and b["m"]:
                # a *Config source that went through a type change at one key: that node carries keys and list entries
                key = rng.pick([k for k, _ in b["m"]])
                first = M([(k, (rand_dict(rng, 2) if k == key else v)) for k, v in b["m"]])
                second = M([(key, A([rand_leaf(rng) for _ in range(1 + rng.below(3))]))])
                src, rep = {"cm": {"a": first, "optsA": [], "steps": [{"b": second, "opts": []}]}}, "merged-config"
                # make sure A has a container at that key so the merge recurses
                if isinstance(cur, dict) and "m" in cur and rng.chance(0.8):
                    pass
            if rng.chance(0.12) and isinstance(b, dict) and "m" in b:
                # a *Config source some of whose objects (the root, or one below it) have lost all their settings again: still
                # objects, but empty ones - merging them adds nothing and, under every policy, replaces nothing
                ps = [opt("PathSep", ".")]
                if rng.chance(0.4) or not any(isinstance(v, dict) and "m" in v and v["m"] for _, v in b["m"]):
                    rms = [{"name": k, "idx": -1, "opts": ps} for k, _ in b["m"]]
                    bb = M([])
                else:
                    key = rng.pick([k for k, v in b["m"] if isinstance(v, dict) and "m" in v and v["m"]])
                    sub = dict(b["m"])[key]
                    rms = [{"name": key + "." + k2, "idx": -1, "opts": ps} for k2, _ in sub["m"]]
                    bb = M([(k, (M([]) if k == key else v)) for k, v in b["m"]])
                if all("." not in k and k for k, _ in b["m"]) and all("." not in r["name"].split(".", 1)[-1] for r in rms):
                    src, rep = {"cm": {"a": b, "optsA": [], "steps": [], "removes": rms}}, "emptied-config"
                    b = bb
            reps.append(rep)
            steps.append({"b": src, "opts": [opt(pol)] if pol else [], "_pol": pol})
            cur = b
        nontriv = bool(sigs)
        c = {"k": "merge", "a": add_reps(rng, a), "optsA": [], "steps": [{k: v for k, v in s.items() if k != "_pol"} for s in steps],
             "_tag": "merge/" + "+".join(str(s["_pol"]) for s in steps),
             "_sig": "%s|%s|%s" % ("+".join(str(s["_pol"]) for s in steps), "+".join(reps), ",".join(sorted(sigs))),
             "_nt": nontriv}
        yield c
    # identity in both directions
    for pol in POLICIES:
        for _ in range(10 if tier == "quick" else 60):
            a = rand_dict(rng, 3)
            o = [opt(pol)] if pol else []
            yield {"k": "merge", "a": a, "optsA": [], "steps": [{"b": M([]), "opts": o}], "_tag": "merge/empty-right", "_sig": "er|%s" % pol, "_nt": False}
            yield {"k": "merge", "a": M([]), "optsA": [], "steps": [{"b": a, "opts": o}], "_tag": "merge/empty-left", "_sig": "el|%s" % pol, "_nt": False}


    # a config merged into itself (same object): nothing changes under the default and the replace policies; append and
    # prepend double the lists
    for pol in POLICIES:
        for _ in range(12 if tier == "quick" else 80):
            a = rand_dict(rng, 1 + rng.below(3))
            o = [opt(pol)] if pol else []
            steps = [{"self": True, "b": None, "opts": o}]
            if rng.chance(0.3):
                b = mutate_tree(rng, a, 2)
                if isinstance(b, dict) and ("m" in b or "a" in b):
                    steps.append({"b": b, "opts": []})
            yield {"k": "merge", "a": a, "optsA": [], "steps": steps, "_tag": "merge/self", "_sig": "self|%s|%s" % (pol, shape_of(a)), "_nt": True}
    # ... and the halves of a list doubled by a self-merge are separate settings: an index-wise merge that names one element
    # changes that element only
    for pol in ("Append", "Prepend"):
        for _ in range(12 if tier == "quick" else 80):
            k = rng.pick(KEYS)
            nel = 1 + rng.below(3)
            a = M([(k, A([M([("x", U(i)), ("y", S("o%d" % i))]) if rng.chance(0.8) else A([U(i)]) for i in range(nel)])), ("z", U(1))])
            tgt = rng.below(2 * nel)
            patch = A([None] * tgt + [M([("x", U(90 + tgt))]) if rng.chance(0.8) else A([U(77)])])
            steps = [{"self": True, "b": None, "opts": [opt(pol)]}, {"b": M([(k, patch)]), "opts": []}]
            if rng.chance(0.4):
                steps.append({"b": M([(k, A([None] * rng.below(2 * nel) + [M([("y", S("p"))])]))]), "opts": []})
            yield {"k": "merge", "a": a, "optsA": [], "steps": steps, "_tag": "merge/self-then-index",
                   "_sig": "selfidx|%s|%d|%d" % (pol, nel, tgt), "_nt": True}


def fix_candidate(cand, base):
    """shrinking: every merge source stays a dictionary, a list or the config itself"""
    def container(v):
        return isinstance(v, dict) and any(k in v for k in ("m", "a", "st", "c", "cm"))
    if not container(cand.get("a")) or not isinstance(cand.get("steps"), list):
        return None
    for st in cand["steps"]:
        if not isinstance(st, dict) or not isinstance(st.get("opts"), list):
            return None
        if not st.get("self") and not container(st.get("b")):
            return None
    return cand


def nontrivial(case, impl):
    return bool(case.get("_nt"))


def sig(case, impl):
    return case.get("_sig", "")
