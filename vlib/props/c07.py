"""C07 — no input makes the library panic, hang or allocate without bound."""
import json
from ..gens import *
from .. import typegen as TG
from . import c17, c12, c02

ID = "C07"
LEAN_MODULE = "Ucfg.Props.C07"
LEVEL_TEXT = "Totality theorems: the flag-value parser and the splice lexer/parser never panic on any string; get/set/remove never panic through the regenerated bounds guards - per field and for WHOLE paths (np_pathGet, np_pathHas, np_pathSet: any non-empty path, any node); the typed unpacker never panics for any target type, pre-filled value, option set and configuration (unpack_never_panics: induction over the fuel, a claim per model function; reflect's own panics are not model sites: they are covered by the site inventory and the differential streams); growth bounded by MaxIdx (C20); SetChild refuses every child that holds the target config or is a known parent of the receiver or the target (setChild_refuses_*, holdsH_complete) and a successful SetChild under any name (names, indices, objects created on the way, padding) keeps the heap free of configs stored below themselves (setChild_keeps_acyclic, via grows_noCycle; the fuel of the containment test has to cover the depth of the heap); Set* keeps it too (setPath_keeps_acyclic), and no history of NewFrom, Merge and Set* calls - values with embedded configs, any list policy, any path - makes a config part of its own subtree (history_keeps_acyclic: copies are trees of new nodes, cpy_up / buildH_up / MInv). Plus the regenerated inventory of panic-capable sites against a reviewed one, and malformed streams with panic/fatal/timeout/goroutine-leak observation. Third-party decoders only exercised; evaluator termination is C08's partial part."
CORRESPONDENCE = "every modelled entry point (Parse, Vars, Path/Ops, Normalize, Unpack) ~ the public API, plus an unmodelled stream through the format loaders"
RULE = ("dedicated malformed streams: (a) arbitrary byte strings (random bytes, truncated / bit-flipped / deeply nested documents, YAML "
        "anchors and merge keys, invalid UTF-8) through yaml/json/hjson.NewConfig with and without PathSep/VarExp, followed by Unpack and "
        "FlattenedKeys; (b) exhaustive strings of length <= 4 (thorough 5) over [ ] { } \" ' \\\\ , : $ space a 1 - for parse.Value* under "
        "every parse.Config (invalid combinations included) and as settings under VarExp, plus concatenations of 2-6 well-formed and "
        "malformed expansion pieces (tokens pending behind a parse error); (c) names made of separators only / with empty segments and (name, idx) pairs with idx in {-2^63, -5, "
        "-1, 0, len-1, len, MaxIdx, MaxIdx+1, 2^40} for every getter/setter/Has/Remove/Child; (d) Unpack targets of unsupported kinds "
        "(chan, func, complex, map[int]T, *interface{}, **T, non-pointers) next to supported ones, and 11 hand-written types with blank, "
        "unexported and caseless-named fields, embedded unexported structs, interface fields with methods; (e) SetChild between relatives over several configs (the receiver, its parents, a config the name leads through below the receiver, a config holding the receiver through a second attachment, a former parent with a stale link), every config dumped after every step; (f) pre-filled interface{} fields, map entries and list elements holding structs by value and by pointer (kind ifaceheld). Observable: returned / error / PANIC "
        "/ FATAL (process death, incl. stack overflow under a 64 MiB limit and memory under a 1 GiB GOMEMLIMIT) / timeout / leaked "
        "goroutines; recursive Go target types (kind rectarget) receiving every shape of setting, incl. primitives where a list of lists is asked for. Oracle: every call returns. Modelled kinds are also compared with the Lean model. Non-trivial: the input contains "
        "a structural character or is not valid in its format. Distinct by (entry point, input class, outcome).")
TRUSTED_BASE = ["Lean 4 kernel", "extractor: bounds guards of path.go/ucfg.go, panic-site inventory vs extract/sites.expected.json",
                "the worker's recover / watchdog / stack and memory limits", "third-party decoders are exercised, not modelled"]
ASSUMPTIONS = ["MaxIdx itself is a trusted configuration value (a caller asking for MaxIdx 2^40 may get lists that large)"]


def normalize_result(case, res):
    if case.get("k") in ("load", "oddtarget", "ifaceheld", "rectarget"):
        if isinstance(res, dict) and ("panic" in res or "fatal" in res or "leakedGoroutines" in res):
            return res
        return {"unmodelled": True}
    nr = {"unpack": TG.normalize_unpack_result}.get(case.get("k"))
    return nr(case, res) if nr else res


def crashed(v):
    if isinstance(v, dict):
        if "panic" in v or "fatal" in v or "leakedGoroutines" in v:
            return json.dumps(v)[:200]
        for x in v.values():
            r = crashed(x)
            if r:
                return r
    elif isinstance(v, list):
        for x in v:
            r = crashed(x)
            if r:
                return r
    return None


def list_lengths(v, path=()):
    """the length of every list in a config (a dump of the worker or the data a case starts from), by position"""
    out = {}
    if not isinstance(v, dict):
        return out
    if "ok" in v and isinstance(v["ok"], dict):
        return list_lengths(v["ok"], path)
    if "arr" in v or "dict" in v:
        items, entries = v.get("arr") or [], list((v.get("dict") or {}).items())
    elif isinstance(v.get("a"), list):
        items, entries = v["a"], []
    elif isinstance(v.get("m"), dict):
        items, entries = [], list(v["m"].items())
    elif isinstance(v.get("m"), list):
        items, entries = [], [(k, x) for k, x in v["m"]]
    else:
        return out
    if items:
        out[path] = len(items)
    for i, x in enumerate(items):
        out.update(list_lengths(x, path + (i,)))
    for k, x in entries:
        out.update(list_lengths(x, path + (k,)))
    return out


def oracle(case, impl, model):
    r = crashed(impl)
    if r:
        return (False, "a public entry point did not return normally: " + r)
    if case.get("k") == "ops" and isinstance(impl, dict) and isinstance(impl.get("steps"), list):
        # a write under MaxIdx(m) allocates at most m+1 slots: no list it grows ends up longer than that
        prev = list_lengths(case.get("init")) if impl.get("init") == "ok" and not case.get("optsInit") else None
        for op, st in zip(case.get("ops", []), impl["steps"]):
            cur = list_lengths(st.get("root")) if isinstance(st, dict) else None
            m = next((int(o["v"]) for o in op.get("opts", []) if o.get("o") == "MaxIdx"), None)
            if m is not None and m >= 0 and op.get("op") in ("set", "setchild") and prev is not None and cur is not None:
                for pth, n in cur.items():
                    if n > prev.get(pth, 0) and n > m + 1:
                        return (False, "a write under MaxIdx(%d) grew the list at %s to %d slots" % (m, ".".join(map(str, pth)) or "<root>", n))
            prev = cur
        return (True, "")
    return (True, "")


DOCS = [b"a: 1\nb: [1, 2]\nc: {d: x}\n", b'{"a": {"b": [1, {"c": null}]}, "d": "${a.b}"}', b"a:\n  - &x {k: v}\n  - *x\n  - <<: *x\n",
        b"? [complex, key]\n: v\n", b"a: !!binary aGVsbG8=\n", b"{a: 1, b: [1, 2,], }", b"# only a comment\n", b"", b"---\n...\n", b"a: ${b}\nb: ${a}\n",
        b"a: {b: \"${a}\"}\n", b"1: x\n2.5: y\ntrue: z\n", b"- 1\n- [2, [3, [4]]]\n", b"a.b: 1\na: {b: 2}\n", b"\"a\\ud83d\": 1", b"{\"a\":1e400}", b"a: 0x7fffffffffffffffff\n",
        b"key: |\n  multi\n  line\n", b"{\n  // hjson comment\n  a: text without quotes\n  b: '''\n  ml\n  '''\n}", b"a: -\n", b"-1: x\n", b"a.-1: 1\n", b"a.999999999999: 1\n"]


def mutate_bytes(rng, b):
    b = bytearray(b)
    for _ in range(1 + rng.below(4)):
        r = rng.below(6)
        if r == 0 and b:
            del b[rng.below(len(b))]
        elif r == 1:
            b.insert(rng.below(len(b) + 1), rng.below(256))
        elif r == 2 and b:
            b[rng.below(len(b))] ^= 1 << rng.below(8)
        elif r == 3 and b:
            b = b[:rng.below(len(b))]
        elif r == 4:
            b += rng.pick([b"{", b"[", b"}", b"]", b":", b"\n- ", b"${", b"\xff\xfe", b"\x00", b"&a *a", b"'", b'"'])
        else:
            k = rng.below(len(b) + 1)
            b = b[:k] + b[k:] * 2 if len(b) < 400 else b
    return bytes(b)


def gen(rng, tier):
    n = 700 if tier == "quick" else 8000
    for _ in range(n):
        r = rng.below(10)
        if r < 6:
            data = mutate_bytes(rng, rng.pick(DOCS)) if rng.chance(0.8) else rng.pick(DOCS)
        elif r < 8:
            data = bytes(rng.below(256) for _ in range(rng.below(40)))
        else:
            depth = 20 + rng.below(3000 if tier == "thorough" else 400)
            data = rng.pick([b"[" * depth, b"{\"a\":" * depth, b"- " * depth + b"x", b"a:\n" + b"".join(b" " * i + b"b:\n" for i in range(1, min(depth, 200)))])
        opts = []
        if rng.chance(0.5): opts.append(opt("PathSep", "."))
        if rng.chance(0.5): opts.append(opt("VarExp"))
        fmt = rng.pick(["yaml", "json", "hjson"])
        yield {"k": "load", "fmt": fmt, "hex": data.hex(), "opts": opts, "_tag": "load/" + fmt, "_nt": True,
               "_sig": "load|%s|%s|%d" % (fmt, "".join(sorted(set(chr(c) for c in data if chr(c) in "[]{}:,-&*$\"'"))), min(len(data) // 50, 5))}
    # (b) short strings: parse.Value under every config, and as settings under VarExp
    cfgs = [None] + [{"array": a, "object": o, "dq": d, "sq": s, "ignoreCommas": ic} for a in (True, False) for o in (True, False)
                     for d in (True, False) for s in (True, False) for ic in (True, False)]
    alpha = list("[]{}\"'\\,:$ a1-")
    L = 3 if tier == "quick" else 4

    def rec(prefix, depth):
        yield prefix
        if depth < L:
            for ch in alpha:
                yield from rec(prefix + ch, depth + 1)
    for s in rec("", 0):
        if tier == "quick" and rng.chance(0.5):
            continue
        yield {"k": "parse", "s": s, "cfg": rng.pick(cfgs), "_tag": "parse/short", "_nt": bool(s), "_sig": "parse|" + "".join(sorted(set(s)))}
        if "$" in s or rng.chance(0.05):
            yield {"k": "eval", "from": M([("n0", S("v")), ("s", S(s))]), "opts": [opt("VarExp")], "merges": [], "ropts": [opt("VarExp")],
                   "reads": [{"r": "get", "type": "String", "name": "s", "idx": -1}, {"r": "view"}, {"r": "keys"}], "repeat": 1,
                   "_tag": "varexp/short", "_nt": True, "_sig": "varexp|" + "".join(sorted(set(s)))}
    # (b2) malformed expansions with further tokens pending (the lexer goroutine must still be drained)
    pieces = ["${}", "${a}", "${", "}", "${a:", "${b:-x}", " and ", "x", "${${}}", "${a:${b}}", "$", "${a:+", "${:}", "tail", "${a.b}", "${.}", "${..}"]
    for _ in range(200 if tier == "quick" else 3000):
        s = "".join(rng.pick(pieces) for _ in range(2 + rng.below(5)))
        yield {"k": "eval", "from": M([("a", S("v")), ("b", S("w")), ("s", S(s))]), "opts": [opt("VarExp")] + ([opt("PathSep", ".")] if rng.chance(0.5) else []),
               "merges": [], "ropts": [opt("VarExp")] + ([opt("PathSep", ".")] if rng.chance(0.5) else []),
               "reads": [{"r": "get", "type": "String", "name": "s", "idx": -1}, {"r": "view"}, {"r": "keys"}], "repeat": 1,
               "_tag": "varexp/pieces", "_nt": True, "_sig": "pieces|" + "".join(sorted(set(ch for ch in s if ch in "${}:.")))[:8] + str(min(s.count("${"), 4))}
    # (c) name/idx extremes
    idxs = [-(1 << 63), -5, -1, 0, 1, 2, 3, 1024, 1025, 1 << 40, (1 << 63) - 1]
    for _ in range(150 if tier == "quick" else 1500):
        ops = []
        for _ in range(1 + rng.below(5)):
            k = rng.pick(["set", "remove", "get", "has", "child", "setchild"])
            o = {"op": k, "h": 0, "name": rng.pick(["", "l", "a", "a.b", "l.1", "-1", "a.-1", "1e3", "0x10", ".", "..", "...", "a..b", ".a", "a.", "l..1", "a.b."]), "idx": rng.pick(idxs),
                 "opts": [opt("PathSep", ".")] if rng.chance(0.6) else []}
            if rng.chance(0.3):
                # a configured maximum index, the boundary value 0 included: what a write may allocate is bounded by it
                o["opts"] = o["opts"] + [opt("MaxIdx", rng.pick(["0", "0", "1", "3"]))]
                o["idx"] = rng.pick([0, 1, 2, 4, 700, 1024, 1025])
                if rng.chance(0.4): o["name"] = rng.pick(["l.900", "a.700", "l.3", "n.0", "n.1"])
            if k == "set": o["val"] = U(1)
            if k == "setchild": o["val"] = M([("z", U(1))]); o["copts"] = []
            if k == "get": o["type"] = rng.pick(["Int", "String", "Bool"])
            ops.append(o)
        yield {"k": "ops", "init": M([("l", A([U(1), U(2), U(3)])), ("a", M([("b", U(1))]))]), "optsInit": [], "ops": ops,
               "_tag": "nameidx", "_nt": True, "_sig": "nameidx|" + ",".join(sorted(set(o["op"] + str(min(max(o["idx"], -2), 2)) for o in ops)))}
    # (c2) lists shortened by removals (spare capacity) and then written behind their end, read after every step
    for _ in range(80 if tier == "quick" else 800):
        m = 3 + rng.below(6)
        top = rng.chance(0.4)
        init = A([U(i) for i in range(m)]) if top else M([("l", A([U(i) for i in range(m)])), ("k", U(1))])
        nm = "" if top else "l"
        bo = [opt("PathSep", ".")] if rng.chance(0.5) else []
        ops = []
        length = m
        for _ in range(1 + rng.below(4)):
            if length > 0:
                ops.append({"op": "remove", "h": 0, "name": nm, "idx": rng.below(length), "opts": bo}); length -= 1
        for _ in range(1 + rng.below(3)):
            idx = length + rng.below(m - length + 2)
            ops.append({"op": "set", "h": 0, "name": nm, "idx": idx, "val": U(7), "opts": bo}); length = max(length, idx + 1)
            ops.append({"op": "get", "h": 0, "type": "Int", "name": nm, "idx": max(idx - 1, 0), "opts": bo})
            if rng.chance(0.4) and length > 0:
                ops.append({"op": "remove", "h": 0, "name": nm, "idx": rng.below(length), "opts": bo}); length -= 1
        yield {"k": "ops", "init": init, "optsInit": [], "ops": ops, "_tag": "shrink-then-grow", "_nt": True,
               "_sig": "shrinkgrow|%s|%d|%d" % (top, m, len(ops))}
    # (c3) removals behind the end of lists that were shortened before, and SetChild with the receiver itself, one of its
    # ancestors, or nil as the child
    for _ in range(80 if tier == "quick" else 800):
        m = 2 + rng.below(5)
        top = rng.chance(0.4)
        init = A([U(i) for i in range(m)]) if top else M([("l", A([U(i) for i in range(m)])), ("o", M([("in", M([("x", U(1))]))]))])
        nm = "" if top else "l"
        bo = [opt("PathSep", ".")]
        ops = []
        length = m
        for _ in range(2 + rng.below(5)):
            r = rng.below(10)
            if r < 6:
                idx = rng.below(length) if (length > 0 and rng.chance(0.6)) else length + rng.below(3)
                ops.append({"op": "remove", "h": 0, "name": nm, "idx": idx, "opts": bo})
                if idx < length: length -= 1
            elif r < 8 and not top:
                ops.append({"op": "child", "h": 0, "name": rng.pick(["o", "o.in"]), "idx": -1, "opts": bo})
                nh = sum(1 for o in ops if o["op"] == "child")
                # the child handle (or the root) attached below the child: the receiver's own ancestor chain
                ops.append({"op": "setchild", "h": nh, "name": "back", "idx": -1, "childHandle": rng.pick([0, nh]), "opts": bo})
                ops.append({"op": "path", "h": nh})
                if rng.chance(0.5):
                    # ... and the same through a name that leads from the root (or from the child's parent) down through
                    # the child: the place it would be stored at is below itself
                    which = ops[-3]["name"]
                    ops.append({"op": "setchild", "h": 0, "name": which + rng.pick([".back2", ".deeper.back", ".in.back" if which == "o" else ".q.0"]),
                                "idx": rng.pick([-1, -1, 0]), "childHandle": nh, "opts": bo})
                    ops.append({"op": "path", "h": nh})
            elif r < 9:
                ops.append({"op": "setchild", "h": 0, "name": "a", "idx": -1, "childHandle": 0, "opts": bo})
                ops.append({"op": "path", "h": 0})
            else:
                ops.append({"op": "setchild", "h": 0, "name": "n", "idx": rng.pick([-1, 0]), "nilChild": True, "opts": bo})
        yield {"k": "ops", "init": init, "optsInit": [], "ops": ops, "_tag": "remove-behind-end+selfchild", "_nt": True,
               "_sig": "rbe|%s|%d|%s" % (top, m, ",".join(sorted(set(o["op"] + ("-self" if "childHandle" in o else "") + ("-nil" if o.get("nilChild") else "") for o in ops))))}
    # (d) unpack targets of every kind
    odd = [TG.T("chan"), TG.T("func"), TG.T("complex"), TG.T("iface"), TG.T("int"), TG.T("ptr", e=TG.T("int")), TG.T("badmap", e=TG.T("int")),
           TG.T("ptr", e=TG.T("ptr", e=TG.T("struct", f=[{"n": "A", "tag": "", "v": "", "ty": TG.T("int")}]))),
           TG.T("struct", f=[{"n": "A", "tag": "", "v": "", "ty": TG.T("chan")}]), TG.T("struct", f=[{"n": "A", "tag": "", "v": "", "ty": TG.T("badmap", e=TG.T("int"))}]),
           TG.T("map", e=TG.T("chan")), TG.T("slice", e=TG.T("func")), TG.T("array", n=2, e=TG.T("int")), TG.T("map", e=TG.T("array", n=1, e=TG.T("int")))]
    for ty in odd:
        for src in [M([("a", U(1))]), M([("a", M([("b", U(1))]))]), A([U(1), U(2)]), M([]), M([("a", None)]), M([("a", A([U(1)]))]), M([("k", A([U(1)]))])]:
            yield {"k": "unpack", "ty": ty, "old": None, "from": src, "copts": [], "uopts": [], "_tag": "targets", "_nt": True,
                   "_sig": "target|%s|%s" % (TG.type_sig(ty, 2), shape_of(src))}


ODD = ["blank", "under", "caseless", "nested", "embedded", "ifaces", "funcs", "allunexp", "sliceodd", "mapodd", "ptrnested",
       "unpackNoResult", "unpackNoParam", "unpackOther", "unpackHolder", "unpackIfaces", "unpackHeld"]


def odd_cases(rng, tier):
    """hand-written Go target types with blank / unexported / caseless-named fields, embedded unexported structs, interface
    fields with methods, func and chan fields"""
    srcs = [M([]), M([("a", U(1)), ("b", S("x")), ("name", S("n")), ("exported", U(2)), ("x", U(3)), ("n", U(4))]),
            M([("in", M([("a", U(1)), ("b", S("y"))])), ("l", A([M([("name", S("q"))]), M([("name", S("r"))])])), ("m", M([("k", M([("exported", U(1))]))])),
               ("p", M([("a", U(2))])), ("q", A([M([("name", S("a"))]), M([("name", S("b"))])]))]),
            M([("r", S("text")), ("s", U(1)), ("e", M([("z", U(1))]))]), M([("_cache", S("c")), ("_", U(1)), ("名前", S("n")), ("y", U(1)), ("oddinner", M([("y", U(1))]))]),
            A([M([("a", U(1))]), M([("b", S("z"))])]), M([("k1", M([("name", S("v"))])), ("k2", M([]))]), M([("a", U(0))]),
            M([("y", U(5))]), M([("i", U(6)), ("a", U(1))]), M([("m", M([("k", U(7))]))]), M([("l", A([U(8)]))]), M([("y", M([("z", U(1))])), ("m", M([("k1", S("s")), ("k9", U(1))]))]), M([("f", U(1)), ("c", U(2)), ("a", U(5))]),
            M([("x", M([("a", U(1))])), ("y", M([("a", U(2))])), ("m", M([("k", M([("a", U(3))]))])), ("n", U(4)), ("l", A([M([("a", U(5))])]))])]
    for nm in ODD:
        for src in srcs:
            if tier == "quick" and rng.chance(0.3):
                continue
            yield {"k": "oddtarget", "name": nm, "from": src, "copts": [], "uopts": [], "_tag": "oddtargets", "_nt": True,
                   "_sig": "odd|%s|%s" % (nm, shape_of(src))}
    # recursive target types (struct through a pointer, map of itself, list of itself, struct through slices and maps):
    # any setting, also a primitive where a list of lists is asked for (a primitive reads as a list of itself), returns
    rvals = [U(5), S("x"), None, B(True), A([]), A([S("x")]), A([A([]), U(1)]), A([A([A([])])]), M([]), M([("k", U(1))]), M([("k", M([]))]),
             M([("n", U(1)), ("b", M([("n", U(2))]))]), M([("kids", A([M([("n", U(1))]), U(2)])), ("by", M([("k", U(3))]))]), M([("b", U(1))])]
    for key in ["a", "m", "l", "s"]:
        for v in rvals:
            yield {"k": "rectarget", "from": M([(key, v), ("other", U(1))]), "copts": [], "merges": [], "uopts": [],
                   "_tag": "rectargets", "_nt": True, "_sig": "rec|%s|%s" % (key, shape_of(v))}


def check_facts(facts):
    """the regenerated inventory of panic-capable sites against the reviewed one"""
    import os
    from .. import common as C
    exp_path = os.path.join(C.EXTRACT, "sites.expected.json")
    if not os.path.exists(exp_path):
        return None
    exp = json.load(open(exp_path))
    got = facts.get("sites") or {}
    new = []
    for fn, sites in got.items():
        es = exp.get(fn)
        if es is None:
            new.append("%s: function with panic-capable sites is not in the reviewed inventory" % fn)
        elif sorted(es) != sorted(sites):
            # by count: a second occurrence of a reviewed expression is a new site
            extra = sorted(set(x for x in sites if sites.count(x) > es.count(x)))
            if extra:
                new.append("%s: unaccounted site(s) %s" % (fn, extra[:3]))
    if new:
        return "unaccounted panic-capable sites: " + "; ".join(new[:5])
    return check_calls(facts)


def check_calls(facts):
    """guards that several functions have to call for a repair to hold: the regenerated table of who calls them against the
    reviewed extract/calls.expected.json (a guard dropped from one of two cooperating sites is proof-broken)"""
    import os
    from .. import common as C
    exp_path = os.path.join(C.EXTRACT, "calls.expected.json")
    if not os.path.exists(exp_path):
        return None
    exp = json.load(open(exp_path))
    got = facts.get("calls") or {}
    gone = ["%s no longer calls %s" % (fn, g) for fn, gs in sorted(exp.items()) for g in gs if g not in (got.get(fn) or [])]
    if gone:
        return "cooperating guard sites changed: " + "; ".join(gone[:5])
    return None


def normalize_pair(case, impl, model):
    if case.get("k") == "forest":
        from .. import forest as FO
        return FO.normalize_pair(case, impl, model)
    return normalize_result(case, model), normalize_result(case, impl)


def wf_data(d):
    """a well-formed datum of the line protocol"""
    if d is None:
        return True
    if not isinstance(d, dict):
        return False
    if "m" in d:
        return isinstance(d["m"], list) and all(isinstance(e, list) and len(e) == 2 and isinstance(e[0], str) and wf_data(e[1]) for e in d["m"])
    if "a" in d:
        return isinstance(d["a"], list) and all(wf_data(x) for x in d["a"])
    return any(k in d for k in ("u", "i", "s", "b", "f"))


def fix_candidate(cand, base):
    if cand.get("k") == "rectarget":
        return cand if wf_data(cand.get("from")) and isinstance(cand.get("from"), dict) and "m" in cand["from"] else None
    if cand.get("k") == "oddtarget":
        return cand if wf_data(cand.get("from")) and cand.get("name") == base.get("name") else None
    if cand.get("k") == "forest":
        ops = cand.get("ops")
        if not isinstance(ops, list) or not all(isinstance(o, dict) and "op" in o for o in ops):
            return None
        live = set()
        for o in ops:
            needs = ([] if o["op"] == "new" else [o["r"]]) + [o[k] for k in ("child",) if k in o]
            if any(x not in live for x in needs):
                return None
            if o["op"] == "new": live.add(o["r"])
            if o["op"] == "child": live.add(o["to"])
        return cand
    if cand.get("k") == "ifaceheld":
        from . import c04
        return c04.fix_candidate(cand, base)
    return TG.fix_typed_candidate(cand, base)


def cycle_cases(rng, tier):
    """SetChild between relatives, over several configs: the receiver itself, its parents, a config the name leads through,
    a config that holds the receiver by way of a second attachment, a former parent whose link went stale with a Remove.
    Every config is dumped after every step: a structure containing itself, or a chain of parent links that does, ends
    the process."""
    PS = [opt("PathSep", ".")]
    def new(r, t): return {"op": "new", "r": r, "from": t, "opts": PS}
    def child(r, nm, to, idx=-1): return {"op": "child", "r": r, "name": nm, "idx": idx, "to": to, "opts": PS}
    def setc(r, nm, ch, idx=-1): return {"op": "setchild", "r": r, "name": nm, "idx": idx, "child": ch, "opts": PS}
    def rem(r, nm, idx=-1): return {"op": "remove", "r": r, "name": nm, "idx": idx, "opts": PS}
    def rd(r): return {"op": "read", "r": r, "what": "view", "name": "", "idx": -1, "opts": PS}
    directed = [
        [new(0, M([("o", M([("in", M([("x", U(1))]))]))])), child(0, "o", 1), setc(0, "o.back", 1), rd(1)],
        [new(0, M([("o", M([("in", M([("x", U(1))]))]))])), child(0, "o", 1), setc(0, "o.in.deeper.back", 1), rd(0)],
        [new(0, M([("l", A([M([("x", U(1))])]))])), child(0, "l", 1, 0), setc(0, "l.0.q", 1, 2), rd(0)],
        [new(0, M([("x", M([("k", M([("v", U(1))]))]))])), new(1, M([("w", U(1))])), child(0, "x", 2), setc(1, "y", 2), child(2, "k", 3),
         setc(3, "z", 1), rd(1)],
        [new(0, M([("a", U(1))])), new(1, M([("m", M([("v", U(1))]))])), child(1, "m", 2), rem(1, "m"), setc(0, "n", 2), setc(0, "n.z", 1), rd(2)],
    ]
    for i, ops in enumerate(directed):
        yield {"k": "forest", "regs": 5, "ops": ops, "_tag": "cycles/directed", "_nt": True, "_sig": "cycle-directed|%d" % i}
    names = ["o", "o.in", "k", "o.k", "o.in.k", "k.z", "l.0", "l.1.q", "back"]
    for n in range(60 if tier == "quick" else 600):
        ops = [new(0, M([("o", M([("in", M([("x", U(1))]))])), ("l", A([M([("y", U(2))])]))])), new(1, M([("k", M([("z", M([]))])), ("w", U(1))]))]
        live = [0, 1]
        for _ in range(4 + rng.below(6)):
            r = rng.pick(live)
            k = rng.below(10)
            if k < 3:
                to = rng.pick([2, 3, 4])
                ops.append(child(r, rng.pick(names), to))
                if to not in live: live.append(to)       # (stays empty when there is no such child: later uses are skipped)
            elif k < 8:
                ops.append(setc(r, rng.pick(names), rng.pick(live), rng.pick([-1, -1, -1, 0, 1])))
            elif k < 9:
                ops.append(rem(r, rng.pick(names)))
            else:
                ops.append(rd(r))
        yield {"k": "forest", "regs": 5, "ops": ops, "_tag": "cycles/random", "_nt": True,
               "_sig": "cycle-random|%d|%s" % (len(ops), ",".join(sorted(set(o["op"] for o in ops))))}


_gen_streams = gen


def gen(rng, tier):
    yield from _gen_streams(rng, tier)
    yield from odd_cases(rng.fork("odd"), tier)
    yield from cycle_cases(rng.fork("cycles"), tier)
    # (f) pre-filled interface{} fields, map entries and list elements holding structs by value and by pointer
    from . import c04
    yield from c04.ifaceheld_cases(rng.fork("ifaceheld"), tier)


def nontrivial(case, impl):
    return bool(case.get("_nt"))


def sig(case, impl):
    out = "crash" if crashed(impl) else ("err" if isinstance(impl, dict) and ("err" in impl or impl.get("loaded") is False) else "ok")
    return case.get("_sig", "") + "|" + out
