"""C02 — variable expansion is late-bound substitution with a fixed lookup order."""
from ..gens import *

ID = "C02"
LEAN_MODULE = "Ucfg.Props.C02"
LEVEL_TEXT = 'Lexer/parser totality and escape theorems for every string, lookup-order theorems (root, Env latest first, resolvers latest first), unresolved-is-error, and the operator table for constant names (default_keeps_value, default_used_when_lookup_fails/empty, alternative_when_set/unset, required_keeps_value, required_raises_message) relative to what looking the name up does; late binding across merges is compared with the model and an independent evaluator (partial).'
CORRESPONDENCE = "Vars.lexer/parseToks + Eval.{dynValue,resolveRef,refEval,evalExpr,reifyE} ~ VarExp settings read through Unpack / getters / Child"
RULE = ("settings whose strings are built by a grammar of literals, ${ref}, ${ref:default}, ${ref:+alt}, ${ref:?msg}, nested references "
        "(in names and in operands, depth <= 4), $$ and $} escapes; each referenced name placed in the root config, in one of up to 3 "
        "Env configs, in one of up to 3 resolvers, in several of them, or nowhere, set / empty; the referenced value defined before or "
        "after the referencing one (merge order); read through Unpack, String/Int/Bool getters, Has, Child. Oracle: an independent "
        "Python evaluator of the statement (first hit in root, Envs latest first, resolvers latest first; operator table; unresolved = "
        "error) for settings whose substituted text is not re-typed; everything is also compared with the Lean model. A second stream "
        "puts references into list elements and nested objects (depth <= 3) and (re)defines the referenced names by one to three later "
        "merges: the value read must be the one after the last merge (late binding). A malformed "
        "stream (unbalanced braces, trailing $ / :) is compared with the model. Non-trivial: at least one reference. Distinct by "
        "(operator set, nesting depth, placement pattern, outcome kind).")
TRUSTED_BASE = ["Lean 4 kernel", "extractor: operator tokens", "Model/Vars.lean, Eval.lean transcribe variables.go/types.go (differential check)",
                "Python reference evaluator of the statement (oracle for string-valued settings)", "correspondence harness"]
ASSUMPTIONS = ["resolvers are finite tables", "settings whose substituted text parses as a number/bool/list are compared with the model only "
               "(the code re-types spliced text through parse.Value)"]

WORDS = ["alpha", "beta", "gam ma", "delta", "x-y", "q", "zz top", "cost$", "a}b", "$"]
OPWORDS = ["http://h:1", "a:b:c", "k:+v", "x:?y", "is required: define it"]
NAMES = ["n0", "n1", "n2", "n3", "o.k", "o.j", "p"]


class Env:
    def __init__(self):
        self.root = {}      # name -> template
        self.envs = []      # list of dict name -> literal
        self.res = []       # list of dict name -> literal


def lookup_literal(E, name):
    """first hit: root (template!), envs latest first, resolvers latest first"""
    if name in E.root:
        return ("root", E.root[name])
    for e in reversed(E.envs):
        if name in e:
            return ("env", e[name])
    for r in reversed(E.res):
        if name in r:
            return ("res", r[name])
    return None


class Cyc(Exception):
    pass


class Unres(Exception):
    pass


class Skip(Exception):
    pass


TRACE = None     # name -> set of outcomes of its evaluations during one read (see context_dependent)


def _record(name, outcome):
    if TRACE is not None:
        TRACE.setdefault(name, set()).add(outcome)


def context_dependent():
    """some setting was evaluated more than once during the read and did not come out the same each time (its value
    depends on which settings were being evaluated around it): whether the later evaluations happen at all is up to the
    per-call value cache, the statement does not decide such reads"""
    return TRACE is not None and any(len(v) > 1 for v in TRACE.values())


def ev_name(E, name, active):
    """value of a reference: (found, text)"""
    if name in active:
        # re-entered: a cyclic reference at this point, which an Env or a resolver that knows the name absorbs
        for e in reversed(E.envs):
            if name in e:
                return e[name]
        for r in reversed(E.res):
            if name in r:
                if r[name] == "":
                    raise Skip(name)
                return r[name]
        raise Cyc(name)
    hit = lookup_literal(E, name)
    if hit is None:
        raise Unres(name)
    where, val = hit
    if where == "root":
        try:
            out = ev_tmpl(E, val, active | {name})
        except (Cyc, Unres) as e:
            _record(name, "!" + type(e).__name__)
            raise
        _record(name, out)
        return out
    if where == "res" and val == "":
        # a resolver answering with the empty string: the code reads "" for a setting that is exactly this reference and
        # reports "can not resolve" inside a longer string - the statement does not decide, no expectation
        raise Skip(name)
    return val


def ev_tmpl(E, t, active):
    """t is a parsed template: list of pieces ('lit', s) | ('ref', name_tmpl) | ('op', op, name_tmpl, operand_tmpl)"""
    out = ""
    for p in t:
        if p[0] == "lit":
            out += p[1]
        elif p[0] == "ref":
            name = ev_tmpl(E, p[1], active)
            out += ev_name(E, name, active)
        else:
            _, op, nt, ot = p
            name = None
            try:
                name = ev_tmpl(E, nt, active)
                v = ev_name(E, name, active) if name != "" else None
            except (Cyc, Unres):
                v = None
            except Skip as e:
                # the name itself is answered by a resolver with "": reads as empty here. A "" further down (inside the
                # value of the setting this name refers to) stays undecided
                if name is not None and e.args and e.args[0] == name and name not in E.root:
                    v = ""
                else:
                    raise
            if op == ":":
                out += v if v else ev_tmpl(E, ot, active)
            elif op == ":+":
                # alternative: only when x is set - defined in the tree or an Env (whatever its value), or known
                # to a resolver with a non-empty value; the value itself is not evaluated
                out += ev_tmpl(E, ot, active) if is_set(E, ev_tmpl(E, nt, active), active) else ""
            else:
                if v:
                    out += v
                else:
                    raise Unres(ev_tmpl(E, ot, active))
    return out


def is_set(E, name, active):
    if name == "":
        return False
    hit = lookup_literal(E, name)
    if name in active:
        # re-entered: only a resolver can still answer
        for r in reversed(E.res):
            if name in r:
                return r[name] != ""
        return False
    if hit is None:
        return False
    if hit[0] in ("root", "env"):
        return True
    return hit[1] != ""


def oracle_scope(t):
    """the reference evaluator covers literals, constant-name references, default and alternative operators"""
    for p in t:
        if p[0] == "ref":
            if any(q[0] != "lit" for q in p[1]):
                return False
        elif p[0] == "op":
            if p[1] == ":?" or any(q[0] != "lit" for q in p[2]) or not oracle_scope(p[3]):
                return False
    return True


def closure_in_scope(E, t, seen=None):
    """every setting reachable from t is in the oracle's scope"""
    seen = seen if seen is not None else set()
    if not oracle_scope(t):
        return False
    for p in t:
        names = []
        if p[0] == "ref":
            names.append(p[1][0][1])
        elif p[0] == "op":
            names.append(p[2][0][1])
            if not closure_in_scope(E, p[3], seen):
                return False
        for nm in names:
            if nm in E.root and nm not in seen:
                seen.add(nm)
                if not closure_in_scope(E, E.root[nm], seen):
                    return False
    return True


def closure_has_ops(E, t, seen=None):
    seen = seen if seen is not None else set()
    for p in t:
        if p[0] == "op":
            return True
        if p[0] == "ref":
            nm = p[1][0][1] if p[1] and p[1][0][0] == "lit" else None
            if nm in E.root and nm not in seen:
                seen.add(nm)
                if closure_has_ops(E, E.root[nm], seen):
                    return True
    return False


def render(t):
    s = ""
    for p in t:
        if p[0] == "lit":
            s += p[1].replace("$", "$$")
        elif p[0] == "ref":
            s += "${" + render_in(p[1]) + "}"
        else:
            s += "${" + render_in(p[2]) + p[1] + render_in(p[3]) + "}"
    return s


def render_in(t):
    """inside braces a literal '}' or ':' must be escaped / avoided; literals there come from NAMES/WORDS only"""
    s = ""
    for p in t:
        if p[0] == "lit":
            s += p[1].replace("$", "$$").replace("}", "$}")
        elif p[0] == "ref":
            s += "${" + render_in(p[1]) + "}"
        else:
            s += "${" + render_in(p[2]) + p[1] + render_in(p[3]) + "}"
    return s


def rand_tmpl(rng, depth, names):
    n = 1 + rng.below(3)
    out = []
    for _ in range(n):
        r = rng.below(10)
        if depth <= 0 or r < 3:
            out.append(("lit", rng.pick(WORDS)))
        elif r < 7:
            nm = [("lit", rng.pick(names))] if rng.chance(0.85) or depth <= 1 else rand_name_tmpl(rng, depth - 1, names)
            out.append(("ref", nm))
        else:
            op = rng.pick([":", ":+", ":?"])
            nm = [("lit", rng.pick(names))]
            # (the text behind an operator may itself contain separators: they are text there)
            out.append(("op", op, nm, rand_tmpl(rng, depth - 1, names) if rng.chance(0.7) else [("lit", rng.pick(WORDS + OPWORDS))]))
    return out


def rand_name_tmpl(rng, depth, names):
    # a computed name: ${${x}} where x holds a name
    return [("ref", [("lit", rng.pick(names))])]


def has_ops(t):
    s = set()
    for p in t:
        if p[0] == "ref":
            s.add("ref"); s |= has_ops(p[1])
        elif p[0] == "op":
            s.add(p[1]); s |= has_ops(p[2]) | has_ops(p[3])
    return s


def build_case(rng, tier):
    E = Env()
    names = list(NAMES)
    pointer_names = ["pn0", "pn1"]
    nsettings = 2 + rng.below(4)
    # leaves
    placement = {}
    for nm in names:
        r = rng.below(10)
        if r < 4:
            E.root[nm] = [("lit", rng.pick(WORDS))]; placement[nm] = "root"
        elif r < 6:
            placement[nm] = "env"
        elif r < 8:
            placement[nm] = "res"
        elif r < 9:
            placement[nm] = "multi"
        else:
            placement[nm] = "none"
    for _ in range(rng.below(4)):
        E.envs.append({})
    for _ in range(rng.below(4)):
        E.res.append({})
    for nm, pl in placement.items():
        if pl in ("env", "multi") and E.envs:
            for e in rng.shuffle(E.envs)[:1 + rng.below(2)]:
                e[nm] = rng.pick(WORDS + [""])
        if pl in ("res", "multi") and E.res:
            for e in rng.shuffle(E.res)[:1 + rng.below(2)]:
                e[nm] = rng.pick(WORDS + [""])
    # settings that hold names (for computed references)
    for pn in pointer_names:
        E.root[pn] = [("lit", rng.pick(names))]
    # referencing settings (acyclic by construction: s_i may reference leaves and s_j with j < i)
    refs = []
    avail = names + pointer_names
    for i in range(nsettings):
        nm = "s%d" % i
        E.root[nm] = rand_tmpl(rng, 1 + rng.below(3 if tier == "quick" else 4), avail)
        refs.append(nm)
        avail = avail + [nm]
    return E, refs, placement


def to_case(rng, E, refs, placement, tier):
    def nest(d):
        out = {}
        for k, v in d.items():
            if "." in k:
                a, b = k.split(".", 1)
                out.setdefault(a, {})[b] = v
            else:
                out[k] = v
        return M([(k, M([(k2, S(v2)) for k2, v2 in v.items()]) if isinstance(v, dict) else S(v)) for k, v in out.items()])
    root_items = {k: render(t) for k, t in E.root.items()}
    copts = [opt("PathSep", "."), opt("VarExp")]
    ropts = [opt("PathSep", "."), opt("VarExp")]
    for e in E.envs:
        ropts.append({"o": "Env", "v": nest(e), "opts": [opt("PathSep", ".")]})
    for r in E.res:
        ropts.append({"o": "Resolve", "v": [{"name": k, "val": v, "cfg": {"array": True, "object": False}} for k, v in r.items()]})
    # merge order: define part of the root later
    keys = rng.shuffle(list(root_items.keys()))
    cut = rng.below(len(keys) + 1) if rng.chance(0.5) else len(keys)
    first = {k: root_items[k] for k in keys[:cut]}
    later = {k: root_items[k] for k in keys[cut:]}
    reads, expect = [], []
    for nm in refs:
        reads.append({"r": "get", "type": "String", "name": nm, "idx": -1})
        if not closure_in_scope(E, E.root[nm]):
            expect.append(None)
            continue
        try:
            global TRACE
            TRACE = {}
            try:
                v = ev_tmpl(E, E.root[nm], frozenset())
            finally:
                dep = context_dependent()
                TRACE = None
            if dep:
                expect.append(None)
            elif v == "" or v.strip() != v or any(ch.isdigit() for ch in v) or v in ("true", "false", "null", "on", "off", "t", "f", "T", "F") or "," in v:
                expect.append(None)        # re-typed / trimmed by parse.Value: model comparison only
            else:
                expect.append({"ok": {"s": v}})
        except (Cyc, Unres):
            # a failure somewhere below default/alternative operators may be absorbed in ways that depend on the per-call
            # cache (the neighbourhood of known finding D17): only operator-free closures are decided here
            expect.append({"anyerr": True} if not closure_has_ops(E, E.root[nm]) and not dep else None)
        except Skip:
            expect.append(None)
    if rng.chance(0.5):
        reads.append({"r": "view"}); expect.append(None)
    if rng.chance(0.3):
        reads.append({"r": "has", "name": rng.pick(refs), "idx": -1}); expect.append(None)
    c = {"k": "eval", "from": nest(first), "opts": copts, "merges": ([{"b": nest(later), "opts": copts}] if later else []),
         "ropts": ropts, "reads": reads, "expect": expect, "repeat": 3}
    return c


def gen(rng, tier):
    n = 700 if tier == "quick" else 7000
    for _ in range(n):
        E, refs, placement = build_case(rng, tier)
        c = to_case(rng, E, refs, placement, tier)
        ops = set()
        for nm in refs:
            ops |= has_ops(E.root[nm])
        c["_tag"] = "eval/" + "+".join(sorted(ops))
        c["_nt"] = bool(ops)
        c["_sig"] = "%s|%s|e%d r%d" % ("+".join(sorted(ops)), "".join(sorted(set(p[0] for p in placement.values()))), len(E.envs), len(E.res))
        yield c
    # late binding inside containers: references in list elements / nested objects, the referenced names (re)defined by later merges
    W = ["one", "two", "three", "here", "there"]
    for _ in range(n // 6):
        x0, x1 = rng.pick(W), rng.pick(W)
        later = rng.chance(0.5)
        lv = rng.pick(W)
        def tm(final):
            r = rng.below(4)
            x = x1 if final else x0
            if r == 0: return "${x}", x
            if r == 1: return "p-${x}-q", "p-" + x + "-q"
            if r == 2: return "${later:none}", (lv if later else "none")
            return "${x}${later:+ and ${later}}", (x + (" and " + lv if later else ""))
        reads, expect = [], []
        def leaf(path):
            t, want = tm(True)
            reads.append({"r": "get", "type": "String", "name": path, "idx": -1}); expect.append({"ok": {"s": want}})
            return S(t)
        shape = rng.below(4)
        if shape == 0:
            body = [("l", A([leaf("l.0"), leaf("l.1")]))]
        elif shape == 1:
            body = [("l", A([M([("k", leaf("l.0.k"))]), leaf("l.1")]))]
        elif shape == 2:
            body = [("o", M([("in", A([leaf("o.in.0"), A([leaf("o.in.1.0")])]))]))]
        else:
            body = [("l", A([A([leaf("l.0.0")]), M([("m", A([leaf("l.1.m.0")]))])])), ("d", M([("k", leaf("d.k"))]))]
        copts = [opt("PathSep", "."), opt("VarExp")]
        merges = [{"b": M([("x", S(x1))]), "opts": copts}]
        if later:
            merges.insert(rng.below(2), {"b": M([("later", S(lv))]), "opts": copts})
        if rng.chance(0.3):
            merges.append({"b": M([("unrelated", A([S("${x}")]))]), "opts": copts})
        if rng.chance(0.4):
            # the same lists / objects merged over themselves (index-wise merge of a list over an existing list) before the
            # name is redefined: the elements that end up in the tree resolve in that tree
            merges.insert(0, {"b": M(body), "opts": copts})
        reads.append({"r": "view"}); expect.append(None)
        yield {"k": "eval", "from": M(rng.shuffle([("x", S(x0))] + body)), "opts": copts, "merges": merges, "ropts": copts, "reads": reads, "expect": expect,
               "repeat": 2, "_tag": "eval/late-binding-containers", "_nt": True, "_sig": "late|%d|%s|%s" % (shape, later, x0 == x1)}
    # one Config object used twice: merged into the root and embedded in an Env config; each copy resolves in its own tree
    for _ in range(n // 12):
        w1, w2 = rng.pick(W), rng.pick(W)
        copts = [opt("PathSep", "."), opt("VarExp")]
        tmpl = {"shared": "T", "c": {"v": M([("greet", S("hello ${name}")), ("lst", A([S("${name}!"), S("n=${name}")])), ("deep", M([("g", S("<${name}>"))]))]), "opts": copts}}
        frm = M([("name", S(w1)), ("s", S("${greet} / ${e.greet}")), ("s2", S("${e.lst.0} + ${lst.0}")), ("s3", S("${deep.g}${e.deep.g}${lst.1}"))])
        env = {"o": "Env", "v": M([("name", S(w2)), ("e", tmpl)]), "opts": [opt("PathSep", ".")]}
        order = rng.chance(0.5)
        reads = [{"r": "get", "type": "String", "name": nm, "idx": -1} for nm in (["s", "s2", "s3"] if order else ["s3", "s2", "s"])]
        want = {"s": "hello %s / hello %s" % (w1, w2), "s2": "%s! + %s!" % (w2, w1), "s3": "<%s><%s>n=%s" % (w1, w2, w1)}
        yield {"k": "eval", "from": frm, "opts": copts, "merges": [{"b": tmpl, "opts": copts}], "ropts": copts + [env], "reads": reads + [{"r": "view"}],
               "expect": [{"ok": {"s": want[r["name"]]}} for r in reads] + [None], "repeat": 1,
               "_tag": "eval/shared-template", "_nt": True, "_sig": "shared|%s|%s" % (order, w1 == w2)}
    # malformed expressions: compared with the model
    bad = ["${", "${a", "${a:", "a}", "$", "$$", "${}", "${:x}", "${a:+}", "${a:?}", "${${}}", "$}", "${a}}", "x:${n0}:y", "${n0:${", "${n0:$}", ":", "${ n0 }",
           "${n0}$", "$${n0}", "${n0:+${n1:?e}}", "${n9:?msg ${n0}}", "${n0.x}", "${o}", "${o.k.z}", "${0}", "[${n0}]", "${n0},${n1}", "{a: ${n0}}"]
    for b in bad:
        yield {"k": "eval", "from": M([("n0", S("alpha")), ("n1", S("")), ("o", M([("k", S("beta"))])), ("s", S(b))]),
               "opts": [opt("PathSep", "."), opt("VarExp")], "merges": [], "ropts": [opt("PathSep", "."), opt("VarExp")],
               "reads": [{"r": "get", "type": "String", "name": "s", "idx": -1}, {"r": "view"}], "repeat": 1,
               "_tag": "eval/malformed", "_nt": True, "_sig": "bad|" + b}


fix_candidate = fix_eval_candidate


def nontrivial(case, impl):
    return bool(case.get("_nt"))


def sig(case, impl):
    outs = []
    if isinstance(impl, dict) and isinstance(impl.get("reads"), list):
        for r in impl["reads"]:
            outs.append("ok" if isinstance(r, dict) and "ok" in r else ("err:" + str(r.get("err", {}).get("reason")) if isinstance(r, dict) else "x"))
    return case.get("_sig", "") + "|" + ",".join(sorted(set(outs)))
