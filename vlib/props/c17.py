"""C17 — parse.Value accepts every JSON value and reads it back faithfully."""
import json as pyjson
from ..gens import *

ID = "C17"
LEAN_MODULE = "Ucfg.Props.C17"
LEVEL_TEXT = 'value_never_panics and invalid_config_rejected for every string and config, plain-string scanner theorems; Spec.C17 (JSON documents parse to their value) as oracle; render/parse round trip compared (partial); known finding D4.'
CORRESPONDENCE = "Parse.valueWithConfig ~ parse.Value / parse.ValueWithConfig"
RULE = ("(a) kind 'json': random JSON documents (nesting <= 5; strings over quotes, backslashes incl. trailing, controls, non-ASCII, "
        "astral; integer/float literals incl. 64-bit boundaries) rendered compact, indented (LF and CRLF) and with random extra whitespace incl. CR, VT, FF and Unicode spaces; "
        "oracle = equality with the data the document denotes (Spec.C17.expected). (b) kind 'parse': exhaustive short strings over "
        "the scanner's special characters under every parse.Config (valid and invalid) and random flag-style values; compared with the "
        "model. Plus: parse.Value after other uses of the library in the same process (splices read under IgnoreCommas that fail inside the parser; -D key=value flags of the flag package), with a check that package-level parser state is unchanged. Non-trivial: a document with at least one container or escape, or a string with a special character. Distinct by "
        "(layout, shape class, config, outcome). (c) IgnoreCommas: one to three values (quoted, bracketed, plain) joined by top-level commas under six configs with IgnoreCommas, and exhaustive short strings containing a comma: oracle = no list unless the text is a single bracketed array (D49).")
TRUSTED_BASE = ["Lean 4 kernel", "extractor: stop sets, bool keywords, parse.*Config literals",
                "strconv.ParseFloat as a parameter (Stdlib.parseFloat; answered by the real stdlib during the run)",
                "strconv.Unquote / ParseInt / ParseUint modelled exactly (Model/Parse.lean, Base/IntLit.lean), validated differentially",
                "correspondence harness"]
ASSUMPTIONS = ["strings are valid UTF-8 (escapes producing other bytes, \\x80..\\xff, are outside the model and skipped)",
               "JSON-only escapes (\\/ and surrogate pairs) are the open known finding D4"]
EXHAUSTIVE = {"quick": False, "thorough": False}

SPECIAL = list("[]{}\"'\\,: a1-") + ["\n"]
STR_ALPHA = list("ab 01,:[]{}'$.") + ['"', "\\", "\n", "\t", "\x01", "é", "日", "😀", "/", "<"]


def rand_str(rng, maxlen=8):
    return "".join(rng.pick(STR_ALPHA) for _ in range(rng.below(maxlen + 1)))


def rand_num(rng):
    k = rng.below(10)
    if k < 4:
        return str(rng.pick([0, 1, 7, 42, 1024, -1, -17, 2**31, -2**31]))
    if k < 6:
        return str(rng.pick([2**63 - 1, 2**63, -2**63, -2**63 - 1, 2**64 - 1, 2**64, 2**53 + 1, 10**30]))
    if k < 8:
        return rng.pick(["0.5", "-0.0", "1.5e3", "1E-2", "3.14", "1e400", "-1e-400", "0.1", "123456789.125", "-0"])
    return "%d.%d" % (rng.below(1000), rng.below(100))


def rand_json(rng, depth):
    k = rng.below(10)
    if depth <= 0 or k < 4:
        t = rng.below(6)
        if t == 0: return None
        if t == 1: return {"jb": rng.chance(0.5)}
        if t <= 3: return {"jn": rand_num(rng)}
        return {"js": rand_str(rng)}
    if k < 7:
        return {"ja": [rand_json(rng, depth - 1) for _ in range(rng.below(4))]}
    keys = []
    out = []
    for _ in range(rng.below(4)):
        key = rng.pick(["a", "b", "k1", "x y", "", "é", "a.b", "0"]) if rng.chance(0.8) else rand_str(rng, 4)
        out.append([key, rand_json(rng, depth - 1)])
    return {"jo": out}


def render(j, rng, layout):
    """Render the protocol JSON value as JSON text in the given layout."""
    def ws():
        if layout == "compact":
            return ""
        if layout == "indent":
            return ""
        if layout == "crlf":
            return rng.pick(["", "\r\n", "\r", "\r\n  ", " \r", "\x0b", "\x0c", "\u00a0", "\u2003", "\u3000", "\u0085"])
        return rng.pick(["", " ", "  ", "\n", "\t", " \n "])

    def go(v, ind):
        if v is None:
            return "null"
        if "jb" in v:
            return "true" if v["jb"] else "false"
        if "jn" in v:
            return v["jn"]
        if "js" in v:
            s = pyjson.dumps(v["js"], ensure_ascii=rng.chance(0.3))
            if "/" in v["js"] and rng.chance(0.15):
                s = s.replace("/", "\\/")
            return s
        if "ja" in v:
            if not v["ja"]:
                return "[" + ws() + "]"
            if layout == "indent":
                pad = "\n" + "  " * (ind + 1)
                return "[" + ",".join(pad + go(x, ind + 1) for x in v["ja"]) + "\n" + "  " * ind + "]"
            return "[" + ",".join(ws() + go(x, ind + 1) + ws() for x in v["ja"]) + "]"
        items = v["jo"]
        if not items:
            return "{" + ws() + "}"
        if layout == "indent":
            pad = "\n" + "  " * (ind + 1)
            return "{" + ",".join(pad + pyjson.dumps(k, ensure_ascii=False) + ": " + go(x, ind + 1) for k, x in items) + "\n" + "  " * ind + "}"
        return "{" + ",".join(ws() + pyjson.dumps(k, ensure_ascii=False) + ws() + ":" + ws() + go(x, ind + 1) + ws() for k, x in items) + "}"
    return go(j, 0)


def shape(j):
    if j is None: return "n"
    if "jb" in j: return "b"
    if "jn" in j: return "#"
    if "js" in j:
        s = j["js"]
        return "s" + ("q" if '"' in s else "") + ("\\" if "\\" in s else "") + ("c" if any(ord(c) < 32 for c in s) else "") + ("u" if any(ord(c) > 127 for c in s) else "")
    if "ja" in j: return "[" + "".join(sorted(set(shape(x)[0] for x in j["ja"]))) + "]"
    return "{" + "".join(sorted(set(shape(x)[0] for _, x in j["jo"]))) + "}"


def gen(rng, tier):
    n = 1500 if tier == "quick" else 15000
    for _ in range(n):
        j = rand_json(rng, 1 + rng.below(5))
        layout = rng.pick(["compact", "indent", "ws", "crlf"])
        c = {"k": "json", "json": j, "s": render(j, rng, layout), "_tag": "json/" + layout}
        if layout == "indent" and rng.chance(0.3):
            # the same indented document with CRLF line endings
            c["s"] = c["s"].replace("\n", "\r\n")
            c["_tag"] = "json/indent-crlf"
        if rng.chance(0.2):
            # IgnoreCommas only concerns a top-level comma: a document (which has none) parses to the same data
            c["cfg"] = {"ignoreCommas": True}
            c["_tag"] += "+ignoreCommas"
        yield c
    # exhaustive short strings under several configs
    cfgs = [None, {"array": True, "object": False}, {"array": False, "object": False, "dq": False, "sq": False, "ignoreCommas": True},
            {"dq": False}, {"sq": False}, {"array": False, "object": True}, {"ignoreCommas": True}]
    alpha = list("[]{}\"'\\,:a1 ") if tier == "thorough" else list("[]{}\",:a1\\")
    L = 4 if tier == "thorough" else 3

    def rec(prefix, depth):
        yield prefix
        if depth < L:
            for ch in alpha:
                yield from rec(prefix + ch, depth + 1)
    for s in rec("", 0):
        yield {"k": "parse", "s": s, "cfg": None, "_tag": "parse/exh-default"}
    m = 600 if tier == "quick" else 6000
    for _ in range(m):
        s = "".join(rng.pick(SPECIAL + ["true", "null", "0x1f", "1.5", "on", '"a\\"b"', "\\\\", "\\u00e9", "\\x41", "\\101", "\\q"]) for _ in range(1 + rng.below(7)))
        yield {"k": "parse", "s": s, "cfg": rng.pick(cfgs), "_tag": "parse/random"}
    yield from gen_after_use(rng.fork("after-use"), m // 6)
    yield from gen_ignore_commas(rng.fork("ignore-commas"), m // 3, tier)


def gen_ignore_commas(rng, n, tier):
    """IgnoreCommas: a top-level comma builds no list, whatever the first value is (quoted, bracketed, plain)"""
    firsts = ['"a"', "'a'", "[1]", "[1,2]", "{a: 1}", '{"a":1}', "a", "1", '"a,b"', "[]", "{}", "null", '""']
    full = {"ignoreCommas": True}
    cfgs = [full, full, {"ignoreCommas": True, "object": False}, {"ignoreCommas": True, "dq": False},
            {"ignoreCommas": True, "sq": False}, {"ignoreCommas": True, "array": False, "object": False}]
    for _ in range(n):
        parts = [rng.pick(firsts) for _ in range(1 + rng.below(3))]
        sep = rng.pick([",", ", ", " ,", " , "])
        yield {"k": "parse", "s": sep.join(parts) + rng.pick(["", "", ",", " "]), "cfg": rng.pick(cfgs), "_tag": "parse/ignore-commas"}
    alpha = list("[]{}\",:a1 '")
    L = 4 if tier == "thorough" else 3

    def rec(prefix, depth):
        yield prefix
        if depth < L:
            for ch in alpha:
                yield from rec(prefix + ch, depth + 1)
    for s0 in rec("", 0):
        if "," in s0:
            yield {"k": "parse", "s": s0, "cfg": full, "_tag": "parse/exh-ignore-commas"}


def comma_built_list(s, cfg):
    """True when the text, read under cfg, can only have become a list through a top-level comma; None when this
    oracle does not decide (quotes or escapes inside a leading bracket)."""
    t = s.strip()
    array_on = cfg.get("array", True)
    if not (array_on and t.startswith("[")):
        return True
    if any(ch in t for ch in "\"'\\"):
        return None
    stack = []
    for i, ch in enumerate(t):
        if ch == "[":
            stack.append("]")
        elif ch == "{" and cfg.get("object", True):
            stack.append("}")
        elif ch in "]}" and (ch == "]" or cfg.get("object", True)):
            if not stack or stack[-1] != ch:
                return None                 # not well nested: the parser's business, this oracle abstains
            stack.pop()
            if not stack:
                return t[i + 1:].strip() != ""
    return None


def gen_after_use(rng, n):
    """parse.Value after other uses of the library in the same process (configs with references and splices read under
    IgnoreCommas / NoParse-free options, succeeding and failing inside the parser): the result is a function of the text"""
    bads = ["[${a}", "{${a}", "[${a},", "{k: ${a}", "'${a}", "${a}]"]
    goods = ["${a},2", "[${a}, 2]", "x${a}", "{k: ${a}}"]
    for _ in range(n):
        pre = []
        for _ in range(1 + rng.below(2)):
            v = rng.pick(bads) if rng.chance(0.6) else rng.pick(goods)
            ro = [opt("VarExp")] + ([opt("IgnoreCommas")] if rng.chance(0.7) else [])
            pre.append({"from": M([("a", S("1")), ("b", S(v))]), "opts": [opt("VarExp")], "name": "b", "ropts": ro})
        if rng.chance(0.4):
            # ... and -D key=value flags handled before (the flag package parses their values with parse.Value)
            pre.insert(rng.below(len(pre) + 1), {"flag": rng.pick(["k=v", "a.b=1", "l=[1,2]", "o={a: 1}", "b", "k='x", "k=1,2"]),
                                                  "autoBool": rng.chance(0.5), "opts": [opt("PathSep", ".")]})
        s = rng.pick(["1,2", "a,b", "[1],2", "1, 2, 3", "x", "[1,2]", "{a: 1},{b: 2}", ",", "{a: 1}", "{a: {b: [1, 2]}}", "[{a: 1}]"])
        yield {"k": "parse", "s": s, "cfg": None, "pre": pre, "_tag": "parse/after-use"}


def oracle(case, impl, model):
    if isinstance(impl, dict) and "stateChanged" in impl:
        return (False, "using the library changed package state (%s): what parse.Value returns now depends on earlier calls" % impl["stateChanged"])
    cfg = case.get("cfg") or {}
    if case.get("k") == "parse" and cfg.get("ignoreCommas") and isinstance(impl, dict) and isinstance(impl.get("ok"), dict) and "a" in impl["ok"]:
        if comma_built_list(case["s"], cfg):
            return (False, "IgnoreCommas is set and a top-level comma still built a list of %d values" % len(impl["ok"]["a"]))
    return None


def nontrivial(case, impl):
    if case["k"] == "json":
        sh = shape(case["json"])
        return sh[0] in "[{" or len(sh) > 1
    return any(c in case["s"] for c in "[]{}\"'\\,:")


def sig(case, impl):
    out = "ok" if isinstance(impl, dict) and "ok" in impl else ("err" if isinstance(impl, dict) and "err" in impl else "crash")
    if case["k"] == "json":
        return "json/%s/%s/%s" % (case["_tag"], shape(case["json"]), out)
    cfg = case.get("cfg")
    return "parse/%s/%s/%s" % (pyjson.dumps(cfg, sort_keys=True), "".join(sorted(set(c for c in case["s"] if c in "[]{}\"'\\,:"))), out)


def fix_candidate(cand, base):
    """Keep a shrunk 'json' case consistent: the text is re-rendered (compact) from the document
    unless only the document changed; a candidate that only changed the text is dropped."""
    if cand.get("k") != "json":
        return cand
    if cand.get("json") == base.get("json"):
        return None
    from ..common import Rng
    cand["s"] = render(cand["json"], Rng(1), "compact")
    return cand
