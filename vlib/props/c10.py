"""C10 — Merge copies: source and destination stay independent."""
from ..gens import *
from .. import forest as FO

ID = "C10"
LEAN_MODULE = "Ucfg.Props.C10"
LEVEL_TEXT = 'Identity-level heap model: a copy only allocates (every existing node identical afterwards: source untouched), is made of new nodes that do not point into the old heap (nothing shared), carries the requested context; list merges likewise; in-place writes are local. Merge AS A WHOLE (model function mergeH, every list policy, any depth; the function the driver runs histories through): a merge whose destination lies outside a separated set of nodes - the source tree, any third config - leaves every node of the set identical and nothing outside points into it afterwards (merge_leaves_separated_untouched, by a partition invariant carried through the three mutually recursive merge functions; merges_leave_separated_untouched for any sequence; merge_into_copy_leaves_everything_else). NewFrom and Merge of a source VALUE (Src: plain data with configs embedded anywhere; buildH, mergeSrcH, newFromH) leave every node that existed identical (newFrom_leaves_everything_untouched, mergeSrc_leaves_separated_untouched; buildH_ok by mutual induction over the source). PARTIAL: steps with references, nulls meeting objects or dotted source keys are unmodelled and decided by the fingerprint oracles (coverage.history_steps in the evidence counts the compared steps).'
CORRESPONDENCE = ("Model/Forest.lean (heap of nodes with stored contexts: cpy, appendCpy, setAt, delAt, SetValue, attach, storedPath) composed by "
                  "Driver/ForestDrv.lean ~ histories over several configs dumped after every step through VerifFingerprint (build tag verif): node "
                  "identities up to renaming, stored parents and names, values, Path(), Parent()")
TRUSTED_BASE = ["Lean 4 kernel", "the fingerprint hook verif_fingerprint.go (add-only, build tag verif)",
                "Driver/ForestDrv.lean composes the proved primitives into Merge/NewFrom/Set*/Remove/SetChild (glue, compared on every history up to the first step it does not cover: references, nulls meeting objects, dotted source keys, missing intermediate nodes)",
                "addresses as identities (the worker switches the garbage collector off for the duration of a history)", "correspondence harness"]
ASSUMPTIONS = []
RULE = ("histories over up to 5 configs: creation from plain trees (depth <= 3, with and without references), Merge and NewFrom whose source "
        "value embeds other configs at random positions (map values, slice elements, struct fields; by pointer and by value; directly as "
        "the merge source) under every merge policy, followed by Set*/Remove/SetChild/Child/Merge on either side. After every step all "
        "configs are dumped through the fingerprint hook. Oracle: a merge source is bit-for-bit unchanged (identities, stored parents and "
        "names, values, expressions, Path(), Parent()); afterwards destination and source share no node; a write to one config never changes "
        "the dump of a config outside its alias group (child handles and SetChild attach by reference and are in the group). Non-trivial: "
        "at least one embedded config. Distinct by (operation multiset, history length).")


def gen(rng, tier):
    n = 500 if tier == "quick" else 5000
    for i in range(n):
        yield FO.history(rng, tier, refs=(i % 3 == 0), reads=False, flavour="c10")


oracle = FO.oracle_for("C10")


normalize_pair = FO.normalize_pair
fix_candidate = FO.fix_candidate


def nontrivial(case, impl):
    return bool(case.get("_nt"))


def sig(case, impl):
    return case.get("_sig", "")
