"""C11 — Reads are pure."""
from ..gens import *
from .. import forest as FO

ID = "C11"
LEAN_MODULE = "Ucfg.Props.C11"
CORRESPONDENCE = ("Model/Forest.lean (heap of nodes with stored contexts: cpy, appendCpy, setAt, delAt, SetValue, attach, storedPath) composed by "
                  "Driver/ForestDrv.lean ~ histories over several configs dumped after every step through VerifFingerprint (build tag verif): node "
                  "identities up to renaming, stored parents and names, values, Path(), Parent()")
TRUSTED_BASE = ["Lean 4 kernel", "the fingerprint hook verif_fingerprint.go (add-only, build tag verif)",
                "Driver/ForestDrv.lean composes the proved primitives into Merge/NewFrom/Set*/Remove/SetChild (glue, compared on every history up to the first step it does not cover: references, nulls meeting objects, dotted source keys, missing intermediate nodes)",
                "addresses as identities (the worker switches the garbage collector off for the duration of a history)", "correspondence harness"]
ASSUMPTIONS = []
RULE = ("the C10 histories with references and with read operations mixed in: Unpack (generic and typed), getters, Has, CountField, Child, "
        "FlattenedKeys, diff.CompareConfigs, and configs used as merge sources. Oracle: the fingerprint of every config is identical before "
        "and after each read. The concurrent part: see kind 'concurrent' (race detector). Non-trivial: a reference or an embedded config is "
        "read. Distinct by (operation multiset, history length).")


def gen(rng, tier):
    n = 500 if tier == "quick" else 5000
    for i in range(n):
        yield FO.history(rng, tier, refs=(i % 2 == 0), reads=True, flavour="c11")


oracle = FO.oracle_for("C11")


normalize_pair = FO.normalize_pair
fix_candidate = FO.fix_candidate


def nontrivial(case, impl):
    return bool(case.get("_nt"))


def sig(case, impl):
    return case.get("_sig", "")
