"""C11 — Reads are pure."""
from ..gens import *
from .. import forest as FO

ID = "C11"
LEAN_MODULE = "Ucfg.Props.C11"
LEVEL_TEXT = 'A merge source is only read (one copy: merge_source_only_read; Merge as a whole: whole_merge_only_reads_source, from the C10 frame theorem); other reads are pure by construction of the functional model. PARTIAL: the schedule quantifier cannot be modelled - decided by fingerprints before/after every read and by concurrent readers on the -race build.'
CORRESPONDENCE = ("Model/Forest.lean (heap of nodes with stored contexts: cpy, appendCpy, setAt, delAt, SetValue, attach, storedPath) composed by "
                  "Driver/ForestDrv.lean ~ histories over several configs dumped after every step through VerifFingerprint (build tag verif): node "
                  "identities up to renaming, stored parents and names, values, Path(), Parent()")
TRUSTED_BASE = ["Lean 4 kernel", "the fingerprint hook verif_fingerprint.go (add-only, build tag verif)",
                "Driver/ForestDrv.lean composes the proved primitives into Merge/NewFrom/Set*/Remove/SetChild (glue, compared on every history up to the first step it does not cover: references, nulls meeting objects, dotted source keys, missing intermediate nodes)",
                "addresses as identities (the worker switches the garbage collector off for the duration of a history)", "correspondence harness"]
ASSUMPTIONS = []
RULE = ("the C10 histories with references and with read operations mixed in: Unpack (generic and typed), getters, Has, CountField, Child, "
        "FlattenedKeys, diff.CompareConfigs, and configs used as merge sources. Oracle: the fingerprint of every config is identical before "
        "and after each read. Concurrent part (kind 'concurrent', 60 / 600 configs): the C02/C08 reference graphs extended with resolver "
        "values that parse into objects and lists and references into them; every read (getters, generic and typed Unpack, Has, "
        "CountField, Child+Unpack, FlattenedKeys, CompareConfigs) is first performed alone, then by 4-8 goroutines at once, one of "
        "which also uses the config as a merge source; the worker is built with -race (GORACE halt_on_error). Oracle: no race report, "
        "every concurrent result equals the solo result, fingerprint unchanged. Plus: 'captured' reads - Unpack two or three times into one target capturing a setting as *Config / Config under every policy tag. Non-trivial: a reference or an embedded config is "
        "read. Distinct by (operation multiset, history length).")


NEEDS_RACE = True


def concurrent_case(rng, tier):
    """a config with references, splices, resolver values that parse into objects and lists, nested objects and lists;
    every kind of read performed by several goroutines at once (race-detector build of the worker)"""
    from . import c02, c08
    if rng.chance(0.5):
        while True:
            E, names, kind = c08.graph_case(rng, tier)
            # settings that default to each other are order dependent even for a single reader (known finding D17)
            if kind not in ("default-cycle", "random", "cycle-resolver"):
                break
        c = c02.to_case(rng, E, names, {}, tier)
    else:
        E, refs, placement = c02.build_case(rng, tier)
        c = c02.to_case(rng, E, refs, placement, tier)
        names = refs
    reads = [r for r in c["reads"]]
    nm = rng.pick(names)
    reads += [{"r": "view"}, {"r": "keys"}, {"r": "diffself"}, {"r": "has", "name": nm, "idx": -1}, {"r": "count", "name": nm},
              {"r": "typed", "name": nm, "ty": rng.pick(["strings", "string", "duration", "ifaces"])}, {"r": "get", "type": "String", "name": nm, "idx": -1}]
    # resolver-provided values that parse into objects / lists
    ropts = list(c["ropts"]) + [{"o": "Resolve", "v": [{"name": "robj", "val": "{a: 1, b: [x, y]}", "cfg": {"array": True, "object": True}},
                                                     {"name": "rlist", "val": "u,v,w", "cfg": {"array": True, "object": False}}]}]
    src = c["from"]
    src = M(src["m"] + [["viaobj", S("${robj}")], ["vialist", S("${rlist}")], ["nest", M([("deep", A([S("${viaobj.a}"), S("${vialist.1}")]))])]])
    reads += [{"r": "get", "type": "String", "name": "nest.deep", "idx": 0}, {"r": "childview", "name": "nest", "idx": -1},
              {"r": "typed", "name": "vialist", "ty": "strings"}]
    # lists at several levels, elements removed before the readers start (spare capacity), and the config used as a merge
    # source for pre-filled destinations under every list policy by all goroutines
    src = M(src["m"] + [["lst", A([S("e%d" % i) for i in range(3 + rng.below(4))])],
                        ["box", M([("inner", A([U(i) for i in range(2 + rng.below(4))])), ("k", S("v"))])]])
    pre = []
    for _ in range(rng.below(3)):
        pre.append({"op": "remove", "name": rng.pick(["lst", "box.inner"]), "idx": rng.below(2), "opts": [opt("PathSep", ".")]})
    dsts = []
    for _ in range(1 + rng.below(3)):
        dsts.append({"from": M([("lst", A([S("t%d" % i) for i in range(rng.below(3))])), ("box", M([("inner", A([U(90 + i) for i in range(rng.below(3))]))]))]),
                     "copts": [opt("PathSep", ".")], "opts": [opt("PathSep", "."), opt("VarExp")] + rng.pick([[opt("Prepend")], [opt("Append")], [], [opt("ReplaceArr")]])
                              + rng.pick([[], [], [opt(rng.pick(["FieldAppend", "FieldPrepend", "FieldReplace", "FieldMerge"]), [rng.pick(["lst", "box.inner", "box"])])]])})
    if rng.chance(0.4):
        # per-field policies among the options every reader shares (typed reads merge lists by them)
        ropts = ropts + [opt("PathSep", "."), opt(rng.pick(["FieldAppend", "FieldPrepend", "FieldReplace"]), [rng.pick(["lst", "box.inner", "vialist"])])]
        reads += [{"r": "typed", "name": "lst", "ty": "strings"}]
    # parts of the config come from different sources: references carry their own metadata
    merges = list(c["merges"])
    if rng.chance(0.6):
        names2 = [k for k, _ in src["m"] if not k.startswith("via") and k not in ("nest", "lst", "box")]
        if names2:
            tgt = rng.pick(names2)
            merges.append({"b": M([("overlay", S("${%s}" % tgt)), ("ovobj", S("${box}"))]), "opts": c["opts"] + [{"o": "MetaData", "v": "overlay.yml"}]})
            reads += [{"r": "get", "type": "String", "name": "overlay", "idx": -1}, {"r": "childview", "name": "ovobj", "idx": -1}]
    return {"k": "concurrent", "from": src, "opts": c["opts"], "merges": merges, "pre": pre, "dsts": dsts, "ropts": ropts, "reads": reads,
            "goroutines": 4 + rng.below(5), "rounds": 2 + rng.below(3), "_tag": "concurrent", "_nt": True,
            "_sig": "conc|%s|%d" % (c.get("_tag", "refs"), len(reads))}


def captured_refs(rng, tier):
    """a setting that is a reference to an object (or to a list of objects), captured as *Config / Config by a struct
    field and unpacked two or three times into the same target, under every list policy tag: the referenced object is read,
    never merged into itself"""
    VO = [opt("PathSep", "."), opt("VarExp")]
    for i in range(40 if tier == "quick" else 400):
        obj = M([("name", S(rng.pick(["x", "yy"]))), ("list", A([U(1 + j) for j in range(1 + rng.below(3))]))] +
                ([("in", M([("k", U(7))]))] if rng.chance(0.5) else []))
        where = rng.pick(["top", "nested"])
        if where == "top":
            src = M([("obj", obj), ("ref", S("${obj}")), ("other", U(1))]); nm = "ref"
        else:
            src = M([("box", M([("obj", obj), ("n", U(2))])), ("refs", M([("r", S("${box.obj}"))]))]); nm = "refs.r"
        ops = [{"op": "new", "r": 0, "from": src, "opts": VO}]
        for _ in range(1 + rng.below(3)):
            ty = rng.pick(["", "append", "prepend", "replace", "merge"]) + rng.pick(["", "", "|rebrand"]) + rng.pick(["", "", "|value"])
            ops.append({"op": "read", "r": 0, "what": "captured", "name": nm, "idx": 2 + rng.below(2), "ty": ty, "opts": VO})
            if rng.chance(0.5):
                ops.append({"op": "read", "r": 0, "what": rng.pick(["view", "keys"]), "name": "", "idx": -1, "opts": VO})
        yield {"k": "forest", "regs": 5, "ops": ops, "_tag": "forest/captured-ref", "_nt": True, "_sig": "captured-ref|%s|%d|%d" % (where, len(ops), i % 5)}


def gen(rng, tier):
    n = 400 if tier == "quick" else 4000
    for i in range(n):
        yield FO.history(rng, tier, refs=(i % 2 == 0), reads=True, flavour="c11")
    yield from captured_refs(rng.fork("captured-refs"), tier)
    crng = rng.fork("concurrent")
    for i in range(60 if tier == "quick" else 600):
        yield concurrent_case(crng, tier)


def conc_oracle(case, impl, model):
    if case.get("k") != "concurrent":
        return FO.oracle_for("C11")(case, impl, model)
    if not isinstance(impl, dict):
        return (False, "no result")
    if "race" in impl:
        return (False, "data race between concurrent readers of one Config: " + impl["race"])
    if "panic" in impl or "fatal" in impl:
        return (False, "concurrent readers crashed: " + str(impl)[:200])
    if "create" in impl:
        return None
    if impl.get("mismatches"):
        return (False, "a reader running next to others obtained a different result: " + str(impl.get("first"))[:400])
    if impl.get("fpSame") is False:
        return (False, "the config's internal state changed while it was only read")
    return (True, "")


oracle = conc_oracle


def normalize_pair(case, impl, model):
    if case.get("k") == "concurrent":
        if isinstance(impl, dict) and "create" in impl:
            return None, None
        return ({k: impl.get(k) for k in ("mismatches", "fpSame")} if isinstance(impl, dict) else impl), model
    return FO.normalize_pair(case, impl, model)
fix_candidate = FO.fix_candidate


def nontrivial(case, impl):
    return bool(case.get("_nt"))


def sig(case, impl):
    return case.get("_sig", "")
