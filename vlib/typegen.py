"""Type-directed generators for typed Unpack (C04, C06, C13, C14): Go types (protocol `ty`), values of those
types (protocol GoVal) and configurations that mention a subset of their fields, optionally with one fault."""
from .gens import *

INT_KINDS = ["int", "int8", "int16", "int32", "int64"]
UINT_KINDS = ["uint", "uint8", "uint16", "uint32", "uint64"]
FLOAT_KINDS = ["float32", "float64"]
PRIM_KINDS = INT_KINDS + UINT_KINDS + FLOAT_KINDS + ["bool", "string", "duration"]
FIELD_NAMES = ["A", "B", "C", "D", "E"]


def T(t, **kw):
    return dict({"t": t}, **kw)


def rand_prim(rng):
    return T(rng.wpick([(3, "int"), (1, "int8"), (1, "int16"), (2, "uint"), (1, "uint8"), (1, "uint32"), (2, "float64"), (1, "float32"),
                        (3, "string"), (2, "bool"), (2, "duration")]))


def rand_validators(rng, ty):
    """a validate tag suited to the type (sometimes none)"""
    t = ty["t"]
    if rng.chance(0.45):
        return ""
    cand = []
    if t in INT_KINDS + UINT_KINDS + FLOAT_KINDS:
        cand = ["required", "nonzero", "positive", "min=%d" % rng.below(5), "max=%d" % (3 + rng.below(10)), "min=2, max=9"]
    elif t == "duration":
        cand = ["nonzero", "positive", "min=1s", "max=1h", "min=2", "required", "min=0.5", "max=6.5", "min=1.5", "max=-0.5", "min=0.25, max=7.75"]
    elif t == "string":
        cand = ["required", "nonzero"]
    elif t in ("slice", "map"):
        cand = ["required", "nonzero"]
        if t == "slice" and ty["e"]["t"] in INT_KINDS:
            cand.append("min=1")
    elif t == "ptr":
        cand = ["required", "nonzero"]
    elif t == "iface":
        cand = ["required", "nonzero", "min=1"]
    if not cand:
        return ""
    return rng.pick(cand)


def rand_type(rng, depth, top=False):
    """a struct type (top) or any type"""
    if top or (depth > 0 and rng.chance(0.25)):
        n = 1 + rng.below(4)
        fields = []
        for name in FIELD_NAMES[:n]:
            fty = rand_type(rng, depth - 1)
            tag = ""
            r = rng.below(12)
            if r == 0:
                tag = name.lower() + "x"                      # renamed
            elif r == 1 and fty["t"] in ("struct", "map") or (r == 1 and fty["t"] == "ptr" and fty["e"]["t"] == "struct"):
                tag = ",inline"
            elif r == 2:
                tag = ",ignore"
            elif r == 3 and fty["t"] == "slice":
                tag = "," + rng.pick(["append", "prepend", "replace", "merge"])
            f = {"n": name, "tag": tag, "v": rand_validators(rng, fty), "ty": fty}
            fields.append(f)
        # an inline map swallows every key: at most one inline map and put it last (it is the known finding D24 otherwise)
        return T("struct", f=fields)
    r = rng.below(20)
    if depth <= 0 or r < 8:
        return rand_prim(rng)
    if r < 10:
        return T("ptr", e=rand_prim(rng) if rng.chance(0.6) else rand_type(rng, depth - 1, top=True))
    if r < 13:
        return T("slice", e=rand_prim(rng) if rng.chance(0.6) else rand_type(rng, depth - 1, top=rng.chance(0.7)))
    if r < 14:
        return T("array", n=1 + rng.below(3), e=rand_prim(rng))
    if r < 17:
        e = rand_prim(rng) if rng.chance(0.5) else (T("iface") if rng.chance(0.4) else rand_type(rng, depth - 1, top=True))
        if rng.chance(0.15):
            return T("map", e=e, nk=True)       # map[NamedKey]T, NamedKey defined from string (D51)
        return T("map", e=e)
    if r < 18:
        return T("iface")
    if r < 19:
        return T("ptr", e=T("regexp"))
    return rand_type(rng, depth - 1, top=True)


def field_key(f):
    name = f["tag"].split(",")[0]
    return name if name else f["n"].lower()


def tag_opts(f):
    return f["tag"].split(",")[1:]


# ---------------------------------------------------------------- values (GoVal) and settings (GoData)

def _fbits(x):
    import struct
    return struct.unpack(">Q", struct.pack(">d", float(x)))[0]


def num_bounds(vtag):
    """(min, max) of a validate tag when they are plain numbers"""
    mn = mx = None
    for part in vtag.replace(" ", "").split(","):
        for key in ("min=", "max="):
            if part.startswith(key):
                try:
                    val = float(part[len(key):])
                except ValueError:
                    continue
                if key == "min=": mn = val
                else: mx = val
    return mn, mx


def good_scalar(rng, t, vtag=""):
    """(GoVal, GoData) of a value of primitive kind t that satisfies typical validators: small positive numbers, and in
    a third of the cases a value exactly on the inside of a declared bound (the bound itself, 0 for `positive`)"""
    mn, mx = num_bounds(vtag)
    edge = rng.chance(0.35) and t in INT_KINDS + UINT_KINDS + FLOAT_KINDS
    if edge:
        cand = []
        if mn is not None and mn == int(mn) and (mx is None or mn <= mx): cand.append(int(mn))
        if mx is not None and mx == int(mx) and (mn is None or mn <= mx): cand.append(int(mx))
        if "positive" in vtag and "nonzero" not in vtag and "required" not in vtag and mn is None: cand.append(0)
        cand = [c for c in cand if c >= 0 or t not in UINT_KINDS]
        cand = [c for c in cand if not ((("nonzero" in vtag) or ("required" in vtag)) and c == 0)]
        if cand:
            x = rng.pick(cand)
            if t in INT_KINDS: return {"i": str(x)}, (U(x) if x > 0 else I(x))
            if t in UINT_KINDS: return {"u": str(x)}, U(x)
            return {"f": "%016x" % _fbits(x)}, F(_fbits(x))
    if t in INT_KINDS:
        x = 3 + rng.below(5)
        return {"i": str(x)}, U(x)
    if t in UINT_KINDS:
        x = 3 + rng.below(5)
        return {"u": str(x)}, U(x)
    if t in FLOAT_KINDS:
        x = rng.pick([0x4008000000000000, 0x4014000000000000, 0x4010000000000000])   # 3, 5, 4
        return {"f": "%016x" % x}, F(x)
    if t == "bool":
        b = rng.chance(0.5)
        return {"b": b}, B(b)
    if t == "string":
        s = rng.pick(["x", "yy", "val"])
        return {"s": s}, S(s)
    if t == "duration":
        if "max=-0.5" in vtag.replace(" ", ""):
            return {"dur": str(-2 * 10**9)}, rng.pick([I(-2), S("-2s")])
        secs = 2 + rng.below(5)
        return {"dur": str(secs * 10**9)}, rng.pick([U(secs), S("%ds" % secs)])
    raise ValueError(t)


def zero_val(ty):
    t = ty["t"]
    if t in INT_KINDS: return {"i": "0"}
    if t in UINT_KINDS: return {"u": "0"}
    if t in FLOAT_KINDS: return {"f": "0" * 16}
    if t == "bool": return {"b": False}
    if t == "string": return {"s": ""}
    if t == "duration": return {"dur": "0"}
    if t == "ptr": return {"p": None}
    if t == "slice": return {"sl": None}
    if t == "array": return {"ar": [zero_val(ty["e"]) for _ in range(ty["n"])]}
    if t == "map": return {"mp": None}
    if t == "iface": return {"if": None}
    if t == "struct": return {"st": [zero_val(f["ty"]) for f in ty["f"]]}
    if t == "regexp": return {"re": ""}
    return {"unsup": True}


def rand_value(rng, ty, depth=3):
    """a pre-filled value of the type: (GoVal) - mostly small valid numbers, sometimes zero values"""
    t = ty["t"]
    if rng.chance(0.2):
        return zero_val(ty)
    if t in PRIM_KINDS:
        return good_scalar(rng, t)[0]
    if t == "ptr":
        if ty["e"]["t"] == "regexp":
            return {"p": {"re": rng.pick(["a+", "^x$"])}}
        return {"p": rand_value(rng, ty["e"], depth - 1)}
    if t == "slice":
        return {"sl": [rand_value(rng, ty["e"], depth - 1) for _ in range(rng.below(3))]}
    if t == "array":
        return {"ar": [rand_value(rng, ty["e"], depth - 1) for _ in range(ty["n"])]}
    if t == "map":
        return {"mp": {k: rand_value(rng, ty["e"], depth - 1) for k in rng.shuffle(["k1", "k2", "k3"])[:rng.below(3)]}}
    if t == "iface":
        return {"if": rng.pick([None, {"s": "held"}, {"u": "4"}, {"m": {"z": {"u": "1"}}}])}
    if t == "struct":
        return {"st": [rand_value(rng, f["ty"], depth - 1) for f in ty["f"]]}
    return zero_val(ty)


FAULTS = ["wrong-type", "out-of-range", "validator", "unparsable", "not-object", "array-size"]


class Fault(Exception):
    pass


def setting_for(rng, ty, depth, fault=None, path=(), vtag=""):
    """GoData for a setting of the given type. With `fault` = (kind, state) injects one fault at the first position
    where the kind applies; state["path"] receives the dotted path of the offending setting."""
    t = ty["t"]
    def inject(kind):
        return fault is not None and fault[0] == kind and "path" not in fault[1] and rng.chance(0.6)
    if t in PRIM_KINDS:
        gv, gd = good_scalar(rng, t, vtag)
        if t not in ("string",):
            if inject("wrong-type") and t != "bool":
                fault[1]["path"] = ".".join(path); return M([("zz", U(1))])
            if inject("unparsable"):
                fault[1]["path"] = ".".join(path); return S("not-a-%s" % t)
        if t in ("int8", "uint8", "int16") and inject("out-of-range"):
            fault[1]["path"] = ".".join(path); return U(70000)
        if t in UINT_KINDS and inject("out-of-range"):
            fault[1]["path"] = ".".join(path); return I(-3)
        if vtag and inject("validator"):
            bad = violating(rng, t, vtag)
            if bad is not None:
                fault[1]["path"] = ".".join(path); return bad
        return gd
    if t == "ptr":
        if ty["e"]["t"] == "regexp":
            if inject("unparsable"):
                fault[1]["path"] = ".".join(path); return S("(unclosed")
            return S(rng.pick(["a+b", "^x.*$"]))
        return setting_for(rng, ty["e"], depth, fault, path, vtag)
    if t == "slice":
        n = 1 + rng.below(3)
        if ty["e"]["t"] == "struct" and inject("not-object"):
            fault[1]["path"] = ".".join(path + ("0",)); return A([S("oops")] + [setting_for(rng, ty["e"], depth - 1) for _ in range(n - 1)])
        return A([setting_for(rng, ty["e"], depth - 1, fault, path + (str(i),)) for i in range(n)])
    if t == "array":
        if inject("array-size"):
            fault[1]["path"] = ".".join(path); return A([setting_for(rng, ty["e"], depth - 1) for _ in range(ty["n"] + 1)])
        return A([setting_for(rng, ty["e"], depth - 1, fault, path + (str(i),)) for i in range(ty["n"])])
    if t == "map":
        if inject("not-object"):
            fault[1]["path"] = ".".join(path); return S("oops")
        ks = rng.shuffle(["k1", "k2", "k4"])[:1 + rng.below(2)]
        return M([(k, setting_for(rng, ty["e"], depth - 1, fault, path + (k,))) for k in ks])
    if t == "iface":
        return rng.pick([S("any"), U(5), A([U(1), S("two")]), M([("z", B(True))])])
    if t == "struct":
        if inject("not-object"):
            fault[1]["path"] = ".".join(path); return S("oops")
        return config_for(rng, ty, depth - 1, fault, path)
    return S("x")


def violating(rng, t, vtag):
    v = vtag.replace(" ", "")
    mn, mx = num_bounds(vtag)
    # values just beyond the declared bound (and a far one now and then)
    if t in INT_KINDS:
        if "positive" in v: return rng.pick([I(-1), I(-1), I(-2)])
        if mn is not None and "min=" in v: return I(int(mn) - 1) if rng.chance(0.7) else I(-1)
        if mx is not None and "max=" in v: return U(int(mx) + 1) if rng.chance(0.7) else (U(1000) if t != "int8" else U(100))
        if "nonzero" in v or "required" in v: return I(0)
    if t in FLOAT_KINDS:
        if "positive" in v: return rng.pick([F(_fbits(-0.5)), F(_fbits(-1e-9)), I(-1), I(-2)])
        if mn is not None and "min=" in v: return rng.pick([F(_fbits(mn - 0.5)), F(_fbits(mn - 1e-6)), I(int(mn) - 1)])
        if mx is not None and "max=" in v: return rng.pick([F(_fbits(mx + 0.5)), F(_fbits(mx + 1e-6)), U(int(mx) + 1)])
        if "nonzero" in v or "required" in v: return rng.pick([I(0), F(_fbits(-0.0)), F(0)])
    if t in UINT_KINDS:
        if mx is not None and "max=" in v: return U(int(mx) + 1) if rng.chance(0.7) else U(200)
        if "nonzero" in v or "required" in v: return I(0)
        if mn is not None and "min=" in v and mn >= 1: return U(int(mn) - 1)
    if t == "duration":
        if "positive" in v: return rng.pick([I(-5), S("-1ns"), S("-999us"), S("-1ms")])
        if v == "min=2" or "min=2," in v: return rng.pick([S("1999ms"), U(1), S("1.999999999s")])
        # bounds given as fractional seconds: values between the bound and its truncation to whole seconds
        if "min=0.5" in v: return S(rng.pick(["100ms", "499ms", "0s"]))
        if "min=1.5" in v: return S(rng.pick(["1s", "1400ms", "1.2s"]))
        if "min=0.25" in v: return S("200ms")
        if "max=6.5" in v: return S(rng.pick(["6900ms", "6.6s", "7s"]))
        if "max=-0.5" in v: return S(rng.pick(["-100ms", "-0.4s", "0s"]))
        if "min=1s" in v: return S("1ms")
        if "max=1h" in v: return S("2h")
        if "nonzero" in v or "required" in v: return I(0)
    if t == "string":
        if "nonzero" in v or "required" in v: return S("")
    return None


def config_for(rng, ty, depth, fault=None, path=(), mention=0.7):
    """GoData (map) mentioning a random subset of the struct's fields"""
    entries = []
    for f in ty["f"]:
        opts = tag_opts(f)
        if "ignore" in opts:
            continue
        if "inline" in opts:
            inner = f["ty"]["e"] if f["ty"]["t"] == "ptr" else f["ty"]
            if inner["t"] == "struct":
                sub = config_for(rng, inner, depth, fault, path, mention)
                for k, v in sub["m"]:
                    if all(k != k2 for k2, _ in entries):
                        entries.append((k, v))
            elif inner["t"] == "map" and rng.chance(0.5):
                k = "im" + f["n"].lower()
                if all(k != k2 for k2, _ in entries):
                    entries.append((k, setting_for(rng, inner["e"], depth - 1, fault, path + (k,))))
            continue
        if not rng.chance(mention) and not (fault is not None and "path" not in fault[1] and rng.chance(0.5)):
            continue
        key = field_key(f)
        if any(key == k2 for k2, _ in entries):
            continue
        entries.append((key, setting_for(rng, f["ty"], depth, fault, path + (key,), f["v"])))
    return M(entries)


def type_sig(ty, depth=2):
    t = ty["t"]
    if t == "struct":
        return "{" + ",".join((type_sig(f["ty"], depth - 1) if depth > 0 else "…") + (":" + f["tag"] if f["tag"] else "") + ("!" if f["v"] else "")
                              for f in ty["f"]) + "}"
    if t in ("ptr", "slice", "map", "array"):
        return t[0] + "(" + (type_sig(ty["e"], depth - 1) if depth > 0 else "…") + ")"
    return t


def has_inline_map(ty):
    t = ty["t"]
    if t == "struct":
        for f in ty["f"]:
            inner = f["ty"]["e"] if f["ty"]["t"] == "ptr" else f["ty"]
            if "inline" in tag_opts(f) and inner["t"] == "map":
                return True
            if has_inline_map(f["ty"]):
                return True
        return False
    if t in ("ptr", "slice", "array", "map"):
        return has_inline_map(ty["e"])
    return False


def normalize_unpack_result(case, res):
    """Which of several failing settings is reported first depends on map iteration order: unless the generator
    injected exactly one fault into a type without inline maps (strictErr), any error equals any error."""
    if case.get("k") != "unpack" or not isinstance(res, dict) or "err" not in res:
        return res
    if case.get("strictErr"):
        return {"err": {"reason": res["err"].get("reason")}}
    return {"err": True}


def normalize_unpack_pair(case, impl, model):
    """as normalize_unpack_result, but the reason is only compared when the model confirms that the injected fault is
    the only one (the fault-free twin `validFrom` unpacks in the model: no `multi` marker)"""
    strict = bool(case.get("strictErr")) and not (isinstance(model, dict) and model.get("multi"))
    def norm(res):
        if case.get("k") != "unpack" or not isinstance(res, dict):
            return res
        if "err" not in res:
            return {k: v for k, v in res.items() if k != "multi"}
        if strict:
            return {"err": {"reason": res["err"].get("reason")}}
        return {"err": True}
    return norm(impl), norm(model)


def fault_points(ty, cfg, path=(), vtag="", extra=False, via_ptr=False):
    """all (path, kind, replacement GoData) at which one setting of cfg can be made faulty for a target of type ty"""
    out = []
    t = ty["t"]
    if cfg is None:
        return out
    if t in PRIM_KINDS:
        if t != "string":
            if t != "bool":
                out.append((path, "wrong-type", M([("zz", U(1))])))
            out.append((path, "unparsable", S("not-a-%s" % t)))
        if t in ("int8", "uint8", "int16"):
            out.append((path, "out-of-range", U(70000)))
        if t in UINT_KINDS:
            out.append((path, "out-of-range", I(-3)))
        if vtag:
            class R:                       # picks inside violating(): a function of the position (no generator state here)
                def __init__(self, seed):
                    import zlib
                    self.h = zlib.crc32(seed.encode())
                def pick(self, xs):
                    self.h = (self.h * 1103515245 + 12345) & 0x7fffffff
                    return xs[self.h % len(xs)]
                def chance(self, p):
                    self.h = (self.h * 1103515245 + 12345) & 0x7fffffff
                    return (self.h % 1000) < p * 1000
            bad = violating(R("/".join(path) + "|" + vtag + "|" + t + "|" + str(len(str(cfg)))), t, vtag)
            if bad is not None:
                out.append((path, "validator", bad))
        return out
    if t == "ptr":
        if ty["e"]["t"] == "regexp":
            return [(path, "unparsable", S("(unclosed"))]
        return fault_points(ty["e"], cfg, path, vtag, extra, True)
    if t in ("slice", "array") and isinstance(cfg, dict) and "a" in cfg:
        if t == "array":
            out.append((path, "array-size", A(cfg["a"] + cfg["a"][:1] if cfg["a"] else [U(1)])))
            if cfg["a"]:
                # boundary: the empty list, and a list one short
                out.append((path, "array-size-empty", A([])))
                if len(cfg["a"]) > 1:
                    out.append((path, "array-size-short", A(cfg["a"][:-1])))
        if t == "slice" and ("required" in vtag or "nonzero" in vtag):
            out.append((path, "validator-empty-list", A([])))
        for i, x in enumerate(cfg["a"]):
            out += fault_points(ty["e"], x, path + (str(i),), "", extra)
        if ty["e"]["t"] == "struct" and cfg["a"]:
            out.append((path + ("0",), "not-object", S("oops")))
        return out
    if t == "map" and isinstance(cfg, dict) and "m" in cfg:
        out.append((path, "not-object", S("oops")))
        if "required" in vtag or "nonzero" in vtag:
            out.append((path, "validator-empty-map", M([])))
        for k, x in cfg["m"]:
            out += fault_points(ty["e"], x, path + (k,), "", extra)
        return out
    if t == "struct" and isinstance(cfg, dict) and "m" in cfg:
        if path:
            out.append((path, "not-object", S("oops")))
            # an explicit null for the struct: it is still initialised, and a field that must not stay zero fails - below the
            # null setting, whose name is part of the path
            for f in (ty["f"] if extra and not via_ptr else []):
                fo = tag_opts(f)
                if "ignore" in fo:
                    continue
                # fields are initialised in declaration order and the first failing one is reported: the expectation names
                # a field only when every field before it certainly passes on its zero value (no validator at all)
                if "inline" in fo or f["ty"]["t"] not in PRIM_KINDS:
                    break
                if not f["v"].strip():
                    continue
                if (any(w in f["v"] for w in ("required", "nonzero")) or f["v"].replace(" ", "") in ("min=1", "min=2", "min=3", "min=4")) \
                        and f["ty"]["t"] != "bool":
                    out.append((path, "null-struct:" + field_key(f), None))
                    # ... and the same with the struct's setting left out altogether (only directly below structs: a map
                    # entry or list element that is left out does not exist)
                    out.append((path, "absent-struct:" + field_key(f), {"__drop__": True}))
                break
        d = dict((k, v) for k, v in cfg["m"])
        for f in ty["f"]:
            opts = tag_opts(f)
            if "ignore" in opts:
                continue
            if "inline" in opts:
                inner = f["ty"]["e"] if f["ty"]["t"] == "ptr" else f["ty"]
                if inner["t"] == "struct":
                    # faults that replace the setting of the enclosing struct as a whole (not an object, null, left out) belong to
                    # that struct, not to the struct inlined into it (which may sit behind a pointer that a null leaves nil)
                    out += [p for p in fault_points(inner, cfg, path, "", extra)
                            if p[0] != path or not (p[1] == "not-object" or p[1].startswith(("null-struct", "absent-struct")))]
                continue
            key = field_key(f)
            if key in d:
                out += fault_points(f["ty"], d[key], path + (key,), f["v"], extra)
        return out
    return out


def replace_at(cfg, path, new):
    if not path:
        return new
    head, rest = path[0], path[1:]
    if isinstance(cfg, dict) and "m" in cfg:
        return M([(k, replace_at(v, rest, new) if k == head else v) for k, v in cfg["m"]])
    if isinstance(cfg, dict) and "a" in cfg:
        return A([replace_at(v, rest, new) if str(i) == head else v for i, v in enumerate(cfg["a"])])
    return cfg


# ---------------------------------------------------------------- shrinking support

ALL_T = set(PRIM_KINDS) | {"ptr", "slice", "array", "map", "badmap", "struct", "iface", "regexp", "config", "chan", "func", "complex"}


def type_ok(ty):
    if not isinstance(ty, dict) or ty.get("t") not in ALL_T:
        return False
    t = ty["t"]
    if t in ("ptr", "slice", "map", "badmap", "array"):
        if t == "array" and not isinstance(ty.get("n"), int):
            return False
        return type_ok(ty.get("e"))
    if t == "struct":
        fs = ty.get("f")
        if not isinstance(fs, list):
            return False
        names = [f.get("n") for f in fs if isinstance(f, dict)]
        if len(names) != len(fs) or any(not n or not n[0].isupper() for n in names) or len(set(names)) != len(names):
            return False
        return all(isinstance(f.get("tag"), str) and isinstance(f.get("v"), str) and type_ok(f.get("ty")) for f in fs)
    return True


def conforms(ty, v):
    """does the canonical GoVal JSON v describe a value of type ty (None = zero value)"""
    if v is None:
        return True
    if not isinstance(v, dict) or len(v) != 1:
        return False
    t = ty["t"]
    (k, x), = v.items()
    if t in INT_KINDS: return k == "i" and isinstance(x, str) and x.lstrip("-").isdigit()
    if t in UINT_KINDS: return k == "u" and isinstance(x, str) and x.isdigit()
    if t in FLOAT_KINDS: return k == "f" and isinstance(x, str) and len(x) == 16
    if t == "bool": return k == "b" and isinstance(x, bool)
    if t == "string": return k == "s" and isinstance(x, str)
    if t == "duration": return k == "dur" and isinstance(x, str) and x.lstrip("-").isdigit()
    if t == "regexp": return k == "re" and isinstance(x, str)
    if t == "iface": return k == "if"
    if t == "ptr": return k == "p" and (x is None or conforms(ty["e"], x))
    if t == "slice": return k == "sl" and (x is None or (isinstance(x, list) and all(e is not None and conforms(ty["e"], e) for e in x)))
    if t == "array": return k == "ar" and isinstance(x, list) and len(x) == ty["n"] and all(e is not None and conforms(ty["e"], e) for e in x)
    if t == "map": return k == "mp" and (x is None or (isinstance(x, dict) and all(e is not None and conforms(ty["e"], e) for e in x.values())))
    if t == "struct": return k == "st" and isinstance(x, list) and len(x) == len(ty["f"]) and all(e is not None and conforms(f["ty"], e) for f, e in zip(ty["f"], x))
    if t == "config": return k == "cfg"
    return k == "unsup"


def fix_typed_candidate(cand, base):
    """shrinking must keep a typed case well formed: the type is a type, the pre-filled value is a value of it, and the
    markers of an injected fault stay what they were"""
    if cand.get("k") not in ("unpack", "roundtrip"):
        return cand
    if not type_ok(cand.get("ty")):
        return None
    for key in ("old", "val"):
        if key in cand and not conforms(cand["ty"], cand[key]):
            return None
    for key in ("faultPath", "source", "strictErr", "byPtr", "byValue"):
        if cand.get(key) != base.get(key):
            return None
    return cand
