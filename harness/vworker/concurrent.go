package main

import (
	"sync"

	ucfg "github.com/elastic/go-ucfg"
)

func init() { kinds["concurrent"] = kConcurrent }

// concurrent: {"from": godata, "opts": [...], "merges": [...], "ropts": [...], "reads": [...], "goroutines": G, "rounds": R}
// The reads are first performed alone, then by G goroutines at once on the same Config (each starting at a different
// position of the list, one of them also using the config as a merge source). Every concurrent result must equal the
// solo result; the fingerprint of the config must be what it was. Run on the -race build of the worker.
func kConcurrent(c J) interface{} {
	mk := func() (*ucfg.Config, interface{}) {
		cfg, err := ucfg.NewFrom(buildValue(c["from"]), buildOpts(c["opts"])...)
		if err != nil {
			return nil, J{"create": errKind(err)}
		}
		for _, m := range arr(c, "merges") {
			mj := m.(map[string]interface{})
			if err := cfg.Merge(buildValue(mj["b"]), buildOpts(mj["opts"])...); err != nil {
				return nil, J{"create": errKind(err)}
			}
		}
		// operations applied before anything is read (removals leave spare capacity in the lists)
		for _, o := range arr(c, "pre") {
			op := o.(map[string]interface{})
			switch str(op, "op") {
			case "remove":
				_, _ = cfg.Remove(str(op, "name"), numInt(op["idx"], -1), buildOpts(op["opts"])...)
			case "set":
				_ = cfg.SetString(str(op, "name"), numInt(op["idx"], -1), str(op, "val"), buildOpts(op["opts"])...)
			}
		}
		return cfg, nil
	}
	// using the config as a merge source for a pre-filled destination, under a policy
	// (the option values of a destination are built once and used by every goroutine: an Option is a value a program
	// keeps and hands to many calls)
	sharedOpts := map[string][]ucfg.Option{}
	for _, d := range arr(c, "dsts") {
		spec := d.(map[string]interface{})
		sharedOpts[mustJSON(spec["opts"])] = buildOpts(spec["opts"])
	}
	mergeInto := func(src *ucfg.Config, spec map[string]interface{}) string {
		dst, err := ucfg.NewFrom(buildValue(spec["from"]), buildOpts(spec["copts"])...)
		if err != nil {
			return "dst: " + err.Error()
		}
		if err := dst.Merge(src, sharedOpts[mustJSON(spec["opts"])]...); err != nil {
			return mustJSON(errKind(err))
		}
		return mustJSON(fpValues(ucfg.VerifFingerprint(dst)))
	}
	// the solo results come from a twin: the shared config has never been read when the goroutines start
	twin, bad := mk()
	if twin == nil {
		return bad
	}
	cfg, bad := mk()
	if cfg == nil {
		return bad
	}
	ropts := buildOpts(c["ropts"])
	reads := arr(c, "reads")
	solo := make([]string, len(reads))
	for i, rd := range reads {
		solo[i] = mustJSON(doRead(twin, rd.(map[string]interface{}), ropts))
	}
	dsts := arr(c, "dsts")
	soloM := make([]string, len(dsts))
	for i, d := range dsts {
		soloM[i] = mergeInto(twin, d.(map[string]interface{}))
	}
	before := mustJSON(fpJSON(ucfg.VerifFingerprint(cfg)))
	G := numInt(c["goroutines"], 4)
	R := numInt(c["rounds"], 3)
	var wg sync.WaitGroup
	var mu sync.Mutex
	mismatches := 0
	first := ""
	start := make(chan struct{})
	for g := 0; g < G; g++ {
		wg.Add(1)
		go func(g int) {
			defer wg.Done()
			<-start
			defer func() {
				if r := recover(); r != nil {
					mu.Lock()
					mismatches++
					if first == "" {
						first = "panic: " + truncate(r)
					}
					mu.Unlock()
				}
			}()
			for r := 0; r < R; r++ {
				for k := range reads {
					i := (k + g) % len(reads)
					got := mustJSON(doRead(cfg, reads[i].(map[string]interface{}), ropts))
					if got != solo[i] {
						mu.Lock()
						mismatches++
						if first == "" {
							first = "read " + mustJSON(reads[i]) + ": alone " + solo[i] + ", concurrently " + got
						}
						mu.Unlock()
					}
				}
				for k := range dsts {
					i := (k + g) % len(dsts)
					got := mergeInto(cfg, dsts[i].(map[string]interface{}))
					if got != soloM[i] {
						mu.Lock()
						mismatches++
						if first == "" {
							first = "merge into " + mustJSON(dsts[i]) + ": alone " + soloM[i] + ", concurrently " + got
						}
						mu.Unlock()
					}
				}
				if g == 0 {
					// a merge source is only read
					dst := ucfg.New()
					_ = dst.Merge(cfg, ropts...)
					_, _ = ucfg.NewFrom(map[string]interface{}{"x": cfg}, ropts...)
				}
			}
		}(g)
	}
	close(start)
	wg.Wait()
	after := mustJSON(fpJSON(ucfg.VerifFingerprint(cfg)))
	res := J{"mismatches": mismatches, "fpSame": before == after}
	if first != "" {
		if len(first) > 500 {
			first = first[:500]
		}
		res["first"] = first
	}
	return res
}

// fpValues: the content of a fingerprint without identities (kinds, values, expressions, structure)
func fpValues(n *ucfg.VerifNode) interface{} {
	if n == nil {
		return nil
	}
	out := J{"k": n.Kind}
	if n.Value != "" {
		out["v"] = n.Value
	}
	if n.Dict != nil {
		d := J{}
		for k, c := range n.Dict {
			d[k] = fpValues(c)
		}
		out["d"] = d
	}
	if n.Arr != nil {
		a := make([]interface{}, len(n.Arr))
		for i, c := range n.Arr {
			a[i] = fpValues(c)
		}
		out["a"] = a
	}
	return out
}
