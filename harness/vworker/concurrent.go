package main

import (
	"sync"

	ucfg "github.com/elastic/go-ucfg"
)

func init() { kinds["concurrent"] = kConcurrent }

// concurrent: {"from": godata, "opts": [...], "merges": [...], "ropts": [...], "reads": [...], "goroutines": G, "rounds": R}
// The reads are first performed alone, then by G goroutines at once on the same Config (each starting at a different
// position of the list, one of them also using the config as a merge source). Every concurrent result must equal the
// solo result; the fingerprint of the config must be what it was. Run on the -race build of the worker.
func kConcurrent(c J) interface{} {
	mk := func() (*ucfg.Config, interface{}) {
		cfg, err := ucfg.NewFrom(buildValue(c["from"]), buildOpts(c["opts"])...)
		if err != nil {
			return nil, J{"create": errKind(err)}
		}
		for _, m := range arr(c, "merges") {
			mj := m.(map[string]interface{})
			if err := cfg.Merge(buildValue(mj["b"]), buildOpts(mj["opts"])...); err != nil {
				return nil, J{"create": errKind(err)}
			}
		}
		return cfg, nil
	}
	// the solo results come from a twin: the shared config has never been read when the goroutines start
	twin, bad := mk()
	if twin == nil {
		return bad
	}
	cfg, bad := mk()
	if cfg == nil {
		return bad
	}
	ropts := buildOpts(c["ropts"])
	reads := arr(c, "reads")
	solo := make([]string, len(reads))
	for i, rd := range reads {
		solo[i] = mustJSON(doRead(twin, rd.(map[string]interface{}), ropts))
	}
	before := mustJSON(fpJSON(ucfg.VerifFingerprint(cfg)))
	G := numInt(c["goroutines"], 4)
	R := numInt(c["rounds"], 3)
	var wg sync.WaitGroup
	var mu sync.Mutex
	mismatches := 0
	first := ""
	start := make(chan struct{})
	for g := 0; g < G; g++ {
		wg.Add(1)
		go func(g int) {
			defer wg.Done()
			<-start
			defer func() {
				if r := recover(); r != nil {
					mu.Lock()
					mismatches++
					if first == "" {
						first = "panic: " + truncate(r)
					}
					mu.Unlock()
				}
			}()
			for r := 0; r < R; r++ {
				for k := range reads {
					i := (k + g) % len(reads)
					got := mustJSON(doRead(cfg, reads[i].(map[string]interface{}), ropts))
					if got != solo[i] {
						mu.Lock()
						mismatches++
						if first == "" {
							first = "read " + mustJSON(reads[i]) + ": alone " + solo[i] + ", concurrently " + got
						}
						mu.Unlock()
					}
				}
				if g == 0 {
					// a merge source is only read
					dst := ucfg.New()
					_ = dst.Merge(cfg, ropts...)
					_, _ = ucfg.NewFrom(map[string]interface{}{"x": cfg}, ropts...)
				}
			}
		}(g)
	}
	close(start)
	wg.Wait()
	after := mustJSON(fpJSON(ucfg.VerifFingerprint(cfg)))
	res := J{"mismatches": mismatches, "fpSame": before == after}
	if first != "" {
		if len(first) > 500 {
			first = first[:500]
		}
		res["first"] = first
	}
	return res
}
