package main

import (
	"encoding/json"
	"fmt"
	"math"
	"reflect"
	"regexp"
	"strconv"
	"time"
	"unsafe"

	ucfg "github.com/elastic/go-ucfg"
	"github.com/elastic/go-ucfg/parse"
)

// ---------- building Go values from the protocol's GoData ----------

func parseI64(s string) int64 {
	v, err := strconv.ParseInt(s, 10, 64)
	if err != nil {
		panic("harness: bad int " + s)
	}
	return v
}

func parseU64(s string) uint64 {
	v, err := strconv.ParseUint(s, 10, 64)
	if err != nil {
		panic("harness: bad uint " + s)
	}
	return v
}

func floatFromHex(h string) float64 {
	b, err := strconv.ParseUint(h, 16, 64)
	if err != nil {
		panic("harness: bad float bits " + h)
	}
	return math.Float64frombits(b)
}

func hexOfFloat(f float64) string {
	if math.IsNaN(f) {
		return "7ff8000000000001" // all NaNs are one value
	}
	return fmt.Sprintf("%016x", math.Float64bits(f))
}

// Field* option values of the running case, by specification
var optCache map[string]ucfg.Option

// configs shared between several places of the running case ({"shared": name, "c": {...}})
var sharedCfgs map[string]*ucfg.Config

func buildValue(v interface{}) interface{} {
	if v == nil {
		return nil
	}
	j, ok := v.(map[string]interface{})
	if !ok {
		panic(fmt.Sprintf("harness: bad godata %v", v))
	}
	out := buildValue0(j)
	if p, _ := j["ptr"].(bool); p && out != nil {
		rv := reflect.New(reflect.TypeOf(out))
		rv.Elem().Set(reflect.ValueOf(out))
		return rv.Interface()
	}
	// layers of pointers and interfaces around the value: "pi" = *interface{}, "pip" = *interface{} holding a pointer,
	// "pipi" = pointer, interface, pointer, interface
	if w, _ := j["wrap"].(string); w != "" && out != nil {
		cur := out
		for i := len(w) - 1; i >= 0; i-- {
			if w[i] == 'i' {
				var x interface{} = cur
				cur = &x // *interface{}: the pointer layer comes with it
				i--      // "pi" consumed together
			} else {
				rv := reflect.New(reflect.TypeOf(cur))
				rv.Elem().Set(reflect.ValueOf(cur))
				cur = rv.Interface()
			}
		}
		return cur
	}
	return out
}

func buildValue0(j J) interface{} {
	rep, _ := j["rep"].(string)
	if b, ok := j["b"]; ok {
		return b.(bool)
	}
	if s, ok := j["i"]; ok {
		i := parseI64(s.(string))
		switch rep {
		case "int":
			return int(i)
		case "int8":
			if i >= math.MinInt8 && i <= math.MaxInt8 {
				return int8(i)
			}
		case "int16":
			if i >= math.MinInt16 && i <= math.MaxInt16 {
				return int16(i)
			}
		case "int32":
			if i >= math.MinInt32 && i <= math.MaxInt32 {
				return int32(i)
			}
		}
		return i
	}
	if s, ok := j["u"]; ok {
		u := parseU64(s.(string))
		switch rep {
		case "uint":
			return uint(u)
		case "uint8":
			if u <= math.MaxUint8 {
				return uint8(u)
			}
		case "uint16":
			if u <= math.MaxUint16 {
				return uint16(u)
			}
		case "uint32":
			if u <= math.MaxUint32 {
				return uint32(u)
			}
		}
		return u
	}
	if s, ok := j["f"]; ok {
		f := floatFromHex(s.(string))
		if rep == "float32" && float64(float32(f)) == f {
			return float32(f)
		}
		return f
	}
	if s, ok := j["s"]; ok {
		return s.(string)
	}
	if s, ok := j["durns"]; ok {
		return time.Duration(parseI64(s.(string)))
	}
	if s, ok := j["re"]; ok {
		r := regexp.MustCompile(s.(string))
		if rep == "val" {
			return *r
		}
		return r
	}
	if a, ok := j["a"]; ok {
		elems := a.([]interface{})
		vals := make([]interface{}, len(elems))
		for i, e := range elems {
			vals[i] = buildValue(e)
		}
		switch rep {
		case "array":
			t := reflect.ArrayOf(len(vals), reflect.TypeOf((*interface{})(nil)).Elem())
			rv := reflect.New(t).Elem()
			for i, x := range vals {
				if x != nil {
					rv.Index(i).Set(reflect.ValueOf(x))
				}
			}
			return rv.Interface()
		case "typed":
			if t := commonType(vals); t != nil {
				rv := reflect.MakeSlice(reflect.SliceOf(t), len(vals), len(vals))
				for i, x := range vals {
					rv.Index(i).Set(reflect.ValueOf(x))
				}
				return rv.Interface()
			}
		case "nil":
			if len(vals) == 0 {
				return []interface{}(nil)
			}
		}
		return vals
	}
	if m, ok := j["m"]; ok {
		entries := m.([]interface{})
		switch rep {
		case "mii":
			out := map[interface{}]interface{}{}
			for _, i := range permute(len(entries)) {
				kv := entries[i].([]interface{})
				out[kv[0].(string)] = buildValue(kv[1])
			}
			return out
		case "typed":
			vals := make([]interface{}, len(entries))
			for i, e := range entries {
				vals[i] = buildValue(e.([]interface{})[1])
			}
			if t := commonType(vals); t != nil && len(vals) > 0 {
				rv := reflect.MakeMap(reflect.MapOf(reflect.TypeOf(""), t))
				for i, e := range entries {
					rv.SetMapIndex(reflect.ValueOf(e.([]interface{})[0].(string)), reflect.ValueOf(vals[i]))
				}
				return rv.Interface()
			}
		case "nil":
			if len(entries) == 0 {
				return map[string]interface{}(nil)
			}
		}
		out := map[string]interface{}{}
		for _, i := range permute(len(entries)) {
			kv := entries[i].([]interface{})
			out[kv[0].(string)] = buildValue(kv[1])
		}
		return out
	}
	if st, ok := j["st"]; ok {
		fields := st.([]interface{})
		sf := make([]reflect.StructField, len(fields))
		vals := make([]interface{}, len(fields))
		ifc := reflect.TypeOf((*interface{})(nil)).Elem()
		for i, f := range fields {
			fv := f.([]interface{})
			vals[i] = buildValue(fv[2])
			t := ifc
			if vals[i] != nil && rep != "ifc" {
				t = reflect.TypeOf(vals[i])
			}
			sf[i] = reflect.StructField{
				Name: fv[0].(string),
				Type: t,
				Tag:  reflect.StructTag(fmt.Sprintf(`config:%q`, fv[1].(string))),
			}
		}
		rv := reflect.New(reflect.StructOf(sf)).Elem()
		for i, x := range vals {
			if x != nil {
				rv.Field(i).Set(reflect.ValueOf(x))
			}
		}
		return rv.Interface()
	}
	if name, ok := j["shared"].(string); ok {
		// one Config object used at several places of a case (merged into the root, embedded in an Env config, ...)
		if cfg := sharedCfgs[name]; cfg != nil {
			return cfg
		}
		cj := j["c"].(map[string]interface{})
		cfg, err := ucfg.NewFrom(buildValue(cj["v"]), buildOpts(cj["opts"])...)
		if err != nil {
			panic("harness: shared config source does not normalize: " + err.Error())
		}
		if sharedCfgs == nil {
			sharedCfgs = map[string]*ucfg.Config{}
		}
		sharedCfgs[name] = cfg
		return cfg
	}
	if c, ok := j["c"]; ok {
		cj := c.(map[string]interface{})
		if z, _ := j["zero"].(bool); z {
			// the zero value of Config: no fields object at all
			if rep == "val" {
				return ucfg.Config{}
			}
			return &ucfg.Config{}
		}
		cfg, err := ucfg.NewFrom(buildValue(cj["v"]), buildOpts(cj["opts"])...)
		if err != nil {
			panic("harness: embedded config source does not normalize: " + err.Error())
		}
		if rep == "val" {
			return *cfg
		}
		return cfg
	}
	if c, ok := j["cm"]; ok {
		// a *Config that is itself the product of merges (may carry keys and list entries at one node)
		cj := c.(map[string]interface{})
		cfg, err := ucfg.NewFrom(buildValue(cj["a"]), buildOpts(cj["optsA"])...)
		if err != nil {
			panic("harness: merged config source does not normalize: " + err.Error())
		}
		steps, _ := cj["steps"].([]interface{})
		for _, st := range steps {
			sm := st.(map[string]interface{})
			if err := cfg.Merge(buildValue(sm["b"]), buildOpts(sm["opts"])...); err != nil {
				panic("harness: merged config source: " + err.Error())
			}
		}
		// settings removed again afterwards: objects and lists that have lost all their settings stay what they are
		rms, _ := cj["removes"].([]interface{})
		for _, r := range rms {
			rm := r.(map[string]interface{})
			if _, err := cfg.Remove(str(rm, "name"), numInt(rm["idx"], -1), buildOpts(rm["opts"])...); err != nil {
				panic("harness: merged config source: remove: " + err.Error())
			}
		}
		return cfg
	}
	if r, ok := j["reg"]; ok {
		// a config of the running forest case, embedded as it is (by pointer or by value)
		c := forestRegs[numInt(r, 0)]
		if c == nil {
			panic("harness: empty register")
		}
		if rep == "val" {
			return *c
		}
		return c
	}
	if u, ok := j["unsup"]; ok {
		// kinds no configuration value can be made from
		switch u {
		case "complex":
			return complex(1, 2)
		case "complex64":
			return complex64(1)
		case "uintptr":
			return uintptr(3)
		case "func":
			return func() {}
		case "unsafeptr":
			return unsafe.Pointer(new(int))
		}
		return make(chan int)
	}
	if _, ok := j["badkey"]; ok {
		return map[int]int{1: 1}
	}
	panic(fmt.Sprintf("harness: bad godata %v", j))
}

func commonType(vals []interface{}) reflect.Type {
	var t reflect.Type
	for _, v := range vals {
		if v == nil {
			return nil
		}
		vt := reflect.TypeOf(v)
		if t == nil {
			t = vt
		} else if t != vt {
			return nil
		}
	}
	return t
}

// ---------- options ----------

func parseCfgOf(v interface{}) parse.Config {
	c := parse.DefaultConfig
	m, _ := v.(map[string]interface{})
	if m == nil {
		return c
	}
	get := func(k string, d bool) bool {
		if b, ok := m[k].(bool); ok {
			return b
		}
		return d
	}
	return parse.Config{
		Array:        get("array", true),
		Object:       get("object", true),
		StringDQuote: get("dq", true),
		StringSQuote: get("sq", true),
		IgnoreCommas: get("ignoreCommas", false),
	}
}

func buildOpts(v interface{}) []ucfg.Option {
	list, _ := v.([]interface{})
	var opts []ucfg.Option
	for _, e := range list {
		o := e.(map[string]interface{})
		name := o["o"].(string)
		switch name {
		case "PathSep":
			opts = append(opts, ucfg.PathSep(o["v"].(string)))
		case "MaxIdx":
			opts = append(opts, ucfg.MaxIdx(parseI64(o["v"].(string))))
		case "EnableNumKeys":
			b := true
			if x, ok := o["v"].(bool); ok {
				b = x
			}
			opts = append(opts, ucfg.EnableNumKeys(b))
		case "EscapePath":
			opts = append(opts, ucfg.EscapePath())
		case "VarExp":
			opts = append(opts, ucfg.VarExp)
		case "IgnoreCommas":
			opts = append(opts, ucfg.IgnoreCommas)
		case "Replace":
			opts = append(opts, ucfg.ReplaceValues)
		case "ReplaceArr":
			opts = append(opts, ucfg.ReplaceArrValues)
		case "Append":
			opts = append(opts, ucfg.AppendValues)
		case "Prepend":
			opts = append(opts, ucfg.PrependValues)
		case "StructTag":
			opts = append(opts, ucfg.StructTag(o["v"].(string)))
		case "ValidatorTag":
			opts = append(opts, ucfg.ValidatorTag(o["v"].(string)))
		case "FieldMerge", "FieldReplace", "FieldAppend", "FieldPrepend":
			// one Option value per distinct specification within a case: programs keep such options in variables and pass
			// the same value to several calls
			key := mustJSON(o)
			if cached, ok := optCache[key]; ok {
				opts = append(opts, cached)
				continue
			}
			before := len(opts)
			defer func(key string, before int) {
				if len(opts) > before {
					if optCache == nil {
						optCache = map[string]ucfg.Option{}
					}
					optCache[key] = opts[before]
				}
			}(key, before)
			var names []string
			for _, n := range o["v"].([]interface{}) {
				names = append(names, n.(string))
			}
			switch name {
			case "FieldMerge":
				opts = append(opts, ucfg.FieldMergeValues(names...))
			case "FieldReplace":
				opts = append(opts, ucfg.FieldReplaceValues(names...))
			case "FieldAppend":
				opts = append(opts, ucfg.FieldAppendValues(names...))
			default:
				opts = append(opts, ucfg.FieldPrependValues(names...))
			}
		case "MetaData":
			opts = append(opts, ucfg.MetaData(ucfg.Meta{Source: o["v"].(string)}))
		case "Env":
			cfg, err := ucfg.NewFrom(buildValue(o["v"]), buildOpts(o["opts"])...)
			if err != nil {
				panic("harness: env config does not normalize: " + err.Error())
			}
			opts = append(opts, ucfg.Env(cfg))
		case "Resolve":
			type ent struct {
				val string
				cfg parse.Config
			}
			tbl := map[string]ent{}
			for _, r := range o["v"].([]interface{}) {
				rm := r.(map[string]interface{})
				tbl[rm["name"].(string)] = ent{rm["val"].(string), parseCfgOf(rm["cfg"])}
			}
			opts = append(opts, ucfg.Resolve(func(name string) (string, parse.Config, error) {
				if e, ok := tbl[name]; ok {
					return e.val, e.cfg, nil
				}
				return "", parse.DefaultConfig, ucfg.ErrMissing
			}))
		default:
			panic("harness: unknown option " + name)
		}
	}
	return opts
}

// ---------- canonical results ----------

func canonData(v interface{}) interface{} {
	switch x := v.(type) {
	case nil:
		return nil
	case bool:
		return J{"b": x}
	case int64:
		return J{"i": strconv.FormatInt(x, 10)}
	case int:
		return J{"i": strconv.FormatInt(int64(x), 10)}
	case uint64:
		return J{"u": strconv.FormatUint(x, 10)}
	case float64:
		return J{"f": hexOfFloat(x)}
	case string:
		return J{"s": x}
	case []interface{}:
		out := make([]interface{}, len(x))
		for i, e := range x {
			out[i] = canonData(e)
		}
		return J{"a": out}
	case map[string]interface{}:
		out := J{}
		for k, e := range x {
			out[k] = canonData(e)
		}
		return J{"m": out}
	}
	return J{"other": fmt.Sprintf("%T", v)}
}

var reasons = []struct {
	err  error
	name string
}{
	{ucfg.ErrMissing, "missing"}, {ucfg.ErrNoParse, "noParse"}, {ucfg.ErrCyclicReference, "cyclic"},
	{ucfg.ErrTypeNoArray, "typeNoArray"}, {ucfg.ErrTypeMismatch, "typeMismatch"},
	{ucfg.ErrKeyTypeNotString, "keyTypeNotString"}, {ucfg.ErrIndexOutOfRange, "indexOutOfRange"},
	{ucfg.ErrPointerRequired, "pointerRequired"}, {ucfg.ErrArraySizeMismatch, "arraySizeMismatch"},
	{ucfg.ErrExpectedObject, "expectedObject"}, {ucfg.ErrNilConfig, "nilConfig"}, {ucfg.ErrNilValue, "nilValue"},
	{ucfg.ErrDuplicateKey, "duplicateKey"}, {ucfg.ErrOverflow, "overflow"}, {ucfg.ErrNegative, "negative"},
	{ucfg.ErrZeroValue, "zeroValue"}, {ucfg.ErrRequired, "required"}, {ucfg.ErrEmpty, "empty"},
	{ucfg.ErrArrayEmpty, "arrayEmpty"}, {ucfg.ErrMapEmpty, "mapEmpty"}, {ucfg.ErrRegexEmpty, "regexEmpty"},
	{ucfg.ErrStringEmpty, "stringEmpty"},
}

func reasonName(err error) string {
	// an error raised while evaluating a reference is wrapped again at the API boundary: its Reason() is the
	// inner ucfg.Error; the kind of failure is the innermost reason
	for i := 0; i < 8; i++ {
		inner, ok := err.(ucfg.Error)
		if !ok || inner.Reason() == nil {
			break
		}
		err = inner.Reason()
	}
	for _, r := range reasons {
		if err == r.err {
			return r.name
		}
	}
	return "other"
}

func canonErr(err error) interface{} {
	if ue, ok := err.(ucfg.Error); ok {
		cls := "unknown"
		switch ue.Class() {
		case ucfg.ErrConfig:
			cls = "config"
		case ucfg.ErrImplementation:
			cls = "impl"
		case nil:
			cls = "nil"
		}
		rn := "nil"
		if ue.Reason() != nil {
			rn = reasonName(ue.Reason())
		}
		msg := ue.Message()
		if len(msg) > 600 {
			// keep both ends: the message ends with the path and the source
			msg = msg[:300] + " ... " + msg[len(msg)-280:]
		}
		return J{"err": J{"typed": true, "reason": rn, "class": cls, "path": ue.Path(), "text": msg}}
	}
	msg := err.Error()
	if len(msg) > 300 {
		msg = msg[:300]
	}
	return J{"err": J{"typed": false, "reason": reasonName(err), "text": msg}}
}

func okRes(v interface{}) interface{} { return J{"ok": v} }

// viewOf observes a whole config through the public API.
func viewOf(c *ucfg.Config, opts ...ucfg.Option) interface{} {
	var m map[string]interface{}
	if err := c.Unpack(&m, opts...); err != nil {
		return canonErr(err)
	}
	var a []interface{}
	if err := c.Unpack(&a, opts...); err != nil {
		return canonErr(err)
	}
	dict := J{}
	for k, v := range m {
		dict[k] = canonData(v)
	}
	arr := make([]interface{}, len(a))
	for i, v := range a {
		arr[i] = canonData(v)
	}
	// Unpack into a map drops settings whose value is nil; list them from GetFields
	for _, k := range c.GetFields() {
		if _, ok := dict[k]; !ok {
			dict[k] = nil
		}
	}
	return okRes(J{"isDict": c.IsDict(), "isArray": c.IsArray(), "dict": dict, "arr": arr})
}

func mustJSON(v interface{}) string {
	b, _ := json.Marshal(v)
	return string(b)
}
