package main

import (
	"encoding/json"
	"errors"
	"fmt"
	"reflect"
	"sort"

	ucfg "github.com/elastic/go-ucfg"
)

// The catalogue: named Go types with the methods reflect.StructOf cannot give a type (Validate on value and pointer
// receivers, InitDefaults). Each is unpacked next to its method-less twin (same fields and tags, built with
// reflect.StructOf from the type description the case carries); the twin is what the Lean model describes, the
// methods are re-applied by the harness: expected outcome = twin outcome, then every Validate reachable in the value.

type CatRange struct {
	Min  int    `config:"min"`
	Max  int    `config:"max"`
	Name string `config:"name"`
}

func (r CatRange) Validate() error {
	if r.Min > r.Max {
		return errors.New("min > max")
	}
	return nil
}

type CatPtr struct {
	A int    `config:"a" validate:"max=100"`
	B string `config:"b"`
}

func (p *CatPtr) Validate() error {
	if p.B == "bad" {
		return errors.New("b is bad")
	}
	return nil
}

type CatDefaults struct {
	Port int      `config:"port" validate:"min=1"`
	Host string   `config:"host"`
	Tags []string `config:"tags"`
}

func (d *CatDefaults) InitDefaults() {
	d.Port = 8080
	d.Host = "localhost"
}

type CatOuter struct {
	R CatRange            `config:"r"`
	P *CatPtr             `config:"p"`
	L []CatRange          `config:"l"`
	M map[string]CatRange `config:"m"`
	N int                 `config:"n"`
	Q CatPtr              `config:"q"`
}

func (o CatOuter) Validate() error {
	if o.N == 13 {
		return errors.New("n is unlucky")
	}
	return nil
}

type CatWithDefaults struct {
	D CatDefaults `config:"d"`
	R CatRange    `config:"r"`
	K int         `config:"k"`
}

// named slice and map types with Validate methods: a nil or empty value the configuration does not mention is validated too
type CatTags []string

func (t CatTags) Validate() error {
	if len(t) == 0 {
		return errors.New("no tags")
	}
	return nil
}

type CatLabels map[string]string

func (l CatLabels) Validate() error {
	if len(l) == 0 {
		return errors.New("no labels")
	}
	return nil
}

type CatTaggedInner struct {
	T CatTags `config:"t"`
}

type CatTagged struct {
	Tags   CatTags                   `config:"tags"`
	Labels CatLabels                 `config:"labels"`
	N      int                       `config:"n"`
	Inner  map[string]CatTaggedInner `config:"inner"`
}

// named non-container types with Validate methods (pointer and value receiver) held in slices, maps and arrays: an
// element the configuration does not mention is validated like one it sets
type CatPort int

func (p *CatPort) Validate() error {
	if *p < 0 || *p > 65535 {
		return errors.New("port out of range")
	}
	return nil
}

type CatLevel int

func (l CatLevel) Validate() error {
	if l > 9 {
		return errors.New("level above 9")
	}
	return nil
}

type CatPorts struct {
	Name   string             `config:"name"`
	Ports  []CatPort          `config:"ports"`
	ByName map[string]CatPort `config:"byname"`
	Fixed  [2]CatPort         `config:"fixed"`
	Levels []CatLevel         `config:"levels"`
	One    CatPort            `config:"one"`
}

var catalog = map[string]reflect.Type{
	"Ports":        reflect.TypeOf(CatPorts{}),
	"Tagged":       reflect.TypeOf(CatTagged{}),
	"Range":        reflect.TypeOf(CatRange{}),
	"Ptr":          reflect.TypeOf(CatPtr{}),
	"Defaults":     reflect.TypeOf(CatDefaults{}),
	"Outer":        reflect.TypeOf(CatOuter{}),
	"WithDefaults": reflect.TypeOf(CatWithDefaults{}),
}

var tValidator = reflect.TypeOf((*ucfg.Validator)(nil)).Elem()

// shapeOf renders the field layout of a type (names, tags, kinds), methods ignored
func shapeOf(t reflect.Type) string {
	switch t.Kind() {
	case reflect.Ptr:
		return "*" + shapeOf(t.Elem())
	case reflect.Slice:
		return "[]" + shapeOf(t.Elem())
	case reflect.Array:
		return fmt.Sprintf("[%d]%s", t.Len(), shapeOf(t.Elem()))
	case reflect.Map:
		return "map[" + shapeOf(t.Key()) + "]" + shapeOf(t.Elem())
	case reflect.Struct:
		s := "{"
		for i := 0; i < t.NumField(); i++ {
			f := t.Field(i)
			s += f.Name + " " + shapeOf(f.Type) + " `" + f.Tag.Get("config") + "|" + f.Tag.Get("validate") + "`;"
		}
		return s + "}"
	}
	return t.Kind().String()
}

// validateAll calls Validate on every value reachable in v that implements ucfg.Validator (value or pointer
// receiver), depth first, the way a caller would check "the populated target satisfies every validator"
func validateAll(v reflect.Value) error {
	switch v.Kind() {
	case reflect.Ptr, reflect.Interface:
		if v.IsNil() {
			return nil
		}
		if v.Kind() == reflect.Ptr && v.Type().Implements(tValidator) {
			if err := validateAll(v.Elem()); err != nil {
				return err
			}
			return v.Interface().(ucfg.Validator).Validate()
		}
		return validateAll(v.Elem())
	case reflect.Struct:
		for i := 0; i < v.NumField(); i++ {
			if v.Type().Field(i).PkgPath != "" {
				continue
			}
			if err := validateAll(v.Field(i)); err != nil {
				return err
			}
		}
	case reflect.Slice, reflect.Array:
		for i := 0; i < v.Len(); i++ {
			if err := validateAll(v.Index(i)); err != nil {
				return err
			}
		}
	case reflect.Map:
		keys := v.MapKeys()
		sort.Slice(keys, func(i, j int) bool { return keys[i].String() < keys[j].String() })
		for _, k := range keys {
			// map elements are not addressable: copy
			e := reflect.New(v.Type().Elem()).Elem()
			e.Set(v.MapIndex(k))
			if err := validateAll(e); err != nil {
				return err
			}
		}
	}
	if v.Kind() != reflect.Ptr && v.Kind() != reflect.Interface {
		if v.Type().Implements(tValidator) {
			return v.Interface().(ucfg.Validator).Validate()
		}
		if v.CanAddr() && v.Addr().Type().Implements(tValidator) {
			return v.Addr().Interface().(ucfg.Validator).Validate()
		}
		if !v.CanAddr() && reflect.PtrTo(v.Type()).Implements(tValidator) {
			c := reflect.New(v.Type())
			c.Elem().Set(v)
			return c.Interface().(ucfg.Validator).Validate()
		}
	}
	return nil
}

var tInitializer = reflect.TypeOf((*ucfg.Initializer)(nil)).Elem()

// applyDefaults: reifyStruct calls InitDefaults on every struct value it unpacks into, mentioned by the
// configuration or not (struct fields are always initialised)
func applyDefaults(v reflect.Value) {
	if v.Kind() != reflect.Struct {
		return
	}
	if v.CanAddr() && v.Addr().Type().Implements(tInitializer) {
		v.Addr().Interface().(ucfg.Initializer).InitDefaults()
	}
	for i := 0; i < v.NumField(); i++ {
		if v.Type().Field(i).PkgPath == "" {
			applyDefaults(v.Field(i))
		}
	}
}

func init() { kinds["catalog"] = kCatalog }

// catalog: {"cat": name, "ty": description of the twin, "old": goval, "from": godata, "copts", "uopts", "merges"}
func kCatalog(c J) interface{} {
	real, ok := catalog[str(c, "cat")]
	if !ok {
		return J{"harness": "unknown catalogue type"}
	}
	var twin reflect.Type
	var tReal, tTwin reflect.Value
	var pre interface{}
	if msg := prep(func() {
		twin = buildType(c["ty"])
		if shapeOf(twin) != shapeOf(real) {
			panic("twin description differs from the Go type: " + shapeOf(twin) + " vs " + shapeOf(real))
		}
		tReal = reflect.New(real)
		setValue(tReal.Elem(), c["old"])
		// what InitDefaults puts into the target before any setting is applied (the twin has no methods)
		withDefaults := reflect.New(real)
		setValue(withDefaults.Elem(), c["old"])
		applyDefaults(withDefaults.Elem())
		_ = json.Unmarshal([]byte(mustJSON(canonGoVal(withDefaults.Elem()))), &pre)
		tTwin = reflect.New(twin)
		setValue(tTwin.Elem(), pre)
	}); msg != "" {
		return J{"harness": msg}
	}
	mk := func() (*ucfg.Config, interface{}) {
		cfg, err := ucfg.NewFrom(buildValue(c["from"]), buildOpts(c["copts"])...)
		if err != nil {
			return nil, J{"create": errKind(err)}
		}
		for _, m := range arr(c, "merges") {
			mj := m.(map[string]interface{})
			if err := cfg.Merge(buildValue(mj["b"]), buildOpts(mj["opts"])...); err != nil {
				return nil, J{"create": errKind(err)}
			}
		}
		return cfg, nil
	}
	run := func(target reflect.Value) J {
		cfg, bad := mk()
		if cfg == nil {
			return bad.(J)
		}
		before := mustJSON(shallowKey(target.Elem()))
		if err := cfg.Unpack(target.Interface(), buildOpts(c["uopts"])...); err != nil {
			ce := canonErr(err).(J)["err"].(J)
			return J{"err": J{"reason": ce["reason"], "typed": ce["typed"], "class": ce["class"], "path": ce["path"], "text": ce["text"]},
				"unchanged": before == mustJSON(shallowKey(target.Elem()))}
		}
		return J{"ok": canonGoVal(target.Elem())}
	}
	resReal := run(tReal)
	resTwin := run(tTwin)
	out := J{"real": resReal, "twin": resTwin, "twinOld": pre}
	// the validators of the real type on what it was populated with ...
	if _, ok := resReal["ok"]; ok {
		if err := validateAll(tReal.Elem()); err != nil {
			out["realInvalid"] = err.Error()
		}
	}
	// ... and on what the twin was populated with (what the methods should have seen)
	if okv, ok := resTwin["ok"]; ok {
		probe := reflect.New(real)
		js := mustJSON(okv)
		var back interface{}
		_ = json.Unmarshal([]byte(js), &back)
		setValue(probe.Elem(), back)
		if err := validateAll(probe.Elem()); err != nil {
			out["twinInvalid"] = err.Error()
		}
	}
	return out
}
