package main

import (
	"math"
	"reflect"
	"strconv"
	"time"

	ucfg "github.com/elastic/go-ucfg"
)

func init() { kinds["conv"] = kConv }

type namedInt8 int8
type namedUint16 uint16
type namedFloat32 float32
type namedString string
type namedBool bool

var kindTypes = map[string]reflect.Type{
	"bool": reflect.TypeOf(false), "string": reflect.TypeOf(""),
	"int": reflect.TypeOf(int(0)), "int8": reflect.TypeOf(int8(0)), "int16": reflect.TypeOf(int16(0)),
	"int32": reflect.TypeOf(int32(0)), "int64": reflect.TypeOf(int64(0)),
	"uint": reflect.TypeOf(uint(0)), "uint8": reflect.TypeOf(uint8(0)), "uint16": reflect.TypeOf(uint16(0)),
	"uint32": reflect.TypeOf(uint32(0)), "uint64": reflect.TypeOf(uint64(0)),
	"float32": reflect.TypeOf(float32(0)), "float64": reflect.TypeOf(float64(0)),
	"duration":   reflect.TypeOf(time.Duration(0)),
	"named-int8": reflect.TypeOf(namedInt8(0)), "named-uint16": reflect.TypeOf(namedUint16(0)),
	"named-float32": reflect.TypeOf(namedFloat32(0)), "named-string": reflect.TypeOf(namedString("")),
	"named-bool": reflect.TypeOf(namedBool(false)),
}

// conv: {"v": prim, "target": kind, "ptr": bool, "via": "literal"|"ref"} -> unpack {v: prim} into struct{V T}
func kConv(c J) interface{} {
	if g := str(c, "getter"); g != "" {
		cfg, err := ucfg.NewFrom(map[string]interface{}{"v": buildValue(c["v"])})
		if err != nil {
			return J{"harness": "source: " + err.Error()}
		}
		switch g {
		case "Bool":
			v, err := cfg.Bool("v", -1)
			if err != nil {
				return canonErr(err)
			}
			return okRes(J{"b": v})
		case "Int":
			v, err := cfg.Int("v", -1)
			if err != nil {
				return canonErr(err)
			}
			return okRes(J{"i": strconv.FormatInt(v, 10)})
		case "Uint":
			v, err := cfg.Uint("v", -1)
			if err != nil {
				return canonErr(err)
			}
			return okRes(J{"u": strconv.FormatUint(v, 10)})
		case "Float":
			v, err := cfg.Float("v", -1)
			if err != nil {
				return canonErr(err)
			}
			return okRes(J{"f": hexOfFloat(v)})
		default:
			v, err := cfg.String("v", -1)
			if err != nil {
				return canonErr(err)
			}
			return okRes(J{"s": v})
		}
	}
	t, ok := kindTypes[str(c, "target")]
	if !ok {
		return J{"harness": "unknown target " + str(c, "target")}
	}
	if boolD(c, "ptr", false) {
		t = reflect.PtrTo(t)
	}
	st := reflect.StructOf([]reflect.StructField{{Name: "V", Type: t, Tag: `config:"v"`}})
	target := reflect.New(st)
	src := map[string]interface{}{"v": buildValue(c["v"])}
	var opts []ucfg.Option
	if str(c, "via") == "ref" {
		src["w"] = "${v}"
		st = reflect.StructOf([]reflect.StructField{{Name: "V", Type: t, Tag: `config:"w"`}})
		target = reflect.New(st)
		opts = append(opts, ucfg.VarExp)
	}
	if via := str(c, "via"); via == "splice" || via == "resolver" {
		// the number arrives as text put together by variable expansion and is parsed again (parse.Value)
		text := ""
		vj, _ := c["v"].(map[string]interface{})
		if s, ok := vj["i"].(string); ok {
			text = s
		} else if s, ok := vj["u"].(string); ok {
			text = s
		} else {
			return J{"harness": "splice needs an integer"}
		}
		delete(src, "v")
		st = reflect.StructOf([]reflect.StructField{{Name: "V", Type: t, Tag: `config:"w"`}})
		target = reflect.New(st)
		opts = append(opts, ucfg.VarExp)
		if via == "splice" {
			cut := len(text) / 2
			src["hi"], src["lo"] = text[:cut], text[cut:]
			src["w"] = "${hi}${lo}"
		} else {
			src["w"] = "${rv}"
			opts = append(opts, buildOpts([]interface{}{map[string]interface{}{"o": "Resolve", "v": []interface{}{
				map[string]interface{}{"name": "rv", "val": text, "cfg": map[string]interface{}{"array": true, "object": false}}}}})...)
		}
	}
	// "before": the referenced setting held another value first and was read through the reference once (what one call
	// learned must not survive into the next)
	var before interface{}
	if b, ok := c["before"]; ok && b != nil && str(c, "via") == "ref" {
		before = buildValue(b)
		src["v"], before = before, src["v"]
	}
	cfg, err := ucfg.NewFrom(src, opts...)
	if err != nil {
		return J{"harness": "source: " + err.Error()}
	}
	if before != nil {
		_ = cfg.Unpack(reflect.New(st).Interface(), opts...)
		_, _ = cfg.String("w", -1, opts...)
		if err := cfg.Merge(map[string]interface{}{"v": before}, opts...); err != nil {
			return J{"harness": "source: " + err.Error()}
		}
	}
	if err := cfg.Unpack(target.Interface(), opts...); err != nil {
		return canonErr(err)
	}
	v := target.Elem().Field(0)
	for v.Kind() == reflect.Ptr {
		if v.IsNil() {
			return okRes(J{"nilptr": true})
		}
		v = v.Elem()
	}
	return okRes(canonScalar(v))
}

func canonScalar(v reflect.Value) interface{} {
	if v.Type() == reflect.TypeOf(time.Duration(0)) {
		return J{"dur": strconv.FormatInt(v.Int(), 10)}
	}
	switch v.Kind() {
	case reflect.Bool:
		return J{"b": v.Bool()}
	case reflect.Int, reflect.Int8, reflect.Int16, reflect.Int32, reflect.Int64:
		return J{"i": strconv.FormatInt(v.Int(), 10)}
	case reflect.Uint, reflect.Uint8, reflect.Uint16, reflect.Uint32, reflect.Uint64:
		return J{"u": strconv.FormatUint(v.Uint(), 10)}
	case reflect.Float32, reflect.Float64:
		return J{"f": hexOfFloat(v.Float())}
	case reflect.String:
		return J{"s": v.String()}
	}
	_ = math.Pi
	return J{"other": v.Type().String()}
}
