package main

import (
	"errors"
	"fmt"
	"math"
	"strings"

	ucfg "github.com/elastic/go-ucfg"
)

// hand-written target types implementing the seven Unpacker interfaces (reflect.StructOf cannot give types methods).
// Some of the methods fail with a plain error, some with an error that already is a ucfg.Error because the method uses
// ucfg itself on the value it was handed. Whatever the method returns, Unpack has to report a ucfg.Error naming the
// setting the method was called for.

// UpEndpoint accepts "host" or {host: ..., port: ...} (Unpacker)
type UpEndpoint struct {
	Host string `config:"host"`
	Port uint16 `config:"port"`
}

func (e *UpEndpoint) Unpack(v interface{}) error {
	switch v := v.(type) {
	case string:
		e.Host = v
		return nil
	case map[string]interface{}:
		tmp, err := ucfg.NewFrom(v)
		if err != nil {
			return err
		}
		type plain UpEndpoint
		return tmp.Unpack((*plain)(e))
	}
	return fmt.Errorf("endpoint must be a string or an object")
}

// UpName lower-cases (StringUnpacker); names with '!' are refused with a plain error
type UpName string

func (n *UpName) Unpack(s string) error {
	if strings.Contains(s, "!") {
		return errors.New("bad name")
	}
	*n = UpName(strings.ToLower(s))
	return nil
}

type UpBool struct{ V bool }

func (b *UpBool) Unpack(v bool) error { b.V = v; return nil }

type UpInt struct{ V int64 }

func (i *UpInt) Unpack(v int64) error {
	if v < 0 {
		return errors.New("negative")
	}
	i.V = v
	return nil
}

type UpUint struct{ V uint64 }

func (u *UpUint) Unpack(v uint64) error {
	if v > 100 {
		return errors.New("too large")
	}
	u.V = v
	return nil
}

type UpFloat struct{ V float64 }

func (f *UpFloat) Unpack(v float64) error {
	if v < 0 || math.IsNaN(v) {
		return errors.New("negative float")
	}
	f.V = v
	return nil
}

// UpCfg reads its settings from the sub-configuration itself (ConfigUnpacker)
type UpCfg struct {
	N int    `config:"n" validate:"min=1"`
	S string `config:"s"`
}

func (c *UpCfg) Unpack(cfg *ucfg.Config) error {
	type plain UpCfg
	return cfg.Unpack((*plain)(c))
}

type upOutput struct {
	Endpoint UpEndpoint `config:"endpoint"`
	Name     UpName     `config:"name"`
}

type upNode struct {
	Name UpName  `config:"name"`
	B    UpBool  `config:"b"`
	I    UpInt   `config:"i"`
	U    UpUint  `config:"u"`
	F    UpFloat `config:"f"`
	C    UpCfg   `config:"c"`
	P    *UpCfg  `config:"p"`
}

type upTarget struct {
	Outputs []upOutput            `config:"outputs"`
	Node    upNode                `config:"node"`
	M       map[string]UpEndpoint `config:"m"`
	L       []UpInt               `config:"l"`
	Tail    string                `config:"tail"`
}

func init() { kinds["unpackers"] = kUnpackers }

// unpackers: {"from": godata, "copts", "uopts", "merges"}: Unpack into upTarget
func kUnpackers(c J) interface{} {
	cfg, err := ucfg.NewFrom(buildValue(c["from"]), buildOpts(c["copts"])...)
	if err != nil {
		return J{"create": errKind(err)}
	}
	for _, m := range arr(c, "merges") {
		mj := m.(map[string]interface{})
		if err := cfg.Merge(buildValue(mj["b"]), buildOpts(mj["opts"])...); err != nil {
			return J{"create": errKind(err)}
		}
	}
	var to upTarget
	if err := cfg.Unpack(&to, buildOpts(c["uopts"])...); err != nil {
		return canonErr(err)
	}
	return J{"ok": fmt.Sprintf("%+v", summarizeUp(to))}
}

func summarizeUp(t upTarget) interface{} {
	type pc struct {
		N int
		S string
	}
	var p *pc
	if t.Node.P != nil {
		p = &pc{t.Node.P.N, t.Node.P.S}
	}
	return struct {
		Outputs []upOutput
		Node    interface{}
		P       interface{}
		M       map[string]UpEndpoint
		L       []UpInt
		Tail    string
	}{t.Outputs, struct {
		Name UpName
		B    UpBool
		I    UpInt
		U    UpUint
		F    UpFloat
		C    UpCfg
	}{t.Node.Name, t.Node.B, t.Node.I, t.Node.U, t.Node.F, t.Node.C}, p, t.M, t.L, t.Tail}
}
