package main

import (
	"errors"
	"reflect"

	ucfg "github.com/elastic/go-ucfg"
)

// values with validators held in interface{} fields, map entries and list elements of a pre-filled target: the struct
// type is known to Go only (an interface holds any type), so the check of the result is done here, by reflection:
// after a nil error no reachable IfLimits may violate its validate tag.

type IfLimits struct {
	Max  int    `config:"max" validate:"min=1"`
	Name string `config:"name"`
}

// Validate (value receiver): a held IfLimits named "bad" is rejected
func (l IfLimits) Validate() error {
	if l.Name == "bad" {
		return errBadName
	}
	return nil
}

var errBadName = errors.New("name is bad")

type ifTarget struct {
	M map[string]interface{} `config:"m"`
	L []interface{}          `config:"l"`
	I interface{}            `config:"i"`
	N int                    `config:"n"`
}

func init() { kinds["ifaceheld"] = kIfaceHeld }

// held: {"max": n, "ptr": bool} | {"plain": godata} | null
func buildHeld(v interface{}) interface{} {
	m, ok := v.(map[string]interface{})
	if !ok {
		return nil
	}
	if p, ok := m["plain"]; ok {
		return buildValue(p)
	}
	l := IfLimits{Max: numInt(m["max"], 0), Name: "pre"}
	if n, ok := m["name"].(string); ok {
		l.Name = n
	}
	if boolD(m, "ptr", false) {
		return &l
	}
	return l
}

// ifaceheld: {"m": {key: held}, "l": [held], "ih": held, "from": godata, "copts", "uopts"}
func kIfaceHeld(c J) interface{} {
	var t ifTarget
	if m, ok := c["m"].(map[string]interface{}); ok {
		t.M = map[string]interface{}{}
		for k, v := range m {
			t.M[k] = buildHeld(v)
		}
	}
	for _, v := range arr(c, "l") {
		t.L = append(t.L, buildHeld(v))
	}
	t.I = buildHeld(c["ih"])
	cfg, err := ucfg.NewFrom(buildValue(c["from"]), buildOpts(c["copts"])...)
	if err != nil {
		return J{"create": errKind(err)}
	}
	if err := cfg.Unpack(&t, buildOpts(c["uopts"])...); err != nil {
		return canonErr(err)
	}
	bad := []interface{}{}
	var walk func(v reflect.Value, path string)
	walk = func(v reflect.Value, path string) {
		switch v.Kind() {
		case reflect.Interface, reflect.Ptr:
			if !v.IsNil() {
				walk(v.Elem(), path)
			}
		case reflect.Map:
			for _, k := range v.MapKeys() {
				walk(v.MapIndex(k), path+"."+k.String())
			}
		case reflect.Slice, reflect.Array:
			for i := 0; i < v.Len(); i++ {
				walk(v.Index(i), path+"."+itoa(i))
			}
		case reflect.Struct:
			if l, ok := v.Interface().(IfLimits); ok {
				if l.Max < 1 || l.Validate() != nil {
					bad = append(bad, path)
				}
				return
			}
			for i := 0; i < v.NumField(); i++ {
				walk(v.Field(i), path+"."+v.Type().Field(i).Name)
			}
		}
	}
	walk(reflect.ValueOf(t), "")
	return J{"ok": J{"invalidReachable": bad}}
}
