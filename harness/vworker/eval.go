package main

import (
	"fmt"
	"reflect"
	"sort"
	"strings"
	"time"

	ucfg "github.com/elastic/go-ucfg"
	"github.com/elastic/go-ucfg/diff"
)

func init() { kinds["eval"] = kEval }

// eval: {"from": godata, "opts": [...], "merges": [{"b":..,"opts":..}], "ropts": [...], "reads": [...], "repeat": n}
// every read is one API call with the read options; with repeat > 1 the whole read list is executed on freshly
// built configs (permuted map insertion orders) and the number of distinct outcome lists is reported.
func kEval(c J) interface{} {
	repeat := numInt(c["repeat"], 1)
	outcomes := map[string]bool{}
	var first interface{}
	for r := 0; r < repeat; r++ {
		shuffleSeed = uint64(r) * 0x9E3779B97F4A7C15
		res := evalOnce(c)
		outcomes[mustJSON(res)] = true
		if r == 0 {
			first = res
		}
	}
	shuffleSeed = 0
	return J{"reads": first, "outcomes": len(outcomes)}
}

func evalOnce(c J) interface{} {
	cfg, err := ucfg.NewFrom(buildValue(c["from"]), buildOpts(c["opts"])...)
	if err != nil {
		return J{"create": errKind(err)}
	}
	ropts := buildOpts(c["ropts"])
	// "reads0": the same kind of reads performed BEFORE the merges; what they return is not reported (a read leaves the
	// configuration as it is: what is read after the merges must not depend on what was read before them), a crash is
	for _, rd := range arr(c, "reads0") {
		if res, ok := doRead(cfg, obj(rd), ropts).(J); ok && res["panic"] != nil {
			return J{"panic": res["panic"]}
		}
	}
	for _, m := range arr(c, "merges") {
		mo := obj(m)
		if err := cfg.Merge(buildValue(mo["b"]), buildOpts(mo["opts"])...); err != nil {
			return J{"merge": errKind(err)}
		}
	}
	var out []interface{}
	for _, rd := range arr(c, "reads") {
		out = append(out, doRead(cfg, obj(rd), ropts))
	}
	if out == nil {
		out = []interface{}{}
	}
	return out
}

func errKind(err error) interface{} {
	e := canonErr(err).(J)["err"].(J)
	return J{"err": J{"reason": e["reason"], "typed": e["typed"]}}
}

func doRead(cfg *ucfg.Config, rd J, ropts []ucfg.Option) (res interface{}) {
	defer func() {
		if r := recover(); r != nil {
			res = J{"panic": truncate(r)}
		}
	}()
	name := str(rd, "name")
	idx := numInt(rd["idx"], -1)
	switch str(rd, "r") {
	case "view":
		// which of several failing settings is reported depends on the iteration order: any error is one outcome
		var m map[string]interface{}
		if err := cfg.Unpack(&m, ropts...); err != nil {
			if boolD(rd, "path", false) {
				// the case has one faulty setting: which setting the error names is part of the outcome
				e := canonErr(err).(J)["err"].(J)
				return J{"err": J{"typed": e["typed"], "path": e["path"]}}
			}
			return J{"err": J{"typed": errKind(err).(J)["err"].(J)["typed"]}}
		}
		var a []interface{}
		if err := cfg.Unpack(&a, ropts...); err != nil {
			return J{"err": J{"typed": errKind(err).(J)["err"].(J)["typed"]}}
		}
		dict := J{}
		for k, v := range m {
			dict[k] = canonData(v)
		}
		l := make([]interface{}, len(a))
		for i, v := range a {
			l[i] = canonData(v)
		}
		return okRes(J{"dict": dropNilDict(dict), "arr": dropNilJ(l)})
	case "get":
		switch str(rd, "type") {
		case "Bool":
			v, err := cfg.Bool(name, idx, ropts...)
			if err != nil {
				return errKind(err)
			}
			return okRes(J{"b": v})
		case "Int":
			v, err := cfg.Int(name, idx, ropts...)
			if err != nil {
				return errKind(err)
			}
			return okRes(canonData(v))
		case "Uint":
			v, err := cfg.Uint(name, idx, ropts...)
			if err != nil {
				return errKind(err)
			}
			return okRes(canonData(v))
		case "Float":
			v, err := cfg.Float(name, idx, ropts...)
			if err != nil {
				return errKind(err)
			}
			return okRes(canonData(v))
		default:
			v, err := cfg.String(name, idx, ropts...)
			if err != nil {
				return errKind(err)
			}
			return okRes(canonData(v))
		}
	case "has":
		ok, err := cfg.Has(name, idx, ropts...)
		if err != nil {
			return errKind(err)
		}
		return okRes(J{"b": ok})
	case "count":
		n, err := cfg.CountField(name, ropts...)
		if err != nil {
			return errKind(err)
		}
		return okRes(J{"i": itoa(n)})
	case "childview":
		ch, err := cfg.Child(name, idx, ropts...)
		if err != nil {
			return errKind(err)
		}
		return doRead(ch, J{"r": "view"}, ropts)
	case "typed":
		// Unpack of one setting into a typed struct field: struct{ X T `config:"<name>"` }
		var ft reflect.Type
		switch str(rd, "ty") {
		case "strings":
			ft = reflect.TypeOf([]string(nil))
		case "ifaces":
			ft = reflect.TypeOf([]interface{}(nil))
		case "duration":
			ft = reflect.TypeOf(time.Duration(0))
		case "int":
			ft = reflect.TypeOf(int64(0))
		case "ptrstring":
			ft = reflect.TypeOf((*string)(nil))
		case "array1":
			ft = reflect.TypeOf([1]string{})
		default:
			ft = reflect.TypeOf("")
		}
		st := reflect.StructOf([]reflect.StructField{{Name: "X", Type: ft, Tag: reflect.StructTag(fmt.Sprintf(`config:%q`, name))}})
		target := reflect.New(st)
		if err := cfg.Unpack(target.Interface(), ropts...); err != nil {
			return errKind(err)
		}
		return okRes(canonGoVal(target.Elem().Field(0)))
	case "captured":
		// Unpack into a struct capturing the setting as *Config (or Config) under a policy tag, idx times into the same
		// target: reading must leave the configuration as it is however often it is done
		pol := str(rd, "ty")
		byValue := strings.HasSuffix(pol, "|value")
		pol = strings.TrimSuffix(pol, "|value")
		tag := name
		if pol != "" {
			tag += "," + pol
		}
		ft := reflect.TypeOf((*ucfg.Config)(nil))
		rebrand := strings.HasSuffix(pol, "|rebrand")
		pol = strings.TrimSuffix(pol, "|rebrand")
		tag = name
		if pol != "" {
			tag += "," + pol
		}
		if rebrand {
			// a type defined from Config (the *common.Config pattern)
			ft = reflect.TypeOf((*rebrandedCfg)(nil))
		}
		if byValue {
			ft = ft.Elem()
		}
		st := reflect.StructOf([]reflect.StructField{{Name: "X", Type: ft, Tag: reflect.StructTag(fmt.Sprintf(`config:%q`, tag))}})
		target := reflect.New(st)
		for i := 0; i < idx || i < 1; i++ {
			if err := cfg.Unpack(target.Interface(), ropts...); err != nil {
				return errKind(err)
			}
		}
		var got *ucfg.Config
		fv := target.Elem().Field(0)
		if byValue {
			fv = fv.Addr()
		}
		if rebrand {
			if !fv.IsNil() {
				got = (*ucfg.Config)(fv.Interface().(*rebrandedCfg))
			}
		} else {
			got = fv.Interface().(*ucfg.Config)
		}
		if got == nil {
			return okRes(nil)
		}
		return doRead(got, J{"r": "view"}, ropts)
	case "keys":
		k := append([]string{}, cfg.FlattenedKeys(ropts...)...)
		sort.Strings(k)
		return okRes(J{"keys": k})
	case "diffself":
		d := diff.CompareConfigs(cfg, cfg, ropts...)
		return okRes(J{"changed": d.HasChanged(), "kept": len(d[diff.Keep])})
	}
	return J{"harness": "unknown read"}
}

type rebrandedCfg ucfg.Config

func itoa(n int) string {
	return string(appendInt(nil, n))
}

func appendInt(b []byte, n int) []byte {
	if n < 0 {
		b = append(b, '-')
		n = -n
	}
	var tmp [20]byte
	i := len(tmp)
	for {
		i--
		tmp[i] = byte('0' + n%10)
		n /= 10
		if n == 0 {
			break
		}
	}
	return append(b, tmp[i:]...)
}
