package main

import (
	"fmt"
	"io"
	"reflect"
	"sort"

	ucfg "github.com/elastic/go-ucfg"
)

// hand-written target types with shapes reflect.StructOf cannot produce: blank and unexported fields (also with names
// that have no letter case), embedded unexported structs, interface fields with methods, func / chan fields next to
// ordinary ones. Unpack (and the validation of untouched fields) has to return for all of them.

type oddInner struct{ y int }

type oddBlank struct {
	A int
	_ int
	B string `config:"b"`
}

type oddUnder struct {
	_cache string
	Name   string `config:"name" validate:"required"`
}

type oddCaseless struct {
	名前       string
	Exported int `config:"exported"`
}

type oddNested struct {
	In oddBlank               `config:"in"`
	L  []oddUnder             `config:"l"`
	M  map[string]oddCaseless `config:"m"`
	P  *oddBlank              `config:"p"`
	Q  [2]oddUnder            `config:"q"`
}

type oddEmbedded struct {
	oddInner
	X int `config:"x"`
}

type oddIfaces struct {
	R io.Reader    `config:"r"`
	S fmt.Stringer `config:"s"`
	E error        `config:"e"`
	N int          `config:"n"`
}

// fields whose type is one of the Unpacker interfaces (or an interface with an Unpack method), left nil by the caller
type oddUnpackIfaces struct {
	X interface {
		Unpack(*ucfg.Config) error
	} `config:"x"`
	Y ucfg.Unpacker         `config:"y"`
	M ucfg.ConfigUnpacker   `config:"m"`
	N ucfg.IntUnpacker      `config:"n"`
	L []ucfg.StringUnpacker `config:"l"`
	A int                   `config:"a"`
}

// hand-written Unpackers held in fields, map entries and list elements whose type is an interface
type oddAny struct{ got interface{} }

func (o *oddAny) Unpack(v interface{}) error { o.got = v; return nil }

type oddUnpackHeld struct {
	Y ucfg.Unpacker            `config:"y"`
	I interface{}              `config:"i"`
	M map[string]ucfg.Unpacker `config:"m"`
	L []ucfg.Unpacker          `config:"l"`
	A int                      `config:"a"`
}

func prefillOdd(target reflect.Value) {
	if h, ok := target.Interface().(*oddUnpackHeld); ok {
		h.Y, h.I = &oddAny{}, &oddAny{}
		h.M = map[string]ucfg.Unpacker{"k": &oddAny{}, "k1": &oddAny{}}
		h.L = []ucfg.Unpacker{&oddAny{}, &oddAny{}}
	}
}

type oddFuncs struct {
	F func()
	C chan int
	A int `config:"a" validate:"min=1"`
}

type oddAllUnexported struct {
	a int
	b string
}

// methods named Unpack that are not one of the Unpacker interfaces (wrong number of parameters or results): the type is
// an ordinary struct / number for Unpack
type oddUnpackNoResult struct {
	A int `config:"a"`
}

func (o *oddUnpackNoResult) Unpack(int) {}

type oddUnpackNoParam struct {
	A int `config:"a"`
}

func (o *oddUnpackNoParam) Unpack() error { return nil }

type oddUnpackTwoResults int

func (o *oddUnpackTwoResults) Unpack(string) (int, error) { return 0, nil }

type oddUnpackOther struct {
	A int `config:"a"`
}

func (o oddUnpackOther) Unpack(a, b int) error { return nil }

type oddUnpackHolder struct {
	X oddUnpackNoResult         `config:"x"`
	Y *oddUnpackNoParam         `config:"y"`
	M map[string]oddUnpackOther `config:"m"`
	N oddUnpackTwoResults       `config:"n"`
	L []oddUnpackNoParam        `config:"l"`
}

var oddTargets = map[string]reflect.Type{
	"unpackNoResult": reflect.TypeOf(oddUnpackNoResult{}),
	"unpackNoParam":  reflect.TypeOf(oddUnpackNoParam{}),
	"unpackOther":    reflect.TypeOf(oddUnpackOther{}),
	"unpackHolder":   reflect.TypeOf(oddUnpackHolder{}),
	"unpackIfaces":   reflect.TypeOf(oddUnpackIfaces{}),
	"unpackHeld":     reflect.TypeOf(oddUnpackHeld{}),
	"blank":          reflect.TypeOf(oddBlank{}),
	"under":          reflect.TypeOf(oddUnder{}),
	"caseless":       reflect.TypeOf(oddCaseless{}),
	"nested":         reflect.TypeOf(oddNested{}),
	"embedded":       reflect.TypeOf(oddEmbedded{}),
	"ifaces":         reflect.TypeOf(oddIfaces{}),
	"funcs":          reflect.TypeOf(oddFuncs{}),
	"allunexp":       reflect.TypeOf(oddAllUnexported{}),
	"sliceodd":       reflect.TypeOf([]oddBlank{}),
	"mapodd":         reflect.TypeOf(map[string]oddUnder{}),
	"ptrnested":      reflect.TypeOf(&oddNested{}),
}

func oddTargetNames() []string {
	out := make([]string, 0, len(oddTargets))
	for k := range oddTargets {
		out = append(out, k)
	}
	sort.Strings(out)
	return out
}

func init() { kinds["oddtarget"] = kOddTarget }

// oddtarget: {"name": type name, "from": godata, "copts": [...], "uopts": [...]}
func kOddTarget(c J) interface{} {
	t, ok := oddTargets[str(c, "name")]
	if !ok {
		return J{"harness": "unknown odd target " + str(c, "name")}
	}
	cfg, err := ucfg.NewFrom(buildValue(c["from"]), buildOpts(c["copts"])...)
	if err != nil {
		return J{"create": errKind(err)}
	}
	target := reflect.New(t)
	prefillOdd(target)
	if err := cfg.Unpack(target.Interface(), buildOpts(c["uopts"])...); err != nil {
		return errKind(err)
	}
	// and once more into the now populated value (pre-filled path)
	if err := cfg.Unpack(target.Interface(), buildOpts(c["uopts"])...); err != nil {
		return errKind(err)
	}
	return okRes(J{"b": true})
}
