package main

import (
	"sort"

	ucfg "github.com/elastic/go-ucfg"
)

func init() { kinds["mergerep"] = kMergeRep }

// mergerep: {"a": godata, "optsA": [...], "steps": [{"b":..,"opts":..}], "ropts": [...], "repeat": n}
// the same creation + merges + whole-config read on maps built with permuted insertion orders; reports the distinct
// outcomes (result data or failure) - one merge of one input has one outcome
func kMergeRep(c J) interface{} {
	repeat := numInt(c["repeat"], 8)
	outcomes := map[string]bool{}
	var first interface{}
	ropts := buildOpts(c["ropts"])
	for r := 0; r < repeat; r++ {
		shuffleSeed = uint64(r) * 0x9E3779B97F4A7C15
		var v interface{}
		cfg, err := ucfg.NewFrom(buildValue(c["a"]), buildOpts(c["optsA"])...)
		if err == nil {
			for _, s := range arr(c, "steps") {
				st := obj(s)
				if err = cfg.Merge(buildValue(st["b"]), buildOpts(st["opts"])...); err != nil {
					break
				}
			}
		}
		if err != nil {
			v = errKind(err)
		} else {
			v = doRead(cfg, J{"r": "view"}, ropts)
		}
		outcomes[mustJSON(v)] = true
		if r == 0 {
			first = v
		}
	}
	shuffleSeed = 0
	keys := make([]string, 0, len(outcomes))
	for k := range outcomes {
		keys = append(keys, k)
	}
	sort.Strings(keys)
	res := J{"outcomes": len(outcomes), "first": first}
	if len(keys) > 1 {
		if len(keys[0]) > 300 {
			keys[0] = keys[0][:300]
		}
		if len(keys[1]) > 300 {
			keys[1] = keys[1][:300]
		}
		res["two"] = []string{keys[0], keys[1]}
	}
	return res
}
