package main

import (
	"runtime/debug"
	"sort"

	ucfg "github.com/elastic/go-ucfg"
	"github.com/elastic/go-ucfg/diff"
)

func init() { kinds["forest"] = kForest }

// registers of the running forest case (buildValue resolves {"reg": i} against them)
var forestRegs []*ucfg.Config

func fpJSON(n *ucfg.VerifNode) interface{} {
	if n == nil {
		return nil
	}
	out := J{"id": n.ID, "k": n.Kind, "f": n.Field, "p": n.Parent}
	if n.Value != "" {
		out["v"] = n.Value
	}
	if n.Source != "" {
		out["s"] = n.Source
	}
	if n.Dict != nil {
		d := J{}
		for k, c := range n.Dict {
			d[k] = fpJSON(c)
		}
		out["d"] = d
	}
	if n.Arr != nil {
		a := make([]interface{}, len(n.Arr))
		for i, c := range n.Arr {
			a[i] = fpJSON(c)
		}
		out["a"] = a
	}
	return out
}

func ptrID(c *ucfg.Config) string {
	if c == nil {
		return ""
	}
	return ucfg.VerifFingerprint(c).ID
}

// observe a register through the hook and through the public positional API
func observeReg(c *ucfg.Config) interface{} {
	if c == nil {
		return nil
	}
	keys := append([]string{}, c.FlattenedKeys(ucfg.PathSep("."))...)
	sort.Strings(keys)
	keys0 := append([]string{}, c.FlattenedKeys()...) // the default separator is "."
	sort.Strings(keys0)
	return J{"fp": fpJSON(ucfg.VerifFingerprint(c)), "path": c.Path("."), "parent": ptrID(c.Parent()), "keys": keys, "keys0": keys0,
		"fields": sortedStrings(c.GetFields()), "isDict": c.IsDict(), "isArray": c.IsArray()}
}

func sortedStrings(s []string) []string {
	out := append([]string{}, s...)
	sort.Strings(out)
	return out
}

func errOrNil(err error) interface{} {
	if err == nil {
		return nil
	}
	return errKind(err).(J)["err"]
}

// forest: {"regs": n, "ops": [...]}; ops on registers holding configs:
//
//	new r from opts | merge r from opts | set r name idx val opts | setchild r name idx child opts | remove r name idx opts
//	child r name idx to opts | read r what [name idx] | diff r r2
//
// after every op: its error, and the observation of every register
func kForest(c J) interface{} {
	n := numInt(c["regs"], 4)
	// identities are addresses: nothing may be freed (and its address reused) while the history runs
	defer debug.SetGCPercent(debug.SetGCPercent(-1))
	forestRegs = make([]*ucfg.Config, n)
	defer func() { forestRegs = nil }()
	var steps []interface{}
	snapshot := func() interface{} {
		out := make([]interface{}, n)
		for i, r := range forestRegs {
			out[i] = observeReg(r)
		}
		return out
	}
	for _, o := range arr(c, "ops") {
		op := o.(map[string]interface{})
		r := numInt(op["r"], 0)
		opts := buildOpts(op["opts"])
		name := str(op, "name")
		idx := numInt(op["idx"], -1)
		st := J{}
		// an op on a register that holds nothing (an earlier Child failed) is skipped
		needs := []int{r}
		switch str(op, "op") {
		case "new":
			needs = nil
		case "setchild":
			needs = append(needs, numInt(op["child"], 0))
		case "diff":
			needs = append(needs, numInt(op["r2"], 0))
		}
		for _, x := range regsIn(op["from"]) {
			needs = append(needs, x)
		}
		skip := false
		for _, x := range needs {
			if x < 0 || x >= n || forestRegs[x] == nil {
				skip = true
			}
		}
		if skip {
			st["skipped"] = true
			st["regs"] = snapshot()
			steps = append(steps, st)
			continue
		}
		// build the Go value outside the guarded call: a malformed case is a harness problem
		var from interface{}
		if op["from"] != nil {
			if msg := prep(func() { from = buildValue(op["from"]) }); msg != "" {
				return J{"harness": msg}
			}
		}
		if str(op, "op") == "set" {
			if _, ok := op["val"].(map[string]interface{}); !ok {
				return J{"harness": "set without a primitive value"}
			}
		}
		func() {
			defer func() {
				if rec := recover(); rec != nil {
					st["panic"] = truncate(rec)
				}
			}()
			switch str(op, "op") {
			case "new":
				cfg, err := ucfg.NewFrom(from, opts...)
				st["err"] = errOrNil(err)
				if err == nil {
					forestRegs[r] = cfg
				}
			case "merge":
				st["err"] = errOrNil(forestRegs[r].Merge(from, opts...))
			case "set":
				var err error
				v := op["val"].(map[string]interface{})
				switch {
				case v["b"] != nil:
					err = forestRegs[r].SetBool(name, idx, v["b"].(bool), opts...)
				case v["i"] != nil:
					err = forestRegs[r].SetInt(name, idx, parseI64(v["i"].(string)), opts...)
				case v["u"] != nil:
					err = forestRegs[r].SetUint(name, idx, parseU64(v["u"].(string)), opts...)
				case v["f"] != nil:
					err = forestRegs[r].SetFloat(name, idx, floatFromHex(v["f"].(string)), opts...)
				default:
					err = forestRegs[r].SetString(name, idx, v["s"].(string), opts...)
				}
				st["err"] = errOrNil(err)
			case "setchild":
				st["err"] = errOrNil(forestRegs[r].SetChild(name, idx, forestRegs[numInt(op["child"], 0)], opts...))
			case "remove":
				ok, err := forestRegs[r].Remove(name, idx, opts...)
				st["err"] = errOrNil(err)
				st["removed"] = ok
			case "child":
				ch, err := forestRegs[r].Child(name, idx, opts...)
				st["err"] = errOrNil(err)
				if err == nil {
					forestRegs[numInt(op["to"], 0)] = ch
				}
			case "read":
				st["read"] = doRead(forestRegs[r], J{"r": str(op, "what"), "name": name, "idx": op["idx"], "type": str(op, "type"), "ty": str(op, "ty")}, opts)
			case "diff":
				d := diff.CompareConfigs(forestRegs[r], forestRegs[numInt(op["r2"], 0)], opts...)
				st["diff"] = J{"add": sortedStrings(d[diff.Add]), "remove": sortedStrings(d[diff.Remove]), "keep": sortedStrings(d[diff.Keep]), "changed": d.HasChanged()}
			default:
				st["harness"] = "unknown forest op"
			}
		}()
		st["regs"] = snapshot()
		steps = append(steps, st)
	}
	if steps == nil {
		steps = []interface{}{}
	}
	return J{"steps": steps}
}

func regsIn(v interface{}) []int {
	var out []int
	switch x := v.(type) {
	case map[string]interface{}:
		if r, ok := x["reg"]; ok {
			out = append(out, numInt(r, 0))
		}
		for _, c := range x {
			out = append(out, regsIn(c)...)
		}
	case []interface{}:
		for _, c := range x {
			out = append(out, regsIn(c)...)
		}
	}
	return out
}
