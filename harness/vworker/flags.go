package main

import (
	"os"
	"path/filepath"

	ucfg "github.com/elastic/go-ucfg"
	"github.com/elastic/go-ucfg/cfgutil"
	"github.com/elastic/go-ucfg/flag"
	"github.com/elastic/go-ucfg/json"
	"github.com/elastic/go-ucfg/yaml"
)

func init() { kinds["flags"] = kFlags; kinds["fileflags"] = kFileFlags }

// fileflags: {"files": [{"name": base, "ext": ".yml"|".json"|..., "text": content, "missing": bool}], "opts": [...], "fallback": bool}
// flag.NewFlagFiles with loaders for .yml and .json (and the "" fallback when asked for); one Set per file
func kFileFlags(c J) interface{} {
	opts := buildOpts(c["opts"])
	dir, err := os.MkdirTemp("", "vflag")
	if err != nil {
		return J{"harness": "tempdir: " + err.Error()}
	}
	defer os.RemoveAll(dir)
	ext := map[string]flag.FileLoader{".yml": yaml.NewConfigWithFile, ".json": json.NewConfigWithFile}
	if boolD(c, "fallback", false) {
		ext[""] = yaml.NewConfigWithFile
	}
	fv := flag.NewFlagFiles(nil, ext, opts...)
	set := []interface{}{}
	setErr := []interface{}{}
	for i, f := range arr(c, "files") {
		fj := f.(map[string]interface{})
		name := filepath.Join(dir, itoa(i)+str(fj, "name")+str(fj, "ext"))
		if !boolD(fj, "missing", false) {
			if werr := os.WriteFile(name, []byte(str(fj, "text")), 0o600); werr != nil {
				return J{"harness": "write: " + werr.Error()}
			}
		}
		err := fv.Set(name)
		set = append(set, err != nil)
		if e := fv.Error(); e != nil {
			setErr = append(setErr, e.Error())
		} else {
			setErr = append(setErr, nil)
		}
	}
	var errv, errText interface{}
	if e := fv.Error(); e != nil {
		errv = J{"set": true}
		errText = e.Error()
	}
	col := cfgutil.NewCollector(ucfg.New(), opts...)
	return J{"config": viewPlain(fv.Config()), "err": errv, "set": set, "setErr": setErr, "errText": errText, "optsKept": len(col.GetOptions()) == len(opts)}
}

// flags: {"args": [...], "opts": [...], "autoBool": bool}
func kFlags(c J) interface{} {
	opts := buildOpts(c["opts"])
	fv := flag.NewFlagKeyValue(nil, boolD(c, "autoBool", true), opts...)
	var set []interface{}
	setErr := []interface{}{}
	for _, a := range arr(c, "args") {
		err := fv.Set(a.(string))
		set = append(set, err != nil)
		// what the collector holds after this argument
		if e := fv.Error(); e != nil {
			setErr = append(setErr, e.Error())
		} else {
			setErr = append(setErr, nil)
		}
	}
	if set == nil {
		set = []interface{}{}
	}
	var errv, errText interface{}
	if e := fv.Error(); e != nil {
		ce := canonErr(e).(J)["err"].(J)
		errv = J{"typed": ce["typed"], "reason": ce["reason"]}
		errText = e.Error()
	}
	col := cfgutil.NewCollector(ucfg.New(), opts...)
	return J{"config": viewPlain(fv.Config()), "err": errv, "set": set, "setErr": setErr, "errText": errText, "optsKept": len(col.GetOptions()) == len(opts)}
}
