package main

import (
	ucfg "github.com/elastic/go-ucfg"
	"github.com/elastic/go-ucfg/cfgutil"
	"github.com/elastic/go-ucfg/flag"
)

func init() { kinds["flags"] = kFlags }

// flags: {"args": [...], "opts": [...], "autoBool": bool}
func kFlags(c J) interface{} {
	opts := buildOpts(c["opts"])
	fv := flag.NewFlagKeyValue(nil, boolD(c, "autoBool", true), opts...)
	var set []interface{}
	setErr := []interface{}{}
	for _, a := range arr(c, "args") {
		err := fv.Set(a.(string))
		set = append(set, err != nil)
		// what the collector holds after this argument
		if e := fv.Error(); e != nil {
			setErr = append(setErr, e.Error())
		} else {
			setErr = append(setErr, nil)
		}
	}
	if set == nil {
		set = []interface{}{}
	}
	var errv, errText interface{}
	if e := fv.Error(); e != nil {
		ce := canonErr(e).(J)["err"].(J)
		errv = J{"typed": ce["typed"], "reason": ce["reason"]}
		errText = e.Error()
	}
	col := cfgutil.NewCollector(ucfg.New(), opts...)
	return J{"config": viewPlain(fv.Config()), "err": errv, "set": set, "setErr": setErr, "errText": errText, "optsKept": len(col.GetOptions()) == len(opts)}
}
