package main

import (
	"os"
	"path/filepath"
	"reflect"

	ucfg "github.com/elastic/go-ucfg"
	"github.com/elastic/go-ucfg/hjson"
	"github.com/elastic/go-ucfg/json"
	"github.com/elastic/go-ucfg/yaml"
)

func init() { kinds["frontends"] = kFrontends }

type loader struct {
	name string
	mem  func([]byte, ...ucfg.Option) (*ucfg.Config, error)
	file func(string, ...ucfg.Option) (*ucfg.Config, error)
}

var loaders = []loader{
	{"yaml", yaml.NewConfig, yaml.NewConfigWithFile},
	{"json", json.NewConfig, json.NewConfigWithFile},
	{"hjson", hjson.NewConfig, hjson.NewConfigWithFile},
}

// frontends: {"text": document, "opts": [...], "ty": type|null, "fileName": base name}
// the same text through the three loaders, in memory and from a file; per loader: the generic view, the result of a
// typed Unpack, and the same again through *WithFile (plus whether an error names the file)
func kFrontends(c J) interface{} {
	text := []byte(str(c, "text"))
	// one option list, with spare capacity, handed to every call: the list belongs to the caller
	base := buildOpts(c["opts"])
	opts := make([]ucfg.Option, len(base), len(base)+4)
	copy(opts, base)
	optIDs := func() []uintptr {
		ids := make([]uintptr, len(opts))
		for i, o := range opts {
			ids[i] = reflect.ValueOf(o).Pointer()
		}
		return ids
	}
	before := optIDs()
	var ty reflect.Type
	if c["ty"] != nil {
		if msg := prep(func() { ty = buildType(c["ty"]) }); msg != "" {
			return J{"harness": msg}
		}
	}
	dir, err := os.MkdirTemp("", "vfront")
	if err != nil {
		return J{"harness": "tempdir: " + err.Error()}
	}
	defer os.RemoveAll(dir)
	observe := func(cfg *ucfg.Config, err error, file string) J {
		if err != nil {
			return J{"load": errKind(err)}
		}
		if c["overlay"] != nil {
			// settings from memory (no source) merged over the loaded document
			if err := cfg.Merge(buildValue(c["overlay"]), opts...); err != nil {
				return J{"load": errKind(err)}
			}
		}
		res := J{"view": doRead(cfg, J{"r": "view"}, opts)}
		if ty != nil {
			target := reflect.New(ty)
			if err := cfg.Unpack(target.Interface(), opts...); err != nil {
				ce := canonErr(err).(J)["err"].(J)
				text, _ := ce["text"].(string)
				e := J{"reason": ce["reason"], "typed": ce["typed"], "path": ce["path"]}
				if file != "" {
					e["namesFile"] = containsStr(text, file) || containsStr(err.Error(), file)
				} else {
					e["namesSource"] = containsStr(text, "source")
				}
				res["typed"] = J{"err": e}
			} else {
				res["typed"] = J{"ok": canonGoVal(target.Elem())}
			}
		}
		return res
	}
	out := J{}
	for _, l := range loaders {
		cfg, err := l.mem(text, opts...)
		r := J{"mem": observe(cfg, err, "")}
		name := filepath.Join(dir, str(c, "fileName")+"."+l.name)
		if werr := os.WriteFile(name, text, 0o600); werr != nil {
			return J{"harness": "write: " + werr.Error()}
		}
		fcfg, ferr := l.file(name, opts...)
		r["file"] = observe(fcfg, ferr, name)
		// a missing file is an error, not a panic
		_, merr := l.file(filepath.Join(dir, "does-not-exist."+l.name), opts...)
		r["missingFileErr"] = merr != nil
		out[l.name] = r
	}
	after := optIDs()
	for i := range before {
		if before[i] != after[i] {
			out["optsChanged"] = true
		}
	}
	return out
}

func containsStr(s, sub string) bool {
	return len(sub) > 0 && len(s) >= len(sub) && (func() bool {
		for i := 0; i+len(sub) <= len(s); i++ {
			if s[i:i+len(sub)] == sub {
				return true
			}
		}
		return false
	})()
}
