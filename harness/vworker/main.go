// vworker executes protocol cases against the real go-ucfg (built from the
// current working tree of the repository through the module's replace
// directive, with -tags verif) and prints one canonical JSON result per line.
package main

import (
	"bufio"
	"encoding/json"
	"fmt"
	"os"
	"runtime"
	"runtime/debug"
	"strconv"
	"strings"
	"time"
)

// a call that does not return within this time is reported as a hang; the parent repeats such a case alone with a much
// longer limit (VWORKER_CASE_TIMEOUT, seconds) before it believes it: a loaded machine is not a hang of the library
var caseTimeout = func() time.Duration {
	if s := os.Getenv("VWORKER_CASE_TIMEOUT"); s != "" {
		if n, err := strconv.Atoi(s); err == nil && n > 0 {
			return time.Duration(n) * time.Second
		}
	}
	return 4 * time.Second
}()

type J = map[string]interface{}

type caseFn func(c J) interface{}

var kinds = map[string]caseFn{}

func main() {
	debug.SetMaxStack(64 << 20)
	mode := "exec"
	if len(os.Args) > 1 {
		mode = os.Args[1]
	}
	switch mode {
	case "exec":
		execLoop()
	case "std":
		stdLoop()
	default:
		fmt.Fprintln(os.Stderr, "usage: vworker exec|std")
		os.Exit(2)
	}
}

func execLoop() {
	in := bufio.NewReaderSize(os.Stdin, 1<<20)
	out := bufio.NewWriterSize(os.Stdout, 1<<16)
	defer out.Flush()
	for {
		line, err := in.ReadString('\n')
		if strings.TrimSpace(line) != "" {
			var c J
			dec := json.NewDecoder(strings.NewReader(line))
			dec.UseNumber()
			if jerr := dec.Decode(&c); jerr != nil {
				writeLine(out, J{"res": J{"harness": "bad case json: " + jerr.Error()}})
			} else {
				done := make(chan interface{}, 1)
				before := runtime.NumGoroutine()
				go func() { done <- runCase(c) }()
				var res interface{}
				select {
				case res = <-done:
					// every goroutine the call started (the splice lexer) must be gone when it has returned
					leaked := 0
					for w := 0; w < 500; w++ { // (up to 1 s: on a loaded machine a finished goroutine may take a while to be gone)
						if leaked = runtime.NumGoroutine() - before; leaked <= 0 {
							break
						}
						time.Sleep(2 * time.Millisecond)
					}
					if leaked > 0 {
						if m, ok := res.(J); ok {
							m["leakedGoroutines"] = leaked
						} else {
							res = J{"res": res, "leakedGoroutines": leaked}
						}
					}
				case <-time.After(caseTimeout):
					// the call does not return (or is far too slow): report and die, the parent restarts us
					writeLine(out, J{"i": c["i"], "res": J{"fatal": "timeout: the call did not return within " + caseTimeout.String()}})
					out.Flush()
					os.Exit(3)
				}
				writeLine(out, J{"i": c["i"], "res": res})
			}
			out.Flush()
		}
		if err != nil {
			return
		}
	}
}

func writeLine(out *bufio.Writer, v interface{}) {
	b, err := json.Marshal(v)
	if err != nil {
		b, _ = json.Marshal(J{"res": J{"harness": "marshal: " + err.Error()}})
	}
	out.Write(b)
	out.WriteByte('\n')
}

func runCase(c J) (res interface{}) {
	defer func() {
		if r := recover(); r != nil {
			msg := fmt.Sprint(r)
			if len(msg) > 200 {
				msg = msg[:200]
			}
			res = J{"panic": msg}
		}
	}()
	sharedCfgs = nil
	optCache = nil
	k, _ := c["k"].(string)
	fn := kinds[k]
	if fn == nil {
		return J{"harness": "unknown kind " + k}
	}
	return fn(c)
}

func str(c J, k string) string {
	s, _ := c[k].(string)
	return s
}

func boolD(c J, k string, d bool) bool {
	if b, ok := c[k].(bool); ok {
		return b
	}
	return d
}

func arr(c J, k string) []interface{} {
	a, _ := c[k].([]interface{})
	return a
}

func obj(v interface{}) J {
	m, _ := v.(map[string]interface{})
	return m
}
