package main

import (
	"github.com/elastic/go-ucfg/flag"
	"sort"
	"strconv"

	ucfg "github.com/elastic/go-ucfg"
	"github.com/elastic/go-ucfg/parse"
)

func init() {
	kinds["newfrom"] = kNewFrom
	kinds["merge"] = kMerge
	kinds["parse"] = kParse
	kinds["intlit"] = kIntLit
	kinds["key"] = kKey
	kinds["json"] = kParse
}

// newfrom: {"from": godata, "opts": [...]} -> view + structural observations
func kNewFrom(c J) interface{} {
	opts := buildOpts(c["opts"])
	cfg, err := ucfg.NewFrom(buildValue(c["from"]), opts...)
	if err != nil {
		return canonErr(err)
	}
	v := viewOf(cfg)
	if m, ok := v.(J); ok {
		if okv, ok := m["ok"].(J); ok {
			n, _ := cfg.CountField("")
			okv["count"] = n
			f := append([]string{}, cfg.GetFields()...)
			sort.Strings(f)
			okv["fields"] = f
		}
	}
	return v
}

// merge: {"a": godata, "optsA": [...], "steps": [{"b": godata, "opts": [...]}, ...]}
func kMerge(c J) interface{} {
	cfg, err := ucfg.NewFrom(buildValue(c["a"]), buildOpts(c["optsA"])...)
	if err != nil {
		return J{"stage": "a", "res": canonErr(err)}
	}
	for i, s := range arr(c, "steps") {
		st := obj(s)
		if b, _ := st["restart"].(bool); b {
			// start over from a fresh copy of A (the same option values may be used again)
			cfg, err = ucfg.NewFrom(buildValue(c["a"]), buildOpts(c["optsA"])...)
			if err != nil {
				return J{"stage": "a", "res": canonErr(err)}
			}
		}
		var src interface{}
		if b, _ := st["self"].(bool); b {
			src = cfg // the very same object as source and destination
		} else {
			src = buildValue(st["b"])
		}
		if err := cfg.Merge(src, buildOpts(st["opts"])...); err != nil {
			return J{"stage": "step" + strconv.Itoa(i), "res": canonErr(err)}
		}
	}
	return J{"stage": "done", "res": viewOf(cfg)}
}

// parse: {"s": text, "cfg": {...}|null}
// pristine package-level parser configuration: using the library must not change what parse.Value means
var pristineParseCfg = parse.DefaultConfig

func kParse(c J) interface{} {
	var v interface{}
	var err error
	// "pre": other uses of the library before the parse ({from, opts, name, ropts}: create a config, read one setting)
	for _, p := range arr(c, "pre") {
		pj := p.(map[string]interface{})
		func() {
			defer func() { _ = recover() }()
			if f, ok := pj["flag"].(string); ok {
				// a -D key=value flag handled earlier in the process (flag/value.go parses its value with parse.Value)
				fv := flag.NewFlagKeyValue(ucfg.New(), boolD(pj, "autoBool", true), buildOpts(pj["opts"])...)
				_ = fv.Set(f)
				_ = fv.String()
				return
			}
			if cfg, err := ucfg.NewFrom(buildValue(pj["from"]), buildOpts(pj["opts"])...); err == nil {
				_, _ = cfg.String(str(pj, "name"), -1, buildOpts(pj["ropts"])...)
				var m map[string]interface{}
				_ = cfg.Unpack(&m, buildOpts(pj["ropts"])...)
			}
		}()
	}
	if parse.DefaultConfig != pristineParseCfg {
		parse.DefaultConfig = pristineParseCfg
		return J{"stateChanged": "parse.DefaultConfig"}
	}
	if c["cfg"] == nil {
		v, err = parse.Value(str(c, "s"))
	} else {
		v, err = parse.ValueWithConfig(str(c, "s"), parseCfgOf(c["cfg"]))
	}
	if err != nil {
		return canonErr(err)
	}
	return okRes(canonData(v))
}

// intlit: {"s": text} -> strconv.ParseInt/ParseUint(s, 0, 64)
func kIntLit(c J) interface{} {
	out := J{"int": nil, "uint": nil}
	if i, err := strconv.ParseInt(str(c, "s"), 0, 64); err == nil {
		out["int"] = strconv.FormatInt(i, 10)
	}
	if u, err := strconv.ParseUint(str(c, "s"), 0, 64); err == nil {
		out["uint"] = strconv.FormatUint(u, 10)
	}
	return okRes(out)
}

// key: {"key": s, "val": godata, "opts": [...]} -> NewFrom(map{key: val}, opts...)
func kKey(c J) interface{} {
	c2 := J{"from": J{"m": []interface{}{[]interface{}{str(c, "key"), c["val"]}}}, "opts": c["opts"]}
	return kNewFrom(c2)
}
