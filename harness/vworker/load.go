package main

import (
	"encoding/hex"
	"runtime"
	"time"

	ucfg "github.com/elastic/go-ucfg"
	"github.com/elastic/go-ucfg/hjson"
	"github.com/elastic/go-ucfg/json"
	"github.com/elastic/go-ucfg/yaml"
)

func init() { kinds["load"] = kLoad }

// load: {"fmt": "yaml"|"json"|"hjson", "hex": bytes, "opts": [...]} - arbitrary bytes through a format loader, then
// every read entry point on the result. Reports only whether the calls returned and whether goroutines leaked.
func kLoad(c J) interface{} {
	data, err := hex.DecodeString(str(c, "hex"))
	if err != nil {
		return J{"harness": "bad hex"}
	}
	opts := buildOpts(c["opts"])
	before := runtime.NumGoroutine()
	var cfg *ucfg.Config
	switch str(c, "fmt") {
	case "yaml":
		cfg, err = yaml.NewConfig(data, opts...)
	case "json":
		cfg, err = json.NewConfig(data, opts...)
	default:
		cfg, err = hjson.NewConfig(data, opts...)
	}
	res := J{"loaded": err == nil}
	if err == nil && cfg != nil {
		var m map[string]interface{}
		e1 := cfg.Unpack(&m, opts...)
		var a []interface{}
		e2 := cfg.Unpack(&a, opts...)
		keys := cfg.FlattenedKeys(opts...)
		res["unpacked"] = e1 == nil && e2 == nil
		res["keys"] = len(keys)
	}
	// the lexer goroutines of VarExp parsing must be gone
	leaked := 0
	for i := 0; i < 20; i++ {
		leaked = runtime.NumGoroutine() - before
		if leaked <= 0 {
			break
		}
		time.Sleep(5 * time.Millisecond)
	}
	if leaked > 0 {
		res["leakedGoroutines"] = leaked
	}
	return res
}
