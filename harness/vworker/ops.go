package main

import (
	"sort"
	"strconv"

	ucfg "github.com/elastic/go-ucfg"
)

func init() { kinds["ops"] = kOps }

func numInt(v interface{}, d int) int {
	switch x := v.(type) {
	case string:
		i, err := strconv.ParseInt(x, 10, 64)
		if err == nil {
			return int(i)
		}
	case interface{ Int64() (int64, error) }:
		i, err := x.Int64()
		if err == nil {
			return int(i)
		}
	case float64:
		return int(x)
	}
	return d
}

// ops: {"init": godata, "optsInit": [...], "ops": [...]}; every step reports its result and the root's view
func kOps(c J) interface{} {
	init := c["init"]
	if init == nil {
		init = J{"m": []interface{}{}}
	}
	root, err := ucfg.NewFrom(buildValue(init), buildOpts(c["optsInit"])...)
	if err != nil {
		return J{"init": canonErr(err)}
	}
	handles := []*ucfg.Config{root}
	var steps []interface{}
	for _, o := range arr(c, "ops") {
		op := obj(o)
		r := runOp(op, &handles)
		steps = append(steps, J{"r": r, "root": viewPlain(root)})
	}
	hv := []interface{}{}
	if boolD(c, "cmpHandles", false) {
		for _, h := range handles {
			hv = append(hv, viewPlain(h))
		}
	}
	if steps == nil {
		steps = []interface{}{}
	}
	return J{"init": "ok", "steps": steps, "handles": hv}
}

func viewPlain(c *ucfg.Config) interface{} {
	v := viewOf(c)
	if m, ok := v.(J); ok {
		if okv, ok := m["ok"].(J); ok {
			delete(okv, "count")
			delete(okv, "fields")
		}
	}
	return v
}

func runOp(op J, handles *[]*ucfg.Config) (res interface{}) {
	defer func() {
		if r := recover(); r != nil {
			res = J{"panic": truncate(r)}
		}
	}()
	h := numInt(op["h"], 0)
	if h < 0 || h >= len(*handles) {
		return J{"harness": "bad handle"}
	}
	c := (*handles)[h]
	name := str(op, "name")
	idx := numInt(op["idx"], -1)
	opts := buildOpts(op["opts"])
	e := func(err error) interface{} {
		if err != nil {
			return canonErr(err)
		}
		return okRes(nil)
	}
	switch str(op, "op") {
	case "set":
		switch v := buildValue(op["val"]).(type) {
		case bool:
			return e(c.SetBool(name, idx, v, opts...))
		case int64:
			return e(c.SetInt(name, idx, v, opts...))
		case uint64:
			return e(c.SetUint(name, idx, v, opts...))
		case float64:
			return e(c.SetFloat(name, idx, v, opts...))
		case string:
			return e(c.SetString(name, idx, v, opts...))
		}
		return J{"harness": "bad set value"}
	case "setchild":
		if b, _ := op["nilChild"].(bool); b {
			return e(c.SetChild(name, idx, nil, opts...))
		}
		if op["childHandle"] != nil {
			// an existing config (possibly the receiver itself or one of its ancestors) as the child
			k := numInt(op["childHandle"], 0)
			if k < 0 || k >= len(*handles) {
				return J{"harness": "bad child handle"}
			}
			return e(c.SetChild(name, idx, (*handles)[k], opts...))
		}
		child, err := ucfg.NewFrom(buildValue(op["val"]), buildOpts(op["copts"])...)
		if err != nil {
			return J{"harness": "setchild source: " + err.Error()}
		}
		return e(c.SetChild(name, idx, child, opts...))
	case "path":
		return okRes(J{"s": c.Path(".")})
	case "remove":
		ok, err := c.Remove(name, idx, opts...)
		if err != nil {
			return canonErr(err)
		}
		return okRes(J{"b": ok})
	case "merge":
		return e(c.Merge(buildValue(op["from"]), opts...))
	case "child":
		ch, err := c.Child(name, idx, opts...)
		if err != nil {
			return canonErr(err)
		}
		*handles = append(*handles, ch)
		return okRes(J{"h": len(*handles) - 1})
	case "get":
		switch str(op, "type") {
		case "Bool":
			v, err := c.Bool(name, idx, opts...)
			if err != nil {
				return canonErr(err)
			}
			return okRes(J{"b": v})
		case "Int":
			v, err := c.Int(name, idx, opts...)
			if err != nil {
				return canonErr(err)
			}
			return okRes(canonData(v))
		case "Uint":
			v, err := c.Uint(name, idx, opts...)
			if err != nil {
				return canonErr(err)
			}
			return okRes(canonData(v))
		case "Float":
			v, err := c.Float(name, idx, opts...)
			if err != nil {
				return canonErr(err)
			}
			return okRes(canonData(v))
		default:
			v, err := c.String(name, idx, opts...)
			if err != nil {
				return canonErr(err)
			}
			return okRes(canonData(v))
		}
	case "has":
		ok, err := c.Has(name, idx, opts...)
		if err != nil {
			return canonErr(err)
		}
		return okRes(J{"b": ok})
	case "count":
		n, err := c.CountField(name)
		if err != nil {
			return canonErr(err)
		}
		return okRes(J{"i": strconv.Itoa(n)})
	case "info":
		f := append([]string{}, c.GetFields()...)
		sort.Strings(f)
		return okRes(J{"isDict": c.IsDict(), "isArray": c.IsArray(), "fields": f})
	}
	return J{"harness": "unknown op"}
}

func truncate(r interface{}) string {
	msg := ""
	switch x := r.(type) {
	case error:
		msg = x.Error()
	case string:
		msg = x
	default:
		msg = "panic"
	}
	if len(msg) > 200 {
		msg = msg[:200]
	}
	return msg
}
