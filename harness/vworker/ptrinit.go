package main

import (
	"fmt"

	ucfg "github.com/elastic/go-ucfg"
)

// a pointer field to a type with InitDefaults, pre-filled by the caller (or by an earlier Unpack): a configuration that
// has no setting for it - or a null one - leaves the pointer and what it points to alone; a configuration that mentions
// it writes the mentioned fields (C13: every other field is "as it was or as InitDefaults set it")

type ptrInitTarget struct {
	P *CatDefaults            `config:"p"`
	L []*CatDefaults          `config:"l"`
	M map[string]*CatDefaults `config:"m"`
	N int                     `config:"n"`
}

func init() { kinds["ptrinit"] = kPtrInit }

func buildCatDefaults(v interface{}) *CatDefaults {
	m, ok := v.(map[string]interface{})
	if !ok {
		return nil
	}
	d := &CatDefaults{Port: numInt(m["port"], 0), Host: str(m, "host")}
	for _, t := range arr(m, "tags") {
		d.Tags = append(d.Tags, fmt.Sprint(t))
	}
	return d
}

func dumpCatDefaults(d *CatDefaults) interface{} {
	if d == nil {
		return nil
	}
	tags := []interface{}{}
	for _, t := range d.Tags {
		tags = append(tags, t)
	}
	return J{"port": d.Port, "host": d.Host, "tags": tags}
}

// ptrinit: {"p": pre|null, "l": [pre|null], "m": {k: pre|null}, "from": godata, "copts", "uopts", "repeat": n}
func kPtrInit(c J) interface{} {
	var t ptrInitTarget
	t.P = buildCatDefaults(c["p"])
	for _, v := range arr(c, "l") {
		t.L = append(t.L, buildCatDefaults(v))
	}
	if m, ok := c["m"].(map[string]interface{}); ok {
		t.M = map[string]*CatDefaults{}
		for k, v := range m {
			t.M[k] = buildCatDefaults(v)
		}
	}
	p0 := t.P
	cfg, err := ucfg.NewFrom(buildValue(c["from"]), buildOpts(c["copts"])...)
	if err != nil {
		return J{"create": errKind(err)}
	}
	for i := 0; i < numInt(c["repeat"], 1); i++ {
		if err := cfg.Unpack(&t, buildOpts(c["uopts"])...); err != nil {
			return canonErr(err)
		}
	}
	l := []interface{}{}
	for _, d := range t.L {
		l = append(l, dumpCatDefaults(d))
	}
	m := J{}
	for k, d := range t.M {
		m[k] = dumpCatDefaults(d)
	}
	return J{"ok": J{"p": dumpCatDefaults(t.P), "samePtr": t.P == p0, "l": l, "m": m, "n": t.N}}
}
