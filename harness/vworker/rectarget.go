package main

import (
	ucfg "github.com/elastic/go-ucfg"
)

// recursive target types (reflect cannot build them): a configuration whose references lead back to an enclosing
// object must be reported as cyclic when unpacked into them, and finite nestings must come out as they are

type RecT struct {
	B *RecT `config:"b"`
	N int   `config:"n"`
}

type RecM map[string]RecM

type RecL []RecL

type RecS struct {
	Kids []RecS          `config:"kids"`
	By   map[string]RecS `config:"by"`
	N    int             `config:"n"`
}

type recTarget struct {
	A RecT `config:"a"`
	M RecM `config:"m"`
	L RecL `config:"l"`
	S RecS `config:"s"`
}

func init() { kinds["rectarget"] = kRecTarget }

func dumpRecT(t *RecT, fuel int) interface{} {
	if t == nil || fuel == 0 {
		return nil
	}
	return J{"n": t.N, "b": dumpRecT(t.B, fuel-1)}
}

func dumpRecM(m RecM, fuel int) interface{} {
	if m == nil || fuel == 0 {
		return nil
	}
	out := J{}
	for k, v := range m {
		out[k] = dumpRecM(v, fuel-1)
	}
	return out
}

func dumpRecL(l RecL, fuel int) interface{} {
	if l == nil || fuel == 0 {
		return nil
	}
	out := []interface{}{}
	for _, v := range l {
		out = append(out, dumpRecL(v, fuel-1))
	}
	return out
}

func dumpRecS(s RecS, fuel int) interface{} {
	if fuel == 0 {
		return nil
	}
	kids := []interface{}{}
	for _, k := range s.Kids {
		kids = append(kids, dumpRecS(k, fuel-1))
	}
	by := J{}
	for k, v := range s.By {
		by[k] = dumpRecS(v, fuel-1)
	}
	return J{"n": s.N, "kids": kids, "by": by}
}

// rectarget: {"from": godata, "copts", "merges": [{"b", "opts"}], "uopts"}
func kRecTarget(c J) interface{} {
	cfg, err := ucfg.NewFrom(buildValue(c["from"]), buildOpts(c["copts"])...)
	if err != nil {
		return J{"create": errKind(err)}
	}
	for _, m := range arr(c, "merges") {
		mj := m.(map[string]interface{})
		if err := cfg.Merge(buildValue(mj["b"]), buildOpts(mj["opts"])...); err != nil {
			return J{"create": errKind(err)}
		}
	}
	var t recTarget
	if err := cfg.Unpack(&t, buildOpts(c["uopts"])...); err != nil {
		return canonErr(err)
	}
	return J{"ok": J{"a": dumpRecT(&t.A, 12), "m": dumpRecM(t.M, 12), "l": dumpRecL(t.L, 12), "s": dumpRecS(t.S, 12)}}
}
