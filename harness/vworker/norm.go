package main

import (
	"sort"

	ucfg "github.com/elastic/go-ucfg"
)

func init() { kinds["norm"] = kNorm }

// shuffleSeed permutes the insertion order of every map buildValue creates (C09: the
// runtime's iteration order follows the insertion order for small maps).
var shuffleSeed uint64

func permute(n int) []int {
	p := make([]int, n)
	for i := range p {
		p[i] = i
	}
	if shuffleSeed == 0 {
		return p
	}
	s := shuffleSeed
	for i := n - 1; i > 0; i-- {
		s = s*6364136223846793005 + 1442695040888963407
		j := int((s >> 33) % uint64(i+1))
		p[i], p[j] = p[j], p[i]
	}
	return p
}

// norm: {"from": godata, "opts": [...], "repeat": n} ->
//
//	{"first": view, "again": view of NewFrom(unpacked data), "outcomes": number of distinct outcomes over the repeats}
func kNorm(c J) interface{} {
	repeat := numInt(c["repeat"], 1)
	outcomes := map[string]bool{}
	var first, again interface{}
	for r := 0; r < repeat; r++ {
		shuffleSeed = uint64(r) * 0x9E3779B97F4A7C15
		opts := buildOpts(c["opts"])
		var cfg *ucfg.Config
		var err error
		if c["base"] != nil {
			// the source is merged into an existing config
			shuffleSeed = 0
			cfg, err = ucfg.NewFrom(buildValue(c["base"]), buildOpts(c["bopts"])...)
			shuffleSeed = uint64(r) * 0x9E3779B97F4A7C15
			if err == nil {
				err = cfg.Merge(buildValue(c["from"]), opts...)
			}
		} else {
			cfg, err = ucfg.NewFrom(buildValue(c["from"]), opts...)
		}
		var v interface{}
		if err != nil {
			e := canonErr(err).(J)["err"].(J)
			v = J{"err": J{"reason": e["reason"], "typed": e["typed"]}}
		} else {
			v = dataView(cfg)
		}
		outcomes[mustJSON(v)] = true
		if r == 0 {
			first = v
			if err == nil {
				// feed the generic result back in
				var m map[string]interface{}
				var a []interface{}
				e1 := cfg.Unpack(&m)
				e2 := cfg.Unpack(&a)
				if e1 == nil && e2 == nil {
					var src interface{} = m
					if cfg.IsArray() && !cfg.IsDict() {
						src = a
					}
					c2, err2 := ucfg.NewFrom(src)
					if err2 != nil {
						again = canonErr(err2)
					} else {
						again = dataView(c2)
					}
				}
			}
		}
	}
	shuffleSeed = 0
	keys := make([]string, 0, len(outcomes))
	for k := range outcomes {
		keys = append(keys, k)
	}
	sort.Strings(keys)
	return J{"first": first, "again": again, "outcomes": len(outcomes)}
}

// dataView is the data of a config with nil-valued settings dropped (nil = absent = empty):
// which of two overlapping definitions contributes an explicit nil may depend on the order.
func dataView(c *ucfg.Config) interface{} {
	v := viewPlain(c)
	m, ok := v.(J)
	if !ok {
		return v
	}
	okv, ok := m["ok"].(J)
	if !ok {
		return v
	}
	return J{"ok": J{"dict": dropNilJ(okv["dict"]), "arr": dropNilJ(okv["arr"])}}
}

// dropNilDict works on a key -> canonical-data map, dropNilData on one canonical datum
func dropNilDict(v interface{}) J {
	out := J{}
	if m, ok := v.(J); ok {
		for k, e := range m {
			if r := dropNilData(e); r != nil {
				out[k] = r
			}
		}
	}
	return out
}

func dropNilData(v interface{}) interface{} {
	x, ok := v.(J)
	if !ok {
		return v
	}
	if inner, ok := x["m"]; ok && len(x) == 1 {
		r := dropNilDict(inner)
		if len(r) == 0 {
			return nil
		}
		return J{"m": r}
	}
	if inner, ok := x["a"]; ok && len(x) == 1 {
		l, _ := inner.([]interface{})
		out := make([]interface{}, len(l))
		for i, e := range l {
			out[i] = dropNilData(e)
		}
		return J{"a": out}
	}
	return x
}

func dropNilJ(v interface{}) interface{} {
	if l, ok := v.([]interface{}); ok {
		out := make([]interface{}, len(l))
		for i, e := range l {
			out[i] = dropNilData(e)
		}
		return out
	}
	return dropNilDict(v)
}
