package main

import (
	"bufio"
	"encoding/json"
	"fmt"
	"os"
	"regexp"
	"strconv"
	"strings"
	"time"
)

// stdFor is kept for the exec protocol; the standard-library oracle is served by
// the separate "std" mode, so per-case annotations are empty.
func stdFor(c J, res interface{}) interface{} { return nil }

// stdLoop answers standard-library queries, one JSON object per line:
// {"fn":"pf","arg":"1e3"} -> {"fn":"pf","arg":"1e3","val":"408f400000000000"} (val null on error)
func stdLoop() {
	in := bufio.NewReaderSize(os.Stdin, 1<<20)
	out := bufio.NewWriterSize(os.Stdout, 1<<16)
	defer out.Flush()
	for {
		line, err := in.ReadString('\n')
		if strings.TrimSpace(line) != "" {
			var q J
			if jerr := json.Unmarshal([]byte(line), &q); jerr == nil {
				q["val"] = stdAnswer(str(q, "fn"), str(q, "arg"))
				writeLine(out, q)
			} else {
				writeLine(out, J{"error": jerr.Error()})
			}
		}
		if err != nil {
			return
		}
	}
}

func stdAnswer(fn, arg string) interface{} {
	switch fn {
	case "pf": // strconv.ParseFloat(arg, 64) -> bits
		f, err := strconv.ParseFloat(arg, 64)
		if err != nil {
			return nil
		}
		return hexOfFloat(f)
	case "ff": // fmt %v of the float with the given bits
		return fmt.Sprintf("%v", floatFromHex(arg))
	case "pd": // time.ParseDuration -> ns
		d, err := time.ParseDuration(arg)
		if err != nil {
			return nil
		}
		return strconv.FormatInt(int64(d), 10)
	case "ds": // Duration.String of ns
		return time.Duration(parseI64(arg)).String()
	case "re":
		_, err := regexp.Compile(arg)
		return err == nil
	}
	return nil
}
