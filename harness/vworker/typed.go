package main

import (
	"fmt"
	"reflect"
	"regexp"
	"sort"
	"strconv"
	"time"

	ucfg "github.com/elastic/go-ucfg"
)

func init() { kinds["unpack"] = kUnpack }

var (
	tIface     = reflect.TypeOf((*interface{})(nil)).Elem()
	tDurationT = reflect.TypeOf(time.Duration(0))
	tRegexpT   = reflect.TypeOf(regexp.Regexp{})
	tConfigT   = reflect.TypeOf(ucfg.Config{})
)

// NamedKey is a map key type defined from string (`map[NamedKey]T` is a supported Unpack target)
type NamedKey string

func buildType(v interface{}) reflect.Type {
	j := v.(map[string]interface{})
	t := j["t"].(string)
	switch t {
	case "ptr":
		return reflect.PtrTo(buildType(j["e"]))
	case "slice":
		return reflect.SliceOf(buildType(j["e"]))
	case "array":
		return reflect.ArrayOf(numInt(j["n"], 0), buildType(j["e"]))
	case "map":
		if nk, _ := j["nk"].(bool); nk {
			// a key type defined from string
			return reflect.MapOf(reflect.TypeOf(NamedKey("")), buildType(j["e"]))
		}
		return reflect.MapOf(reflect.TypeOf(""), buildType(j["e"]))
	case "badmap":
		return reflect.MapOf(reflect.TypeOf(0), buildType(j["e"]))
	case "struct":
		var sf []reflect.StructField
		for _, f := range j["f"].([]interface{}) {
			fm := f.(map[string]interface{})
			tag := ""
			if s, _ := fm["tag"].(string); s != "" {
				tag += fmt.Sprintf(`config:%q`, s)
			}
			if s, _ := fm["v"].(string); s != "" {
				if tag != "" {
					tag += " "
				}
				tag += fmt.Sprintf(`validate:%q`, s)
			}
			// further tags, read with the StructTag / ValidatorTag options
			for _, k := range []string{"alt", "valt"} {
				if s, ok := fm[k].(string); ok {
					if tag != "" {
						tag += " "
					}
					tag += fmt.Sprintf(`%s:%q`, k, s)
				}
			}
			emb, _ := fm["emb"].(bool) // an embedded (anonymous) field
			sf = append(sf, reflect.StructField{Name: fm["n"].(string), Type: buildType(fm["ty"]), Tag: reflect.StructTag(tag), Anonymous: emb})
		}
		return reflect.StructOf(sf)
	case "iface":
		return tIface
	case "regexp":
		return tRegexpT
	case "config":
		return tConfigT
	case "chan":
		return reflect.TypeOf(make(chan int))
	case "func":
		return reflect.TypeOf(func() {})
	case "complex":
		return reflect.TypeOf(complex128(0))
	case "duration":
		return tDurationT
	}
	if kt, ok := kindTypes[t]; ok {
		return kt
	}
	panic("harness: bad type " + t)
}

// setValue fills rv (addressable, of type t) from the canonical GoVal JSON
func setValue(rv reflect.Value, v interface{}) {
	if v == nil {
		return
	}
	j := v.(map[string]interface{})
	t := rv.Type()
	switch {
	case t == tDurationT:
		rv.SetInt(parseI64(j["dur"].(string)))
		return
	case t == tRegexpT:
		rv.Set(reflect.ValueOf(*regexp.MustCompile(j["re"].(string))))
		return
	}
	switch t.Kind() {
	case reflect.Bool:
		rv.SetBool(j["b"].(bool))
	case reflect.Int, reflect.Int8, reflect.Int16, reflect.Int32, reflect.Int64:
		rv.SetInt(parseI64(j["i"].(string)))
	case reflect.Uint, reflect.Uint8, reflect.Uint16, reflect.Uint32, reflect.Uint64:
		rv.SetUint(parseU64(j["u"].(string)))
	case reflect.Float32, reflect.Float64:
		rv.SetFloat(floatFromHex(j["f"].(string)))
	case reflect.String:
		rv.SetString(j["s"].(string))
	case reflect.Interface:
		if d := j["if"]; d != nil {
			rv.Set(reflect.ValueOf(genericOf(d)))
		}
	case reflect.Ptr:
		if p := j["p"]; p != nil {
			if t.Elem() == tRegexpT {
				rv.Set(reflect.ValueOf(regexp.MustCompile(p.(map[string]interface{})["re"].(string))))
				return
			}
			n := reflect.New(t.Elem())
			setValue(n.Elem(), p)
			rv.Set(n)
		}
	case reflect.Slice:
		if l, ok := j["sl"].([]interface{}); ok {
			s := reflect.MakeSlice(t, len(l), len(l))
			for i, e := range l {
				setValue(s.Index(i), e)
			}
			rv.Set(s)
		}
	case reflect.Array:
		if l, ok := j["ar"].([]interface{}); ok {
			for i, e := range l {
				if i < rv.Len() {
					setValue(rv.Index(i), e)
				}
			}
		}
	case reflect.Map:
		if m, ok := j["mp"].(map[string]interface{}); ok {
			mv := reflect.MakeMap(t)
			for k, e := range m {
				ev := reflect.New(t.Elem()).Elem()
				setValue(ev, e)
				mv.SetMapIndex(reflect.ValueOf(k).Convert(t.Key()), ev)
			}
			rv.Set(mv)
		}
	case reflect.Struct:
		if l, ok := j["st"].([]interface{}); ok {
			for i, e := range l {
				if i < rv.NumField() {
					setValue(rv.Field(i), e)
				}
			}
		}
	}
}

// genericOf turns canonical data JSON into the generic Go value Unpack(&interface{}) produces
func genericOf(v interface{}) interface{} {
	if v == nil {
		return nil
	}
	j := v.(map[string]interface{})
	if b, ok := j["b"]; ok {
		return b.(bool)
	}
	if s, ok := j["i"]; ok {
		return parseI64(s.(string))
	}
	if s, ok := j["u"]; ok {
		return parseU64(s.(string))
	}
	if s, ok := j["f"]; ok {
		return floatFromHex(s.(string))
	}
	if s, ok := j["s"]; ok {
		return s.(string)
	}
	if a, ok := j["a"]; ok {
		l := a.([]interface{})
		out := make([]interface{}, len(l))
		for i, e := range l {
			out[i] = genericOf(e)
		}
		return out
	}
	if m, ok := j["m"]; ok {
		out := map[string]interface{}{}
		for k, e := range m.(map[string]interface{}) {
			out[k] = genericOf(e)
		}
		return out
	}
	return nil
}

func canonGoVal(rv reflect.Value) interface{} {
	t := rv.Type()
	switch {
	case t == tDurationT:
		return J{"dur": strconv.FormatInt(rv.Int(), 10)}
	case t == tRegexpT:
		r := rv.Interface().(regexp.Regexp)
		return J{"re": r.String()}
	case t == tConfigT:
		// the settings a Config target ended up with (the zero value holds none)
		if rv.FieldByName("fields").IsNil() {
			return J{"cfg": J{"dict": J{}, "arr": []interface{}{}}}
		}
		c := rv.Interface().(ucfg.Config)
		if vw, ok := viewOf(&c).(J)["ok"].(J); ok {
			return J{"cfg": J{"dict": vw["dict"], "arr": vw["arr"]}}
		}
		return J{"cfg": nil}
	}
	switch t.Kind() {
	case reflect.Bool:
		return J{"b": rv.Bool()}
	case reflect.Int, reflect.Int8, reflect.Int16, reflect.Int32, reflect.Int64:
		return J{"i": strconv.FormatInt(rv.Int(), 10)}
	case reflect.Uint, reflect.Uint8, reflect.Uint16, reflect.Uint32, reflect.Uint64:
		return J{"u": strconv.FormatUint(rv.Uint(), 10)}
	case reflect.Float32, reflect.Float64:
		return J{"f": hexOfFloat(rv.Float())}
	case reflect.String:
		return J{"s": rv.String()}
	case reflect.Interface:
		if rv.IsNil() {
			return J{"if": nil}
		}
		return J{"if": canonData(rv.Interface())}
	case reflect.Ptr:
		if rv.IsNil() {
			return J{"p": nil}
		}
		if t.Elem() == tRegexpT {
			return J{"p": J{"re": rv.Interface().(*regexp.Regexp).String()}}
		}
		return J{"p": canonGoVal(rv.Elem())}
	case reflect.Slice:
		if rv.IsNil() {
			return J{"sl": nil}
		}
		out := make([]interface{}, rv.Len())
		for i := range out {
			out[i] = canonGoVal(rv.Index(i))
		}
		return J{"sl": out}
	case reflect.Array:
		out := make([]interface{}, rv.Len())
		for i := range out {
			out[i] = canonGoVal(rv.Index(i))
		}
		return J{"ar": out}
	case reflect.Map:
		if t.Key().Kind() != reflect.String {
			return J{"unsup": true}
		}
		if rv.IsNil() {
			return J{"mp": nil}
		}
		out := J{}
		keys := rv.MapKeys()
		sort.Slice(keys, func(i, j int) bool { return keys[i].String() < keys[j].String() })
		for _, k := range keys {
			out[k.String()] = canonGoVal(rv.MapIndex(k))
		}
		return J{"mp": out}
	case reflect.Struct:
		out := make([]interface{}, rv.NumField())
		for i := range out {
			out[i] = canonGoVal(rv.Field(i))
		}
		return J{"st": out}
	}
	return J{"unsup": true}
}

// shallowKey renders a value ignoring what it merely shares (contents of maps, pointed-to objects)
func shallowKey(rv reflect.Value) interface{} {
	t := rv.Type()
	switch t.Kind() {
	case reflect.Map:
		return J{"mp": rv.IsNil()}
	case reflect.Interface:
		// what an interface{} field holds is rendered the same way: a map held in it is shared, not owned
		if rv.IsNil() {
			return J{"if": nil}
		}
		return J{"if": shallowKey(rv.Elem())}
	case reflect.Ptr:
		if rv.IsNil() {
			return J{"p": nil}
		}
		return J{"p": fmt.Sprintf("%p", rv.Interface())}
	case reflect.Struct:
		if t == tRegexpT || t == tConfigT {
			return "opaque"
		}
		out := make([]interface{}, rv.NumField())
		for i := range out {
			out[i] = shallowKey(rv.Field(i))
		}
		return out
	case reflect.Array:
		out := make([]interface{}, rv.Len())
		for i := range out {
			out[i] = shallowKey(rv.Index(i))
		}
		return out
	case reflect.Slice:
		if rv.IsNil() {
			return J{"sl": nil}
		}
		// the slice header (identity and length) and the elements it holds
		out := make([]interface{}, rv.Len())
		for i := range out {
			out[i] = shallowKey(rv.Index(i))
		}
		return J{"sl": fmt.Sprintf("%p/%d", rv.Interface(), rv.Len()), "el": out}
	}
	return canonGoVal(rv)
}

// unpack: {"ty": type, "old": goval, "from": godata, "copts": [...], "uopts": [...]}
// prep runs harness-side preparation; a panic in it is a harness problem (e.g. a shrunk case with an
// unnamed struct field), never a finding about the library
func prep(f func()) (msg string) {
	defer func() {
		if r := recover(); r != nil {
			msg = fmt.Sprint("case preparation: ", r)
		}
	}()
	f()
	return ""
}

func kUnpack(c J) interface{} {
	var t reflect.Type
	var target reflect.Value
	if msg := prep(func() {
		t = buildType(c["ty"])
		target = reflect.New(t)
		setValue(target.Elem(), c["old"])
	}); msg != "" {
		return J{"harness": msg}
	}
	cfg, err := ucfg.NewFrom(buildValue(c["from"]), buildOpts(c["copts"])...)
	if err != nil {
		return J{"create": errKind(err)}
	}
	for _, m := range arr(c, "merges") {
		mj := m.(map[string]interface{})
		dst := cfg
		if at := str(mj, "at"); at != "" {
			// merged through a handle on a sub-configuration: what arrives belongs to the place the handle stands for
			ch, err := cfg.Child(at, -1, ucfg.PathSep("."))
			if err != nil {
				return J{"harness": "merge at " + at + ": " + err.Error()}
			}
			dst = ch
		}
		if err := dst.Merge(buildValue(mj["b"]), buildOpts(mj["opts"])...); err != nil {
			return J{"create": errKind(err)}
		}
	}
	if w, ok := c["warmOpts"]; ok && w != nil {
		// the same type unpacked once before under other options: what one call learns about a type must not leak
		// into the next
		_ = cfg.Unpack(reflect.New(t).Interface(), buildOpts(w)...)
	}
	before := mustJSON(shallowKey(target.Elem()))
	var arg interface{} = target.Interface()
	if t.Kind() == reflect.Map && boolD(c, "byValue", false) {
		arg = target.Elem().Interface()
	}
	if err := cfg.Unpack(arg, buildOpts(c["uopts"])...); err != nil {
		ce := canonErr(err).(J)["err"].(J)
		after := mustJSON(shallowKey(target.Elem()))
		res := J{"err": J{"reason": ce["reason"], "typed": ce["typed"], "class": ce["class"], "path": ce["path"], "text": ce["text"]},
			"unchanged": t.Kind() != reflect.Struct || before == after} // C13 speaks about struct targets
		if res["unchanged"] == false {
			res["heldBefore"], res["heldAfter"] = before, after
		}
		return res
	}
	return J{"ok": canonGoVal(target.Elem())}
}

func init() { kinds["roundtrip"] = kRoundtrip }

// roundtrip: {"ty": struct type, "val": goval, "opts": [...]} -> NewFrom(value) then Unpack into a zero value
func kRoundtrip(c J) interface{} {
	var t reflect.Type
	var src reflect.Value
	if msg := prep(func() {
		t = buildType(c["ty"])
		src = reflect.New(t)
		setValue(src.Elem(), c["val"])
	}); msg != "" {
		return J{"harness": msg}
	}
	opts := buildOpts(c["opts"])
	var in interface{} = src.Elem().Interface()
	if boolD(c, "byPtr", false) {
		in = src.Interface()
	}
	cfg, err := ucfg.NewFrom(in, opts...)
	if err != nil {
		return J{"err": J{"reason": canonErr(err).(J)["err"].(J)["reason"], "stage": "newfrom"}}
	}
	target := reflect.New(t)
	if err := cfg.Unpack(target.Interface(), opts...); err != nil {
		ce := canonErr(err).(J)["err"].(J)
		return J{"err": J{"reason": ce["reason"], "text": ce["text"], "stage": "unpack"}}
	}
	return J{"ok": canonGoVal(target.Elem())}
}
