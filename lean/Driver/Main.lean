import Driver.Codec
import Driver.TypedCodec
import Driver.ForestDrv
import Std.Data.HashMap
import Ucfg.Spec.C20
import Ucfg.Spec.C17
import Ucfg.Spec.C01
import Ucfg.Model.Ops
import Ucfg.Spec.C03
import Ucfg.Model.Flag
import Ucfg.Model.Eval
import Ucfg.Model.Frontends
/-
  ucfgdrv: reads one protocol case per line on stdin, runs the Lean model's
  executable definitions on it and prints one JSON result line.
  argv[1] (optional): a JSON file with the standard-library tables.
-/
open Lean Ucfg
namespace Driver

structure StdTables where
  pf : Std.HashMap String Json := {}
  ff : Std.HashMap String Json := {}
  pd : Std.HashMap String Json := {}
  ds : Std.HashMap String Json := {}
  re : Std.HashMap String Json := {}

def loadTable (j : Json) (k : String) : Std.HashMap String Json :=
  match optField j k with
  | some (.obj kvs) => kvs.foldl (fun m k v => m.insert k v) {}
  | _ => {}

def hexOfString (s : String) : String :=
  String.join (s.toUTF8.toList.map (fun b => String.ofList [hexDigit (b.toNat / 16), hexDigit (b.toNat % 16)]))

def miss {α : Type} (fn arg : String) (poison : α) : α :=
  dbgTrace s!"STDLIB-MISS {fn} {hexOfString arg}" (fun _ => poison)

def mkStd (t : StdTables) : Stdlib :=
  { parseFloat := fun s => match t.pf[s]? with
      | some (.str h) => (parseHex h).toOption
      | some _ => none
      | none => miss "pf" s (some 0x7FF8DEADDEADDEAD)
    fmtFloat := fun b => match t.ff[toHex16 b]? with
      | some (.str s) => s
      | _ => miss "ff" (toHex16 b) "STDLIB-MISS"
    parseDuration := fun s => match t.pd[s]? with
      | some (.str n) => n.toInt?
      | some _ => none
      | none => miss "pd" s none
    durString := fun n => match t.ds[toString n]? with
      | some (.str s) => s
      | _ => miss "ds" (toString n) "STDLIB-MISS"
    regexOk := fun s => match t.re[s]? with
      | some (.bool b) => b
      | _ => miss "re" s true }

def getOpts (c : Json) (k : String) : R Opts := parseOpts ((optField c k).getD (.arr #[]))

def viewFull (v : Val) : Outcome Json :=
  match viewP v with
  | .ok vw =>
    let count := v.dict.length + v.arr.length
    .ok (Json.mkObj [("isDict", .bool vw.isDict), ("isArray", .bool vw.isArray),
          ("dict", .mkObj (vw.dict.map (fun (k, d) => (k, dataJson d)))),
          ("arr", .arr (vw.arr.map dataJson).toArray),
          ("count", .num count), ("fields", .arr ((dkeys v.dict).map Json.str).toArray)])
  | .err e => .err e
  | .panic s => .panic s
  | .fuel => .fuel

def runNewFrom (c : Json) : R Json := do
  let o ← getOpts c "opts"
  let d ← parseGoData ((optField c "from").getD .null)
  pure (outcomeJson id (newFrom o d >>= viewFull))

def viewOnly (v : Val) : Json :=
  outcomeJson viewJson (viewP v)

def runMerge (c : Json) : R Json := do
  let oa ← getOpts c "optsA"
  let a ← parseGoData ((optField c "a").getD .null)
  match newFrom oa a with
  | .ok cfg0 =>
    let steps := match optField c "steps" with
      | some (.arr s) => s.toList
      | _ => []
    let rec go (cfg : Val) (i : Nat) : List Json → R Json
      | [] => pure (Json.mkObj [("stage", "done"), ("res", viewOnly cfg)])
      | s :: rest => do
        let o ← getOpts s "opts"
        -- "restart": start over from a fresh A
        let cfg := if boolFieldD s "restart" false then cfg0 else cfg
        -- "self": the config is merged into itself (the very same object is source and destination)
        let b ← if boolFieldD s "self" false then pure (GoData.cfg cfg) else parseGoData ((optField s "b").getD .null)
        match cfgMerge o cfg b with
        | .ok cfg' => go cfg' (i + 1) rest
        | r => pure (Json.mkObj [("stage", .str s!"step{i}"), ("res", outcomeJson (fun _ => Json.null) r)])
    go cfg0 0 steps
  | r => pure (Json.mkObj [("stage", "a"), ("res", outcomeJson (fun _ => Json.null) r)])

def runParse (std : Stdlib) (c : Json) : R Json := do
  let s ← strField c "s"
  let cfg := match optField c "cfg" with
    | some .null => ({} : ParseCfg)
    | some j => parseParseCfg j
    | none => {}
  pure (outcomeJson dataJson (Parse.valueWithConfig std s cfg))

def runIntLit (c : Json) : R Json := do
  let s ← strField c "s"
  let f (o : Option String) : Json := match o with | some x => .str x | none => .null
  pure (Json.mkObj [("ok", Json.mkObj [
    ("int", f ((IntLit.parseIntS s).map toString)),
    ("uint", f ((IntLit.parseUintS s).map toString))])])

def okOracle : Json := Json.mkObj [("ok", .bool true)]
def failOracle (why : String) : Json := Json.mkObj [("ok", .bool false), ("why", .str why)]

/-- C20 "key": NewFrom(map{key: val}, opts); oracle = Spec.C20.expected on the implementation's view -/
def runKey (c : Json) : R (Json × Option Json) := do
  let o ← getOpts c "opts"
  let key ← strField c "key"
  let vj := (optField c "val").getD .null
  let d ← parseGoData vj
  let model := outcomeJson id (newFrom o (.map [(key, d)]) >>= viewFull)
  let oracle : Option Json ← match optField c "impl" with
    | none => pure none
    | some impl => do
      let vd ← dataOfJson vj
      let exp := Spec.C20.expected key o.pathSep o.maxIdx o.enableNumKeys vd
      match optField impl "ok" with
      | none => pure (some (failOracle "NewFrom of a single key did not return a config"))
      | some okv => do
        let dict ← dataOfJson (Json.mkObj [("m", (optField okv "dict").getD (.mkObj []))])
        let arr ← dataOfJson (Json.mkObj [("a", (optField okv "arr").getD (.arr #[]))])
        let isD := boolFieldD okv "isDict" false
        let isA := boolFieldD okv "isArray" false
        let bound : Nat := if o.maxIdx < 0 then 0 else o.maxIdx.toNat + 1
        let grown := max (Spec.C20.maxLen dict) (Spec.C20.maxLen arr)
        if grown > max bound (Spec.C20.maxLen vd) then
          pure (some (failOracle s!"a list grew to {grown} entries, MaxIdx allows {bound}"))
        else match exp with
        | .map _ =>
          if isD && !isA && dataEq dict exp then pure (some okOracle)
          else pure (some (failOracle "key must be an ordinary name: expected a dictionary holding the key unchanged"))
        | .arr _ =>
          if isA && !isD && dataEq arr exp then pure (some okOracle)
          else pure (some (failOracle "key must be a list index: expected a list padded with nil up to the index"))
        | _ => pure none
  pure (model, oracle)

def runCase (std : Stdlib) (c : Json) : R Json := do
  let k ← strField c "k"
  match k with
  | "newfrom" => runNewFrom c
  | "merge" => runMerge c
  | "parse" => runParse std c
  | "intlit" => runIntLit c
  | _ => throw s!"unknown kind {k}"

partial def parseJ (j : Json) : R Spec.C17.J := do
  match j with
  | .null => pure .null
  | _ =>
    if let some v := optField j "jb" then pure (.bool (← v.getBool?))
    else if let some v := optField j "jn" then pure (.num (← v.getStr?))
    else if let some v := optField j "js" then pure (.str (← v.getStr?))
    else if let some v := optField j "ja" then pure (.arr (← (← v.getArr?).toList.mapM parseJ))
    else if let some v := optField j "jo" then
      let es ← (← v.getArr?).toList.mapM (fun e => do
        match (← e.getArr?).toList with
        | [k, x] => pure ((← k.getStr?), (← parseJ x))
        | _ => throw "bad object entry")
      pure (.obj es)
    else throw s!"bad json value {j.compress}"

/-- data equality with integers compared by value across the int64/uint64 carriers -/
partial def dataNumEq : Data → Data → Bool
  | .int a, .uint b => a == (b : Int)
  | .uint a, .int b => (a : Int) == b
  | .arr a, .arr b => a.length == b.length && (a.zip b).all (fun (x, y) => dataNumEq x y)
  | .map a, .map b =>
    a.length == b.length && a.all (fun (k, x) => match b.find? (·.1 == k) with
      | some (_, y) => dataNumEq x y
      | none => false)
  | a, b => dataEq a b

/-- known-finding class D4: a JSON escape that is not a Go escape (`\/`, surrogate halves) -/
def hasJsonOnlyEscape : List Char → Bool
  | '\\' :: '\\' :: r => hasJsonOnlyEscape r
  | '\\' :: '/' :: _ => true
  | '\\' :: 'u' :: d :: x :: r =>
    ((d == 'd' || d == 'D') && (x == '8' || x == '9' || x.toLower == 'a' || x.toLower == 'b' ||
      x.toLower == 'c' || x.toLower == 'd' || x.toLower == 'e' || x.toLower == 'f')) || hasJsonOnlyEscape r
  | _ :: r => hasJsonOnlyEscape r
  | [] => false

/-- C17 "json": a JSON document `json`, its text `s`; oracle: parse.Value(s) = the data it denotes -/
def runJson (std : Stdlib) (c : Json) : R (Json × Option Json × Option String) := do
  let s ← strField c "s"
  let j ← parseJ ((optField c "json").getD .null)
  -- a JSON document has no top-level comma: IgnoreCommas (with arrays and objects still enabled) must not change it
  let pcfg : ParseCfg := match optField c "cfg" with
    | some .null | none => {}
    | some cj => parseParseCfg cj
  let model := outcomeJson dataJson (Parse.valueWithConfig std s pcfg)
  let kf := if hasJsonOnlyEscape s.toList then some "D4" else none
  let oracle : Option Json ← match optField c "impl" with
    | none => pure none
    | some impl =>
      match optField impl "ok" with
      | none => pure (some (failOracle "parse.Value rejected (or crashed on) a valid JSON document"))
      | some okv => do
        let got ← dataOfJson okv
        if dataNumEq got (Spec.C17.expected std j) then pure (some okOracle)
        else pure (some (failOracle "parse.Value returned different data than the JSON document denotes"))
  pure (model, oracle, kf)

/-- the plain tree of an input value (none when the value is not plain data) -/
partial def specTree : GoData → Option Spec.C01.T
  | .nil => some (.leaf .nil)
  | .bool b => some (.leaf (.bool b))
  | .int i => some (.leaf (if i > 0 then .uint i.toNat else .int i))
  | .uint n => some (.leaf (.uint n))
  | .float f => some (.leaf (.float f))
  | .str s => some (.leaf (.str s))
  | .dur t => some (.leaf (.str t))
  | .regex t => some (.leaf (.str t))
  | .list l => do
    let xs ← l.mapM specTree
    pure (.node [] xs)
  | .map m => do
    let xs ← m.mapM (fun (k, v) => do pure (k, (← specTree v)))
    pure (.node xs [])
  | .strct fs => do
    let xs ← fs.mapM (fun (g, tag, v) => do
      let (name, topts) := parseTags tag
      if topts.squash || topts.ignore || !exported g then none
      else pure (fieldName name g, (← specTree v)))
    pure (.node xs [])
  | .cfg v => valTree v
  | _ => none
where
  valTree : Val → Option Spec.C01.T
    | .prim p => some (.leaf p.toData)
    | .dyn _ _ => none
    | .sub d a _ _ => do
      let xs ← d.mapM (fun (k, v) => do pure (k, (← valTree v)))
      let ys ← a.mapM valTree
      pure (.node xs ys)

/-- the (path, policy) list and global policy an option list denotes (C16 spec side):
names are split with the separator in force when the option is applied -/
def fieldSpecs (j : Json) : R (Handling × List (List String × Handling)) := do
  let arr ← j.getArr?
  let (g, fs, _) ← arr.toList.foldlM (fun (st : Handling × List (List String × Handling) × String) (e : Json) => do
    let (g, fs, sep) := st
    let name ← strField e "o"
    match name with
    | "PathSep" => pure (g, fs, (← strField e "v"))
    | "Replace" => pure (Handling.replace, fs, sep)
    | "ReplaceArr" => pure (Handling.arrReplace, fs, sep)
    | "Append" => pure (Handling.append, fs, sep)
    | "Prepend" => pure (Handling.prepend, fs, sep)
    | "FieldMerge" | "FieldReplace" | "FieldAppend" | "FieldPrepend" =>
      let names ← (← (← e.getObjVal? "v").getArr?).toList.mapM (·.getStr?)
      let h := match name with
        | "FieldMerge" => Handling.merge | "FieldReplace" => .replace
        | "FieldAppend" => .append | _ => .prepend
      -- the option renders `name.*` into the policy tree with the separator in force *now*:
      -- without a separator the entry is the single key "name.*", which no setting matches
      let paths := if sep != "." then [] else names.map (fun n =>
        let n' := if n.endsWith ".*" then (n.dropEnd 2).toString else n
        (splitOn n' sep, h))
      pure (g, fs ++ paths, sep)
    | _ => pure (g, fs, sep)) (Handling.dflt, [], "")
  pure (g, fs)

/-- C01/C16 "merge": oracle = the merge specification on plain trees -/
def mergeOracle (c : Json) : R (Option Json) := do
  match optField c "impl" with
  | none => pure none
  | some impl => do
    let a ← parseGoData ((optField c "a").getD .null)
    let steps := match optField c "steps" with
      | some (.arr s) => s.toList
      | _ => []
    match specTree a with
    | none => pure none
    | some ta =>
      -- A itself is created by merging into an empty config under optsA
      let (ga, fsa) ← fieldSpecs ((optField c "optsA").getD (.arr #[]))
      -- `**` wildcards and option sets where a `*` and an index compete for one element are outside the oracle
      -- (checked against the model only)
      let undecided (fs : List (List String × Handling)) : Bool :=
        fs.any (fun (p, _) => p.any (fun seg => seg == "**" || seg == "" || (seg != "*" && seg.toNat?.isNone && (IntLit.parseIntS seg).isSome)))
          || Spec.C01.ambiguous fs
      let stepSpecs ← steps.mapM (fun s => fieldSpecs ((optField s "opts").getD (.arr #[])))
      if undecided fsa || stepSpecs.any (fun (_, fs) => undecided fs) then return none
      let t0 := Spec.C01.merge (Spec.C01.polOf ga fsa) [] (.node [] []) ta
      let rec go (t : Spec.C01.T) : List Json → R (Option Spec.C01.T)
        | [] => pure (some t)
        | s :: rest => do
          let b ← parseGoData ((optField s "b").getD .null)
          let self := boolFieldD s "self" false
          let t := if boolFieldD s "restart" false then t0 else t
          match b, self with
          | .nil, false => go t rest
          | _, _ =>
            match (if self then some t else specTree b) with
            | none => pure none
            | some tb =>
              let (g, fs) ← fieldSpecs ((optField s "opts").getD (.arr #[]))
              go (Spec.C01.merge (Spec.C01.polOf g fs) [] t tb) rest
      match ← go t0 steps with
      | none => pure none
      | some t =>
        let stage := strFieldD impl "stage" ""
        if stage != "done" then pure (some (failOracle s!"merge of plain data failed at {stage}"))
        else
          match (optField impl "res").bind (optField · "ok") with
          | none => pure (some (failOracle "the merged config could not be unpacked"))
          | some okv => do
            let dict ← dataOfJson (Json.mkObj [("m", (optField okv "dict").getD (.mkObj []))])
            let arr ← dataOfJson (Json.mkObj [("a", (optField okv "arr").getD (.arr #[]))])
            let (ed, ea) := match t with
              | .node d l => (Spec.C01.render (.node d []), Spec.C01.render (.node [] l))
              | .leaf _ => (Data.nil, Data.nil)
            if dataNumEq (Spec.C01.canon dict) (Spec.C01.canon ed) && dataNumEq (Spec.C01.canon arr) (Spec.C01.canon ea) then
              pure (some okOracle)
            else pure (some (failOracle "merged data differs from the merge specification"))

def parsePrimJ (j : Json) : R Prim := do
  match ← parseGoData j with
  | .nil => pure .nil
  | .bool b => pure (.bool b)
  | .int i => pure (.int i)
  | .uint n => pure (.uint n)
  | .float f => pure (.float f)
  | .str s => pure (.str s)
  | _ => throw "not a primitive"

def intField (j : Json) (k : String) (d : Int) : Int :=
  match optField j k with
  | some (.str s) => s.toInt?.getD d
  | some (.num n) => n.mantissa
  | _ => d

def natField (j : Json) (k : String) : Nat := (intField j k 0).toNat

def parseOp (j : Json) : R Op := do
  let op ← strField j "op"
  let h := natField j "h"
  let name := strFieldD j "name" ""
  let idx := intField j "idx" (-1)
  let o ← parseOpts ((optField j "opts").getD (.arr #[]))
  match op with
  | "set" => pure (.set h name idx (← parsePrimJ ((optField j "val").getD .null)) o)
  | "setchild" =>
    if boolFieldD j "nilChild" false then return (.setChildNil h)
    if (optField j "childHandle").isSome then return (.setChildHandle h (natField j "childHandle") name idx o)
    let d ← parseGoData ((optField j "val").getD .null)
    let co ← parseOpts ((optField j "copts").getD (.arr #[]))
    match newFrom co d with
    | .ok c => pure (.setChild h name idx c o)
    | _ => throw "setchild source does not normalize"
  | "remove" => pure (.remove h name idx o)
  | "merge" => pure (.merge h (← parseGoData ((optField j "from").getD .null)) o)
  | "child" => pure (.child h name idx o)
  | "get" =>
    let k ← match strFieldD j "type" "String" with
      | "Bool" => pure GetKind.bool | "Int" => pure .int | "Uint" => pure .uint
      | "Float" => pure .float | "String" => pure .string
      | t => throw s!"bad getter {t}"
    pure (.get h k name idx o)
  | "has" => pure (.has h name idx o)
  | "count" => pure (.count h name)
  | "info" => pure (.info h)
  | "path" => pure (.pathOf h)
  | _ => throw s!"unknown op {op}"

def opOutJson : OpOut → Json
  | .unit => .null
  | .bool b => .mkObj [("b", .bool b)]
  | .int i => .mkObj [("i", .str (toString i))]
  | .uint n => .mkObj [("u", .str (toString n))]
  | .float f => .mkObj [("f", .str (floatHex f))]
  | .str s => .mkObj [("s", .str s)]
  | .handle k => .mkObj [("h", .num k)]
  | .info d a fs => .mkObj [("isDict", .bool d), ("isArray", .bool a), ("fields", .arr (fs.map Json.str).toArray)]

/-- "ops": an operation history on one root config, observed after every step -/
def runOpsCase (std : Stdlib) (c : Json) : R Json := do
  let o ← getOpts c "optsInit"
  let d ← parseGoData ((optField c "init").getD (.mkObj [("m", .arr #[])]))
  match newFrom o d with
  | .ok root =>
    let ops := match optField c "ops" with
      | some (.arr s) => s.toList
      | _ => []
    let rec go (s : OpState) (acc : Array Json) : List Json → R (OpState × Array Json)
      | [] => pure (s, acc)
      | j :: rest => do
        let op ← parseOp j
        let (out, s') := opStep std s op
        go s' (acc.push (Json.mkObj [("r", outcomeJson opOutJson out), ("root", viewOnly s'.root)])) rest
    let (s, steps) ← go (OpState.init root) #[] ops
    let hv := (if boolFieldD c "cmpHandles" false then s.handles else []).map (fun p => match nodeAt s.root p with
      | some n => viewOnly n
      | none => Json.mkObj [("err", errJson { reason := .other, typed := false, msg := some "MODEL-UNSUPPORTED handle does not address a node" })])
    pure (Json.mkObj [("init", "ok"), ("steps", .arr steps), ("handles", .arr hv.toArray)])
  | r => pure (Json.mkObj [("init", outcomeJson (fun _ => Json.null) r)])

def parseKind (s : String) : R Kind :=
  match s with
  | "bool" | "named-bool" => pure .bool
  | "string" | "named-string" => pure .string
  | "int" | "int64" => pure (.int 64) | "int8" | "named-int8" => pure (.int 8)
  | "int16" => pure (.int 16) | "int32" => pure (.int 32)
  | "uint" | "uint64" => pure (.uint 64) | "uint8" => pure (.uint 8)
  | "uint16" | "named-uint16" => pure (.uint 16) | "uint32" => pure (.uint 32)
  | "float32" | "named-float32" => pure (.float 32) | "float64" => pure (.float 64)
  | "duration" => pure .duration
  | _ => throw s!"bad kind {s}"

def scalarJson : Scalar → Json
  | .bool b => .mkObj [("b", .bool b)]
  | .int i => .mkObj [("i", .str (toString i))]
  | .uint n => .mkObj [("u", .str (toString n))]
  | .float f => .mkObj [("f", .str (floatHex f))]
  | .str s => .mkObj [("s", .str s)]
  | .dur ns => .mkObj [("dur", .str (toString ns))]

/-- C03 "conv": unpack a primitive setting into a primitive target kind; oracle = Spec.C03.specConv -/
def runConv (std : Stdlib) (c : Json) : R (Json × Option Json × Option String) := do
  let k ← match strFieldD c "getter" "" with
    | "" => parseKind (← strField c "target")
    | "Bool" => pure Kind.bool | "Int" => pure (Kind.int 64) | "Uint" => pure (Kind.uint 64)
    | "Float" => pure (Kind.float 64) | _ => pure Kind.string
  let p ← parsePrimJ ((optField c "v").getD .null)
  -- normalisation turns positive signed integers into unsigned values
  let p := match p with
    | .int i => if i > 0 then Prim.uint i.toNat else .int i
    | q => q
  let model := outcomeJson scalarJson (match reifyPrim std k p with
    | .err e => .err { e with path := some (if strFieldD c "via" "" == "" || strFieldD c "via" "" == "literal" then "v" else "w") }
    | r => r)
  let oracle : Option Json := match optField c "impl" with
    | none => none
    | some impl =>
      let want := Spec.C03.specConv std k p
      match optField impl "ok", want with
      | some got, some w =>
        if got.compress == (scalarJson w).compress then some okOracle
        else some (failOracle s!"stored value differs from the setting's value: want {(scalarJson w).compress}")
      | some _, none => some (failOracle "a value that cannot be represented in the target was stored instead of failing")
      | none, some w =>
        if (optField impl "err").isSome then some (failOracle s!"a representable value was rejected: want {(scalarJson w).compress}")
        else some (failOracle "crashed")
      | none, none => if (optField impl "err").isSome then some okOracle else some (failOracle "crashed")
  pure (model, oracle, none)

/-- the Go value Unpack(&interface{}) produced, as an input value again -/
partial def dataToGo : Data → GoData
  | .nil => .nil
  | .bool b => .bool b
  | .int i => .int i
  | .uint n => .uint n
  | .float f => .float f
  | .str s => .str s
  | .arr l => .list (l.map dataToGo)
  | .map m => .map (m.map (fun (k, v) => (k, dataToGo v)))

/-- a nil-valued setting and an absent one are the same datum (nil = empty) -/
partial def dropNil : Data → Data
  | .map m =>
    let m' := (m.map (fun (k, v) => (k, dropNil v))).filter (fun (_, v) => match v with | .nil => false | _ => true)
    if m'.isEmpty then .nil else .map m'
  | .arr l => .arr (l.map dropNil)
  | d => d

def viewErrOnly {α : Type} (r : Outcome α) : Json :=
  match r with
  | .err e => Json.mkObj [("err", Json.mkObj [("reason", .str e.reason.name), ("typed", .bool e.typed)])]
  | .panic s => Json.mkObj [("panic", .str s)]
  | .fuel => Json.mkObj [("fuel", .bool true)]
  | .ok _ => .null

/-- reverse every map's entry order (a second iteration order for C09) -/
partial def reverseMaps : GoData → GoData
  | .map m => .map ((m.map (fun (k, v) => (k, reverseMaps v))).reverse)
  | .list l => .list (l.map reverseMaps)
  | .strct fs => .strct (fs.map (fun (g, t, v) => (g, t, reverseMaps v)))
  | d => d

/-- C05/C09 "norm": NewFrom(from) -> view; feed the unpacked data back; count distinct outcomes over key orders.
Oracle: the view equals the plain tree `plain` (when given) / duplicateKey when `dup`; idempotent; one outcome. -/
def runNorm (c : Json) : R (Json × Option Json × Option String) := do
  let o ← getOpts c "opts"
  let d ← parseGoData ((optField c "from").getD .null)
  -- "base": the source is merged into an existing config (created with "bopts") instead of into an empty one
  let base? ← match optField c "base" with
    | some .null | none => pure none
    | some bj => do
      let b ← parseGoData bj
      let bo ← getOpts c "bopts"
      pure (some (newFrom bo b))
  let mk (dd : GoData) : Outcome Val := match base? with
    | none => newFrom o dd
    | some (.ok b) => cfgMerge o b dd
    | some r => r
  let r1 := mk d
  let r2 := mk (reverseMaps d)
  let dv (v : Val) : Json := match viewP v with
    | .ok vw => Json.mkObj [("ok", Json.mkObj [
        ("dict", match dropNil (.map vw.dict) with | .map m => .mkObj (m.map (fun (k, d) => (k, dataJson d))) | _ => .mkObj []),
        ("arr", .arr ((vw.arr.map dropNil).map dataJson).toArray)])]
    | r => viewErrOnly r
  let view1 := match r1 with | .ok v => dv v | r => viewErrOnly r
  let view2 := match r2 with | .ok v => dv v | r => viewErrOnly r
  let again : Json := match r1 with
    | .ok v =>
      (match viewP v with
       | .ok vw =>
         let src : GoData := if vw.isArray && !vw.isDict then .list (vw.arr.map dataToGo)
           -- Unpack into map[string]interface{} does not store settings whose value is nil
           else .map ((vw.dict.filter (fun (_, x) => match x with | .nil => false | _ => true)).map (fun (k, x) => (k, dataToGo x)))
         (match newFrom {} src with | .ok v2 => dv v2 | r => viewErrOnly r)
       | _ => .null)
    | _ => .null
  let model := Json.mkObj [("first", view1), ("again", again),
    ("outcomes", .num (if view1.compress == view2.compress then 1 else 2))]
  let oracle : Option Json ← match optField c "impl" with
    | none => pure none
    | some impl => do
      let first := (optField impl "first").getD .null
      let againI := (optField impl "again").getD .null
      let n := natField impl "outcomes"
      if n != 1 then pure (some (failOracle s!"{n} different outcomes for identical arguments (map iteration order)"))
      else if boolFieldD c "dup" false then
        match (optField first "err").bind (optField · "reason") with
        | some (.str "duplicateKey") => pure (some okOracle)
        | _ => pure (some (failOracle "an input that defines the same setting twice was not rejected as a duplicate"))
      else match optField c "plain" with
        | none => pure none
        | some pj => do
          let plain ← parseGoData pj
          match specTree plain, optField first "ok" with
          | some t, some okv => do
            let dict ← dataOfJson (Json.mkObj [("m", (optField okv "dict").getD (.mkObj []))])
            let arr ← dataOfJson (Json.mkObj [("a", (optField okv "arr").getD (.arr #[]))])
            let (ed, ea) := match t with
              | .node dd l => (Spec.C01.render (.node dd []), Spec.C01.render (.node [] l))
              | .leaf _ => (Data.nil, Data.nil)
            if !(dataNumEq (dropNil (Spec.C01.canon dict)) (dropNil (Spec.C01.canon ed)) &&
                 dataNumEq (dropNil (Spec.C01.canon arr)) (dropNil (Spec.C01.canon ea))) then
              pure (some (failOracle "the config does not unpack to the data it was created from"))
            else
              -- idempotence: the re-created config unpacks to the same data
              match optField againI "ok" with
              | some ok2 => do
                let d2 ← dataOfJson (Json.mkObj [("m", (optField ok2 "dict").getD (.mkObj []))])
                let a2 ← dataOfJson (Json.mkObj [("a", (optField ok2 "arr").getD (.arr #[]))])
                if dataNumEq (dropNil (Spec.C01.canon d2)) (dropNil (Spec.C01.canon dict)) &&
                   dataNumEq (dropNil (Spec.C01.canon a2)) (dropNil (Spec.C01.canon arr))
                then pure (some okOracle)
                else pure (some (failOracle "feeding the unpacked data back in gives a different config"))
              | none => pure (some (failOracle "feeding the unpacked data back in failed"))
          | _, none => pure (some (failOracle "creating a config from plain data failed"))
          | none, _ => pure none
  pure (model, oracle, none)

/-- C19 "flags": a sequence of -flag key=value arguments -/
def runFlags (std : Stdlib) (c : Json) : R (Json × Option Json × Option String) := do
  let o ← getOpts c "opts"
  let ab := boolFieldD c "autoBool" true
  let args ← match optField c "args" with
    | some (.arr a) => a.toList.mapM (·.getStr?)
    | _ => pure []
  -- per argument: did Set report an error (the loader's own error, not the sticky one)
  let (col, setErrs) := args.foldl (fun (st : Collector × Array Json) arg =>
    let r := flagLoad std o ab arg
    let reported := match r with | .ok _ => false | _ => true
    (collectorAdd o st.1 r, st.2.push (.bool reported))) (({ config := Val.empty, err := none } : Collector), #[])
  let errJ : Json := match col.err with
    | none => .null
    | some e => Json.mkObj [("typed", .bool e.typed), ("reason", .str e.reason.name)]
  let model := Json.mkObj [("config", viewOnly col.config), ("err", errJ), ("set", .arr setErrs), ("optsKept", .bool true)]
  -- oracle (the statement, independently of the collector): the config equals merging, in order and with the
  -- flag's options, the configs of the arguments before the first failing one
  let oracle : Option Json := match optField c "impl" with
    | none => none
    | some impl =>
      let rec go (cfg : Val) : List String → Val × Option Err
        | [] => (cfg, none)
        | a :: rest =>
          match flagLoad std o ab a with
          | .ok none => go cfg rest
          | .ok (some x) => go (mergeCfg o cfg x) rest
          | .err e => (cfg, some e)
          | _ => (cfg, some { reason := .other })
      let (want, werr) := go Val.empty args
      let got := ((optField impl "config").getD .null).compress
      let gerr := (optField impl "err").getD .null
      if !(boolFieldD impl "optsKept" false) then some (failOracle "the collector dropped the flag's options")
      else if got != (viewOnly want).compress then some (failOracle "the flag's config differs from merging the arguments in order with the flag's options")
      else match werr, gerr with
        | none, .null => some okOracle
        | some _, .null => some (failOracle "a failing argument was not reported by Error()")
        | none, _ => some (failOracle "Error() reports a failure although every argument is well formed")
        | some _, _ => some okOracle
  pure (model, oracle, none)

/-- C19 "fileflags": a sequence of file-flag arguments; per file its extension, whether it exists, and the document it
holds (`doc`: what the decoder yields; null for a text the decoder refuses) -/
def runFileFlags (c : Json) : R (Json × Option Json × Option String) := do
  let o ← getOpts c "opts"
  let fallback := boolFieldD c "fallback" false
  let files := match optField c "files" with | some (.arr a) => a.toList | _ => []
  let args ← files.mapM (fun f => do
    let ext := strFieldD f "ext" ""
    let hasLoader := ext == ".yml" || ext == ".json" || fallback
    if !hasLoader || boolFieldD f "missing" false then pure FileArg.fail
    else match optField f "doc" with
      | some .null | none => pure FileArg.fail
      | some dj => do
        let d ← parseGoData dj
        pure (FileArg.doc (if ext == ".json" then jsonFlavour d else d)))
  let col := fileSets o { config := Val.empty, err := none } args
  let errJ : Json := match col.err with
    | none => .null
    | some _ => Json.mkObj [("set", .bool true)]
  -- FlagValue.Set of a file flag never reports an error itself (the third result of its loader is always nil)
  let model := Json.mkObj [("config", viewOnly col.config), ("err", errJ), ("set", .arr (args.map (fun _ => Json.bool false)).toArray),
    ("optsKept", .bool true)]
  let oracle : Option Json := match optField c "impl" with
    | none => none
    | some impl =>
      let rec go (cfg : Val) : List FileArg → Val × Bool
        | [] => (cfg, false)
        | a :: rest =>
          match fileLoad o a with
          | .ok none => go cfg rest
          | .ok (some x) => go (mergeCfg o cfg x) rest
          | _ => (cfg, true)
      let (want, werr) := go Val.empty args
      let got := ((optField impl "config").getD .null).compress
      let gerr := (optField impl "err").getD .null
      if !(boolFieldD impl "optsKept" false) then some (failOracle "the collector dropped the flag's options")
      else if got != (viewOnly want).compress then some (failOracle "the file flag's config differs from merging the files in order, with the flag's options, up to the first failing one")
      else match werr, gerr with
        | false, .null => some okOracle
        | true, .null => some (failOracle "a failing file argument was not reported by Error()")
        | false, _ => some (failOracle "Error() reports a failure although every file loads")
        | true, _ => some okOracle
  pure (model, oracle, none)

def errKindJson {α : Type} (r : Outcome α) : Json :=
  match r with
  | .err e => Json.mkObj [("err", Json.mkObj [("reason", .str e.reason.name), ("typed", .bool true)])]
  | .panic s => Json.mkObj [("panic", .str s)]
  | .fuel => Json.mkObj [("fuel", .bool true)]
  | .ok _ => .null

def dataViewJson (vw : View) : Json :=
  Json.mkObj [("ok", Json.mkObj [
    ("dict", match dropNil (.map vw.dict) with | .map m => .mkObj (m.map (fun (k, d) => (k, dataJson d))) | _ => .mkObj []),
    ("arr", .arr ((vw.arr.map dropNil).map dataJson).toArray)])]

/-- label the dynamic values of the root and of every Env config with distinct cache ids -/
def labelAll (root : Val) (o : Opts) : Val × Opts :=
  let (r, n) := labelDyns root 0
  let (envs, _) := o.env.foldl (fun (acc : List Val × Nat) e =>
    let (e', n') := labelDyns e acc.2
    (acc.1 ++ [e'], n')) ([], n)
  (r, { o with env := envs })

def readE (std : Stdlib) (root0 : Val) (ro0 : Opts) (rd : Json) : R Json := do
  let (root, ro) := labelAll root0 ro0
  let C : ECtx := ⟨ro, std⟩
  let name := strFieldD rd "name" ""
  let idx := intField rd "idx" (-1)
  match strFieldD rd "r" "" with
  | "view" => pure (match viewE C root with
      | .ok vw => dataViewJson vw
      | .err _ => Json.mkObj [("err", Json.mkObj [("typed", .bool true)])]
      | r => errKindJson r)
  | "get" =>
    pure (match getForcedE C root name idx with
      | .ok f =>
        (match f.v with
         | .prim p =>
           let k := match strFieldD rd "type" "String" with
             | "Bool" => GetKind.bool | "Int" => .int | "Uint" => .uint | "Float" => .float | _ => .string
           (match getPrim std k (.prim p) with
            | .ok o => Json.mkObj [("ok", opOutJson o)]
            | r => errKindJson r)
         | _ => errKindJson (Outcome.raise (α := Unit) .typeMismatch))
      | r => errKindJson r)
  | "has" => pure (match hasE C root name idx with | .ok b => Json.mkObj [("ok", Json.mkObj [("b", .bool b)])] | r => errKindJson r)
  | "count" =>
    if name == "" then pure (Json.mkObj [("ok", Json.mkObj [("i", .str (toString (root.arr.length + root.dict.length)))])])
    else match dget root.dict name with
      | none => pure (errKindJson (Outcome.raise (α := Unit) .missing))
      | some v =>
        -- CountField wraps the error of value.Len like the typed getters do
        let rawErr {α : Type} (r : Outcome α) : Json := errKindJson r
        pure (match runEM (do let (f, _) ← force C defaultFuel root [name] v []; pure f) with
          | .ok f => (match valLen f.v with
            | .ok n => Json.mkObj [("ok", Json.mkObj [("i", .str (toString n))])]
            | r => rawErr r)
          | r => rawErr r)
  | "childview" =>
    pure (match runEM (do
        let f ← getFieldE C root name idx
        toConfigE C defaultFuel f.home f.path [] f.v) with
      | .ok f =>
        -- the child handle is a config of its own tree; reads through it start at the child
        (match f.v with
         | .sub d a hd ha =>
           (match (do
               let m ← runEM (reifyDE C defaultFuel f.home [] d)
               let l ← runEM (reifyAE C defaultFuel f.home [] a)
               Outcome.ok ({ isDict := hd, isArray := ha, dict := m, arr := l } : View)) with
            | .ok vw => dataViewJson vw
            | .err _ => Json.mkObj [("err", Json.mkObj [("typed", .bool true)])]
            | r => errKindJson r)
         | _ => errKindJson (Outcome.raise (α := Unit) .typeMismatch))
      | r => errKindJson r)
  | "keys" =>
    pure (match flattenedKeysE C 200 root [] [] root with
      | .ok ks => Json.mkObj [("ok", Json.mkObj [("keys", .arr ((ks.toArray.qsort (· < ·)).map Json.str))])]
      | r => errKindJson r)
  | "diffself" =>
    pure (match flattenedKeysE C 200 root [] [] root with
      | .ok ks => Json.mkObj [("ok", Json.mkObj [("changed", .bool false), ("kept", .num ks.eraseDups.length)])]
      | r => errKindJson r)
  | "typed" => pure (Json.mkObj [("unmodelled", .bool true)])   -- typed targets of references: decided by `expect` only
  | r => throw s!"unknown read {r}"

/-- C02/C08 "eval": create (and merge) a config with VarExp, then read it through the API -/
def runEval (std : Stdlib) (c : Json) : R (Json × Option Json × Option String) := do
  let o ← getOpts c "opts"
  let d ← parseGoData ((optField c "from").getD .null)
  let ro ← getOpts c "ropts"
  let merges := match optField c "merges" with | some (.arr m) => m.toList | _ => []
  let reads := match optField c "reads" with | some (.arr m) => m.toList | _ => []
  let built : R (Except Json Val) := do
    match newFrom o d with
    | .ok root0 =>
      merges.foldlM (fun (acc : Except Json Val) m => do
        match acc with
        | .error e => pure (.error e)
        | .ok root =>
          let mo ← getOpts m "opts"
          let b ← parseGoData ((optField m "b").getD .null)
          match cfgMerge mo root b with
          | .ok r' => pure (.ok r')
          | r => pure (.error (Json.mkObj [("merge", errKindJson r)]))) (.ok root0)
    | r => pure (.error (Json.mkObj [("create", errKindJson r)]))
  let model : Json ← match ← built with
    | .error j => pure j
    | .ok root => do
      let rs ← reads.mapM (readE std root ro)
      pure (Json.arr rs.toArray)
  let oracle : Option Json := match optField c "impl" with
    | none => none
    | some impl =>
      let n := natField impl "outcomes"
      if n > 1 then some (failOracle s!"{n} different outcomes for identical reads (evaluation order)")
      else match optField c "expect" with
        | none => none
        | some ex =>
          -- `expect`: the outcome list the statement demands (computed by the generator from the substitution semantics)
          let got := match (optField impl "reads").getD .null with | .arr a => a.toList | _ => []
          let want := match ex with | .arr a => a.toList | _ => []
          if got.length != want.length then some (failOracle "creating the config failed")
          else
            let bad := (got.zip want).filter (fun (g, w) =>
              match w with
              | .null => false                                    -- no expectation for this read
              | _ =>
                if (optField w "anyerr").isSome then (optField g "err").isNone
                else if (optField w "errpath").isSome then
                  -- an error that names exactly this setting
                  (match optField g "err" with
                   | some e => strFieldD e "path" "" != strFieldD w "errpath" ""
                   | none => true)
                else if (optField w "okany").isSome then (optField g "ok").isNone
                else if (optField w "notcyclic").isSome then
                  (match optField g "err" with
                   | some e => strFieldD e "reason" "" == "cyclic"
                   | none => (optField g "ok").isNone)
                else g.compress != w.compress)
            match bad with
            | [] => some okOracle
            | (g, w) :: _ => some (failOracle s!"a read differs from late-bound substitution: got {g.compress}, want {w.compress}")
  pure (Json.mkObj [("reads", model), ("outcomes", .num 1)], oracle, none)

mutual
/-- C13 frame, recursively: the first position at which something the configuration has no setting for has changed -/
partial def frameRec (uo : Opts) (pfx : String) : Ty → GoVal → GoVal → Val → Option String
  | .strct fs, .strct os, .strct gs, cfg =>
    (fs.zip (os.zip gs)).findSome? (fun ((g, tag, vtag, t), (ov, gv)) =>
      let same := (goValJson ov).compress == (goValJson gv).compress
      match accessField uo g tag vtag with
      | .ok none => if same then none else some (pfx ++ g)
      | .ok (some fi) =>
        if fi.tag.squash then none
        else match pathGet tcPlain (parsePathOpts fi.name uo) cfg with
          | .ok none => (match t with | .strct _ => none | _ => if same then none else some (pfx ++ fi.name))
          | .ok (some sub) => frameIn { uo with handling := fi.handling } (pfx ++ fi.name ++ ".") t ov gv sub
          | _ => none
      | _ => none)
  | _, _, _, _ => none
partial def frameIn (uo : Opts) (pfx : String) : Ty → GoVal → GoVal → Val → Option String
  | .strct fs, ov, gv, .sub d a hd ha => frameRec uo pfx (.strct fs) ov gv (.sub d a hd ha)
  | .ptr t, .ptr (some ov), .ptr (some gv), sub => frameIn uo pfx t ov gv sub
  | .array _ t, .array ol, .array gl, .sub _ arr _ _ =>
    ((ol.zip (gl.zip arr)).zipIdx).findSome? (fun ((ov, gv, s), i) => frameIn uo (pfx ++ toString i ++ ".") t ov gv s)
  | .slice t, .slice (some ol), .slice (some gl), .sub _ arr _ _ =>
    if uo.handling = .dflt || uo.handling = .merge then
      ((ol.zip (gl.zip arr)).zipIdx).findSome? (fun ((ov, gv, s), i) => frameIn uo (pfx ++ toString i ++ ".") t ov gv s)
    else none
  | .map t, .map (some om), .map (some gm), .sub d _ _ _ =>
    if uo.handling = .replace then none else
    om.findSome? (fun (k, ov) =>
      match (gm.find? (·.1 == k)).map (·.2) with
      | none => some (pfx ++ k)
      | some gv =>
        match dget d k with
        | none => if (goValJson ov).compress == (goValJson gv).compress then none else some (pfx ++ k)
        | some s => frameIn uo (pfx ++ k ++ ".") t ov gv s)
  | _, _, _, _ => none
end

/-- C04/C13/C14/C06 "unpack": a typed target (type `ty`, pre-filled with `old`) and a config.
Oracle (C04): a successful result passes recValidate (every declared validator on every reachable field);
(C13): see the worker's `unchanged` flag on failure. -/
def runUnpack (std : Stdlib) (c : Json) : R (Json × Option Json × Option String) := do
  let (tk, vk) := tagKeys ((optField c "uopts").getD .null)
  let ty ← parseTyK tk vk (← c.getObjVal? "ty")
  let old ← match optField c "old" with
    | some .null | none => pure (zeroOf ty)
    | some j => parseGoVal j
  let co ← getOpts c "copts"
  let uo ← getOpts c "uopts"
  let d ← parseGoData ((optField c "from").getD .null)
  let merges := match optField c "merges" with | some (.arr m) => m.toList | _ => []
  let applyMerges (cfg0 : Val) : R (Outcome Val) :=
    merges.foldlM (fun (acc : Outcome Val) m => do
      match acc with
      | .ok root =>
        let mo ← getOpts m "opts"
        let b ← parseGoData ((optField m "b").getD .null)
        let atP := strFieldD m "at" ""
        if atP == "" then pure (cfgMerge mo root b)
        else
          -- merged through a handle on the sub-configuration at `at`
          let po : Opts := { pathSep := "." }
          let p := parsePathOpts atP po
          match pathGet tcPlain p root with
          | .ok (some node) =>
            (match cfgMerge mo node b with
             | .ok node' => pure (pathSet tcPlain po p root node')
             | .err e => pure (.err e)
             | .panic s => pure (.panic s)
             | .fuel => pure .fuel)
          | _ => throw "merge at: no such sub-configuration"
      | r => pure r) (.ok cfg0)
  let created : Outcome Val ← match newFrom co d with
    | .ok cfg0 => applyMerges cfg0
    | r => pure r
  match created with
  | .ok cfg =>
    let r := unpack std uo ty old cfg
    let model := match r with
      | .ok v => Json.mkObj [("ok", goValJson v)]
      | .err e => Json.mkObj [("err", Json.mkObj [("reason", .str e.reason.name)])]
      | .panic s => Json.mkObj [("panic", .str s)]
      | .fuel => Json.mkObj [("fuel", .bool true)]
    -- C14 precondition: the configuration without the injected fault unpacks (valid pair); otherwise no verdict
    let validOk : Bool ← match optField c "validFrom" with
      | none => pure true
      | some vj => do
        let vd ← parseGoData vj
        match newFrom co vd with
        | .ok vcfg =>
          -- with later merges, `validFrom` describes the final configuration
          pure (unpack std uo ty old vcfg).isOk
        | _ => pure false
    -- several faults: which one is reported depends on the iteration order of Go maps
    let model := if validOk then model else model.mergeObj (Json.mkObj [("multi", .bool true)])
    let oracle : Option Json ← match optField c "impl" with
      | none => pure none
      | some impl =>
        if !validOk then pure none else
        match optField impl "ok" with
        | some okv => do
          let got ← parseGoVal okv
          -- C14: a case with an injected fault must fail
          if (optField c "faultPath").isSome then
            pure (some (failOracle "a configuration with a faulty setting was unpacked without error"))
          else
          match recValidate std uo ty [] got with
          | some e => pure (some (failOracle s!"Unpack returned nil but the result violates a declared validator ({e.reason.name})"))
          | none =>
            -- C13 frame: a non-struct field the configuration has no setting for keeps its previous value
            let frameBad : Option String := frameRec uo "" ty old got cfg
            match frameBad with
            | some f => pure (some (failOracle s!"field {f} changed although the configuration has no setting for it"))
            | none => pure (some okOracle)
        | none =>
          match optField impl "err" with
          | some e =>
            if !(boolFieldD impl "unchanged" true) then
              pure (some (failOracle "Unpack failed but the struct passed in no longer holds its previous field values"))
            else if !(boolFieldD e "typed" false) then
              pure (some (failOracle "Unpack returned an error that is not a ucfg.Error"))
            else if strFieldD e "reason" "nil" == "nil" || strFieldD e "class" "nil" == "nil" then
              pure (some (failOracle "the error has no Reason or no Class"))
            else match optField c "faultPath" with
              | some (.str fp) =>
                let text := strFieldD e "text" ""
                let quoted := "'" ++ fp ++ "'"
                if (text.splitOn quoted).length < 2 then
                  pure (some (failOracle s!"the error does not name the offending setting {quoted}: {text}"))
                else match optField c "source" with
                  | some (.str src) =>
                    if (text.splitOn src).length < 2 then pure (some (failOracle s!"the error does not mention the source {src}: {text}"))
                    else pure (some okOracle)
                  | _ => pure (some okOracle)
              | _ => pure (some okOracle)
          | none => pure (some (failOracle "Unpack crashed"))
    pure (model, oracle, none)
  | r => pure (Json.mkObj [("create", errKindJson r)], none, none)

/-- a Go value of type `ty` as the input NewFrom receives (struct source with tags) -/
partial def toGoData (std : Stdlib) : Ty → GoVal → GoData
  | _, .scalar (.bool b) => .bool b
  | _, .scalar (.int i) => .int i
  | _, .scalar (.uint n) => .uint n
  | _, .scalar (.float f) => .float f
  | _, .scalar (.str s) => .str s
  | _, .scalar (.dur ns) => .dur (std.durString ns)
  | _, .regex p => .regex p
  | _, .iface none => .nil
  | _, .iface (some d) => dataToGo d
  | _, .ptr none => .nil
  | .ptr t, .ptr (some v) => toGoData std t v
  | _, .slice none => .list []
  | .slice t, .slice (some l) => .list (l.map (toGoData std t))
  | .array _ t, .array l => .list (l.map (toGoData std t))
  | _, .map none => .map []
  | .map t, .map (some m) => .map (m.map (fun (k, v) => (k, toGoData std t v)))
  | .strct fs, .strct xs => .strct ((fs.zip xs).map (fun ((g, tag, _, t), x) => (g, tag, toGoData std t x)))
  | _, .cfg (some v) => .cfg v
  | _, _ => .nil

/-- equality of Go values with nil and empty collections considered equal -/
partial def goValEquiv : GoVal → GoVal → Bool
  | .slice a, .slice b =>
    let la := a.getD []; let lb := b.getD []
    la.length == lb.length && (la.zip lb).all (fun (x, y) => goValEquiv x y)
  | .map a, .map b =>
    let ma := a.getD []; let mb := b.getD []
    ma.length == mb.length && ma.all (fun (k, x) => match mb.find? (·.1 == k) with | some (_, y) => goValEquiv x y | none => false)
  | .array a, .array b => a.length == b.length && (a.zip b).all (fun (x, y) => goValEquiv x y)
  | .strct a, .strct b => a.length == b.length && (a.zip b).all (fun (x, y) => goValEquiv x y)
  | .ptr (some a), .ptr (some b) => goValEquiv a b
  | a, b => (goValJson a).compress == (goValJson b).compress

/-- C06 "roundtrip": NewFrom(value of a struct type) then Unpack into a zero value of the same type -/
def runRoundtrip (std : Stdlib) (c : Json) : R (Json × Option Json × Option String) := do
  let ty ← parseTy (← c.getObjVal? "ty")
  let v ← parseGoVal (← c.getObjVal? "val")
  let o ← getOpts c "opts"
  let src := toGoData std ty v
  let r := newFrom o src >>= fun cfg => unpack std o ty (zeroOf ty) cfg
  let model := match r with
    | .ok w => Json.mkObj [("ok", goValJson w)]
    | .err e => Json.mkObj [("err", Json.mkObj [("reason", .str e.reason.name)])]
    | .panic s => Json.mkObj [("panic", .str s)]
    | .fuel => Json.mkObj [("fuel", .bool true)]
  let oracle : Option Json ← match optField c "impl" with
    | none => pure none
    | some impl =>
      match optField impl "ok" with
      | some okv => do
        let got ← parseGoVal okv
        if goValEquiv got v then pure (some okOracle)
        else pure (some (failOracle "the struct did not survive struct -> Config -> struct unchanged"))
      | none => pure (some (failOracle "struct -> Config -> struct failed"))
  pure (model, oracle, none)

def runFull (std : Stdlib) (c : Json) : R (Json × Option Json × Option String) := do
  let k ← strField c "k"
  match k with
  | "key" => do let (m, o) ← runKey c; pure (m, o, none)
  | "json" => runJson std c
  | "merge" => do pure ((← runMerge c), (← mergeOracle c), none)
  | "ops" => do pure ((← runOpsCase std c), none, none)
  | "conv" => runConv std c
  | "norm" => runNorm c
  | "flags" => runFlags std c
  | "fileflags" => runFileFlags c
  | "eval" => runEval std c
  | "unpack" => runUnpack std c
  | "roundtrip" => runRoundtrip std c
  | "catalog" => do
    -- a named Go type with methods: the model describes its method-less twin, pre-filled with what the harness
    -- reports InitDefaults to have put there
    let impl := (optField c "impl").getD .null
    let c' := c.setObjVal! "old" ((optField impl "twinOld").getD ((optField c "old").getD .null))
    let c' := c'.setObjVal! "impl" ((optField impl "twin").getD .null)
    let (m, o, _) ← runUnpack std c'
    pure (Json.mkObj [("twin", m)], o, none)
  | "load" | "mergerep" | "oddtarget" | "unpackers" | "ifaceheld" | "ptrinit" | "rectarget" => pure (Json.mkObj [("unmodelled", .bool true)], none, none)
  | "forest" => pure (runForest c, none, none)
  | "concurrent" =>
    -- reads are functions of the tree: any number of readers get the solo results and leave the tree as it is
    pure (Json.mkObj [("mismatches", .num 0), ("fpSame", .bool true)], none, none)
  | "frontends" => do
    -- C18: the decoded document in the number representation of yaml.v2 and of encoding/json / hjson-go
    let o ← getOpts c "opts"
    let d ← parseGoData ((optField c "doc").getD .null)
    let ty? ← match optField c "ty" with
      | some .null | none => pure none
      | some tj => do pure (some (← parseTy tj))
    -- "overlay": in-memory settings merged over the loaded document before it is read (no decoder involved)
    let ov? ← match optField c "overlay" with
      | some .null | none => pure none
      | some j => do pure (some (← parseGoData j))
    let side (dd : GoData) : R Json := do
      let loaded : Outcome Val := match newFrom o dd, ov? with
        | .ok c0, some ov => cfgMerge o c0 ov
        | r, _ => r
      match loaded with
      | .ok cfg =>
        let vw ← readE std cfg o (Json.mkObj [("r", "view")])
        let typed := match ty? with
          | none => Json.null
          | some ty => match unpack std o ty (zeroOf ty) cfg with
            | .ok v => Json.mkObj [("ok", goValJson v)]
            | .err e => Json.mkObj [("err", Json.mkObj [("reason", .str e.reason.name)])]
            | .panic s => Json.mkObj [("panic", .str s)]
            | .fuel => Json.mkObj [("fuel", .bool true)]
        pure (Json.mkObj [("view", vw), ("typed", typed)])
      | r => pure (Json.mkObj [("load", errKindJson r)])
    pure (Json.mkObj [("yaml", ← side d), ("json", ← side (jsonFlavour d))], none, none)
  | _ => do pure ((← runCase std c), none, none)

partial def loop (std : Stdlib) (h : IO.FS.Stream) (out : IO.FS.Stream) : IO Unit := do
  let line ← h.getLine
  if line.isEmpty then return ()
  if line.trimAscii.isEmpty then
    loop std h out
  else
    let res : Json := match Json.parse line with
      | .error e => Json.mkObj [("drvError", .str s!"json: {e}")]
      | .ok c =>
        let i := (optField c "i").getD .null
        match runFull std c with
        | .ok (m, o, kf) => Json.mkObj ([("i", i), ("model", m)]
            ++ (match o with | some x => [("oracle", x)] | none => [])
            ++ (match kf with | some x => [("kf", Json.str x)] | none => []))
        | .error e => Json.mkObj [("i", i), ("drvError", .str e)]
    out.putStrLn res.compress
    out.flush
    loop std h out

end Driver

def main (args : List String) : IO Unit := do
  let tables ← match args with
    | p :: _ => do
      let txt ← IO.FS.readFile p
      match Json.parse txt with
      | .ok j => pure { pf := Driver.loadTable j "pf", ff := Driver.loadTable j "ff",
                        pd := Driver.loadTable j "pd", ds := Driver.loadTable j "ds",
                        re := Driver.loadTable j "re" : Driver.StdTables }
      | .error _ => pure {}
    | [] => pure {}
  Driver.loop (Driver.mkStd tables) (← IO.getStdin) (← IO.getStdout)
