import Driver.Codec
import Ucfg.Model.Unpack
open Lean
namespace Driver
open Ucfg

/-- a type description; `tk` / `vk` name the entries holding the field tag and the validator tag (the StructTag and
ValidatorTag options select other tags than `config` / `validate`) -/
partial def parseTyK (tk vk : String) (j : Json) : R Ty := do
  let parseTy := parseTyK tk vk
  let t ← strField j "t"
  match t with
  | "ptr" => pure (.ptr (← parseTy (← j.getObjVal? "e")))
  | "slice" => pure (.slice (← parseTy (← j.getObjVal? "e")))
  | "array" => pure (.array ((← j.getObjVal? "n").getNat?.toOption.getD 0) (← parseTy (← j.getObjVal? "e")))
  | "map" => pure (.map (← parseTy (← j.getObjVal? "e")))
  | "struct" =>
    let fs ← (← (← j.getObjVal? "f").getArr?).toList.mapM (fun f => do
      pure ((← strField f "n"), strFieldD f tk "", strFieldD f vk "", (← parseTy (← f.getObjVal? "ty"))))
    pure (.strct fs)
  | "iface" => pure .iface
  | "regexp" => pure .regexp
  | "config" => pure .config
  | "chan" | "func" | "complex" => pure .unsupported
  | "badmap" => pure .badmap
  | "bool" => pure (.prim .bool) | "string" => pure (.prim .string) | "duration" => pure (.prim .duration)
  | "int" | "int64" => pure (.prim (.int 64)) | "int8" => pure (.prim (.int 8))
  | "int16" => pure (.prim (.int 16)) | "int32" => pure (.prim (.int 32))
  | "uint" | "uint64" => pure (.prim (.uint 64)) | "uint8" => pure (.prim (.uint 8))
  | "uint16" => pure (.prim (.uint 16)) | "uint32" => pure (.prim (.uint 32))
  | "float32" => pure (.prim (.float 32)) | "float64" => pure (.prim (.float 64))
  | _ => throw s!"bad type {t}"

def parseTy (j : Json) : R Ty := parseTyK "tag" "v" j

/-- the tag entries selected by a list of options -/
def tagKeys (opts : Json) : String × String :=
  match opts with
  | .arr os => os.foldl (fun (tk, vk) o =>
      match strFieldD o "o" "", strFieldD o "v" "" with
      | "StructTag", x => (if x == "config" then "tag" else x, vk)
      | "ValidatorTag", x => (tk, if x == "validate" then "v" else x)
      | _, _ => (tk, vk)) ("tag", "v")
  | _ => ("tag", "v")

partial def parseGoVal (j : Json) : R GoVal := do
  if let some v := optField j "b" then pure (.scalar (.bool (← v.getBool?)))
  else if let some v := optField j "i" then pure (.scalar (.int (← parseIntStr (← v.getStr?))))
  else if let some v := optField j "u" then pure (.scalar (.uint (← parseNatStr (← v.getStr?))))
  else if let some v := optField j "f" then pure (.scalar (.float (← parseHex (← v.getStr?))))
  else if let some v := optField j "s" then pure (.scalar (.str (← v.getStr?)))
  else if let some v := optField j "dur" then pure (.scalar (.dur (← parseIntStr (← v.getStr?))))
  else if let some v := optField j "re" then pure (.regex (← v.getStr?))
  else if let some v := optField j "if" then
    match v with
    | .null => pure (.iface none)
    | v => pure (.iface (some (← dataOfJson v)))
  else if let some v := optField j "p" then
    match v with
    | .null => pure (.ptr none)
    | v => pure (.ptr (some (← parseGoVal v)))
  else if let some v := optField j "sl" then
    match v with
    | .null => pure (.slice none)
    | v => pure (.slice (some (← (← v.getArr?).toList.mapM parseGoVal)))
  else if let some v := optField j "ar" then pure (.array (← (← v.getArr?).toList.mapM parseGoVal))
  else if let some v := optField j "mp" then
    match v with
    | .obj kvs => do
      let es ← kvs.toList.mapM (fun (k, x) => do pure (k, (← parseGoVal x)))
      pure (.map (some (es.toArray.qsort (fun a b => a.1 < b.1)).toList))
    | _ => pure (.map none)
  else if let some v := optField j "st" then pure (.strct (← (← v.getArr?).toList.mapM parseGoVal))
  else if (optField j "cfg").isSome then pure (.cfg none)
  else if (optField j "unsup").isSome then pure .unsup
  else throw s!"bad goval {j.compress}"

partial def goValJson : GoVal → Json
  | .scalar s => match s with
    | .bool b => .mkObj [("b", .bool b)]
    | .int i => .mkObj [("i", .str (toString i))]
    | .uint n => .mkObj [("u", .str (toString n))]
    | .float f => .mkObj [("f", .str (floatHex f))]
    | .str s => .mkObj [("s", .str s)]
    | .dur ns => .mkObj [("dur", .str (toString ns))]
  | .regex p => .mkObj [("re", .str p)]
  | .iface none => .mkObj [("if", .null)]
  | .iface (some d) => .mkObj [("if", dataJson d)]
  | .ptr none => .mkObj [("p", .null)]
  | .ptr (some v) => .mkObj [("p", goValJson v)]
  | .slice none => .mkObj [("sl", .null)]
  | .slice (some l) => .mkObj [("sl", .arr (l.map goValJson).toArray)]
  | .array l => .mkObj [("ar", .arr (l.map goValJson).toArray)]
  | .map none => .mkObj [("mp", .null)]
  | .map (some m) => .mkObj [("mp", .mkObj (m.map (fun (k, v) => (k, goValJson v))))]
  | .strct fs => .mkObj [("st", .arr (fs.map goValJson).toArray)]
  | .cfg none => .mkObj [("cfg", .null)]
  | .cfg (some v) => .mkObj [("cfg", match viewP v with
      | .ok vw => Json.mkObj [("dict", .mkObj (vw.dict.map (fun (k, d) => (k, dataJson d)))), ("arr", .arr (vw.arr.map dataJson).toArray)]
      | _ => .null)]
  | .unsup => .mkObj [("unsup", .bool true)]

end Driver
