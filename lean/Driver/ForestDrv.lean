import Driver.Codec
import Ucfg.Model.Forest
/-!
  Driver for kind "forest": runs a history over several configs on the identity-level model (Model/Forest.lean) and
  dumps, after every step, every register the way the Go worker dumps it through VerifFingerprint.  The composition of
  the model's primitives into Merge / NewFrom / Set* / Remove / SetChild below is glue (not verified); where it does not
  cover a situation (references, null values meeting objects, dotted keys in sources, missing intermediate nodes) it
  answers `funmodelled` and the comparison stops at that step.
-/
open Lean
namespace Driver
open Ucfg.Forest

abbrev FR := Except String     -- the error "funmodelled" ends the modelled prefix of a history

def ffuel : Nat := 64

structure Pol where
  arr : String := ""           -- "", Append, Prepend, ReplaceArr, Replace
  varexp : Bool := false
  pathSep : Bool := false

def polOf (opts : Option Json) : Pol :=
  match opts with
  | some (.arr os) => os.foldl (fun p o =>
      match strFieldD o "o" "" with
      | "Append" => { p with arr := "Append" }
      | "Prepend" => { p with arr := "Prepend" }
      | "Replace" => { p with arr := "Replace" }
      | "ReplaceArr" => { p with arr := "ReplaceArr" }
      | "VarExp" => { p with varexp := true }
      | "PathSep" => { p with pathSep := true }
      | _ => p) {}
  | _ => {}

def allDigits (s : String) : Bool := !s.isEmpty && s.toList.all (fun c => '0' ≤ c && c ≤ '9')

def funmodelled {α : Type} : FR α := throw "unmodelled"

def fnodeAt (h : Heap) (id : Id) : FR Node :=
  match h[id]? with
  | some n => pure n
  | none => throw s!"dangling id {id}"

def cpyF (h : Heap) (id : Id) (p : Option Id) (f : String) : FR (Heap × Id) :=
  match cpy ffuel h id p f with
  | some r => pure r
  | none => throw "copy ran out of fuel"

def appendF (h : Heap) (to : Id) (src : List Id) : FR Heap :=
  match appendCpy ffuel h to src with
  | some r => pure r
  | none => throw "append ran out of fuel"

/-- a case's source value as the model's `Src`; what the model does not describe (positive `i`, floats, `$` without an
expression under VarExp, keys that are empty / numbers / dotted under PathSep, struct sources repeating a tag) is
`unmodelled` -/
partial def srcOf (pol : Pol) (regs : Array (Option Id)) (j : Json) : FR Src := do
  match j with
  | .null => pure .nil
  | _ =>
  if let some r := optField j "reg" then
    match r.getNat? with
    | .ok i =>
      match regs[i]? with
      | some (some id) => pure (.reg id)
      | _ => throw "empty register in source"
    | _ => throw "bad reg"
  else if let some (.str s) := optField j "s" then
    -- under VarExp a string holding an expression is stored unevaluated (the generator's expressions are well formed)
    if pol.varexp && (s.splitOn "${").length > 1 then pure (.prim "dyn" s)
    else if pol.varexp && s.contains '$' then funmodelled
    else pure (.prim "string" s)
  else if let some (.str s) := optField j "u" then pure (.prim "uint" s)
  else if let some (.str s) := optField j "i" then
    if s.startsWith "-" then pure (.prim "int" s) else funmodelled
  else if let some (.bool b) := optField j "b" then pure (.prim "bool" (if b then "true" else "false"))
  else if let some (.arr xs) := optField j "a" then do
    let ys ← xs.toList.mapM (srcOf pol regs)
    pure (.arr ys)
  else
    let entries : Option (List (String × Json)) :=
      match optField j "m", optField j "st" with
      | some (.arr es), _ => es.toList.mapM (fun e => match e with
          | .arr #[.str k, v] => some (k, v)
          | _ => none)
      | _, some (.arr es) => es.toList.mapM (fun e => match e with
          | .arr #[.str _, .str tag, v] => some (tag, v)
          | _ => none)
      | _, _ => none
    -- a Go map holds a key once: of the pairs of a map source the last one counts (struct sources are taken as they are)
    let entries := match optField j "m", entries with
      | some _, some es => some ((es.reverse.foldl (fun (acc : List (String × Json)) (kv : String × Json) =>
          if acc.any (·.1 == kv.1) then acc else kv :: acc) []))
      | _, e => e
    match entries with
    | none => funmodelled
    | some es => do
      if es.any (fun (k, _) => k.isEmpty || allDigits k || (pol.pathSep && k.contains '.')) then funmodelled
      let mut d : List (String × Src) := []
      for (k, v) in es do
        if d.any (·.1 == k) then funmodelled
        let x ← srcOf pol regs v
        d := d ++ [(k, x)]
      pure (.map d)

/-- the normalized tree of a source value: the model's `buildH` (merge.go normalize*; embedded configs are copied,
normalizeValue) -/
def build (pol : Pol) (regs : Array (Option Id)) (h : Heap) (j : Json) (parent : Option Id) (field : String) : FR (Heap × Id) := do
  let src ← srcOf pol regs j
  match buildH ffuel h src parent field with
  | some r => pure r
  | none => throw "copy ran out of fuel"

def isNilPrim (n : Node) : Bool := match n.body with | .prim "nil" _ => true | _ => false
def fIsSub (n : Node) : Bool := match n.body with | .sub .. => true | _ => false

/-- merge.go mergeConfig on the heap, written as a loop: kept only to say *why* the model's `mergeH` gave `none` -/
partial def mergeCfgDiag (pol : Pol) (h : Heap) (to frm : Id) : FR Heap := do
  let some (_, _, _, _) := getSub h to | throw "merge into a non-object"
  let some (_, _, fd, fa) := getSub h frm | throw "merge from a non-object"
  let mut hh := h
  -- dictionary part
  if !fd.isEmpty then
    if pol.arr == "Replace" then
      let some (_, _, _, ta) := getSub hh to | throw "lost node"
      hh := setBody hh to (.sub [] ta)
    for (k, v) in fd do
      let some (_, _, td, ta) := getSub hh to | throw "lost node"
      let vn ← fnodeAt hh v
      match td.find? (·.1 == k) with
      | none =>
        let (h1, c) ← cpyF hh v (some to) k
        hh := setBody h1 to (.sub (dictSet td k c) ta)
      | some (_, o) =>
        let on ← fnodeAt hh o
        if unsettled on vn then funmodelled
        if fIsSub on && fIsSub vn then
          hh ← mergeCfgDiag pol hh o v
        else
          let (h1, c) ← cpyF hh v (some to) k
          hh := setBody h1 to (.sub (dictSet td k c) ta)
  -- list part
  match pol.arr with
  | "Replace" | "ReplaceArr" =>
    if fa.isEmpty then pure hh else
      let some (_, _, td, _) := getSub hh to | throw "lost node"
      appendF (setBody hh to (.sub td [])) to fa
  | "Prepend" =>
    if fa.isEmpty then pure hh else
      let some (_, _, td, ta) := getSub hh to | throw "lost node"
      let h1 ← appendF (setBody hh to (.sub td [])) to fa
      appendF h1 to ta
  | "Append" => appendF hh to fa
  | _ => do
    let some (_, _, _, ta0) := getSub hh to | throw "lost node"
    let l := min ta0.length fa.length
    for i in [0:l] do
      let some (_, _, td, ta) := getSub hh to | throw "lost node"
      let o := ta[i]!
      let v := fa[i]!
      let on ← fnodeAt hh o
      let vn ← fnodeAt hh v
      if unsettled on vn then funmodelled
      if fIsSub on && fIsSub vn then
        hh ← mergeCfgDiag pol hh o v
      else
        let (h1, c) ← cpyF hh v (some to) (idxName i)
        hh := setBody h1 to (.sub td (ta.set i c))
    appendF hh to (fa.drop l)

def arrPolOf (s : String) : ArrPol :=
  match s with
  | "Append" => .append | "Prepend" => .prepend | "Replace" => .replace | "ReplaceArr" => .replaceArr | _ => .merge

def mfuel : Nat := 100000

/-- Merge on the heap is the model's `mergeH` (Model/Forest.lean; Lemmas/ForestMerge.lean proves its frame).  `none` is
explained by the loop above: null meets value -> unmodelled, anything else is a harness error. -/
def mergeCfgH (pol : Pol) (h : Heap) (to frm : Id) : FR Heap :=
  match mergeH mfuel ffuel (arrPolOf pol.arr) h to frm with
  | some r => pure r
  | none =>
    match mergeCfgDiag pol h to frm with
    | .ok _ => throw "model mergeH gave none where the loop succeeds (fuel?)"
    | .error e => throw e

def fSegsOf (name : String) (idx : Int) (sep : Bool) : List String :=
  let base := if name.isEmpty then [] else if sep then name.splitOn "." else [name]
  if idx ≥ 0 then base ++ [toString idx.toNat] else base

def stepChild (h : Heap) (id : Id) (seg : String) : Option Id :=
  if allDigits seg then childAt h id seg.toNat! else childNamed h id seg

/-- does the walk along `segs` meet an unevaluated expression (the node itself included)?  Go evaluates it and goes on in
the configuration it refers to: not described here -/
def meetsDyn (h : Heap) : Id → List String → Bool
  | id, segs =>
    (match h[id]? with | some n => isDynNode n | none => false) ||
    (match segs with
     | [] => false
     | s :: r => match stepChild h id s with
       | some c => meetsDyn h c r
       | none => false)

def fwalk (h : Heap) (id : Id) : List String → Option Id
  | [] => some id
  | s :: r => match stepChild h id s with
    | some c => fwalk h c r
    | none => none

partial def fpJson (h : Heap) (depth : Nat) (id : Id) : Json :=
  match h[id]? with
  | none => .null
  | some n =>
    let base : List (String × Json) := [("id", .str s!"m{id}"), ("f", .str n.field),
      ("p", .str (match n.parent with | some p => s!"m{p}" | none => ""))]
    match n.body with
    | .prim k v => Json.mkObj (base ++ [("k", .str k)] ++ (if v.isEmpty then [] else [("v", .str v)]))
    | .sub d a =>
      if depth == 0 then Json.mkObj (base ++ [("k", Json.str "sub"), ("cut", Json.bool true)]) else
      Json.mkObj (base ++ [("k", Json.str "sub")] ++
        (if d.isEmpty then [] else [("d", Json.mkObj (d.map (fun (k, c) => (k, fpJson h (depth - 1) c))))]) ++
        (if a.isEmpty then [] else [("a", Json.arr (a.map (fpJson h (depth - 1))).toArray)]))

def regJson (h : Heap) (r : Option Id) : Json :=
  match r with
  | none => .null
  | some id =>
    let parent := match h[id]? with | some n => (match n.parent with | some p => s!"m{p}" | none => "") | none => ""
    Json.mkObj [("fp", fpJson h 40 id), ("path", .str (".".intercalate (storedPath 64 h id))), ("parent", .str parent)]

partial def fRegsIn : Json → List Nat
  | .obj kvs => (match (Json.obj kvs).getObjVal? "reg" with
      | .ok r => (match r.getNat? with | .ok i => [i] | _ => [])
      | _ => []) ++ kvs.toList.flatMap (fun (_, v) => fRegsIn v)
  | .arr xs => xs.toList.flatMap fRegsIn
  | _ => []

def fPrimOf (v : Json) : FR (String × String) :=
  if let some (.str s) := optField v "s" then pure ("string", s)
  else if let some (.str s) := optField v "u" then pure ("uint", s)
  else if let some (.str s) := optField v "i" then pure ("int", s)
  else if let some (.bool b) := optField v "b" then pure ("bool", if b then "true" else "false")
  else funmodelled

/-- the segments of an address; indices beyond 64 are left to the content-level model (C20) -/
def fSegs (name : String) (idx : Int) (sep : Bool) : FR (List Seg) := do
  let ss := fSegsOf name idx sep
  if ss.any (fun x => allDigits x && x.toNat! > 64) then funmodelled
  pure (ss.map (fun x => if allDigits x then Seg.idx x.toNat! else Seg.name x))

def ofSetRes (h : Heap) (regs : Array (Option Id)) : SetRes → FR (Heap × Array (Option Id))
  | .ok h' => pure (h', regs)
  | .err => pure (h, regs)
  | .unmodelled => funmodelled

/-- one operation; `none` = skipped (a register it needs is empty) -/
def forestStep (h : Heap) (regs : Array (Option Id)) (op : Json) : FR (Heap × Array (Option Id)) := do
  let kind := strFieldD op "op" ""
  let r := (optField op "r").bind (fun j => j.getNat?.toOption) |>.getD 0
  let getNatF (k : String) : Nat := (optField op k).bind (fun j => j.getNat?.toOption) |>.getD 0
  let pol := polOf (optField op "opts")
  let name := strFieldD op "name" ""
  let idx : Int := match optField op "idx" with | some j => (j.getInt?.toOption.getD (-1)) | none => -1
  let needs : List Nat := (match kind with
    | "new" => []
    | "setchild" => [r, getNatF "child"]
    | "diff" => [r, getNatF "r2"]
    | _ => [r]) ++ fRegsIn ((optField op "from").getD .null)
  if needs.any (fun i => match regs[i]? with | some (some _) => false | _ => true) then return (h, regs)
  let regId (i : Nat) : Id := match regs[i]? with | some (some id) => id | _ => 0
  match kind with
  | "new" =>
    let src := (optField op "from").getD .null
    let root := h.length
    let h0 := h ++ [⟨none, "", .sub [] []⟩]
    let (h1, frm) ← (match optField src "reg" with
      | some rj => (match rj.getNat? with | .ok i => pure (h0, regId i) | _ => throw "bad reg")
      | none => build pol regs h0 src none "")
    if !(fIsSub (← fnodeAt h1 frm)) then funmodelled
    -- NewFrom is the model's `newFromH`; the steps above only say why it would answer `none`
    match newFromH mfuel ffuel (arrPolOf pol.arr) h (← srcOf pol regs src) with
    | some (h2, root') => pure (h2, regs.set! r (some root'))
    | none =>
      let _ ← mergeCfgH pol h1 root frm
      throw "model newFromH gave none where the steps succeed"
  | "merge" =>
    let src := (optField op "from").getD .null
    let (h1, frm) ← (match optField src "reg" with
      | some rj => (match rj.getNat? with | .ok i => pure (h, regId i) | _ => throw "bad reg")
      | none => build pol regs h src none "")
    if !(fIsSub (← fnodeAt h1 frm)) then funmodelled
    -- a config merged directly into its own descendant or ancestor changes under the iteration: not described
    if onParentChain h1 64 (regId r) frm || onParentChain h1 64 frm (regId r) then funmodelled
    match mergeSrcH mfuel ffuel (arrPolOf pol.arr) h (regId r) (← srcOf pol regs src) with
    | some h2 => pure (h2, regs)
    | none =>
      let _ ← mergeCfgH pol h1 (regId r) frm
      throw "model mergeSrcH gave none where the steps succeed"
  | "set" =>
    let (k, v) ← fPrimOf ((optField op "val").getD .null)
    let segs ← fSegs name idx pol.pathSep
    if segs.isEmpty then funmodelled
    ofSetRes h regs (setPathH h (regId r) segs (.prim k v))
  | "remove" =>
    let segs ← fSegs name idx pol.pathSep
    match removePathH h (regId r) segs with
    | some h' => pure (h', regs)
    | none => funmodelled
  | "child" =>
    let segs := fSegsOf name idx pol.pathSep
    if meetsDyn h (regId r) segs then funmodelled
    match fwalk h (regId r) segs with
    | none => pure (h, regs)
    | some c =>
      let cn ← fnodeAt h c
      if isNilPrim cn then funmodelled
      if fIsSub cn then pure (h, regs.set! (getNatF "to") (some c)) else pure (h, regs)
  | "setchild" =>
    let segs ← fSegs name idx pol.pathSep
    if segs.isEmpty then funmodelled
    ofSetRes h regs (setChildH 64 h (regId r) segs (regId (getNatF "child")))
  | "read" | "diff" => pure (h, regs)
  | _ => funmodelled

def runForest (c : Json) : Json :=
  let n := (optField c "regs").bind (fun j => j.getNat?.toOption) |>.getD 5
  let ops := match optField c "ops" with | some (.arr a) => a.toList | _ => []
  let rec go (h : Heap) (regs : Array (Option Id)) (ops : List Json) (acc : List Json) : List Json :=
    match ops with
    | [] => acc.reverse
    | op :: rest =>
      match forestStep h regs op with
      | .ok (h', regs') => go h' regs' rest (Json.mkObj [("regs", .arr (regs'.toList.map (regJson h')).toArray)] :: acc)
      | .error e => (Json.mkObj [("unmodelled", .str e)] :: acc).reverse
  Json.mkObj [("steps", .arr (go [] (Array.replicate n none) ops []).toArray)]

end Driver
