import Lean.Data.Json
import Ucfg.Model.Normalize
import Ucfg.Model.Reify
import Ucfg.Model.Parse
/-
  JSON codec of the line protocol between the Go harness and the Lean model.
  Numbers travel as decimal strings, floats as 16 hex digits of their bits.
-/
open Lean
namespace Driver
open Ucfg

abbrev R := Except String

def hexVal (c : Char) : Option Nat :=
  if '0' ≤ c && c ≤ '9' then some (c.toNat - 48)
  else if 'a' ≤ c && c ≤ 'f' then some (c.toNat - 87)
  else if 'A' ≤ c && c ≤ 'F' then some (c.toNat - 55)
  else none

def parseHex (s : String) : R Nat :=
  s.toList.foldlM (fun acc c => match hexVal c with
    | some v => pure (acc * 16 + v)
    | none => throw s!"bad hex {s}") 0

def hexDigit (n : Nat) : Char := if n < 10 then Char.ofNat (48 + n) else Char.ofNat (87 + n)

def toHex16 (n : Nat) : String :=
  String.ofList ((List.range 16).reverse.map (fun i => hexDigit ((n / 16^i) % 16)))

/-- float bits for output: all NaNs are one value -/
def floatHex (b : Nat) : String :=
  match F64.decode b with
  | .nan => "7ff8000000000001"
  | _ => toHex16 b

def parseIntStr (s : String) : R Int :=
  match s.toInt? with
  | some i => pure i
  | none => throw s!"bad int {s}"

def parseNatStr (s : String) : R Nat :=
  match s.toNat? with
  | some i => pure i
  | none => throw s!"bad nat {s}"

def optField (j : Json) (k : String) : Option Json :=
  match j.getObjVal? k with
  | .ok v => some v
  | .error _ => none

def strField (j : Json) (k : String) : R String := do (← j.getObjVal? k).getStr?
def boolFieldD (j : Json) (k : String) (d : Bool) : Bool :=
  match optField j k with
  | some (.bool b) => b
  | _ => d
def strFieldD (j : Json) (k : String) (d : String) : String :=
  match optField j k with
  | some (.str s) => s
  | _ => d

/-! ### options -/

def parseHandling (s : String) : R Handling :=
  match s with
  | "default" => pure .dflt | "merge" => pure .merge | "replace" => pure .replace
  | "append" => pure .append | "prepend" => pure .prepend | "arrReplace" => pure .arrReplace
  | _ => throw s!"bad handling {s}"

def parseParseCfg (j : Json) : ParseCfg :=
  { array := boolFieldD j "array" true, object := boolFieldD j "object" true,
    dq := boolFieldD j "dq" true, sq := boolFieldD j "sq" true,
    ignoreCommas := boolFieldD j "ignoreCommas" false }

/-- makeFieldOptValueHandling: merge the table {name(.*): h} into the policy tree with PathSep(o.pathSep) -/
def applyFieldOpt (o : Opts) (h : Handling) (names : List String) : Opts :=
  if names.isEmpty then o else
  let t0 := o.fieldTree.getD Val.empty
  let entries : List (String × GoData) := names.map (fun n =>
    ((if n.endsWith ".*" then n else n ++ ".*"), GoData.uint h.code))
  let t := match cfgMerge { pathSep := o.pathSep } t0 (.map entries) with
    | .ok t => t
    | _ => t0
  { o with fieldTree := some t }

mutual
partial def parseGoData (j : Json) : R GoData := do
  match j with
  | .null => pure .nil
  | _ =>
    if let some v := optField j "b" then pure (.bool (← v.getBool?))
    else if let some v := optField j "i" then pure (.int (← parseIntStr (← v.getStr?)))
    else if let some v := optField j "u" then pure (.uint (← parseNatStr (← v.getStr?)))
    else if let some v := optField j "f" then pure (.float (← parseHex (← v.getStr?)))
    else if let some v := optField j "s" then pure (.str (← v.getStr?))
    else if let some v := optField j "dur" then pure (.dur (← v.getStr?))
    else if let some v := optField j "re" then pure (.regex (← v.getStr?))
    else if let some v := optField j "a" then
      pure (.list (← (← v.getArr?).toList.mapM parseGoData))
    else if let some v := optField j "m" then
      let es ← (← v.getArr?).toList.mapM (fun e => do
        let kv ← e.getArr?
        match kv.toList with
        | [k, x] => pure ((← k.getStr?), (← parseGoData x))
        | _ => throw "bad map entry")
      pure (.map es)
    else if let some v := optField j "st" then
      let es ← (← v.getArr?).toList.mapM (fun e => do
        let kv ← e.getArr?
        match kv.toList with
        | [g, t, x] => pure ((← g.getStr?), (← t.getStr?), (← parseGoData x))
        | _ => throw "bad struct field")
      pure (.strct es)
    else if let some v := (if (optField j "shared").isSome then optField j "c" else none) then
      -- one Config object used at several places of the case: every use copies it, the model needs its content only
      let o ← parseOpts ((optField v "opts").getD (.arr #[]))
      let d ← parseGoData ((optField v "v").getD .null)
      match newFrom o d with
      | .ok t => pure (.cfg t)
      | _ => throw "shared config source does not normalize"
    else if let some v := optField j "c" then
      let o ← parseOpts ((optField v "opts").getD (.arr #[]))
      let d ← parseGoData ((optField v "v").getD .null)
      match newFrom o d with
      | .ok t => pure (.cfg t)
      | _ => throw "embedded config source does not normalize"
    else if let some v := optField j "cm" then
      let oa ← parseOpts ((optField v "optsA").getD (.arr #[]))
      let a ← parseGoData ((optField v "a").getD .null)
      match newFrom oa a with
      | .ok t0 =>
        let steps := match optField v "steps" with
          | some (.arr s) => s.toList
          | _ => []
        let t ← steps.foldlM (fun (t : Val) (st : Json) => do
          let o ← parseOpts ((optField st "opts").getD (.arr #[]))
          let b ← parseGoData ((optField st "b").getD .null)
          match cfgMerge o t b with
          | .ok t' => pure t'
          | _ => throw "merged config source: merge failed") t0
        let rms := match optField v "removes" with
          | some (.arr s) => s.toList
          | _ => []
        let t ← rms.foldlM (fun (t : Val) (rm : Json) => do
          let o ← parseOpts ((optField rm "opts").getD (.arr #[]))
          let name := strFieldD rm "name" ""
          let idx : Int := ((optField rm "idx").bind (fun j => j.getInt?.toOption)).getD (-1)
          match pathRemove tcPlain (parsePathIdx name idx o) t with
          | .ok (t', _) => pure t'
          | _ => throw "merged config source: remove failed") t
        pure (.cfg t)
      | _ => throw "merged config source does not normalize"
    else if (optField j "unsup").isSome then pure .unsupported
    else if (optField j "badkey").isSome then pure .badKeyMap
    else throw s!"bad godata {j.compress}"

partial def parseOpts (j : Json) : R Opts := do
  let arr ← j.getArr?
  arr.toList.foldlM (fun (o : Opts) (e : Json) => do
    let name ← strField e "o"
    match name with
    | "PathSep" => pure { o with pathSep := (← strField e "v") }
    | "MaxIdx" => pure { o with maxIdx := (← parseIntStr (← strField e "v")) }
    | "EnableNumKeys" => pure { o with enableNumKeys := boolFieldD e "v" true }
    | "EscapePath" => pure { o with escapePath := true }
    | "VarExp" => pure { o with varexp := true }
    | "IgnoreCommas" => pure { o with ignoreCommas := true }
    | "Replace" => pure { o with handling := .replace }
    | "ReplaceArr" => pure { o with handling := .arrReplace }
    | "Append" => pure { o with handling := .append }
    | "Prepend" => pure { o with handling := .prepend }
    | "FieldMerge" | "FieldReplace" | "FieldAppend" | "FieldPrepend" =>
      let names ← (← (← e.getObjVal? "v").getArr?).toList.mapM (·.getStr?)
      let h := match name with
        | "FieldMerge" => Handling.merge | "FieldReplace" => .replace
        | "FieldAppend" => .append | _ => .prepend
      pure (applyFieldOpt o h names)
    | "MetaData" => pure o
    -- which struct tags Unpack reads: applied to the type description (TypedCodec.tagKeys), nothing else depends on them
    | "StructTag" | "ValidatorTag" => pure o
    | "Env" =>
      let eo ← parseOpts ((optField e "opts").getD (.arr #[]))
      let d ← parseGoData ((optField e "v").getD .null)
      match newFrom eo d with
      | .ok t => pure { o with env := o.env ++ [t] }
      | _ => throw "env config does not normalize"
    | "Resolve" =>
      let es ← (← (← e.getObjVal? "v").getArr?).toList.mapM (fun r => do
        pure ((← strField r "name"), (← strField r "val"),
              parseParseCfg ((optField r "cfg").getD (.mkObj []))))
      pure { o with resolvers := o.resolvers ++ [⟨es⟩] }
    | _ => throw s!"unknown option {name}") ({} : Opts)
end

/-! ### standard-library tables -/

def lookupStr (tbl : List (String × Json)) (k : String) : Option Json :=
  (tbl.find? (·.1 == k)).map (·.2)

def objEntries (j : Option Json) : List (String × Json) :=
  match j with
  | some (.obj kvs) => kvs.toList
  | _ => []

def parseStd (j : Option Json) : Stdlib :=
  let pf := objEntries (j.bind (optField · "pf"))
  let ff := objEntries (j.bind (optField · "ff"))
  let pd := objEntries (j.bind (optField · "pd"))
  let ds := objEntries (j.bind (optField · "ds"))
  let re := objEntries (j.bind (optField · "re"))
  { parseFloat := fun s => match lookupStr pf s with
      | some (.str h) => (parseHex h).toOption
      | some .null => none
      | _ => some 0xDEAD0000DEAD0000     -- table miss: flagged by a poison value
    fmtFloat := fun b => match lookupStr ff (toHex16 b) with
      | some (.str s) => s
      | _ => "STDLIB-MISS"
    parseDuration := fun s => match lookupStr pd s with
      | some (.str n) => n.toInt?
      | _ => none
    durString := fun n => match lookupStr ds (toString n) with
      | some (.str s) => s
      | _ => "STDLIB-MISS"
    regexOk := fun s => match lookupStr re s with
      | some (.bool b) => b
      | _ => true }

/-! ### results -/

partial def dataJson : Data → Json
  | .nil => .null
  | .bool b => .mkObj [("b", .bool b)]
  | .int i => .mkObj [("i", .str (toString i))]
  | .uint n => .mkObj [("u", .str (toString n))]
  | .float b => .mkObj [("f", .str (floatHex b))]
  | .str s => .mkObj [("s", .str s)]
  | .arr l => .mkObj [("a", .arr (l.map dataJson).toArray)]
  | .map m => .mkObj [("m", .mkObj (m.map (fun (k, v) => (k, dataJson v))))]

/-- decode a canonical result datum (as printed by the worker / by dataJson) -/
partial def dataOfJson (j : Json) : R Data := do
  match j with
  | .null => pure .nil
  | _ =>
    if let some v := optField j "b" then pure (.bool (← v.getBool?))
    else if let some v := optField j "i" then pure (.int (← parseIntStr (← v.getStr?)))
    else if let some v := optField j "u" then pure (.uint (← parseNatStr (← v.getStr?)))
    else if let some v := optField j "f" then pure (.float (← parseHex (← v.getStr?)))
    else if let some v := optField j "s" then pure (.str (← v.getStr?))
    else if let some v := optField j "a" then pure (.arr (← (← v.getArr?).toList.mapM dataOfJson))
    else if let some v := optField j "m" then
      match v with
      | .obj kvs => do
        let es ← kvs.toList.mapM (fun (k, x) => do pure (k, (← dataOfJson x)))
        pure (.map es)
      | _ => throw "bad map"
    else throw s!"bad data {j.compress}"

/-- structural equality of data with maps compared as finite maps (order-insensitive) -/
partial def dataEq : Data → Data → Bool
  | .nil, .nil => true
  | .bool a, .bool b => a == b
  | .int a, .int b => a == b
  | .uint a, .uint b => a == b
  | .float a, .float b => a == b
  | .str a, .str b => a == b
  | .arr a, .arr b => a.length == b.length && (a.zip b).all (fun (x, y) => dataEq x y)
  | .map a, .map b =>
    a.length == b.length && a.all (fun (k, x) => match b.find? (·.1 == k) with
      | some (_, y) => dataEq x y
      | none => false)
  | _, _ => false

def errJson (e : Err) : Json :=
  .mkObj ([("reason", Json.str e.reason.name), ("typed", .bool e.typed)]
    ++ (match e.path with | some p => [("path", Json.str p)] | none => [])
    ++ (match e.msg with | some m => [("msg", Json.str m)] | none => []))

def outcomeJson {α : Type} (f : α → Json) : Outcome α → Json
  | .ok a => .mkObj [("ok", f a)]
  | .err e => .mkObj [("err", errJson e)]
  | .panic s => .mkObj [("panic", .str s)]
  | .fuel => .mkObj [("fuel", .bool true)]

def viewJson (v : View) : Json :=
  .mkObj [("isDict", .bool v.isDict), ("isArray", .bool v.isArray),
          ("dict", .mkObj (v.dict.map (fun (k, d) => (k, dataJson d)))),
          ("arr", .arr (v.arr.map dataJson).toArray)]

end Driver
