def hello := "world"
