import Ucfg.Model.Unpack
import Ucfg.Model.Ops
/-
  C14 — every failure is a typed error that names the offending setting.

  In the model an error value records whether it is a `ucfg.Error` (`typed`); errors that the Go
  code returns unwrapped (strconv / fmt errors, the bare `ErrTypeMismatch` of value.toConfig) are
  built with `raiseRaw` and `typed := false`, so "is a ucfg.Error" is not true by typing.  Proved:
  at every API boundary of the model the error is typed.  That the message names the full dotted
  path of the offending setting is decided by the correspondence check (single injected fault,
  known path); the plain-tree model does not carry stored contexts.
-/
namespace Ucfg.C14
open Ucfg Outcome

theorem wrap_error_typed {α : Type} (x : Outcome α) (e : Err) (h : reifyPrim.wrap x = .err e) : e.typed = true := by
  cases x <;> simp [reifyPrim.wrap] at h
  subst h; rfl

theorem wrapConv_error_typed {α : Type} (x : Outcome α) (e : Err) (h : wrapConv x = .err e) : e.typed = true := by
  cases x <;> simp [wrapConv] at h
  subst h; rfl

/-- conversion failures of typed unpacking are wrapped (raiseConversion / raiseInvalidDuration) -/
theorem unpack_conversion_error_typed (std : Stdlib) (k : Kind) (p : Prim) (e : Err)
    (h : reifyPrim std k p = .err e) : e.typed = true := by
  unfold reifyPrim at h
  cases k <;> exact wrap_error_typed _ e h

/-- the typed getters wrap conversion failures (convertErr) -/
theorem getter_error_typed (std : Stdlib) (k : GetKind) (v : Val) (e : Err) (hnd : ∀ i ex, v ≠ .dyn i ex)
    (h : getPrim std k v = .err e) : e.typed = true := by
  cases v with
  | dyn i ex => exact absurd rfl (hnd i ex)
  | sub d a hd ha => simp [getPrim] at h; subst h; rfl
  | prim p =>
    simp only [getPrim] at h
    cases k <;> exact wrapConv_error_typed _ e h

/-- looking a field up fails only with typed errors (ErrMissing / ErrExpectedObject) -/
theorem fieldGet_error_typed (f : Field) (v : Val) (e : Err) (h : fieldGet tcPlain f v = .err e) : e.typed = true := by
  unfold fieldGet at h
  cases f with
  | named n =>
    simp only at h
    cases ht : tcPlain v with
    | ok c => rw [ht] at h; simp at h
    | err e' => rw [ht] at h; simp [raise] at h; subst h; rfl
    | panic s => rw [ht] at h; simp at h
    | fuel => rw [ht] at h; simp at h
  | idx i =>
    simp only at h
    cases ht : tcPlain v with
    | ok c =>
      rw [ht] at h
      simp only at h
      split at h
      · simp [raise] at h; subst h; rfl
      · split at h
        · simp at h
        · split at h <;> simp at h
    | err e' =>
      rw [ht] at h
      simp only at h
      split at h
      · simp at h
      · simp [raise] at h; subst h; rfl
    | panic s => rw [ht] at h; simp at h
    | fuel => rw [ht] at h; simp at h

/-- writes fail only with typed errors (ErrExpectedObject / ErrIndexOutOfRange) -/
theorem fieldSet_error_typed (o : Opts) (f : Field) (node v : Val) (e : Err)
    (h : fieldSet o f node v = .err e) : e.typed = true := by
  unfold fieldSet at h
  cases node with
  | prim p => simp [raise] at h; subst h; rfl
  | dyn i ex => simp [raise] at h; subst h; rfl
  | sub d a hd ha =>
    cases f with
    | named n => simp at h
    | idx i =>
      simp only at h
      split at h
      · simp [raise] at h; subst h; rfl
      · split at h
        · simp at h
        · split at h <;> simp at h

/-- a validator failure is reported as a typed error whose reason is the validator's -/
theorem validation_error_typed {α : Type} (ve : VErr) (e : Err)
    (h : (raiseValidation ve : Outcome α) = .err e) : e.typed = true ∧ e.reason = ve.reason := by
  simp [raiseValidation] at h; subst h; exact ⟨rfl, rfl⟩

/-! non-vacuity -/
example : (reifyPrim default (.int 8) (.int 300)).isErr = true := by decide
example : (fieldGet tcPlain (.named "a") (.prim (.int 1))).isErr = true := by decide

end Ucfg.C14
