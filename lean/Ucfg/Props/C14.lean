import Ucfg.Model.Unpack
import Ucfg.Model.Ops
/-
  C14 — every failure is a typed error that names the offending setting.

  In the model an error value records whether it is a `ucfg.Error` (`typed`); errors that the Go
  code returns unwrapped (strconv / fmt errors, the bare `ErrTypeMismatch` of value.toConfig) are
  built with `raiseRaw` and `typed := false`, so "is a ucfg.Error" is not true by typing.  Proved:
  at every API boundary of the model the error is typed.  That the message names the full dotted
  path of the offending setting is decided by the correspondence check (single injected fault,
  known path); the plain-tree model does not carry stored contexts.
-/
namespace Ucfg.C14
open Ucfg Outcome

theorem wrap_error_typed {α : Type} (x : Outcome α) (e : Err) (h : reifyPrim.wrap x = .err e) : e.typed = true := by
  cases x <;> simp [reifyPrim.wrap] at h
  subst h; rfl

theorem wrapConv_error_typed {α : Type} (x : Outcome α) (e : Err) (h : wrapConv x = .err e) : e.typed = true := by
  cases x <;> simp [wrapConv] at h
  subst h; rfl

/-- conversion failures of typed unpacking are wrapped (raiseConversion / raiseInvalidDuration) -/
theorem unpack_conversion_error_typed (std : Stdlib) (k : Kind) (p : Prim) (e : Err)
    (h : reifyPrim std k p = .err e) : e.typed = true := by
  unfold reifyPrim at h
  cases k <;> exact wrap_error_typed _ e h

/-- the typed getters wrap conversion failures (convertErr) -/
theorem getter_error_typed (std : Stdlib) (k : GetKind) (v : Val) (e : Err) (hnd : ∀ i ex, v ≠ .dyn i ex)
    (h : getPrim std k v = .err e) : e.typed = true := by
  cases v with
  | dyn i ex => exact absurd rfl (hnd i ex)
  | sub d a hd ha => simp [getPrim] at h; subst h; rfl
  | prim p =>
    simp only [getPrim] at h
    cases k <;> exact wrapConv_error_typed _ e h

/-- looking a field up fails only with typed errors (ErrMissing / ErrExpectedObject) -/
theorem fieldGet_error_typed (f : Field) (v : Val) (e : Err) (h : fieldGet tcPlain f v = .err e) : e.typed = true := by
  unfold fieldGet at h
  cases f with
  | named n =>
    simp only at h
    cases ht : tcPlain v with
    | ok c => rw [ht] at h; simp at h
    | err e' => rw [ht] at h; simp [raise] at h; subst h; rfl
    | panic s => rw [ht] at h; simp at h
    | fuel => rw [ht] at h; simp at h
  | idx i =>
    simp only at h
    cases ht : tcPlain v with
    | ok c =>
      rw [ht] at h
      simp only at h
      split at h
      · simp [raise] at h; subst h; rfl
      · split at h
        · simp at h
        · split at h <;> simp at h
    | err e' =>
      rw [ht] at h
      simp only at h
      split at h
      · simp at h
      · simp [raise] at h; subst h; rfl
    | panic s => rw [ht] at h; simp at h
    | fuel => rw [ht] at h; simp at h

/-- writes fail only with typed errors (ErrExpectedObject / ErrIndexOutOfRange) -/
theorem fieldSet_error_typed (o : Opts) (f : Field) (node v : Val) (e : Err)
    (h : fieldSet o f node v = .err e) : e.typed = true := by
  unfold fieldSet at h
  cases node with
  | prim p => simp [raise] at h; subst h; rfl
  | dyn i ex => simp [raise] at h; subst h; rfl
  | sub d a hd ha =>
    cases f with
    | named n => simp at h
    | idx i =>
      simp only at h
      split at h
      · simp [raise] at h; subst h; rfl
      · split at h
        · simp at h
        · split at h <;> simp at h

/-- a validator failure is reported as a typed error whose reason is the validator's -/
theorem validation_error_typed {α : Type} (ve : VErr) (e : Err)
    (h : (raiseValidation ve : Outcome α) = .err e) : e.typed = true ∧ e.reason = ve.reason := by
  simp [raiseValidation] at h; subst h; exact ⟨rfl, rfl⟩

/-! ### the lift: every error `Unpack` returns is typed

`Typed x`: if `x` is an error, it is a `ucfg.Error`.  The combinators below carry the statement through the code of the
typed unpacker; one induction over the fuel proves it for all eight mutually recursive functions and for every target
type that does not contain `interface{}` (the generic `reify` of the reference-free model marks references with an
untyped error, which is the one place the model itself is outside its domain). -/

def Typed {α : Type} (x : Outcome α) : Prop := ∀ e, x = .err e → e.typed = true

theorem typed_ok {α : Type} (a : α) : Typed (.ok a : Outcome α) := by intro e h; cases h
theorem typed_panic {α : Type} (s : String) : Typed (.panic s : Outcome α) := by intro e h; cases h
theorem typed_fuel {α : Type} : Typed (.fuel : Outcome α) := by intro e h; cases h
theorem typed_raise {α : Type} (r : Reason) : Typed (Outcome.raise r : Outcome α) := by
  intro e h; simp [Outcome.raise] at h; subst h; rfl
theorem typed_raiseValidation {α : Type} (ve : VErr) : Typed (raiseValidation ve : Outcome α) := by
  intro e h; exact (validation_error_typed ve e h).1
theorem typed_err {α : Type} (e : Err) (h : e.typed = true) : Typed (.err e : Outcome α) := by
  intro e' h'; cases h'; exact h
theorem typed_bind {α β : Type} (x : Outcome α) (f : α → Outcome β) (hx : Typed x) (hf : ∀ a, Typed (f a)) :
    Typed (x >>= f) := by
  intro e h
  cases x with
  | ok a => exact hf a e h
  | err e' => simp at h; subst h; exact hx e' rfl
  | panic s => simp at h
  | fuel => simp at h
theorem typed_seq {α β : Type} (x : Outcome α) (y : Outcome β) (hx : Typed x) (hy : Typed y) : Typed (x *> y) := by
  intro e h
  cases x with
  | ok a => exact hy e h
  | err e1 => cases h; exact hx _ rfl
  | panic s => cases h
  | fuel => cases h

/-- a value that is not an error -/
theorem typed_of_not_err {α : Type} (x : Outcome α) (h : ∀ e, x = .err e → False) : Typed x := by
  intro e he; exact (h e he).elim

mutual
/-- no interface{} anywhere in the type -/
def _root_.Ucfg.Ty.noIface : Ty → Bool
  | .iface => false
  | .ptr t => t.noIface
  | .slice t => t.noIface
  | .array _ t => t.noIface
  | .map t => t.noIface
  | .strct fs => noIfaceFields fs
  | _ => true
def noIfaceFields : List (String × String × String × Ty) → Bool
  | [] => true
  | (_, _, _, t) :: r => t.noIface && noIfaceFields r
end

/-- the routine part of every step: split the code, close the leaves that raise typed errors or do not fail -/
macro "typed_step" : tactic => `(tactic|
  repeat' (first
    | exact typed_ok _ | exact typed_panic _ | exact typed_fuel | exact typed_raise _ | exact typed_raiseValidation _
    | exact typed_err _ rfl
    | assumption
    | (apply typed_err; apply unpack_conversion_error_typed; assumption)
    | (apply typed_err; apply fieldGet_error_typed; assumption)
    | (refine typed_bind _ _ ?_ (fun _ => ?_))
    | (refine typed_seq _ _ ?_ ?_)
    | split
    | (intro _)))

theorem typed_accessField (o : Opts) (g tag vtag : String) : Typed (accessField o g tag vtag) := by
  unfold accessField
  typed_step

theorem typed_finishArray (std : Stdlib) (fo : FOpts) (v : GoVal) : Typed (finishArray std fo v) := by
  unfold finishArray
  dsimp only
  typed_step

theorem typed_reifyPrimitiveT (std : Stdlib) (fo : FOpts) (ty : Ty) (v : Val) : Typed (reifyPrimitiveT std fo ty v) := by
  unfold reifyPrimitiveT
  typed_step

theorem typed_pathGet : ∀ (p : List Field) (cur : Val), Typed (pathGet tcPlain p cur)
  | [], cur => by simp only [pathGet]; exact typed_panic _
  | [f], cur => by
    simp only [pathGet]
    split
    · exact typed_raise _
    · rename_i r hr
      intro e he
      exact (hr e he).elim
  | f :: g :: rest, cur => by
    simp only [pathGet]
    split
    · exact typed_raise _
    · exact typed_pathGet (g :: rest) _
    · rename_i e he
      exact typed_err e (fieldGet_error_typed f cur e he)
    · exact typed_panic _
    · exact typed_fuel

structure TClaims (std : Stdlib) (n : Nat) : Prop where
  merge : ∀ (fo : FOpts) (ty : Ty) (old : GoVal) (v : Val), ty.noIface = true → Typed (mergeValue std n fo ty old v)
  reify : ∀ (fo : FOpts) (ty : Ty) (v : Val), ty.noIface = true → Typed (reifyValue std n fo ty v)
  strct : ∀ (o : Opts) (fs : List (String × String × String × Ty)) (xs : List GoVal) (cfg : Val), noIfaceFields fs = true →
    Typed (reifyStructT std n o fs xs cfg)
  getf : ∀ (fo : FOpts) (t : Ty) (x : GoVal) (cfg : Val) (name : String), t.noIface = true →
    Typed (getField' std n fo t x cfg name)
  slice : ∀ (fo : FOpts) (t : Ty) (old : Option (List GoVal)) (v : Val), t.noIface = true →
    Typed (sliceMerge std n fo t old v)
  arr : ∀ (fo : FOpts) (t : Ty) (start : Nat) (xs : List GoVal) (vs : List Val), t.noIface = true →
    Typed (doArray std n fo t start xs vs)
  mapc : ∀ (o : Opts) (vs : List VTag) (t : Ty) (m0 : Option (List (String × GoVal))) (sub : Val), t.noIface = true →
    Typed (reifyMapT std n o vs t m0 sub)
  ents : ∀ (o : Opts) (t : Ty) (m : List (String × GoVal)) (d : List (String × Val)), t.noIface = true →
    Typed (mapEntries std n o t m d)

/-- `typed_step` plus the claims one level below -/
macro "typed_ih" : tactic => `(tactic|
  repeat' (first
    | exact typed_ok _ | exact typed_panic _ | exact typed_fuel | exact typed_raise _ | exact typed_raiseValidation _
    | exact typed_err _ rfl
    | exact typed_reifyPrimitiveT _ _ _ _ | exact typed_finishArray _ _ _ | exact typed_accessField _ _ _ _
    | assumption
    | (apply typed_err; apply unpack_conversion_error_typed; assumption)
    | (apply typed_err; apply fieldGet_error_typed; assumption)
    | (apply TClaims.merge; assumption)
    | (apply TClaims.reify; assumption)
    | (apply TClaims.strct; assumption)
    | (apply TClaims.getf; assumption)
    | (apply TClaims.slice; assumption)
    | (apply TClaims.arr; assumption)
    | (apply TClaims.mapc; assumption)
    | (apply TClaims.ents; assumption)
    | (refine typed_bind _ _ ?_ (fun _ => ?_))
    | (refine typed_seq _ _ ?_ ?_)
    | split
    | (intro _)))

theorem t_arr_step (std : Stdlib) (n : Nat) (IH : TClaims std n) (fo : FOpts) (t : Ty) (start : Nat) (xs : List GoVal)
    (vs : List Val) (ht : t.noIface = true) : Typed (doArray std (n+1) fo t start xs vs) := by
  cases xs with
  | nil => simp only [doArray]; exact typed_ok _
  | cons x xr =>
    cases start with
    | succ st => simp only [doArray]; typed_ih
    | zero =>
      cases vs with
      | nil => simp only [doArray]; typed_ih
      | cons v vr => simp only [doArray]; typed_ih

theorem t_slice_step (std : Stdlib) (n : Nat) (IH : TClaims std n) (fo : FOpts) (t : Ty) (old : Option (List GoVal))
    (v : Val) (ht : t.noIface = true) : Typed (sliceMerge std (n+1) fo t old v) := by
  cases old with
  | none => simp only [sliceMerge]; typed_ih
  | some ol => simp only [sliceMerge]; typed_ih

theorem t_ents_step (std : Stdlib) (n : Nat) (IH : TClaims std n) (o : Opts) (t : Ty) (m : List (String × GoVal))
    (d : List (String × Val)) (ht : t.noIface = true) : Typed (mapEntries std (n+1) o t m d) := by
  cases d with
  | nil => simp only [mapEntries]; exact typed_ok _
  | cons kv r =>
    obtain ⟨k, v⟩ := kv
    simp only [mapEntries]
    typed_ih

theorem t_mapc_step (std : Stdlib) (n : Nat) (IH : TClaims std n) (o : Opts) (vs : List VTag) (t : Ty)
    (m0 : Option (List (String × GoVal))) (sub : Val) (ht : t.noIface = true) :
    Typed (reifyMapT std (n+1) o vs t m0 sub) := by
  simp only [reifyMapT]
  typed_ih

theorem t_getf_step (std : Stdlib) (n : Nat) (IH : TClaims std n) (fo : FOpts) (t : Ty) (x : GoVal) (cfg : Val)
    (name : String) (ht : t.noIface = true) : Typed (getField' std (n+1) fo t x cfg name) := by
  unfold getField'
  dsimp only
  have hp := typed_pathGet (parsePathOpts name fo.opts) cfg
  cases hpg : pathGet tcPlain (parsePathOpts name fo.opts) cfg with
  | ok vo => dsimp only; typed_ih
  | err e =>
    dsimp only
    have he : e.typed = true := hp e hpg
    by_cases hm : e.reason = Reason.missing
    · simp only [hm, if_true]; typed_ih
    · simp only [hm, if_false]; exact typed_err e he
  | panic s => exact typed_panic _
  | fuel => exact typed_fuel

theorem t_strct_step (std : Stdlib) (n : Nat) (IH : TClaims std n) (o : Opts)
    (fs : List (String × String × String × Ty)) (xs : List GoVal) (cfg : Val) (hf : noIfaceFields fs = true) :
    Typed (reifyStructT std (n+1) o fs xs cfg) := by
  cases fs with
  | nil => simp only [reifyStructT]; exact typed_ok _
  | cons f fr =>
    obtain ⟨g, tag, vtag, t⟩ := f
    simp only [noIfaceFields, Bool.and_eq_true] at hf
    obtain ⟨ht, hfr⟩ := hf
    cases xs with
    | nil => simp only [reifyStructT]; exact typed_ok _
    | cons x xr =>
      unfold reifyStructT
      refine typed_bind _ _ (typed_accessField _ _ _ _) (fun fio => ?_)
      cases fio with
      | none => dsimp only; typed_ih
      | some fi =>
        dsimp only
        refine typed_bind _ _ ?_ (fun _ => ?_)
        · by_cases hsq : fi.tag.squash = true
          · simp only [hsq, if_true]
            refine typed_seq _ _ ?_ ?_
            · typed_ih
            · typed_ih
              all_goals simp_all [Ty.noIface]
          · simp only [hsq, Bool.false_eq_true, if_false]
            typed_ih
        · typed_ih

theorem t_reify_step (std : Stdlib) (n : Nat) (IH : TClaims std n) (fo : FOpts) (ty : Ty) (v : Val)
    (ht : ty.noIface = true) : Typed (reifyValue std (n+1) fo ty v) := by
  cases ty with
  | iface => simp [Ty.noIface] at ht
  | ptr t => simp only [Ty.noIface] at ht; simp only [reifyValue]; typed_ih
  | slice t => simp only [Ty.noIface] at ht; simp only [reifyValue]; typed_ih
  | array k t => simp only [reifyValue]; typed_ih
  | map t => simp only [Ty.noIface] at ht; simp only [reifyValue]; typed_ih
  | strct fs => simp only [Ty.noIface] at ht; simp only [reifyValue]; typed_ih
  | prim k => simp only [reifyValue]; typed_ih
  | regexp => simp only [reifyValue]; typed_ih
  | config => simp only [reifyValue]; typed_ih
  | unsupported => simp only [reifyValue]; typed_ih
  | badmap => simp only [reifyValue]; typed_ih

theorem t_merge_step (std : Stdlib) (n : Nat) (IH : TClaims std n) (fo : FOpts) (ty : Ty) (old : GoVal) (v : Val)
    (ht : ty.noIface = true) : Typed (mergeValue std (n+1) fo ty old v) := by
  cases ty with
  | iface => simp [Ty.noIface] at ht
  | ptr t =>
    have ht' : t.noIface = true := by simpa [Ty.noIface] using ht
    cases old <;> simp only [mergeValue] <;> typed_ih <;> simp_all [Ty.noIface, noIfaceFields]
  | slice t =>
    have ht' : t.noIface = true := by simpa [Ty.noIface] using ht
    cases old <;> simp only [mergeValue] <;> typed_ih <;> simp_all [Ty.noIface, noIfaceFields]
  | array k t =>
    have ht' : t.noIface = true := by simpa [Ty.noIface] using ht
    cases old <;> simp only [mergeValue] <;> typed_ih <;> simp_all [Ty.noIface, noIfaceFields]
  | map t =>
    have ht' : t.noIface = true := by simpa [Ty.noIface] using ht
    cases old <;> simp only [mergeValue] <;> typed_ih <;> simp_all [Ty.noIface, noIfaceFields]
  | strct fs =>
    have ht' : noIfaceFields fs = true := by simpa [Ty.noIface] using ht
    cases old <;> simp only [mergeValue] <;> typed_ih <;> simp_all [Ty.noIface, noIfaceFields]
  | prim k => cases old <;> simp only [mergeValue] <;> typed_ih <;> simp_all [Ty.noIface, noIfaceFields]
  | regexp => cases old <;> simp only [mergeValue] <;> typed_ih <;> simp_all [Ty.noIface, noIfaceFields]
  | config => cases old <;> simp only [mergeValue] <;> typed_ih <;> simp_all [Ty.noIface, noIfaceFields]
  | unsupported => cases old <;> simp only [mergeValue] <;> typed_ih <;> simp_all [Ty.noIface, noIfaceFields]
  | badmap => cases old <;> simp only [mergeValue] <;> typed_ih <;> simp_all [Ty.noIface, noIfaceFields]

theorem tclaims (std : Stdlib) : ∀ n, TClaims std n := by
  intro n
  induction n with
  | zero =>
    refine ⟨?_, ?_, ?_, ?_, ?_, ?_, ?_, ?_⟩
    · intro fo ty old v _; simp only [mergeValue]; exact typed_fuel
    · intro fo ty v _; simp only [reifyValue]; exact typed_fuel
    · intro o fs xs cfg _; simp only [reifyStructT]; exact typed_fuel
    · intro fo t x cfg name _; simp only [getField']; exact typed_fuel
    · intro fo t old v _; simp only [sliceMerge]; exact typed_fuel
    · intro fo t start xs vs _; simp only [doArray]; exact typed_fuel
    · intro o vs t m0 sub _; simp only [reifyMapT]; exact typed_fuel
    · intro o t m d _; simp only [mapEntries]; exact typed_fuel
  | succ k ih =>
    exact ⟨t_merge_step std k ih, t_reify_step std k ih, t_strct_step std k ih, t_getf_step std k ih,
      t_slice_step std k ih, t_arr_step std k ih, t_mapc_step std k ih, t_ents_step std k ih⟩

/-- **C14, lifted.** Whatever the target type (anything without `interface{}`: structs with any tags incl. inline, pointers,
slices, arrays, maps, regexp, Config, unsupported kinds), the pre-filled value, the options and the configuration:
when `Unpack` fails, the error is a `ucfg.Error`. -/
theorem unpack_error_typed (std : Stdlib) (o : Opts) : ∀ (ty : Ty) (old : GoVal) (cfg : Val), ty.noIface = true →
    Typed (unpack std o ty old cfg)
  | .ptr t, old, cfg, h => by
    have IH := tclaims std unpackFuel
    have ht : t.noIface = true := by simpa [Ty.noIface] using h
    unfold unpack
    repeat' split
    all_goals first
      | exact typed_raise _
      | exact IH.merge _ _ _ _ h
      | exact typed_bind _ _ (unpack_error_typed std o t _ cfg ht) (fun _ => typed_ok _)
  | .map t, old, cfg, h => by
    have IH := tclaims std unpackFuel
    have ht : t.noIface = true := by simpa [Ty.noIface] using h
    unfold unpack
    typed_ih
  | .strct fs, old, cfg, h => by
    have IH := tclaims std unpackFuel
    have ht : noIfaceFields fs = true := by simpa [Ty.noIface] using h
    unfold unpack
    typed_ih
  | .slice t, old, cfg, h => by
    have IH := tclaims std unpackFuel
    unfold unpack
    exact IH.merge _ _ _ _ h
  | .array k t, old, cfg, h => by
    have IH := tclaims std unpackFuel
    unfold unpack
    exact IH.merge _ _ _ _ h
  | .config, old, cfg, _ => by unfold unpack; typed_ih
  | .prim k, old, cfg, _ => by unfold unpack; exact typed_raise _
  | .regexp, old, cfg, _ => by unfold unpack; exact typed_raise _
  | .iface, old, cfg, h => by simp [Ty.noIface] at h
  | .unsupported, old, cfg, _ => by unfold unpack; exact typed_raise _
  | .badmap, old, cfg, _ => by unfold unpack; exact typed_raise _

/-- in the words of the statement: an error that comes back is typed -/
theorem unpack_failure_is_ucfg_error (std : Stdlib) (o : Opts) (ty : Ty) (old : GoVal) (cfg : Val) (e : Err)
    (hty : ty.noIface = true) (h : unpack std o ty old cfg = .err e) : e.typed = true :=
  unpack_error_typed std o ty old cfg hty e h


/-! non-vacuity -/
example : (reifyPrim default (.int 8) (.int 300)).isErr = true := by decide
example : (fieldGet tcPlain (.named "a") (.prim (.int 1))).isErr = true := by decide
example : (Ty.strct [("A", "a", "min=1", .ptr (.map (.slice (.prim (.int 64))))), ("R", "r,inline", "", .regexp)]).noIface = true := by decide

end Ucfg.C14
