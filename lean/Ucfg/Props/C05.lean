import Ucfg.Model.Normalize
namespace Ucfg.C05
theorem placeholder : True := trivial
end Ucfg.C05
