import Ucfg.Lemmas.Dict
import Ucfg.Model.Normalize
import Ucfg.Model.Reify
import Ucfg.Lemmas.Canonical
import Ucfg.Props.C16
/-
  C05 — every input shape normalizes to the same canonical tree.
-/
namespace Ucfg.C05
open Ucfg

/-- integers keep their numeric value through normalisation (positive ones are carried as uint64) -/
theorem normValue_int (o : Opts) (i : Int) :
    normValue o (.int i) = .ok (if i > 0 then .prim (.uint i.toNat) else .prim (.int i)) := by
  unfold normValue; rfl

/-- without variable expansion a string is stored verbatim, whatever it contains -/
theorem normValue_str (o : Opts) (s : String) (h : o.varexp = false) :
    normValue o (.str s) = .ok (.prim (.str s)) := by
  unfold normValue; simp [normalizeString, h]

/-- durations and regular expressions are normalised to their textual form -/
theorem normValue_dur (o : Opts) (t : String) : normValue o (.dur t) = .ok (.prim (.str t)) := by
  unfold normValue; rfl

/-- a regular expression - held by pointer or by value (the repaired D56), the model does not tell them apart - is its text -/
theorem normValue_regex (o : Opts) (t : String) : normValue o (.regex t) = .ok (.prim (.str t)) := by
  unfold normValue; rfl

/-- a value no setting can be made from (channel, function, complex number, uintptr - the repaired D58) is an error of the
input, whatever the options: never a value, never a panic -/
theorem normValue_unsupported (o : Opts) : normValue o .unsupported = Outcome.raise .typeMismatch := by
  unfold normValue; rfl

/-- Two definitions of one setting inside one input, neither nil and not both containers, are a
duplicate — in either order. -/
theorem combine_duplicate (o v : Val) (hv : v.isNilPrim = false) (ho : o.isNilPrim = false)
    (hns : (o.isSub && v.isSub) = false) :
    combineV (some o) v = Outcome.raise .duplicateKey := by
  cases v with
  | prim p =>
    cases p with
    | nil => simp [Val.isNilPrim] at hv
    | _ => cases o with
      | prim q => (cases q with
        | nil => simp [Val.isNilPrim] at ho
        | _ => unfold combineV; rfl)
      | dyn i e => unfold combineV; rfl
      | sub d a hd ha => unfold combineV; rfl
  | dyn i e =>
    cases o with
    | prim q => (cases q with
        | nil => simp [Val.isNilPrim] at ho
        | _ => unfold combineV; rfl)
    | dyn j f => unfold combineV; rfl
    | sub d a hd ha => unfold combineV; rfl
  | sub d2 a2 hd2 ha2 =>
    cases o with
    | prim q => (cases q with
        | nil => simp [Val.isNilPrim] at ho
        | _ => unfold combineV; rfl)
    | dyn j f => unfold combineV; rfl
    | sub d a hd ha => simp [Val.isSub] at hns

/-- a nil definition next to a real one changes nothing, whichever comes first -/
theorem combine_nil_right (old : Val) : combineV (some old) Val.nilV = .ok none := by
  unfold combineV; rfl

/-- ... and a nil definition of a name that does not exist yet makes the name exist, as it does when it is visited first -/
theorem combine_nil_new : combineV none Val.nilV = .ok (some Val.nilV) := by
  unfold combineV; rfl

theorem combine_nil_left (v : Val) (hv : v.isNilPrim = false) :
    combineV (some Val.nilV) v = .ok (some (cpy v)) := by
  cases v with
  | prim p => (cases p with
    | nil => simp [Val.isNilPrim] at hv
    | _ => unfold combineV; rfl)
  | dyn i e => unfold combineV; rfl
  | sub d a hd ha => unfold combineV; rfl

/-- the generic view of a primitive is the primitive -/
theorem reify_prim (p : Prim) : reifyP (.prim p) = .ok p.toData := by
  unfold reifyP; rfl

/-! non-vacuity -/
example : (Val.prim (.int 1)).isNilPrim = false := rfl

/-! ### the lift: NewFrom then Unpack into interface{} returns the data

`expect` (Lemmas/Canonical.lean) is the generic view written on the Go data alone.  For every plain input map - scalars,
non-empty lists and non-empty string-keyed maps nested to any depth, keys that are single path segments and all different,
no variable expansion - creating a config from it and reifying it returns exactly that view: map entries sorted by key,
positive integers unsigned, durations and regexps as their text. -/

theorem newFrom_then_reify (o : Opts) (m : List (String × GoData)) (hv : o.varexp = false) (hft : o.fieldTree = none)
    (hp : plainData o (.map m) = true) :
    (newFrom o (.map m) >>= reifyP) = .ok (expect (.map m)) := by
  have hp' := hp
  simp only [plainData, Bool.and_eq_true, Bool.not_eq_true', List.isEmpty_eq_false_iff] at hp'
  obtain ⟨d', hd', hn, hr, hs, hne⟩ := normM_expect o hv m [] [] [] false hp'.2 (by simp [reifyD]) rfl (by simp [dget])
  have hdne : d' ≠ [] := hne hp'.1
  have hmne : m ≠ [] := hp'.1
  -- NewFrom: normalize, then merge into the empty config
  have hnew : newFrom o (.map m) = .ok (mergeP o.handling Val.empty (.sub d' [] hd' false)) := by
    unfold newFrom cfgMerge
    cases m with
    | nil => exact absurd rfl hmne
    | cons e r =>
      simp only [normalize]
      have he : (Val.empty : Val) = .sub [] [] false false := rfl
      rw [he, hn]
      simp only [Outcome.bind_ok, mergeCfg, hft, C16.noTree_eq_global]
  rw [hnew]
  simp only [Outcome.bind_ok]
  -- the merged tree: deep copies of the entries, in order
  have hmerge : ∃ A' h1 h2, mergeP o.handling Val.empty (.sub d' [] hd' false) = .sub (cpyD d') A' h1 h2 ∧ A' = [] := by
    unfold mergeP
    simp only
    unfold mergeValsP
    have hD : d'.isEmpty = false := by
      cases d' with
      | nil => exact absurd rfl hdne
      | cons e r => rfl
    have hinner : (if o.handling = Handling.replace then ([] : Dict) else []) = [] := by split <;> rfl
    simp only [Val.empty, toCfg?, hD, Bool.false_eq_true, if_false, hinner]
    rw [mergeDictP_sorted o.handling d' [] hs (by intro e he; cases he)]
    refine ⟨_, _, _, rfl, ?_⟩
    cases o.handling <;> simp [arrPolicy, mergeArrP, cpyA]
  obtain ⟨A', h1, h2, hm, hA⟩ := hmerge
  rw [hm, hA]
  -- its view is the view of the normalized tree
  have hview : reifyP (.sub (cpyD d') [] h1 h2) = .ok (.map (expectM [] m)) := by
    cases hc : cpyD d' with
    | nil =>
      cases d' with
      | nil => exact absurd rfl hdne
      | cons e r => obtain ⟨k, v⟩ := e; simp [cpyD] at hc
    | cons e r =>
      obtain ⟨k, v⟩ := e
      unfold reifyP
      simp only
      rw [← hc, reifyD_cpy d', hr]
      rfl
  rw [hview]
  simp [expect]

/-! non-vacuity: a nested input in the universe of the theorem -/
example : plainData {} (.map [("b", .list [.int 3, .str "x"]), ("a", .map [("k", .bool true)])]) = true := by decide

end Ucfg.C05
