import Ucfg.Lemmas.Dict
import Ucfg.Model.Normalize
import Ucfg.Model.Reify
/-
  C05 — every input shape normalizes to the same canonical tree.
-/
namespace Ucfg.C05
open Ucfg

/-- integers keep their numeric value through normalisation (positive ones are carried as uint64) -/
theorem normValue_int (o : Opts) (i : Int) :
    normValue o (.int i) = .ok (if i > 0 then .prim (.uint i.toNat) else .prim (.int i)) := by
  unfold normValue; rfl

/-- without variable expansion a string is stored verbatim, whatever it contains -/
theorem normValue_str (o : Opts) (s : String) (h : o.varexp = false) :
    normValue o (.str s) = .ok (.prim (.str s)) := by
  unfold normValue; simp [normalizeString, h]

/-- durations and regular expressions are normalised to their textual form -/
theorem normValue_dur (o : Opts) (t : String) : normValue o (.dur t) = .ok (.prim (.str t)) := by
  unfold normValue; rfl

/-- Two definitions of one setting inside one input, neither nil and not both containers, are a
duplicate — in either order. -/
theorem combine_duplicate (o v : Val) (hv : v.isNilPrim = false) (ho : o.isNilPrim = false)
    (hns : (o.isSub && v.isSub) = false) :
    combineV (some o) v = Outcome.raise .duplicateKey := by
  cases v with
  | prim p =>
    cases p with
    | nil => simp [Val.isNilPrim] at hv
    | _ => cases o with
      | prim q => (cases q with
        | nil => simp [Val.isNilPrim] at ho
        | _ => unfold combineV; rfl)
      | dyn i e => unfold combineV; rfl
      | sub d a hd ha => unfold combineV; rfl
  | dyn i e =>
    cases o with
    | prim q => (cases q with
        | nil => simp [Val.isNilPrim] at ho
        | _ => unfold combineV; rfl)
    | dyn j f => unfold combineV; rfl
    | sub d a hd ha => unfold combineV; rfl
  | sub d2 a2 hd2 ha2 =>
    cases o with
    | prim q => (cases q with
        | nil => simp [Val.isNilPrim] at ho
        | _ => unfold combineV; rfl)
    | dyn j f => unfold combineV; rfl
    | sub d a hd ha => simp [Val.isSub] at hns

/-- a nil definition next to a real one changes nothing, whichever comes first -/
theorem combine_nil_right (old : Val) : combineV (some old) Val.nilV = .ok none := by
  unfold combineV; rfl

/-- ... and a nil definition of a name that does not exist yet makes the name exist, as it does when it is visited first -/
theorem combine_nil_new : combineV none Val.nilV = .ok (some Val.nilV) := by
  unfold combineV; rfl

theorem combine_nil_left (v : Val) (hv : v.isNilPrim = false) :
    combineV (some Val.nilV) v = .ok (some (cpy v)) := by
  cases v with
  | prim p => (cases p with
    | nil => simp [Val.isNilPrim] at hv
    | _ => unfold combineV; rfl)
  | dyn i e => unfold combineV; rfl
  | sub d a hd ha => unfold combineV; rfl

/-- the generic view of a primitive is the primitive -/
theorem reify_prim (p : Prim) : reifyP (.prim p) = .ok p.toData := by
  unfold reifyP; rfl

/-! non-vacuity -/
example : (Val.prim (.int 1)).isNilPrim = false := rfl

end Ucfg.C05
