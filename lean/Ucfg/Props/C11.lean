import Ucfg.Lemmas.Forest
import Ucfg.Lemmas.ForestMerge
import Ucfg.Props.C10
/-!
  C11 — reads are pure.

  In the model a read is a function *of* the tree that returns no tree: purity is a matter of types, and the theorems
  below only make explicit what that means for the two places where the Go code could plausibly write while reading.
  * a config used as a merge source is only copied from (`merge_source_only_read` for one copy,
    `whole_merge_only_reads_source` for Merge as a whole, from C10's frame theorem);
  * evaluating references threads the per-call cache and nothing else: the `EM` monad's state is `Cache`, the tree is
    an argument (opts.go: "nothing is cached on the value"), and C08's `cache_only_primitives` shows that what the
    cache holds are primitives, never a piece of the shared tree.
  The statement about goroutines is about the Go memory model, which no functional model can exhibit: it is decided by
  running the real readers concurrently under the race detector (kind `concurrent`) and by comparing the fingerprint
  of every config before and after every read (kind `forest`).  C11 is therefore claimed as partial.
-/
namespace Ucfg.C11
open Ucfg.Forest

/-- using a config as a merge source reads it: every node it consists of is identical afterwards -/
theorem merge_source_only_read (n : Nat) (h h' : Heap) (src id' : Id) (p : Option Id) (f : String)
    (he : Forest.cpy n h src p f = some (h', id')) : ∀ (i : Nat) (nd : Node), h[i]? = some nd → h'[i]? = some nd :=
  fun i nd hi => cpy_old_nodes he i nd hi

/-- the same for Merge as a whole (Model/Forest.lean `mergeH`, every list policy): when the destination lies outside a
set `S` of nodes that nothing else points into - the source's tree - every node of `S` is identical afterwards.  A
config can be the source of any number of merges, NewFrom calls and Unpacks while others read it. -/
theorem whole_merge_only_reads_source (S : Id → Prop) (n cf : Nat) (pol : ArrPol) (h h' : Heap) (to frm : Id)
    (hS : ∀ i : Nat, S i → i < h.length) (hsep : Sep S h) (hto : ¬ S to)
    (he : mergeH n cf pol h to frm = some h') : ∀ i, S i → h'[i]? = h[i]? :=
  ((mclaims S h.length hS n).mh cf pol h h' to frm (Nat.le_refl _) hsep hto he).2.1.1

/-- NewFrom of a value that embeds configs reads them: every node that existed is identical afterwards (C10's
`newFrom_leaves_everything_untouched`, restated here for the readers' side) -/
theorem newFrom_only_reads_embedded (n cf : Nat) (pol : ArrPol) (h h' : Heap) (src : Src) (root : Id)
    (he : newFromH n cf pol h src = some (h', root)) : ∀ (i : Nat) (nd : Node), h[i]? = some nd → h'[i]? = some nd := by
  intro i nd hi
  have hlt : i < h.length := by
    apply Nat.lt_of_not_le
    intro hle
    rw [List.getElem?_eq_none hle] at hi
    cases hi
  rw [← hi]
  exact Ucfg.C10.newFrom_leaves_everything_untouched n cf pol h h' src root he i hlt

end Ucfg.C11

namespace Ucfg.C11
open Ucfg.Forest

/-- parent links of existing nodes stay inside the heap -/
def Closed (h : Heap) : Prop := ∀ (i : Nat) (nd : Node) (p : Id), h[i]? = some nd → nd.parent = some p → p < h.length

/-- Path() of any existing node is the same in every extension of the heap: creating configs from a config (Merge with
it as the source, NewFrom embedding it, Child+Unpack building temporaries) does not change what a concurrent or later
Path() returns -/
theorem path_same_after_allocation (h t : Heap) (hc : Closed h) :
    ∀ (fuel : Nat) (id : Id), id < h.length → storedPath fuel (h ++ t) id = storedPath fuel h id := by
  intro fuel
  induction fuel with
  | zero => intro id _; rfl
  | succ n ih =>
    intro id hid
    simp only [storedPath]
    rw [List.getElem?_append_left hid]
    cases hn : h[id]? with
    | none => rfl
    | some nd =>
      simp only
      cases hp : nd.parent with
      | none => rfl
      | some p =>
        simp only
        rw [ih p (hc id nd p hn hp)]

/-- the same for Child(): looking a name or an index up in an existing node -/
theorem child_same_after_allocation (h t : Heap) (id : Id) (hid : id < h.length) (k : String) (i : Nat) :
    childNamed (h ++ t) id k = childNamed h id k ∧ childAt (h ++ t) id i = childAt h id i := by
  unfold childNamed childAt getSub
  rw [List.getElem?_append_left hid]
  exact ⟨rfl, rfl⟩

/-- together with `cpy_good`: while a config is used as a merge source, Path() of every existing node is unchanged -/
theorem path_same_while_merge_source (n : Nat) (h h' : Heap) (src id' : Id) (p : Option Id) (f : String)
    (he : Forest.cpy n h src p f = some (h', id')) (hc : Closed h) (fuel : Nat) (id : Id) (hid : id < h.length) :
    storedPath fuel h' id = storedPath fuel h id := by
  obtain ⟨t, rfl, _, _, _⟩ := cpy_good n 0 h src p f h' id' (Nat.zero_le _) he
  exact path_same_after_allocation h t hc fuel id hid

/-- non-vacuity: a closed two-node heap -/
example : Closed [⟨none, "", .sub [("a", 1)] []⟩, ⟨some 0, "a", .prim "int" "7"⟩] := by
  intro i nd p hi hp
  match i, hi with
  | 0, hi => simp at hi; subst hi; simp at hp
  | 1, hi => simp at hi; subst hi; simp at hp; subst hp; decide
  | n+2, hi => simp at hi

end Ucfg.C11
