import Ucfg.Lemmas.Forest
/-!
  C11 — reads are pure.

  In the model a read is a function *of* the tree that returns no tree: purity is a matter of types, and the theorems
  below only make explicit what that means for the two places where the Go code could plausibly write while reading.
  * a config used as a merge source is only copied from (`merge_source_only_read`, from C10's copy theorems);
  * evaluating references threads the per-call cache and nothing else: the `EM` monad's state is `Cache`, the tree is
    an argument (opts.go: "nothing is cached on the value"), and C08's `cache_only_primitives` shows that what the
    cache holds are primitives, never a piece of the shared tree.
  The statement about goroutines is about the Go memory model, which no functional model can exhibit: it is decided by
  running the real readers concurrently under the race detector (kind `concurrent`) and by comparing the fingerprint
  of every config before and after every read (kind `forest`).  C11 is therefore claimed as partial.
-/
namespace Ucfg.C11
open Ucfg.Forest

/-- using a config as a merge source reads it: every node it consists of is identical afterwards -/
theorem merge_source_only_read (n : Nat) (h h' : Heap) (src id' : Id) (p : Option Id) (f : String)
    (he : Forest.cpy n h src p f = some (h', id')) : ∀ (i : Nat) (nd : Node), h[i]? = some nd → h'[i]? = some nd :=
  fun i nd hi => cpy_old_nodes he i nd hi

end Ucfg.C11
