import Ucfg.Spec.C20
import Ucfg.Model.Normalize
/-
  C20 — numeric path segments index lists only within [0, MaxIdx].

  The theorems are stated against `Extracted.guard_parseField`, the Lean term the
  extractor regenerates from path.go on every run: if the condition in the source
  changes (e.g. the `idx >= 0` conjunct disappears) the proofs below stop checking.
-/
namespace Ucfg.C20
open Ucfg

/-- A segment becomes an index exactly when numeric keys are off and it is an integer
literal (in any Go syntax) between 0 and MaxIdx. -/
theorem parseField_index_iff (s : String) (m : Int) (enk : Bool) (i : Int) :
    parseField s m enk = .idx i ↔ (enk = false ∧ IntLit.parseIntS s = some i ∧ 0 ≤ i ∧ i ≤ m) := by
  unfold parseField
  cases enk with
  | true => simp
  | false =>
    cases h : IntLit.parseIntS s with
    | none => simp
    | some j =>
      simp only [Extracted.guard_parseField, Bool.false_eq_true, if_false, true_and, Option.some.injEq]
      by_cases hj : (0 ≤ j ∧ j ≤ m)
      · have hg : (decide (j ≥ 0) && decide (j ≤ m)) = true := by simp [hj.1, hj.2]
        simp only [hg, if_true, Field.idx.injEq]
        constructor
        · intro e; subst e; exact ⟨rfl, hj.1, hj.2⟩
        · rintro ⟨e, _, _⟩; exact e
      · have hg : (decide (j ≥ 0) && decide (j ≤ m)) = false := by
          by_cases h0 : 0 ≤ j
          · have : ¬ j ≤ m := fun h => hj ⟨h0, h⟩
            simp [this]
          · simp [h0]
        simp only [hg, Bool.false_eq_true, if_false]
        constructor
        · intro e; cases e
        · rintro ⟨e, h1, h2⟩; subst e; exact absurd ⟨h1, h2⟩ hj

/-- Every other segment is an ordinary name that round-trips unchanged. -/
theorem parseField_named_otherwise (s : String) (m : Int) (enk : Bool)
    (h : ¬ ∃ i, enk = false ∧ IntLit.parseIntS s = some i ∧ 0 ≤ i ∧ i ≤ m) :
    parseField s m enk = .named s := by
  cases hp : parseField s m enk with
  | named t =>
    unfold parseField at hp
    split at hp
    · cases hp; rfl
    · split at hp
      · split at hp
        · cases hp
        · cases hp; rfl
      · cases hp; rfl
  | idx i => exact absurd ⟨i, (parseField_index_iff s m enk i).mp hp⟩ h

/-- The model's classification agrees with the specification's, for every key. -/
theorem parseField_eq_spec (s : String) (m : Int) (enk : Bool) :
    parseField s m enk =
      (match Spec.C20.isIndex s m enk with
       | some n => Field.idx n
       | none => Field.named s) := by
  unfold Spec.C20.isIndex
  cases enk with
  | true => simp [parseField]
  | false =>
    simp only [Bool.false_eq_true, if_false]
    cases h : IntLit.parseIntS s with
    | none => simp [parseField, h]
    | some j =>
      by_cases hj : (0 ≤ j ∧ j ≤ m)
      · simp only [hj, and_self, if_true]
        have : parseField s m false = .idx j := (parseField_index_iff s m false j).mpr ⟨rfl, h, hj.1, hj.2⟩
        rw [this]; congr 1; omega
      · simp only [hj, if_false]
        apply parseField_named_otherwise
        rintro ⟨i, _, e, h1, h2⟩
        rw [h] at e; cases e; exact hj ⟨h1, h2⟩

/-- A negative literal is never an index, whatever MaxIdx is. -/
theorem negative_is_name (s : String) (m : Int) (enk : Bool) (i : Int)
    (hp : IntLit.parseIntS s = some i) (hneg : i < 0) : parseField s m enk = .named s := by
  apply parseField_named_otherwise
  rintro ⟨j, _, e, h0, _⟩
  rw [hp] at e; cases e; omega

/-- With EnableNumKeys a single-segment numeric key is a name. -/
theorem numKeys_is_name (s : String) (m : Int) : parseField s m true = .named s := by
  simp [parseField]

/-- A key with more than one segment is parsed with numeric keys disabled, whatever the option says. -/
theorem multi_segment_disables_numkeys (s sep : String) (m : Int) (enk esc : Bool)
    (hsep : (sep == "") = false) (hesc : (esc && escapedPath s) = false)
    (hlen : (splitOn s sep).length > 1) :
    parsePath s sep m enk esc = (splitOn s sep).map (fun e => parseField e m false) := by
  unfold parsePath
  simp [hsep, hesc, hlen]

/-- fields.setAt grows a list to exactly max(len, idx+1) slots. -/
theorem asetNat_length (a : List Val) (n : Nat) (v : Val) :
    (asetNat a n v).length = max a.length (n + 1) := by
  induction a generalizing n with
  | nil =>
    induction n with
    | zero => simp [asetNat]
    | succ k ih => simp [asetNat, ih]
  | cons x r ih =>
    cases n with
    | zero => simp [asetNat] <;> omega
    | succ k => simp [asetNat, ih] <;> omega

/-- the regenerated guard of idxField.SetValue rejects exactly the indices outside [0, MaxIdx] -/
theorem idxSet_reject_iff (i m : Int) :
    Extracted.guard_idxSet_reject i m = true ↔ (i < 0 ∨ m < i) := by
  simp [Extracted.guard_idxSet_reject]

/-- No single write makes a list grow beyond MaxIdx+1 entries (or its previous length). -/
theorem growth_bound (o : Opts) (f : Field) (d : Dict) (a : List Val) (hd ha : Bool) (v t : Val)
    (hmax : 0 ≤ o.maxIdx)
    (h : fieldSet o f (.sub d a hd ha) v = .ok t) :
    t.arr.length ≤ max a.length (o.maxIdx.toNat + 1) := by
  unfold fieldSet at h
  cases f with
  | named n => simp at h; cases h; simp [Val.arr]; omega
  | idx i =>
    by_cases hr : Extracted.guard_idxSet_reject i o.maxIdx = true
    · simp [hr, Outcome.raise] at h
    · by_cases h2 : i < 0
      · simp [hr, h2] at h
      · by_cases h3 : i ≥ hugeAlloc
        · simp [hr, h2, h3] at h
        · simp only [hr, h2, h3, if_false, Bool.false_eq_true] at h
          cases h
          simp only [Val.arr, asetNat_length]
          have h4 : ¬ (i < 0 ∨ o.maxIdx < i) := fun hh => hr ((idxSet_reject_iff i o.maxIdx).mpr hh)
          have h5 : i ≤ o.maxIdx := by
            by_cases hh : o.maxIdx < i
            · exact absurd (Or.inr hh) h4
            · omega
          omega

/-- The same bound for every intermediate node cfgPath.SetValue builds for a new key. -/
theorem buildChain_top_bound (o : Opts) (fs : List Field) (f : Field) (v t : Val)
    (hmax : 0 ≤ o.maxIdx)
    (h : buildChain o (f :: fs) v = .ok t) : t.arr.length ≤ o.maxIdx.toNat + 1 := by
  simp only [buildChain] at h
  cases hb : buildChain o fs v with
  | ok inner =>
    rw [hb] at h
    have := growth_bound o f [] [] false false inner t hmax (by simpa [Val.empty] using h)
    simpa using this
  | err e => rw [hb] at h; cases h
  | panic s => rw [hb] at h; cases h
  | fuel => rw [hb] at h; cases h

/-! non-vacuity: concrete instances of the hypotheses -/
example : parseField "7" 1024 false = .idx 7 := by decide
example : parseField "0x10" 1024 false = .idx 16 := by decide
example : parseField "-1" 1024 false = .named "-1" := by decide
example : parseField "1025" 1024 false = .named "1025" := by decide
example : parseField "7" 1024 true = .named "7" := by decide
example : (fieldSet {} (.idx 3) Val.empty (.prim (.int 1))).isOk = true := by decide

end Ucfg.C20
