import Ucfg.Spec.C03
import Ucfg.Props.C03
import Ucfg.Model.Normalize
import Ucfg.Model.Unpack
import Ucfg.Props.C09
import Ucfg.Props.C04
import Ucfg.Props.C01
import Ucfg.Props.C16
import Ucfg.Lemmas.DictSorted
/-
  C06 — struct -> Config -> struct is the identity.

  Proved: every primitive value of every sized kind survives normalisation (the split into
  int64 / uint64 carriers, strings stored verbatim) followed by typed unpacking into its own
  kind, and the lift to whole structs of primitive fields (`flat_struct_roundtrip`: NewFrom then
  Unpack is the identity, for any number of exported untagged fields with distinct simple names).
  PARTIAL: the lift through tags, pointers, slices, arrays, maps and nested structs is not
  mechanised; the correspondence check compares whole generated structs (nil = empty collection).
-/
namespace Ucfg.C06
open Ucfg Outcome Ucfg.Spec.C03

/-- what a signed field of `bits` bits holding `i` comes back as -/
def backInt (std : Stdlib) (o : Opts) (bits : Nat) (i : Int) : Outcome Scalar :=
  normValue o (.int i) >>= fun v =>
    match v with
    | .prim p => reifyPrim std (.int bits) p
    | _ => raise .typeMismatch

/-- every intN value survives the positive-goes-to-uint64 split of normalizeValue and the
OverflowInt check of its own kind -/
theorem int_roundtrip (std : Stdlib) (o : Opts) (bits : Nat) (i : Int)
    (hb : bits = 8 ∨ bits = 16 ∨ bits = 32 ∨ bits = 64) (hr : intRange bits i = true) :
    C03.toOpt (backInt std o bits i) = some (.int i) := by
  unfold backInt
  rw [show normValue o (.int i) = .ok (if i > 0 then .prim (.uint i.toNat) else .prim (.int i)) by unfold normValue; rfl]
  by_cases hp : i > 0
  · simp only [hp, if_true, Outcome.bind_ok]
    rw [C03.reify_int_meets_spec std bits (.uint i.toNat) hb]
    have hi : ((i.toNat : Nat) : Int) = i := by omega
    simp [specConv, hi, hr]
  · simp only [hp, if_false, Outcome.bind_ok]
    rw [C03.reify_int_meets_spec std bits (.int i) hb]
    simp [specConv, hr]

/-- without variable expansion a string field is stored and read back verbatim, whatever it
contains ('$', '.', ',', braces, quotes) -/
theorem string_roundtrip (std : Stdlib) (o : Opts) (s : String) (h : o.varexp = false) :
    (normValue o (.str s) >>= fun v =>
      match v with
      | .prim p => reifyPrim std .string p
      | _ => raise .typeMismatch) = .ok (.str s) := by
  have : normValue o (.str s) = .ok (.prim (.str s)) := by unfold normValue; simp [normalizeString, h]
  rw [this]
  simp [reifyPrim, Prim.toStr, reifyPrim.wrap]

/-- booleans -/
theorem bool_roundtrip (std : Stdlib) (o : Opts) (b : Bool) :
    (normValue o (.bool b) >>= fun v =>
      match v with
      | .prim p => reifyPrim std .bool p
      | _ => raise .typeMismatch) = .ok (.bool b) := by
  have : normValue o (.bool b) = .ok (.prim (.bool b)) := by unfold normValue; rfl
  rw [this]
  simp [reifyPrim, Prim.toBool, reifyPrim.wrap]

/-- float64 values, including NaN and the infinities, are carried bit for bit -/
theorem float64_roundtrip (std : Stdlib) (o : Opts) (bits : Nat) :
    (normValue o (.float bits) >>= fun v =>
      match v with
      | .prim p => reifyPrim std (.float 64) p
      | _ => raise .typeMismatch) = .ok (.float bits) := by
  have : normValue o (.float bits) = .ok (.prim (.float bits)) := by unfold normValue; rfl
  rw [this]
  simp [reifyPrim, Prim.toFloat, reifyPrim.wrap]

/-- every uintN value of every width comes back unchanged -/
theorem uint_roundtrip (std : Stdlib) (o : Opts) (bits n : Nat) (hr : n < 2 ^ bits) :
    (normValue o (.uint n) >>= fun v =>
      match v with
      | .prim p => reifyPrim std (.uint bits) p
      | _ => raise .typeMismatch) = .ok (.uint n) := by
  have : normValue o (.uint n) = .ok (.prim (.uint n)) := by unfold normValue; rfl
  rw [this]
  have ho : overflowUint bits n = false := by simp [overflowUint, hr]
  simp [reifyPrim, Prim.toUint, reifyPrim.wrap, ho]

/-- a signed field never comes back as a different number: if the round trip succeeds at all, it returns `i`
(for every width, whether or not `i` fits - a value outside the field's range cannot be in the field to begin with) -/
theorem int_roundtrip_never_alters (std : Stdlib) (o : Opts) (bits : Nat) (i : Int) (s : Scalar)
    (hb : bits = 8 ∨ bits = 16 ∨ bits = 32 ∨ bits = 64) (h : backInt std o bits i = .ok s) : s = .int i := by
  unfold backInt at h
  rw [show normValue o (.int i) = .ok (if i > 0 then .prim (.uint i.toNat) else .prim (.int i)) by unfold normValue; rfl] at h
  by_cases hp : i > 0
  · simp only [hp, if_true, Outcome.bind_ok] at h
    have hs := C03.reify_int_meets_spec std bits (.uint i.toNat) hb
    rw [h] at hs
    have hi : ((i.toNat : Nat) : Int) = i := by omega
    simp only [C03.toOpt, specConv, hi] at hs
    split at hs <;> simp_all
  · simp only [hp, if_false, Outcome.bind_ok] at h
    have hs := C03.reify_int_meets_spec std bits (.int i) hb
    rw [h] at hs
    simp only [C03.toOpt, specConv] at hs
    split at hs <;> simp_all

/-! non-vacuity -/
example : intRange 8 (-128) = true := by decide
example : intRange 64 (2^63 - 1) = true := by decide

/-! ### the lift: a struct of primitive fields comes back as it went in

`Item`: one field - its Go name, kind and value as Go data, the primitive the normalizer stores and the scalar the
unpacker returns (the per-kind theorems above provide these for every value of every kind).  For any number of such
fields with distinct simple names: `NewFrom(struct)` followed by `Unpack` into the zero value of the same struct type
returns exactly the scalars. -/

structure Item where
  g : String
  k : Kind
  x : GoData
  p : Prim
  s : Scalar

def Item.name (it : Item) : String := goLower it.g

def Item.good (std : Stdlib) (o : Opts) (it : Item) : Prop :=
  exported it.g = true ∧ C09.SimpleKey o it.name ∧ normValue o it.x = .ok (.prim it.p) ∧ it.p ≠ .nil ∧
  reifyPrim std it.k it.p = .ok it.s

def foldDset (d : Dict) (items : List Item) : Dict := items.foldl (fun d it => dset d it.name (.prim it.p)) d

theorem foldDset_sorted : ∀ (items : List Item) (d : Dict), dSorted d = true → dSorted (foldDset d items) = true
  | [], d, h => h
  | it :: r, d, h => by
    simp only [foldDset, List.foldl_cons]
    exact foldDset_sorted r _ (dset_sorted d _ _ h)

theorem foldDset_get : ∀ (items : List Item) (d : Dict) (k : String), (items.map Item.name).Nodup →
    dget (foldDset d items) k =
      (match items.find? (fun it => it.name == k) with
       | some it => some (.prim it.p)
       | none => dget d k)
  | [], d, k, _ => by simp [foldDset]
  | it :: r, d, k, hnd => by
    simp only [List.map_cons, List.nodup_cons] at hnd
    simp only [foldDset, List.foldl_cons]
    have ih := foldDset_get r (dset d it.name (.prim it.p)) k hnd.2
    simp only [foldDset] at ih
    rw [ih]
    by_cases hk : it.name = k
    · subst hk
      have hnone : r.find? (fun it' => it'.name == it.name) = none := by
        rw [List.find?_eq_none]
        intro it' hit'
        simp only [beq_iff_eq]
        intro he
        exact hnd.1 (he ▸ List.mem_map_of_mem hit')
      simp [List.find?_cons, hnone, dget_dset_same]
    · have hb : (it.name == k) = false := by simpa using hk
      simp only [List.find?_cons, hb]
      cases r.find? (fun it' => it'.name == k) with
      | some it' => rfl
      | none => simp [dget_dset_other _ _ _ _ hk]

theorem parseTags_empty : parseTags "" = ("", {}) := by decide

/-- normalizeStructInto over untagged exported fields with distinct simple names that are new to the config -/
theorem normStruct_plain (std : Stdlib) (o : Opts) (a : List Val) (ha : Bool) :
    ∀ (items : List Item) (d : Dict) (hd : Bool), (∀ it ∈ items, it.good std o) → (items.map Item.name).Nodup →
      (∀ it ∈ items, dget d it.name = none) →
      ∃ hd', normStructInto o (.sub d a hd ha) (items.map (fun it => (it.g, "", it.x))) =
        .ok (.sub (foldDset d items) a hd' ha)
  | [], d, hd, _, _, _ => ⟨hd, rfl⟩
  | it :: r, d, hd, hg, hnd, hnew => by
    simp only [List.map_cons, List.nodup_cons] at hnd
    obtain ⟨hex, hsk, hnorm, _, _⟩ := hg it (by simp)
    have hn1 : dget d it.name = none := hnew it (by simp)
    have hnew' : ∀ it' ∈ r, dget (dset d it.name (.prim it.p)) it'.name = none := by
      intro it' hit'
      have hne : it.name ≠ it'.name := fun h => hnd.1 (h ▸ List.mem_map_of_mem hit')
      rw [dget_dset_other _ _ _ _ hne]
      exact hnew it' (List.mem_cons_of_mem _ hit')
    obtain ⟨hd', hrest⟩ := normStruct_plain std o a ha r (dset d it.name (.prim it.p)) true
      (fun it' h => hg it' (List.mem_cons_of_mem _ h)) hnd.2 hnew'
    refine ⟨hd', ?_⟩
    simp only [List.map_cons]
    unfold normStructInto
    simp only [hex, Bool.not_true, Bool.false_eq_true, if_false, parseTags_empty]
    simp only [hnorm, Outcome.bind_ok]
    have hfn : fieldName "" it.g = it.name := by simp [fieldName, Item.name]
    rw [hfn, C09.setField_simple_new o d a hd ha it.name (.prim it.p) hsk hn1]
    simp only [Outcome.bind_ok]
    simpa [foldDset] using hrest

/-- merging the normalized struct into the empty config (what NewFrom does) keeps every entry -/
theorem mergeIntoEmpty_get (h : Handling) (D : Dict) (a : List Val) (hd ha : Bool) (hs : dSorted D = true)
    (k : String) (p : Prim) (hk : dget D k = some (.prim p)) :
    ∃ D' A' hd' ha', mergeP h Val.empty (.sub D a hd ha) = .sub D' A' hd' ha' ∧ dget D' k = some (.prim p) := by
  unfold mergeP
  simp only
  unfold mergeValsP
  simp only [Val.empty, toCfg?]
  refine ⟨_, _, _, _, rfl, ?_⟩
  have hne : D.isEmpty = false := by
    cases D with
    | nil => simp [dget] at hk
    | cons e r => rfl
  simp only [hne, Bool.false_eq_true, if_false]
  have hinner : (if h = Handling.replace then ([] : Dict) else []) = [] := by split <;> rfl
  rw [hinner, C01.dict_pointwise h [] D k (dSorted_nodup D hs), hk]
  simp [store, inPlace, mergeValsP, cpy]

/-- the field loop of Unpack over primitive fields whose settings are there: every field gets its scalar -/
theorem reifyStruct_plain (std : Stdlib) (o : Opts) (Dd : Dict) (A : List Val) (hd ha : Bool) :
    ∀ (items : List Item) (n : Nat), (∀ it ∈ items, it.good std o ∧ dget Dd it.name = some (.prim it.p)) →
      items.length + 3 ≤ n →
      reifyStructT std n o (items.map (fun it => (it.g, "", "", Ty.prim it.k)))
        (items.map (fun it => zeroOf (.prim it.k))) (.sub Dd A hd ha) = .ok (items.map (fun it => GoVal.scalar it.s))
  | [], n, _, hn => by
    cases n with
    | zero => omega
    | succ m => simp [reifyStructT]
  | it :: r, n, hg, hn => by
    obtain ⟨⟨hex, hsk, _, hnn, hre⟩, hget⟩ := hg it (by simp)
    cases n with
    | zero => simp at hn
    | succ m =>
      cases m with
      | zero => simp at hn
      | succ m' =>
        cases m' with
        | zero => simp at hn
        | succ m'' =>
          have ih := reifyStruct_plain std o Dd A hd ha r (m'' + 2) (fun it' h => hg it' (List.mem_cons_of_mem _ h))
            (by simp at hn ⊢; omega)
          simp only [List.map_cons]
          unfold reifyStructT
          have hacc : accessField o it.g "" "" = .ok (some ⟨it.name, {}, [], if (({} : TagOpts).handling != o.handling) = true then ({} : TagOpts).handling else o.handling⟩) := by
            unfold accessField
            simp [hex, parseTags_empty, parseValidatorTags, fieldName, Item.name]
          rw [hacc]
          simp only [Outcome.bind_ok, Bool.false_eq_true, if_false]
          -- the lookup finds the stored primitive
          have hpath : pathGet tcPlain (parsePathOpts it.name o) (.sub Dd A hd ha) = .ok (some (.prim it.p)) := by
            have : parsePathOpts it.name o = [.named it.name] := hsk
            rw [this]
            simp [pathGet, fieldGet, tcPlain, Val.dict, hget]
          have hnil : (Val.prim it.p).isNilPrim = false := by
            cases hp : it.p <;> simp [Val.isNilPrim] <;> exact absurd hp hnn
          unfold getField'
          simp only
          have hpo : ∀ hh, parsePathOpts it.name { o with handling := hh } = parsePathOpts it.name o := fun _ => rfl
          simp only [hpo, hpath, Val.isNilOpt, hnil, Bool.false_eq_true, if_false]
          rw [C04.mergeValue_prim]
          unfold reifyPrimitiveT
          simp only [hnil, Bool.false_eq_true, if_false, hre, runValidators, List.findSome?_nil, Outcome.bind_ok]
          rw [ih]
          rfl

theorem nodup_name_inj : ∀ (items : List Item), (items.map Item.name).Nodup →
    ∀ a b, a ∈ items → b ∈ items → a.name = b.name → a = b
  | [], _, a, _, ha, _, _ => by cases ha
  | it :: r, hnd, a, b, ha, hb, hab => by
    simp only [List.map_cons, List.nodup_cons] at hnd
    simp only [List.mem_cons] at ha hb
    rcases ha with rfl | ha <;> rcases hb with rfl | hb
    · rfl
    · exact absurd (hab ▸ List.mem_map_of_mem hb) hnd.1
    · exact absurd (hab ▸ List.mem_map_of_mem ha) hnd.1
    · exact nodup_name_inj r hnd.2 a b ha hb hab

/-- **C06, lifted to structs of primitive fields.** For any number of exported, untagged fields of primitive kinds with
distinct simple names (each holding a value its kind round-trips - the per-kind theorems above), under any options without
per-field policies: `NewFrom(struct)` followed by `Unpack` into the zero value of the same struct type returns exactly
the struct that went in. -/
theorem flat_struct_roundtrip (std : Stdlib) (o : Opts) (items : List Item) (hft : o.fieldTree = none)
    (hg : ∀ it ∈ items, it.good std o) (hnd : (items.map Item.name).Nodup) (hlen : items.length + 3 ≤ unpackFuel)
    (hne : items ≠ []) :
    (newFrom o (.strct (items.map (fun it => (it.g, "", it.x)))) >>= fun cfg =>
      unpack std o (.strct (items.map (fun it => (it.g, "", "", Ty.prim it.k))))
        (.strct (items.map (fun it => zeroOf (.prim it.k)))) cfg) =
    .ok (.strct (items.map (fun it => GoVal.scalar it.s))) := by
  obtain ⟨hd', hnorm⟩ := normStruct_plain std o [] false items [] false hg hnd (fun _ _ => rfl)
  have hsorted : dSorted (foldDset [] items) = true := foldDset_sorted items [] rfl
  have hentries : ∀ it ∈ items, dget (foldDset [] items) it.name = some (.prim it.p) := by
    intro it hit
    rw [foldDset_get items [] it.name hnd]
    have hfind : ∃ it', items.find? (fun i => i.name == it.name) = some it' ∧ it'.name = it.name := by
      cases hf : items.find? (fun i => i.name == it.name) with
      | none =>
        rw [List.find?_eq_none] at hf
        exact absurd (by simp) (hf it hit)
      | some it' => exact ⟨it', rfl, by simpa using List.find?_some hf⟩
    obtain ⟨it', hf, hn'⟩ := hfind
    rw [hf]
    -- distinct names: the item found is the item asked for
    have hmem : it' ∈ items := List.mem_of_find?_eq_some hf
    have : it' = it := nodup_name_inj items hnd it' it hmem hit hn'
    rw [this]
  -- NewFrom
  have hnew : ∃ D' A' h1 h2, newFrom o (.strct (items.map (fun it => (it.g, "", it.x)))) = .ok (.sub D' A' h1 h2) ∧
      ∀ it ∈ items, dget D' it.name = some (.prim it.p) := by
    unfold newFrom cfgMerge
    simp only [normalize]
    have he : (Val.empty : Val) = .sub [] [] false false := rfl
    rw [he, hnorm]
    simp only [Outcome.bind_ok, mergeCfg, hft, C16.noTree_eq_global]
    -- shape of the merge result
    have hshape : ∃ D' A' h1 h2, mergeP o.handling (.sub [] [] false false) (.sub (foldDset [] items) [] hd' false) =
        .sub D' A' h1 h2 ∧ ∀ it ∈ items, dget D' it.name = some (.prim it.p) := by
      have hD : (foldDset [] items).isEmpty = false := by
        cases items with
        | nil => exact absurd rfl hne
        | cons it r =>
          have := hentries it (by simp)
          cases hfd : foldDset [] (it :: r) with
          | nil => rw [hfd] at this; simp [dget] at this
          | cons e r' => rfl
      have hinner : (if o.handling = Handling.replace then ([] : Dict) else []) = [] := by split <;> rfl
      have hm : ∃ A' h2, mergeP o.handling (.sub [] [] false false) (.sub (foldDset [] items) [] hd' false) =
          .sub (mergeDictP o.handling [] (foldDset [] items)) A' true h2 := by
        unfold mergeP
        simp only
        unfold mergeValsP
        simp only [toCfg?, hD, Bool.false_eq_true, if_false, hinner]
        exact ⟨_, _, rfl⟩
      obtain ⟨A', h2, hm⟩ := hm
      refine ⟨_, A', true, h2, hm, ?_⟩
      intro it hit
      rw [C01.dict_pointwise o.handling [] (foldDset [] items) it.name (dSorted_nodup _ hsorted), hentries it hit]
      simp [store, inPlace, mergeValsP, cpy]
    obtain ⟨D', A', h1, h2, hm, hall⟩ := hshape
    exact ⟨D', A', h1, h2, by rw [hm], hall⟩
  obtain ⟨D', A', h1, h2, hnf, hall⟩ := hnew
  rw [hnf]
  simp only [Outcome.bind_ok]
  unfold unpack
  simp only
  rw [reifyStruct_plain std o D' A' h1 h2 items unpackFuel (fun it hit => ⟨hg it hit, hall it hit⟩) hlen]
  rfl

/-! non-vacuity: `Item.good` asks for what the per-kind theorems above deliver (e.g. `int_roundtrip` for every in-range
value of every signed kind, `string_roundtrip`, `bool_roundtrip`, `uint_roundtrip`, `float64_roundtrip`), an exported Go
name and a field name that is one path segment (`C09.SimpleKey`, e.g. any name without the separator that does not spell
a number); the kernel cannot evaluate `String.toLower` in this Lean version, so the instance is exercised by the
`roundtrip` kind of the correspondence run (thousands of generated structs) instead of a `decide` example -/

end Ucfg.C06
