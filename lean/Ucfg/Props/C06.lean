import Ucfg.Spec.C03
import Ucfg.Props.C03
import Ucfg.Model.Normalize
/-
  C06 — struct -> Config -> struct is the identity.

  Proved: every primitive value of every sized kind survives normalisation (the split into
  int64 / uint64 carriers, strings stored verbatim) followed by typed unpacking into its own
  kind.  PARTIAL: the lift through struct fields, tags, pointers, slices, arrays and maps (a
  mutual induction over `Ty` relating normStructInto and reifyStructT) is not mechanised; the
  correspondence check compares whole generated structs (nil = empty collection).
-/
namespace Ucfg.C06
open Ucfg Outcome Ucfg.Spec.C03

/-- what a signed field of `bits` bits holding `i` comes back as -/
def backInt (std : Stdlib) (o : Opts) (bits : Nat) (i : Int) : Outcome Scalar :=
  normValue o (.int i) >>= fun v =>
    match v with
    | .prim p => reifyPrim std (.int bits) p
    | _ => raise .typeMismatch

/-- every intN value survives the positive-goes-to-uint64 split of normalizeValue and the
OverflowInt check of its own kind -/
theorem int_roundtrip (std : Stdlib) (o : Opts) (bits : Nat) (i : Int)
    (hb : bits = 8 ∨ bits = 16 ∨ bits = 32 ∨ bits = 64) (hr : intRange bits i = true) :
    C03.toOpt (backInt std o bits i) = some (.int i) := by
  unfold backInt
  rw [show normValue o (.int i) = .ok (if i > 0 then .prim (.uint i.toNat) else .prim (.int i)) by unfold normValue; rfl]
  by_cases hp : i > 0
  · simp only [hp, if_true, Outcome.bind_ok]
    rw [C03.reify_int_meets_spec std bits (.uint i.toNat) hb]
    have hi : ((i.toNat : Nat) : Int) = i := by omega
    simp [specConv, hi, hr]
  · simp only [hp, if_false, Outcome.bind_ok]
    rw [C03.reify_int_meets_spec std bits (.int i) hb]
    simp [specConv, hr]

/-- without variable expansion a string field is stored and read back verbatim, whatever it
contains ('$', '.', ',', braces, quotes) -/
theorem string_roundtrip (std : Stdlib) (o : Opts) (s : String) (h : o.varexp = false) :
    (normValue o (.str s) >>= fun v =>
      match v with
      | .prim p => reifyPrim std .string p
      | _ => raise .typeMismatch) = .ok (.str s) := by
  have : normValue o (.str s) = .ok (.prim (.str s)) := by unfold normValue; simp [normalizeString, h]
  rw [this]
  simp [reifyPrim, Prim.toStr, reifyPrim.wrap]

/-- booleans -/
theorem bool_roundtrip (std : Stdlib) (o : Opts) (b : Bool) :
    (normValue o (.bool b) >>= fun v =>
      match v with
      | .prim p => reifyPrim std .bool p
      | _ => raise .typeMismatch) = .ok (.bool b) := by
  have : normValue o (.bool b) = .ok (.prim (.bool b)) := by unfold normValue; rfl
  rw [this]
  simp [reifyPrim, Prim.toBool, reifyPrim.wrap]

/-- float64 values, including NaN and the infinities, are carried bit for bit -/
theorem float64_roundtrip (std : Stdlib) (o : Opts) (bits : Nat) :
    (normValue o (.float bits) >>= fun v =>
      match v with
      | .prim p => reifyPrim std (.float 64) p
      | _ => raise .typeMismatch) = .ok (.float bits) := by
  have : normValue o (.float bits) = .ok (.prim (.float bits)) := by unfold normValue; rfl
  rw [this]
  simp [reifyPrim, Prim.toFloat, reifyPrim.wrap]

/-- every uintN value of every width comes back unchanged -/
theorem uint_roundtrip (std : Stdlib) (o : Opts) (bits n : Nat) (hr : n < 2 ^ bits) :
    (normValue o (.uint n) >>= fun v =>
      match v with
      | .prim p => reifyPrim std (.uint bits) p
      | _ => raise .typeMismatch) = .ok (.uint n) := by
  have : normValue o (.uint n) = .ok (.prim (.uint n)) := by unfold normValue; rfl
  rw [this]
  have ho : overflowUint bits n = false := by simp [overflowUint, hr]
  simp [reifyPrim, Prim.toUint, reifyPrim.wrap, ho]

/-- a signed field never comes back as a different number: if the round trip succeeds at all, it returns `i`
(for every width, whether or not `i` fits - a value outside the field's range cannot be in the field to begin with) -/
theorem int_roundtrip_never_alters (std : Stdlib) (o : Opts) (bits : Nat) (i : Int) (s : Scalar)
    (hb : bits = 8 ∨ bits = 16 ∨ bits = 32 ∨ bits = 64) (h : backInt std o bits i = .ok s) : s = .int i := by
  unfold backInt at h
  rw [show normValue o (.int i) = .ok (if i > 0 then .prim (.uint i.toNat) else .prim (.int i)) by unfold normValue; rfl] at h
  by_cases hp : i > 0
  · simp only [hp, if_true, Outcome.bind_ok] at h
    have hs := C03.reify_int_meets_spec std bits (.uint i.toNat) hb
    rw [h] at hs
    have hi : ((i.toNat : Nat) : Int) = i := by omega
    simp only [C03.toOpt, specConv, hi] at hs
    split at hs <;> simp_all
  · simp only [hp, if_false, Outcome.bind_ok] at h
    have hs := C03.reify_int_meets_spec std bits (.int i) hb
    rw [h] at hs
    simp only [C03.toOpt, specConv] at hs
    split at hs <;> simp_all

/-! non-vacuity -/
example : intRange 8 (-128) = true := by decide
example : intRange 64 (2^63 - 1) = true := by decide

end Ucfg.C06
