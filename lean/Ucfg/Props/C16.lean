import Ucfg.Lemmas.Dict
import Ucfg.Model.TreeEq
/-
  C16 — a per-field merge policy applies to exactly the named subtree.

  `mergeValsF h ft` is the merge under global policy `h` and per-field policy tree `ft`
  (Model/Merge.lean, transcribing fieldOptsOverride / fieldHandlingTree.fieldHandling /
  includeWildcard).  The theorems say where the tree can and cannot change the merge.
-/
namespace Ucfg.C16
open Ucfg

theorem override_none (h : Handling) (name : String) (idx : Int) :
    fieldOptsOverride h none name idx = (h, none) := rfl

theorem overrideIdx_none (h : Handling) (i : Nat) : fieldOptsOverrideIdx h none i = (h, none) := rfl

/-- on values that are not sub-configurations the two merges coincide, whatever the tree -/
theorem vals_nonSub (h : Handling) (ft : Option Val) (old : Option Val) (v : Val) (hv : v.isSub = false) :
    mergeValsF h ft old v = mergeValsP h old v := by
  cases v with
  | sub d a hd ha => simp [Val.isSub] at hv
  | prim p =>
    cases old with
    | none => unfold mergeValsF mergeValsP; rfl
    | some o =>
      unfold mergeValsF mergeValsP
      cases toCfg? o with
      | none => rfl
      | some so => cases p <;> rfl
  | dyn i e =>
    cases old with
    | none => unfold mergeValsF mergeValsP; rfl
    | some o =>
      unfold mergeValsF mergeValsP
      cases toCfg? o with
      | none => rfl
      | some so => rfl

mutual
theorem valsF_none (h : Handling) (old : Option Val) : ∀ (v : Val),
    mergeValsF h none old v = mergeValsP h old v
  | .prim p => vals_nonSub h none old _ rfl
  | .dyn i e => vals_nonSub h none old _ rfl
  | .sub d2 a2 hd2 ha2 => by
    unfold mergeValsF mergeValsP
    cases old with
    | none => rfl
    | some o =>
      simp only
      cases toCfg? o with
      | none => rfl
      | some so =>
        cases so with
        | prim p => rfl
        | dyn i e => rfl
        | sub d1 a1 hd1 ha1 =>
          simp only
          rw [dictF_none h _ d2, arrF_none h 0 _ a2]
theorem dictF_none (h : Handling) (d1 : Dict) : ∀ (d2 : Dict),
    mergeDictF h none d1 d2 = mergeDictP h d1 d2
  | [] => by simp [mergeDictF, mergeDictP]
  | (k, v) :: r => by
    simp only [mergeDictF, mergeDictP, override_none]
    rw [valsF_none h _ v, dictF_none h _ r]
theorem arrF_none (h : Handling) (i : Nat) (a1 : List Val) : ∀ (a2 : List Val),
    mergeArrF h none i a1 a2 = mergeArrP h a1 a2
  | [] => by cases a1 <;> simp [mergeArrF, mergeArrP]
  | y :: b => by
    cases a1 with
    | nil => simp [mergeArrF, mergeArrP]
    | cons x a =>
      simp only [mergeArrF, mergeArrP, overrideIdx_none]
      rw [valsF_none h _ y, arrF_none h (i+1) a b]
end

/-- without a policy tree the merge is the global merge (all three mutually recursive parts) -/
theorem noTree_eq_global (h : Handling) (to frm : Val) : mergeF h none to frm = mergeP h to frm := by
  unfold mergeF mergeP
  cases frm with
  | prim p => rfl
  | dyn i e => rfl
  | sub d a hd ha => exact valsF_none h (some to) _

theorem fhWild_noWildcard (d : Dict) (name : String) (idx : Int) (c? : Option Val)
    (hw : dget d "**" = none) : fhWild d name idx c? = (.dflt, c?, false) := by
  induction d with
  | nil => rfl
  | cons kv r ih =>
    obtain ⟨k, v⟩ := kv
    simp only [dget] at hw
    by_cases hk : k = "**"
    · simp [hk] at hw
    · simp only [hk, if_false] at hw
      unfold fhWild
      rw [if_neg hk]
      exact ih hw

theorem ftWildcard_none (d : Dict) (a : List Val) (hd ha : Bool) (hw : dget d "**" = none) :
    ftWildcard (.sub d a hd ha) = none := by
  have hp : parsePathIdx "**" (-1) {} = [.named "**"] := by decide
  simp [ftWildcard, ftChild, getField, hp, pathGet, fieldGet, tcPlain, Val.dict, hw, Outcome.raise]

/-- A key the policy tree has no entry for (and no `**` wildcard) leaves the configured
paths: below it the policy is the global one and no tree is in force. -/
theorem override_miss (h : Handling) (d : Dict) (a : List Val) (hd ha : Bool) (k : String)
    (hc : ftChild (.sub d a hd ha) k (-1) = none) (hw : dget d "**" = none) :
    fieldOptsOverride h (some (.sub d a hd ha)) k (-1) = (h, none) := by
  simp only [fieldOptsOverride, fhNode, hc, Option.bind_none, fhWild_noWildcard d k (-1) none hw]
  simp [includeWildcard, ftWildcard_none d a hd ha hw]

/-- … hence a setting outside every configured path is merged exactly as under the global
policy alone. -/
theorem outside_unaffected (h : Handling) (d : Dict) (a : List Val) (hd ha : Bool) (k : String)
    (hc : ftChild (.sub d a hd ha) k (-1) = none) (hw : dget d "**" = none)
    (old : Option Val) (v : Val) :
    mergeValsF (fieldOptsOverride h (some (.sub d a hd ha)) k (-1)).1
               (fieldOptsOverride h (some (.sub d a hd ha)) k (-1)).2 old v = mergeValsP h old v := by
  rw [override_miss h d a hd ha k hc hw]
  exact valsF_none h old v

/-- A key with an entry that carries a policy switches to that policy (and descends into
the entry's subtree). -/
theorem override_hit (h h' : Handling) (d : Dict) (a : List Val) (hd ha : Bool) (k : String) (c : Val)
    (hc : ftChild (.sub d a hd ha) k (-1) = some c) (hh : ftHandlingOf c = some h')
    (hw : dget d "**" = none) :
    fieldOptsOverride h (some (.sub d a hd ha)) k (-1) = (h', some c) := by
  simp only [fieldOptsOverride, fhNode, hc, Option.bind_some, hh]
  simp [includeWildcard, ftWildcard_none d a hd ha hw]

/-- A list element the policy tree has neither an index entry nor a `*` entry for (and no `**` wildcard) leaves the
configured paths as well: a policy configured for `l.1` does not reach `l.2.1`, one for `c.b` does not reach `c.0.b`. -/
theorem elem_miss (h : Handling) (d : Dict) (a : List Val) (hd ha : Bool) (i : Nat)
    (hi : ftChild (.sub d a hd ha) "" i = none) (hs : ftChild (.sub d a hd ha) "*" (-1) = none)
    (hw : dget d "**" = none) :
    fieldOptsOverrideIdx h (some (.sub d a hd ha)) i = (h, none) := by
  simp only [fieldOptsOverrideIdx, fhNode, hi, Option.bind_none, fhWild_noWildcard d "" i none hw]
  simp only [Option.isSome_none, Bool.or_self, Bool.false_eq_true, if_false]
  simp only [fieldOptsOverride, fhNode, hs, Option.bind_none, fhWild_noWildcard d "*" (-1) none hw]
  simp [includeWildcard, ftWildcard_none d a hd ha hw]

/-- … so such an element is merged exactly as under the policy in force at the list -/
theorem elem_outside_unaffected (h : Handling) (d : Dict) (a : List Val) (hd ha : Bool) (i : Nat)
    (hi : ftChild (.sub d a hd ha) "" i = none) (hs : ftChild (.sub d a hd ha) "*" (-1) = none)
    (hw : dget d "**" = none) (old : Option Val) (v : Val) :
    mergeValsF (fieldOptsOverrideIdx h (some (.sub d a hd ha)) i).1
               (fieldOptsOverrideIdx h (some (.sub d a hd ha)) i).2 old v = mergeValsP h old v := by
  rw [elem_miss h d a hd ha i hi hs hw]
  exact valsF_none h old v

/-- An element with an index entry that carries a policy is merged under that policy, whatever the `*` entry says. -/
theorem elem_hit (h h' : Handling) (d : Dict) (a : List Val) (hd ha : Bool) (i : Nat) (c : Val)
    (hc : ftChild (.sub d a hd ha) "" i = some c) (hh : ftHandlingOf c = some h')
    (hw : dget d "**" = none) :
    fieldOptsOverrideIdx h (some (.sub d a hd ha)) i = (h', some c) := by
  simp only [fieldOptsOverrideIdx, fhNode, hc, Option.bind_some, hh]
  simp only [Bool.true_or, if_true]
  simp only [fieldOptsOverride, fhNode, hc, Option.bind_some, hh]
  simp [includeWildcard, ftWildcard_none d a hd ha hw]

/-! non-vacuity: the tree FieldAppendValues("l") builds, a key with and a key without an entry -/
def exTree : Val := .sub [("l", .sub [("*", .prim (.uint 3))] [] true false)] [] true false
example : ftChild exTree "x" (-1) = none := by decide
example : fieldOptsOverride .dflt (some exTree) "x" (-1) = (.dflt, none) := by decide
example : (fieldOptsOverride .dflt (some exTree) "l" (-1)).1 = .append := by decide

/-- the tree FieldAppendValues("l.1") builds: element 1 has the entry, element 2 leaves the configured paths -/
def exIdxTree : Val := .sub [] [.prim .nil, .sub [("*", .prim (.uint 3))] [] true false] false true
example : fieldOptsOverrideIdx .dflt (some exIdxTree) 1 = (.append, some (.sub [("*", .prim (.uint 3))] [] true false)) := by decide
example : fieldOptsOverrideIdx .dflt (some exIdxTree) 2 = (.dflt, none) := by decide
example : ftChild exIdxTree "" 2 = none ∧ ftChild exIdxTree "*" (-1) = none := by decide

end Ucfg.C16
