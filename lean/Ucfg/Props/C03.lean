import Ucfg.Spec.C03
/-
  C03 — typed unpacking preserves the value or fails - it never wraps around.

  `reifyPrim` (Model/PrimUnpack.lean) transcribes doReifyPrimitive/reifyInt/…/reifyDuration
  with the guards of types.go *as regenerated from the source* (Extracted.guard_*).
  `specConv` (Spec/C03.lean) is the statement.  The theorems say the two coincide on every
  int64 / uint64 / float64 / string / bool setting.
-/
namespace Ucfg.C03
open Ucfg Ucfg.Spec.C03

theorem pow2_pos (k : Nat) : (1 : Int) ≤ (F64.pow2 k : Int) := by
  unfold F64.pow2
  have : 0 < 2 ^ k := Nat.pow_pos (by decide)
  omega

theorem decode_fin_bound (b : Nat) (neg : Bool) (m : Nat) (e : Int)
    (h : F64.decode b = .fin neg m e) : m < 2^53 := by
  unfold F64.decode at h
  simp only at h
  split at h
  · split at h <;> cases h
  · split at h
    · cases h
      have : b % 2^52 < 2^52 := Nat.mod_lt _ (by decide)
      omega
    · cases h
      have : b % 2^52 < 2^52 := Nat.mod_lt _ (by decide)
      omega

theorem sgn_mul (neg : Bool) (m k : Nat) : F64.sgn neg (m * k) = F64.sgn neg m * (k : Int) := by
  cases neg <;> simp [F64.sgn, Int.natCast_mul, Int.neg_mul]

theorem sgn_bound (neg : Bool) (m : Nat) : -(m : Int) ≤ F64.sgn neg m ∧ F64.sgn neg m ≤ m := by
  cases neg <;> simp [F64.sgn] <;> omega

/-- what the regenerated guard of (*cfgFloat).toInt says on a finite value -/
theorem guard_toInt_fin (neg : Bool) (m : Nat) (e : Int) :
    floatToIntOverflow (.fin neg m e) =
      (F64.finLtInt neg m e (-9223372036854775808) || !F64.finLtInt neg m e 9223372036854775808) := by
  simp [floatToIntOverflow, Extracted.guard_floatToInt_overflow, F64.isNaN, F64.ltInt, F64.geInt]

theorem float_toInt_guard_iff (neg : Bool) (m : Nat) (e : Int) (hm : m < 2^53) :
    floatToIntOverflow (.fin neg m e) = false ↔ intRange 64 (F64.truncFin neg m e) = true := by
  rw [guard_toInt_fin]
  simp only [intRange, Bool.or_eq_false_iff, Bool.not_eq_false', Bool.and_eq_true, decide_eq_true_eq]
  by_cases he : e ≥ 0
  · simp only [F64.finLtInt, he, if_true, F64.truncFin, F64.truncMag, sgn_mul, decide_eq_false_iff_not, decide_eq_true_eq]
    generalize F64.sgn neg m * (F64.pow2 e.toNat : Int) = v
    constructor <;> intro h <;> constructor <;> omega
  · simp only [F64.finLtInt, he, if_false, F64.truncFin, F64.truncMag, decide_eq_false_iff_not, decide_eq_true_eq]
    have hp := pow2_pos (-e).toNat
    have hs := sgn_bound neg m
    have hd : m / F64.pow2 (-e).toNat ≤ m := Nat.div_le_self _ _
    have hs2 := sgn_bound neg (m / F64.pow2 (-e).toNat)
    have h1 : -9223372036854775808 * (F64.pow2 (-e).toNat : Int) ≤ -9223372036854775808 := by
      have := Int.mul_le_mul_of_nonneg_left hp (show (0:Int) ≤ 9223372036854775808 by decide)
      omega
    have h2 : (9223372036854775808 : Int) ≤ 9223372036854775808 * (F64.pow2 (-e).toNat : Int) := by
      have := Int.mul_le_mul_of_nonneg_left hp (show (0:Int) ≤ 9223372036854775808 by decide)
      omega
    generalize F64.sgn neg m = s at *
    generalize F64.sgn neg (m / F64.pow2 (-e).toNat) = t at *
    generalize (-9223372036854775808 : Int) * (F64.pow2 (-e).toNat : Int) = lo at *
    generalize (9223372036854775808 : Int) * (F64.pow2 (-e).toNat : Int) = hi at *
    have hm' : (m : Int) < 9007199254740992 := by omega
    have hd' : ((m / F64.pow2 (-e).toNat : Nat) : Int) ≤ (m : Int) := by omega
    constructor <;> intro _ <;> constructor <;> omega

def toOpt {α : Type} : Outcome α → Option α
  | .ok a => some a
  | _ => none

@[simp] theorem toOpt_wrap {α : Type} (x : Outcome α) : toOpt (reifyPrim.wrap x) = toOpt x := by
  cases x <;> rfl

theorem goInt64_of_inRange (neg : Bool) (m : Nat) (e : Int)
    (h : intRange 64 (F64.truncFin neg m e) = true) :
    goInt64OfFloat (.fin neg m e) = F64.truncFin neg m e := by
  simp only [intRange, Bool.and_eq_true, decide_eq_true_eq] at h
  have h1 : minI64 ≤ F64.truncFin neg m e := by unfold minI64; omega
  have h2 : F64.truncFin neg m e ≤ maxI64 := by unfold maxI64; omega
  unfold goInt64OfFloat
  simp only
  rw [if_pos ⟨h1, h2⟩]

/-- (*cfgFloat).toInt: a float converts exactly when it is finite and its truncation toward
zero is an int64, and then the result is that truncation — NaN, ±Inf and everything at or
beyond ±2^63 are errors. -/
theorem float_toInt (b : Nat) :
    toOpt (Prim.toInt (.float b)) =
      (match F64.decode b with
       | .fin neg m e => if intRange 64 (F64.truncFin neg m e) then some (F64.truncFin neg m e) else none
       | _ => none) := by
  simp only [Prim.toInt]
  cases hd : F64.decode b with
  | nan => simp [floatToIntOverflow, Extracted.guard_floatToInt_overflow, F64.isNaN, toOpt, Outcome.raiseRaw]
  | inf neg =>
    cases neg <;> simp [floatToIntOverflow, Extracted.guard_floatToInt_overflow, F64.isNaN, F64.ltInt, F64.geInt, toOpt, Outcome.raiseRaw]
  | fin neg m e =>
    have hm := decode_fin_bound b neg m e hd
    by_cases hr : intRange 64 (F64.truncFin neg m e) = true
    · have hg := (float_toInt_guard_iff neg m e hm).mpr hr
      simp [hg, hr, toOpt, goInt64_of_inRange neg m e hr]
    · have hg : floatToIntOverflow (.fin neg m e) = true := by
        cases hx : floatToIntOverflow (.fin neg m e) with
        | true => rfl
        | false => exact absurd ((float_toInt_guard_iff neg m e hm).mp hx) hr
      simp [hg, hr, toOpt, Outcome.raiseRaw]

theorem overflowInt_eq (bits : Nat) (i : Int) : overflowInt bits i = !intRange bits i := by
  simp [overflowInt, intRange, Bool.decide_and]

/-- Unpacking any primitive setting into a signed integer of 8, 16, 32 or 64 bits stores the
setting's exact value (floats truncated toward zero) when it lies in the target's range and
fails otherwise. -/
theorem reify_int_meets_spec (std : Stdlib) (bits : Nat) (p : Prim)
    (hb : bits = 8 ∨ bits = 16 ∨ bits = 32 ∨ bits = 64) :
    toOpt (reifyPrim std (.int bits) p) = specConv std (.int bits) p := by
  simp only [reifyPrim, toOpt_wrap]
  cases p with
  | nil => simp [Prim.toInt, specConv, toOpt, Outcome.raiseRaw]
  | bool b => simp [Prim.toInt, specConv, toOpt, Outcome.raiseRaw]
  | int i =>
    simp only [Prim.toInt, specConv, Outcome.bind_ok, overflowInt_eq]
    cases intRange bits i <;> simp [toOpt, Outcome.raiseRaw]
  | uint u =>
    simp only [Prim.toInt, specConv, Extracted.guard_uintToInt_overflow]
    by_cases hu : (u : Int) > 9223372036854775807
    · have : intRange bits (u : Int) = false := by
        rcases hb with rfl | rfl | rfl | rfl <;> simp [intRange] <;> omega
      simp [hu, this, toOpt, Outcome.raiseRaw]
    · simp only [hu, decide_false, Bool.false_eq_true, if_false, Outcome.bind_ok, overflowInt_eq]
      cases intRange bits (u : Int) <;> simp [toOpt, Outcome.raiseRaw]
  | float b =>
    have hf := float_toInt b
    simp only [specConv]
    cases hd : F64.decode b with
    | nan => rw [hd] at hf; cases hx : Prim.toInt (.float b) <;> simp_all [toOpt]
    | inf neg => rw [hd] at hf; cases hx : Prim.toInt (.float b) <;> simp_all [toOpt]
    | fin neg m e =>
      rw [hd] at hf
      simp only at hf ⊢
      cases hx : Prim.toInt (.float b) with
      | ok i =>
        rw [hx] at hf
        simp only [toOpt] at hf
        by_cases hr : intRange 64 (F64.truncFin neg m e) = true
        · simp only [hr, if_true, Option.some.injEq] at hf
          subst hf
          simp only [Outcome.bind_ok, overflowInt_eq, hr, Bool.true_and]
          cases intRange bits (F64.truncFin neg m e) <;> simp [toOpt, Outcome.raiseRaw]
        · simp [hr] at hf
      | err er =>
        rw [hx] at hf
        simp only [toOpt] at hf
        by_cases hr : intRange 64 (F64.truncFin neg m e) = true
        · simp [hr] at hf
        · simp [hr, toOpt]
      | panic s => rw [hx] at hf; simp [toOpt] at hf ⊢; by_cases hr : intRange 64 (F64.truncFin neg m e) = true <;> simp_all
      | fuel => rw [hx] at hf; simp [toOpt] at hf ⊢; by_cases hr : intRange 64 (F64.truncFin neg m e) = true <;> simp_all
  | str s =>
    simp only [Prim.toInt, specConv]
    cases IntLit.parseIntS s with
    | none => simp [toOpt, Outcome.raiseRaw]
    | some i =>
      simp only [Outcome.bind_ok, overflowInt_eq]
      cases intRange bits i <;> simp [toOpt, Outcome.raiseRaw]

/-- … in particular nothing ever wraps: a stored integer is the value the specification gives. -/
theorem int_never_wraps (std : Stdlib) (bits : Nat) (p : Prim) (v : Scalar)
    (hb : bits = 8 ∨ bits = 16 ∨ bits = 32 ∨ bits = 64)
    (h : reifyPrim std (.int bits) p = .ok v) : specConv std (.int bits) p = some v := by
  rw [← reify_int_meets_spec std bits p hb, h]; rfl


/-! ### unsigned targets -/

theorem overflowUint_eq (bits : Nat) (n : Nat) : overflowUint bits n = !uintRange bits (n : Int) := by
  simp only [overflowUint, uintRange]
  have : (0 : Int) ≤ (n : Int) := Int.natCast_nonneg n
  have h2 : ((n : Int) < (2 : Int) ^ bits) ↔ n < 2 ^ bits := by
    rw [show ((2 : Int) ^ bits) = ((2 ^ bits : Nat) : Int) by simp]
    exact Int.ofNat_lt
  simp [this, h2]

/-- the regenerated ErrNegative guard of (*cfgFloat).toUint fires exactly on negative non-zero values -/
theorem guard_toUint_negative_fin (neg : Bool) (m : Nat) (e : Int) :
    Extracted.guard_floatToUint_negative (.fin neg m e) = (neg && m != 0) := by
  simp only [Extracted.guard_floatToUint_negative, F64.ltInt, F64.finLtInt]
  by_cases he : e ≥ 0
  · simp only [he, if_true]
    have hp := pow2_pos e.toNat
    cases neg with
    | false =>
      have : (0:Int) ≤ (m : Int) * (F64.pow2 e.toNat : Int) := Int.mul_nonneg (Int.natCast_nonneg m) (by omega)
      simp only [F64.sgn, Bool.false_eq_true, if_false, Bool.false_and, decide_eq_false_iff_not]
      omega
    | true =>
      by_cases hm : m = 0
      · simp [F64.sgn, hm]
      · have hm' : (0:Int) < (m : Int) := by omega
        have : (0:Int) < (m : Int) * (F64.pow2 e.toNat : Int) := Int.mul_pos hm' (by omega)
        have hne : (m != 0) = true := by simp [hm]
        simp only [F64.sgn, if_true, Bool.true_and, hne, decide_eq_true_eq, Int.neg_mul]
        omega
  · simp only [he, if_false, Int.zero_mul]
    cases neg with
    | false => simp [F64.sgn]
    | true =>
      by_cases hm : m = 0
      · simp [F64.sgn, hm]
      · have hne : (m != 0) = true := by simp [hm]
        simp only [F64.sgn, if_true, Bool.true_and, hne, decide_eq_true_eq]
        omega

theorem guard_toUint_overflow_iff (m : Nat) (e : Int) (neg : Bool) (hm : m < 2^53) (hnn : (neg && m != 0) = false) :
    floatToUintOverflow (.fin neg m e) = false ↔ uintRange 64 (F64.truncMag m e : Int) = true := by
  simp only [floatToUintOverflow, Extracted.guard_floatToUint_overflow, F64.isNaN, F64.geInt, Bool.false_or,
    Bool.not_eq_false', uintRange, Bool.and_eq_true, decide_eq_true_eq]
  have hs : F64.sgn neg m = (m : Int) := by
    cases neg with
    | false => rfl
    | true =>
      have : m = 0 := by
        by_cases h0 : m = 0
        · exact h0
        · simp [h0] at hnn
      simp [F64.sgn, this]
  by_cases he : e ≥ 0
  · simp only [F64.finLtInt, he, if_true, F64.truncMag, hs, decide_eq_true_eq, Int.natCast_mul]
    have : (0:Int) ≤ (m : Int) * (F64.pow2 e.toNat : Int) := Int.mul_nonneg (Int.natCast_nonneg m) (Int.natCast_nonneg _)
    constructor <;> intro h
    · exact ⟨this, by omega⟩
    · omega
  · simp only [F64.finLtInt, he, if_false, F64.truncMag, hs, decide_eq_true_eq]
    have hp := pow2_pos (-e).toNat
    have hd : m / F64.pow2 (-e).toNat ≤ m := Nat.div_le_self _ _
    have h2 : (18446744073709551616 : Int) ≤ 18446744073709551616 * (F64.pow2 (-e).toNat : Int) := by
      have := Int.mul_le_mul_of_nonneg_left hp (show (0:Int) ≤ 18446744073709551616 by decide)
      omega
    generalize (18446744073709551616 : Int) * (F64.pow2 (-e).toNat : Int) = hi at *
    have hd' : ((m / F64.pow2 (-e).toNat : Nat) : Int) ≤ (m : Int) := by omega
    have hm' : (m : Int) < 9007199254740992 := by omega
    have h0 : (0:Int) ≤ ((m / F64.pow2 (-e).toNat : Nat) : Int) := Int.natCast_nonneg _
    constructor <;> intro _
    · constructor <;> omega
    · omega

theorem goUint64_of_inRange (neg : Bool) (m : Nat) (e : Int)
    (h : uintRange 64 (F64.truncMag m e : Int) = true) :
    goUint64OfFloat (.fin neg m e) = F64.truncMag m e := by
  simp only [uintRange, Bool.and_eq_true, decide_eq_true_eq] at h
  have h2 : F64.truncMag m e ≤ maxU64 := by unfold maxU64; omega
  unfold goUint64OfFloat
  simp only
  rw [if_pos h2]

/-- (*cfgFloat).toUint: negative values (however small), NaN, ±Inf and everything at or beyond
2^64 are errors; every other float converts to its truncation toward zero. -/
theorem float_toUint (b : Nat) :
    toOpt (Prim.toUint (.float b)) =
      (match F64.decode b with
       | .fin neg m e =>
         if neg && m != 0 then none
         else if uintRange 64 (F64.truncMag m e : Int) then some (F64.truncMag m e) else none
       | _ => none) := by
  simp only [Prim.toUint]
  cases hd : F64.decode b with
  | nan => simp [floatToUintOverflow, Extracted.guard_floatToUint_negative, Extracted.guard_floatToUint_overflow,
      F64.isNaN, F64.ltInt, toOpt, Outcome.raiseRaw]
  | inf neg =>
    cases neg <;> simp [floatToUintOverflow, Extracted.guard_floatToUint_negative, Extracted.guard_floatToUint_overflow,
      F64.isNaN, F64.ltInt, F64.geInt, toOpt, Outcome.raiseRaw]
  | fin neg m e =>
    have hm := decode_fin_bound b neg m e hd
    simp only [guard_toUint_negative_fin]
    by_cases hn : (neg && m != 0) = true
    · simp [hn, toOpt, Outcome.raiseRaw]
    · have hn' : (neg && m != 0) = false := by simpa using hn
      simp only [hn', Bool.false_eq_true, if_false]
      by_cases hr : uintRange 64 (F64.truncMag m e : Int) = true
      · have hg := (guard_toUint_overflow_iff m e neg hm hn').mpr hr
        simp [hg, hr, toOpt, goUint64_of_inRange neg m e hr]
      · have hg : floatToUintOverflow (.fin neg m e) = true := by
          cases hx : floatToUintOverflow (.fin neg m e) with
          | true => rfl
          | false => exact absurd ((guard_toUint_overflow_iff m e neg hm hn').mp hx) hr
        simp [hg, hr, toOpt, Outcome.raiseRaw]

/-! ### durations: numbers mean seconds and never overflow silently -/

theorem maxDur_eq : maxDurationSeconds = 9223372036 := by decide

theorem durGuard_iff (i : Int) :
    (decide (i > maxDurationSeconds) || decide (i < -maxDurationSeconds)) = true ↔ intRange 64 (i * 1000000000) = false := by
  rw [maxDur_eq]
  have h2 : (2:Int) ^ (64 - 1) = 9223372036854775808 := by decide
  simp only [intRange, h2, Bool.or_eq_true, decide_eq_true_eq, Bool.and_eq_false_iff, decide_eq_false_iff_not]
  omega

theorem duration_int (std : Stdlib) (i : Int) :
    toOpt (reifyPrim std .duration (.int i)) = specConv std .duration (.int i) := by
  unfold reifyPrim specConv
  simp only [toOpt_wrap, reifyDuration]
  by_cases hg : (decide (i > maxDurationSeconds) || decide (i < -maxDurationSeconds)) = true
  · rw [if_pos hg, (durGuard_iff i).mp hg]
    rfl
  · rw [if_neg hg]
    have : intRange 64 (i * 1000000000) = true := by
      cases hx : intRange 64 (i * 1000000000) with
      | true => rfl
      | false => exact absurd ((durGuard_iff i).mpr hx) hg
    rw [this]
    rfl

theorem duration_uint (std : Stdlib) (u : Nat) :
    toOpt (reifyPrim std .duration (.uint u)) = specConv std .duration (.uint u) := by
  unfold reifyPrim specConv
  simp only [toOpt_wrap, reifyDuration]
  have hneg : decide ((u : Int) < -maxDurationSeconds) = false := by
    rw [maxDur_eq]; simp only [decide_eq_false_iff_not]; omega
  by_cases hg : ((u : Int) > maxDurationSeconds)
  · have hg' : (decide ((u : Int) > maxDurationSeconds) || decide ((u : Int) < -maxDurationSeconds)) = true := by simp [hg]
    rw [if_pos (by simpa using hg), (durGuard_iff u).mp hg']
    rfl
  · have hg' : ¬ (decide ((u : Int) > maxDurationSeconds) || decide ((u : Int) < -maxDurationSeconds)) = true := by
      simp only [hneg, Bool.or_false, decide_eq_true_eq]; exact hg
    rw [if_neg (by simpa using hg)]
    have : intRange 64 ((u : Int) * 1000000000) = true := by
      cases hx : intRange 64 ((u : Int) * 1000000000) with
      | true => rfl
      | false => exact absurd ((durGuard_iff u).mpr hx) hg'
    rw [this]
    rfl

/-- float seconds: trunc(float64(f·1e9)) when that is an int64, an error otherwise (NaN, ±Inf, too large) -/
theorem duration_float (std : Stdlib) (b : Nat) :
    toOpt (reifyPrim std .duration (.float b)) = specConv std .duration (.float b) := by
  unfold reifyPrim specConv
  simp only [toOpt_wrap, reifyDuration]
  cases hd : F64.decode (F64.mul b secondBits) with
  | nan => rfl
  | inf neg => cases neg <;> rfl
  | fin neg m e =>
    have hm := decode_fin_bound _ neg m e hd
    have hg := float_toInt_guard_iff neg m e hm
    rw [guard_toInt_fin] at hg
    have hmin : minI64 = -9223372036854775808 := by decide
    have htp : twoP63 = 9223372036854775808 := by decide
    simp only [F64.isNaN, F64.ltInt, F64.geInt, Bool.false_or, hmin, htp]
    by_cases hr : intRange 64 (F64.truncFin neg m e) = true
    · rw [if_neg (by rw [hg.mpr hr]; decide), hr]
      simp [toOpt, goInt64_of_inRange neg m e hr]
    · have hx : (F64.finLtInt neg m e (-9223372036854775808) || !F64.finLtInt neg m e 9223372036854775808) = true := by
        cases hx : (F64.finLtInt neg m e (-9223372036854775808) || !F64.finLtInt neg m e 9223372036854775808) with
        | true => rfl
        | false => exact absurd (hg.mp hx) hr
      have hr' : intRange 64 (F64.truncFin neg m e) = false := by
        cases h : intRange 64 (F64.truncFin neg m e) with
        | true => exact absurd h hr
        | false => rfl
      rw [if_pos hx, hr']
      rfl

/-! non-vacuity -/
example : toOpt (Prim.toInt (.float 0x43E0000000000000)) = none := by
  rw [float_toInt]; decide
example : toOpt (Prim.toInt (.float 0x4000000000000000)) = some 2 := by
  rw [float_toInt]; decide

end Ucfg.C03
