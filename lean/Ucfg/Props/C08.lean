import Ucfg.Model.Eval
/-
  C08 — reference resolution terminates: cycles are errors, everything else resolves.

  The evaluator (Model/Eval.lean) is fuelled: `Outcome.fuel` is a distinct result, never a
  default, and the correspondence check treats it as a disagreement with the implementation.
  What is proved here is the cycle-detection logic itself, for every tree, option set and fuel:
  a re-entered reference is reported, what is active is exactly the chain of references being
  evaluated (so repeated uses and diamonds are not cycles), and FlattenedKeys stops at a config
  it is already visiting.  Sufficiency of a computed amount of fuel for every acyclic graph is
  not proved (PARTIAL): termination of the Go code on the generated graphs is observed by the
  harness under a stack limit and a watchdog.
-/
namespace Ucfg.C08
open Ucfg Outcome

/-- A reference that is re-entered while it is still being evaluated is reported as a cyclic
reference at that point (as a non-critical miss: a resolver that knows the name, or a default
operator, may still absorb it) — it is never followed again. -/
theorem cycle_reported (C : ECtx) (n : Nat) (home : Val) (active : List String) (fs : List Field) (sep : String)
    (cache : Cache) (h : active.contains (pathString fs sep) = true) :
    resolveRef C (n + 1) home active fs sep cache =
      (.ok (.notFound (some { errCyclic with msg := some (pathString fs sep) })), cache) := by
  rw [resolveRef]
  simp only [h, if_true]
  rfl

/-- … and if no resolver knows the name the read fails with that cyclic-reference error -/
theorem cycle_is_error (C : ECtx) (n : Nat) (home : Val) (here active : List String) (fs : List Field) (sep : String)
    (cache : Cache) (h : active.contains (pathString fs sep) = true) (hr : C.opts.resolvers = []) :
    (dynGet C (n + 2) home here active (.ref fs sep) cache).1 =
      .err { errCyclic with msg := some (pathString fs sep) } := by
  rw [dynGet]
  show (EM.bind (resolveRef C (n + 1) home active fs sep) _ cache).1 = _
  unfold EM.bind
  rw [cycle_reported C n home active fs sep cache h]
  simp [resolveEnv, hr, resolveEnv.go, EM.fail, errCyclic]

/-- While a reference is looked up it is active — and only then: everything evaluated below it
sees the name, the caller's own scope is what it was. -/
theorem active_while_evaluated (C : ECtx) (n : Nat) (home : Val) (active : List String) (fs : List Field) (sep : String)
    (h : active.contains (pathString fs sep) = false) :
    resolveRef C (n + 1) home active fs sep =
      lookupTrees C n (pathString fs sep :: active) fs (home :: C.opts.env.reverse) := by
  rw [resolveRef]
  simp only [h, Bool.false_eq_true, if_false]

/-- The pieces of one string are evaluated in the same scope, one after the other: a variable used
twice in one string (or reached along two different paths) is not re-entered. -/
theorem repeated_use_same_scope (C : ECtx) (n : Nat) (home : Val) (active : List String) (p : Expr) (rest : List Expr) :
    evalPieces C (n + 1) home active (p :: rest) =
      (do let s ← evalExpr C n home active p
          let r ← evalPieces C n home active rest
          pure (s ++ r)) := by
  rw [evalPieces]

/-- a cached value is returned without any lookup: nothing becomes active, nothing can be re-entered -/
theorem cache_hit (C : ECtx) (n : Nat) (home : Val) (here active : List String) (id : Nat) (e : Expr)
    (cache : Cache) (v : Val) (h : cacheGet cache id = some v) :
    dynValue C (n + 1) home here active id e cache = (.ok (⟨v, home, here⟩, active), cache) := by
  rw [dynValue]
  simp [h]

/-- only primitives are cached (a cached object could hide a cycle through its settings) -/
theorem cache_only_primitives (v : Val) (h : canCache v = true) : ∃ p, v = .prim p := by
  cases v with
  | prim p => exact ⟨p, rfl⟩
  | dyn i e => simp [canCache] at h
  | sub d a hd ha => simp [canCache] at h

/-- FlattenedKeys ends the traversal at a config it is already visiting (a reference back to an
enclosing object), whatever the fuel -/
theorem flattened_stops_on_revisit (C : ECtx) (n : Nat) (home : Val) (visiting : List (List String))
    (here : List String) (c : Val) (h : visiting.contains here = true) :
    flattenedKeysE C (n + 1) home visiting here c = .ok [] := by
  rw [flattenedKeysE]
  rw [if_pos h]

/-- running out of fuel is its own outcome: it is never turned into a value or an error -/
theorem fuel_is_not_a_default (C : ECtx) (home : Val) (active : List String) (e : Expr) (cache : Cache) :
    (evalExpr C 0 home active e cache).1 = .fuel := by
  rw [evalExpr]; rfl

/-! non-vacuity -/
example : (["a", "b"] : List String).contains (pathString [.named "a"] ".") = true := by decide

end Ucfg.C08
