import Ucfg.Lemmas.Dict
import Ucfg.Lemmas.MergeSelf
import Ucfg.Model.Reify
import Ucfg.Spec.C01
/-
  C01 — merge follows the selected policy exactly.

  Theorems about `mergeValsP` / `mergeDictP` / `mergeArrP` / `mergeP` (Model/Merge.lean,
  the transcription of mergeValues / mergeConfigDict / mergeConfigArr / mergeConfig), for
  every tree, every depth and each of the five global policies.
-/
namespace Ucfg.C01
open Ucfg

/-- Merging an empty config into A changes nothing (right identity), for every policy. -/
theorem merge_empty_right (h : Handling) (A : Val) (hA : A.isSub = true) :
    mergeP h A Val.empty = A := by
  cases A with
  | prim p => simp [Val.isSub] at hA
  | dyn i e => simp [Val.isSub] at hA
  | sub d a hd ha =>
    simp only [mergeP, Val.empty, mergeValsP, toCfg?]
    cases h <;> simp [arrPolicy, mergeArrP, cpyA]

/-- Dictionaries are merged key by key: the value under `k` after merging B's dictionary
into A's is A's value when B does not mention `k`, and otherwise the merge of the two
values (stored as a copy unless it was merged in place).  This is "the union of the two
dictionaries at every level" stated pointwise. -/
theorem dict_pointwise (h : Handling) (d1 d2 : Dict) (k : String)
    (hnd : (dkeysOf d2).Nodup) :
    dget (mergeDictP h d1 d2) k =
      (match dget d2 k with
       | none => dget d1 k
       | some v => some (store (dget d1 k) v (mergeValsP h (dget d1 k) v))) := by
  induction d2 generalizing d1 with
  | nil => simp [mergeDictP]
  | cons kv r ih =>
    obtain ⟨k2, v2⟩ := kv
    simp only [dkeysOf, List.map_cons, List.nodup_cons] at hnd
    simp only [mergeDictP]
    rw [ih _ hnd.2]
    by_cases hk : k2 = k
    · subst hk
      have : dget r k2 = none := dget_none_of_not_mem r k2 hnd.1
      simp [this, dget, dget_dset_same]
    · have hk' : ¬ k = k2 := fun e => hk e.symm
      simp only [dget, hk, if_false]
      rw [dget_dset_other _ _ _ _ hk]

/-- every key of A survives a merge under a non-replacing policy -/
theorem keys_of_A_survive (h : Handling) (d1 d2 : Dict) (k : String)
    (hnd : (dkeysOf d2).Nodup) (hk : (dget d1 k).isSome) :
    (dget (mergeDictP h d1 d2) k).isSome := by
  rw [dict_pointwise h d1 d2 k hnd]
  cases dget d2 k with
  | none => exact hk
  | some v => rfl

/-- every key of B is present after the merge -/
theorem keys_of_B_present (h : Handling) (d1 d2 : Dict) (k : String)
    (hnd : (dkeysOf d2).Nodup) (hk : (dget d2 k).isSome) :
    (dget (mergeDictP h d1 d2) k).isSome := by
  rw [dict_pointwise h d1 d2 k hnd]
  cases hv : dget d2 k with
  | none => rw [hv] at hk; cases hk
  | some v => rfl

/-- Where the two sides are not both containers, B's value wins. -/
theorem nonContainer_right_wins (h : Handling) (o v : Val)
    (hv : toCfg? o = none ∨ toCfg? v = none) :
    mergeValsP h (some o) v = v := by
  cases hv with
  | inl ho => simp [mergeValsP, ho]
  | inr hv =>
    simp only [mergeValsP]
    cases ho : toCfg? o with
    | none => rfl
    | some so =>
      cases v with
      | prim p => cases p <;> simp_all [toCfg?]
      | dyn i e => rfl
      | sub d a hd ha => simp [toCfg?] at hv

/-- … except that a nil in B leaves a container of A in place. -/
theorem nil_keeps_container (h : Handling) (d : Dict) (a : List Val) (hd ha : Bool) :
    mergeValsP h (some (.sub d a hd ha)) Val.nilV = .sub d a hd ha := by
  simp [mergeValsP, toCfg?, Val.nilV]

/-- A missing value in A adopts B's value. -/
theorem absent_adopts (h : Handling) (v : Val) : mergeValsP h none v = v := by
  simp [mergeValsP]

/-- the array part of a merged node, by policy -/
theorem arr_policy (h : Handling) (d1 d2 : Dict) (a1 a2 : List Val) (hd1 ha1 hd2 ha2 : Bool) :
    (mergeP h (.sub d1 a1 hd1 ha1) (.sub d2 a2 hd2 ha2)).arr =
      (arrPolicy h a1 a2 (mergeArrP h a1 a2) ha1).1 := by
  simp [mergeP, mergeValsP, toCfg?, Val.arr]

/-- AppendValues: the result list is A's followed by (copies of) B's … -/
theorem append_order (d1 d2 : Dict) (a1 a2 : List Val) (hd1 ha1 hd2 ha2 : Bool) :
    (mergeP .append (.sub d1 a1 hd1 ha1) (.sub d2 a2 hd2 ha2)).arr = a1 ++ cpyA a2 := by
  rw [arr_policy]; rfl

/-- … so its length is the sum of the operands' lengths. -/
theorem append_length (d1 d2 : Dict) (a1 a2 : List Val) (hd1 ha1 hd2 ha2 : Bool) :
    (mergeP .append (.sub d1 a1 hd1 ha1) (.sub d2 a2 hd2 ha2)).arr.length = a1.length + a2.length := by
  rw [append_order]; simp

/-- PrependValues: B's list followed by A's. -/
theorem prepend_order (d1 d2 : Dict) (a1 a2 : List Val) (hd1 ha1 hd2 ha2 : Bool) :
    (mergeP .prepend (.sub d1 a1 hd1 ha1) (.sub d2 a2 hd2 ha2)).arr =
      if a2.isEmpty then a1 else cpyA a2 ++ cpyA a1 := by
  rw [arr_policy]; simp only [arrPolicy]; split <;> rfl

theorem prepend_length (d1 d2 : Dict) (a1 a2 : List Val) (hd1 ha1 hd2 ha2 : Bool) :
    (mergeP .prepend (.sub d1 a1 hd1 ha1) (.sub d2 a2 hd2 ha2)).arr.length = a1.length + a2.length := by
  rw [prepend_order]
  cases a2 with
  | nil => simp
  | cons x r => simp; omega

/-- ReplaceValues / ReplaceArrValues: B's list alone, unless it is empty (replaces nothing). -/
theorem replace_arr (h : Handling) (hh : h = .replace ∨ h = .arrReplace)
    (d1 d2 : Dict) (a1 a2 : List Val) (hd1 ha1 hd2 ha2 : Bool) :
    (mergeP h (.sub d1 a1 hd1 ha1) (.sub d2 a2 hd2 ha2)).arr = if a2.isEmpty then a1 else cpyA a2 := by
  rw [arr_policy]
  rcases hh with rfl | rfl <;> (simp only [arrPolicy]; split <;> rfl)

/-- ReplaceValues: a non-empty dictionary of B replaces A's dictionary at that node. -/
theorem replace_dict (d1 d2 : Dict) (a1 a2 : List Val) (hd1 ha1 hd2 ha2 : Bool)
    (hne : d2.isEmpty = false) :
    (mergeP .replace (.sub d1 a1 hd1 ha1) (.sub d2 a2 hd2 ha2)).dict = mergeDictP .replace [] d2 := by
  simp [mergeP, mergeValsP, toCfg?, Val.dict, hne]

/-- the default policy merges lists index-wise; the result is as long as the longer operand -/
theorem mergeArr_length (h : Handling) (a1 a2 : List Val) :
    (mergeArrP h a1 a2).length = max a1.length a2.length := by
  induction a1 generalizing a2 with
  | nil =>
    cases a2 with
    | nil => simp [mergeArrP]
    | cons y b => simp [mergeArrP]
  | cons x a ih =>
    cases a2 with
    | nil => simp [mergeArrP]
    | cons y b => simp [mergeArrP, ih] <;> omega

/-- index-wise: below both lengths the element is the merge of the two elements -/
theorem mergeArr_index (h : Handling) (a1 a2 : List Val) (i : Nat) (x y : Val)
    (hx : a1[i]? = some x) (hy : a2[i]? = some y) :
    (mergeArrP h a1 a2)[i]? = some (store (some x) y (mergeValsP h (some x) y)) := by
  induction a1 generalizing a2 i with
  | nil => simp at hx
  | cons x0 a ih =>
    cases a2 with
    | nil => simp at hy
    | cons y0 b =>
      cases i with
      | zero => simp at hx hy; subst hx; subst hy; simp [mergeArrP]
      | succ j =>
        simp at hx hy
        simp only [mergeArrP, List.getElem?_cons_succ]
        exact ih b j hx hy


/-! ### identity in both directions, and self-merge

On canonical trees (`canonV`: what NewFrom builds from plain data without null settings - sorted
dictionaries, flags agreeing with the contents) equality of trees is `=`. -/

/-- what is stored for a value merged into itself is the value -/
theorem store_self (v : Val) (hc : canonV v = true) : store (some v) v v = v := by
  unfold store
  split
  · rfl
  · exact cpy_canon v hc

mutual
/-- a setting merged into itself is unchanged under the default, replace and list-replace policies -/
theorem mergeVals_self (h : Handling) (hs : selfStable h) : ∀ (v : Val), canonV v = true →
    mergeValsP h (some v) v = v
  | .prim p, hc => by
    unfold mergeValsP
    cases p <;> simp [toCfg?, canonV] at hc ⊢
  | .dyn _ _, _ => by
    unfold mergeValsP
    simp [toCfg?]
  | .sub d a hd ha, hc => by
    have hc0 := hc
    simp only [canonV, Bool.and_eq_true, beq_iff_eq] at hc
    obtain ⟨⟨⟨⟨hd1, ha1⟩, hsort⟩, hhd⟩, hha⟩ := hc
    have hD := mergeD_self h hs d hd1
    have hA := mergeA_self h hs a ha1
    unfold mergeValsP
    simp only [toCfg?]
    have hdict : (if d.isEmpty then d else mergeDictP h (if h = .replace then [] else d) d) = d := by
      by_cases he : d.isEmpty
      · simp [he]
      · simp only [he, if_false]
        by_cases hr : h = .replace
        · simp only [hr, if_true]
          rw [mergeDictP_sorted .replace d [] hsort (by intro e he; simp at he)]
          simp [cpyD_canon d hd1]
        · simp only [hr, if_false]
          exact mergeDictP_same h d d hsort (fun e he' => by
            refine ⟨dget_mem_sorted d e.1 e.2 hsort he', ?_⟩
            rw [hD e he']
            exact store_self e.2 (canonD_mem d hd1 e he'))
    have harr : arrPolicy h a a (mergeArrP h a a) ha = (a, ha) := by
      have hm : mergeArrP h a a = a := mergeArrP_same h a (fun x hx => by
        rw [hA x hx]; exact store_self x (canonA_mem a ha1 x hx))
      have hflag : (ha || !a.isEmpty) = ha := by
        cases ha <;> cases hae : a.isEmpty <;> simp_all
      have hne : a.isEmpty = false → ha = true := by
        intro hae; cases ha <;> simp_all
      rcases hs with rfl | rfl | rfl | rfl
      · simp [arrPolicy, hm, hflag]
      · simp [arrPolicy, hm, hflag]
      · simp only [arrPolicy]
        cases hae : a.isEmpty
        · simp [cpyA_canon a ha1, hne hae]
        · simp
      · simp only [arrPolicy]
        cases hae : a.isEmpty
        · simp [cpyA_canon a ha1, hne hae]
        · simp
    have hflagd : (if d.isEmpty then hd else true) = hd := by
      cases hde : d.isEmpty <;> simp_all
    rw [hdict, harr, hflagd]
theorem mergeD_self (h : Handling) (hs : selfStable h) : ∀ (d : Dict), canonD d = true →
    ∀ e ∈ d, mergeValsP h (some e.2) e.2 = e.2
  | [], _, e, he => by simp at he
  | (k, v) :: r, hc, e, he => by
    simp only [canonD, Bool.and_eq_true] at hc
    simp only [List.mem_cons] at he
    rcases he with he | he
    · rw [he]; exact mergeVals_self h hs v hc.1
    · exact mergeD_self h hs r hc.2 e he
theorem mergeA_self (h : Handling) (hs : selfStable h) : ∀ (a : List Val), canonA a = true →
    ∀ x ∈ a, mergeValsP h (some x) x = x
  | [], _, x, hx => by simp at hx
  | v :: r, hc, x, hx => by
    simp only [canonA, Bool.and_eq_true] at hc
    simp only [List.mem_cons] at hx
    rcases hx with hx | hx
    · rw [hx]; exact mergeVals_self h hs v hc.1
    · exact mergeA_self h hs r hc.2 x hx
end

/-- **Merging a config into itself changes nothing** under the default and the two replace policies, for
every canonical tree of any shape and depth. -/
theorem merge_self (h : Handling) (hs : selfStable h) (A : Val) (hA : A.isSub = true)
    (hc : canonV A = true) : mergeP h A A = A := by
  cases A with
  | prim p => simp [Val.isSub] at hA
  | dyn i e => simp [Val.isSub] at hA
  | sub d a hd ha => exact mergeVals_self h hs _ hc

/-- under append / prepend a self-merge doubles the list (the statement's "length is the sum") -/
theorem merge_self_append_length (d : Dict) (a : List Val) (hd ha : Bool) :
    (mergeP .append (.sub d a hd ha) (.sub d a hd ha)).arr.length = a.length + a.length ∧
    (mergeP .prepend (.sub d a hd ha) (.sub d a hd ha)).arr.length = a.length + a.length := by
  constructor
  · exact append_length d d a a hd ha hd ha
  · rw [prepend_length]

/-- **Left identity**: merging B into the empty config gives B, under every policy. -/
theorem merge_empty_left (h : Handling) (d : Dict) (a : List Val) (hd ha : Bool)
    (hc : canonV (.sub d a hd ha) = true) (hfl : a.isEmpty = true → ha = false) :
    mergeP h Val.empty (.sub d a hd ha) = .sub d a hd ha := by
  · simp only [canonV, Bool.and_eq_true, beq_iff_eq] at hc
    obtain ⟨⟨⟨⟨hd1, ha1⟩, hsort⟩, hhd⟩, hha⟩ := hc
    have hne : a.isEmpty = false → ha = true := by
      intro hae; cases ha <;> simp_all
    simp only [mergeP, Val.empty]
    unfold mergeValsP
    simp only [toCfg?]
    have hdict : (if d.isEmpty then [] else mergeDictP h (if h = .replace then [] else []) d) = d := by
      by_cases he : d.isEmpty
      · simp only [he, if_true]; cases d <;> simp_all
      · simp only [he, if_false, ite_self]
        rw [mergeDictP_sorted h d [] hsort (by intro e he; simp at he)]
        simp [cpyD_canon d hd1]
    have hflagd : (if d.isEmpty then false else true) = hd := by
      cases hde : d.isEmpty <;> simp_all
    have harr : arrPolicy h [] a (mergeArrP h [] a) false = (a, ha) := by
      cases a with
      | nil =>
        have : ha = false := hfl rfl
        cases h <;> simp_all [arrPolicy, mergeArrP, cpyA]
      | cons x r =>
        have hha' : ha = true := hne rfl
        have hcp : cpy x :: cpyA r = x :: r := cpyA_canon (x :: r) ha1
        cases h <;> simp [arrPolicy, mergeArrP, cpyA, hcp, hha']
    rw [hdict, harr, hflagd]

/-- non-vacuity: a two-level tree with a list is canonical, so the three theorems apply to it -/
example : canonV (.sub [("a", .sub [("x", .prim (.int 1))] [] true false), ("b", .prim (.str "s"))]
    [.prim (.bool true), .sub [] [.prim (.int 2)] false true] true true) = true := by decide
/-- a null setting is outside the canonical trees: merged into itself it becomes an empty config
(`cfgNil.toConfig`), which every view reads as null again -/
example : mergeValsP .dflt (some Val.nilV) Val.nilV = Val.empty := by
  unfold mergeValsP; simp [toCfg?, Val.nilV]

/-! ### non-vacuity -/
example : (dkeysOf [("a", Val.nilV), ("b", Val.nilV)]).Nodup := by decide
example : toCfg? (.prim (.int 1)) = none := rfl
example : (Val.sub [] [.prim (.int 1)] false true).isSub = true := rfl

end Ucfg.C01
