import Ucfg.Lemmas.Dict
import Ucfg.Model.Reify
import Ucfg.Spec.C01
/-
  C01 — merge follows the selected policy exactly.

  Theorems about `mergeValsP` / `mergeDictP` / `mergeArrP` / `mergeP` (Model/Merge.lean,
  the transcription of mergeValues / mergeConfigDict / mergeConfigArr / mergeConfig), for
  every tree, every depth and each of the five global policies.
-/
namespace Ucfg.C01
open Ucfg

/-- Merging an empty config into A changes nothing (right identity), for every policy. -/
theorem merge_empty_right (h : Handling) (A : Val) (hA : A.isSub = true) :
    mergeP h A Val.empty = A := by
  cases A with
  | prim p => simp [Val.isSub] at hA
  | dyn i e => simp [Val.isSub] at hA
  | sub d a hd ha =>
    simp only [mergeP, Val.empty, mergeValsP, toCfg?]
    cases h <;> simp [arrPolicy, mergeArrP, cpyA]

/-- Dictionaries are merged key by key: the value under `k` after merging B's dictionary
into A's is A's value when B does not mention `k`, and otherwise the merge of the two
values (stored as a copy unless it was merged in place).  This is "the union of the two
dictionaries at every level" stated pointwise. -/
theorem dict_pointwise (h : Handling) (d1 d2 : Dict) (k : String)
    (hnd : (dkeysOf d2).Nodup) :
    dget (mergeDictP h d1 d2) k =
      (match dget d2 k with
       | none => dget d1 k
       | some v => some (store (dget d1 k) v (mergeValsP h (dget d1 k) v))) := by
  induction d2 generalizing d1 with
  | nil => simp [mergeDictP]
  | cons kv r ih =>
    obtain ⟨k2, v2⟩ := kv
    simp only [dkeysOf, List.map_cons, List.nodup_cons] at hnd
    simp only [mergeDictP]
    rw [ih _ hnd.2]
    by_cases hk : k2 = k
    · subst hk
      have : dget r k2 = none := dget_none_of_not_mem r k2 hnd.1
      simp [this, dget, dget_dset_same]
    · have hk' : ¬ k = k2 := fun e => hk e.symm
      simp only [dget, hk, if_false]
      rw [dget_dset_other _ _ _ _ hk]

/-- every key of A survives a merge under a non-replacing policy -/
theorem keys_of_A_survive (h : Handling) (d1 d2 : Dict) (k : String)
    (hnd : (dkeysOf d2).Nodup) (hk : (dget d1 k).isSome) :
    (dget (mergeDictP h d1 d2) k).isSome := by
  rw [dict_pointwise h d1 d2 k hnd]
  cases dget d2 k with
  | none => exact hk
  | some v => rfl

/-- every key of B is present after the merge -/
theorem keys_of_B_present (h : Handling) (d1 d2 : Dict) (k : String)
    (hnd : (dkeysOf d2).Nodup) (hk : (dget d2 k).isSome) :
    (dget (mergeDictP h d1 d2) k).isSome := by
  rw [dict_pointwise h d1 d2 k hnd]
  cases hv : dget d2 k with
  | none => rw [hv] at hk; cases hk
  | some v => rfl

/-- Where the two sides are not both containers, B's value wins. -/
theorem nonContainer_right_wins (h : Handling) (o v : Val)
    (hv : toCfg? o = none ∨ toCfg? v = none) :
    mergeValsP h (some o) v = v := by
  cases hv with
  | inl ho => simp [mergeValsP, ho]
  | inr hv =>
    simp only [mergeValsP]
    cases ho : toCfg? o with
    | none => rfl
    | some so =>
      cases v with
      | prim p => cases p <;> simp_all [toCfg?]
      | dyn i e => rfl
      | sub d a hd ha => simp [toCfg?] at hv

/-- … except that a nil in B leaves a container of A in place. -/
theorem nil_keeps_container (h : Handling) (d : Dict) (a : List Val) (hd ha : Bool) :
    mergeValsP h (some (.sub d a hd ha)) Val.nilV = .sub d a hd ha := by
  simp [mergeValsP, toCfg?, Val.nilV]

/-- A missing value in A adopts B's value. -/
theorem absent_adopts (h : Handling) (v : Val) : mergeValsP h none v = v := by
  simp [mergeValsP]

/-- the array part of a merged node, by policy -/
theorem arr_policy (h : Handling) (d1 d2 : Dict) (a1 a2 : List Val) (hd1 ha1 hd2 ha2 : Bool) :
    (mergeP h (.sub d1 a1 hd1 ha1) (.sub d2 a2 hd2 ha2)).arr =
      (arrPolicy h a1 a2 (mergeArrP h a1 a2) ha1).1 := by
  simp [mergeP, mergeValsP, toCfg?, Val.arr]

/-- AppendValues: the result list is A's followed by (copies of) B's … -/
theorem append_order (d1 d2 : Dict) (a1 a2 : List Val) (hd1 ha1 hd2 ha2 : Bool) :
    (mergeP .append (.sub d1 a1 hd1 ha1) (.sub d2 a2 hd2 ha2)).arr = a1 ++ cpyA a2 := by
  rw [arr_policy]; rfl

/-- … so its length is the sum of the operands' lengths. -/
theorem append_length (d1 d2 : Dict) (a1 a2 : List Val) (hd1 ha1 hd2 ha2 : Bool) :
    (mergeP .append (.sub d1 a1 hd1 ha1) (.sub d2 a2 hd2 ha2)).arr.length = a1.length + a2.length := by
  rw [append_order]; simp

/-- PrependValues: B's list followed by A's. -/
theorem prepend_order (d1 d2 : Dict) (a1 a2 : List Val) (hd1 ha1 hd2 ha2 : Bool) :
    (mergeP .prepend (.sub d1 a1 hd1 ha1) (.sub d2 a2 hd2 ha2)).arr =
      if a2.isEmpty then a1 else cpyA a2 ++ cpyA a1 := by
  rw [arr_policy]; simp only [arrPolicy]; split <;> rfl

theorem prepend_length (d1 d2 : Dict) (a1 a2 : List Val) (hd1 ha1 hd2 ha2 : Bool) :
    (mergeP .prepend (.sub d1 a1 hd1 ha1) (.sub d2 a2 hd2 ha2)).arr.length = a1.length + a2.length := by
  rw [prepend_order]
  cases a2 with
  | nil => simp
  | cons x r => simp; omega

/-- ReplaceValues / ReplaceArrValues: B's list alone, unless it is empty (replaces nothing). -/
theorem replace_arr (h : Handling) (hh : h = .replace ∨ h = .arrReplace)
    (d1 d2 : Dict) (a1 a2 : List Val) (hd1 ha1 hd2 ha2 : Bool) :
    (mergeP h (.sub d1 a1 hd1 ha1) (.sub d2 a2 hd2 ha2)).arr = if a2.isEmpty then a1 else cpyA a2 := by
  rw [arr_policy]
  rcases hh with rfl | rfl <;> (simp only [arrPolicy]; split <;> rfl)

/-- ReplaceValues: a non-empty dictionary of B replaces A's dictionary at that node. -/
theorem replace_dict (d1 d2 : Dict) (a1 a2 : List Val) (hd1 ha1 hd2 ha2 : Bool)
    (hne : d2.isEmpty = false) :
    (mergeP .replace (.sub d1 a1 hd1 ha1) (.sub d2 a2 hd2 ha2)).dict = mergeDictP .replace [] d2 := by
  simp [mergeP, mergeValsP, toCfg?, Val.dict, hne]

/-- the default policy merges lists index-wise; the result is as long as the longer operand -/
theorem mergeArr_length (h : Handling) (a1 a2 : List Val) :
    (mergeArrP h a1 a2).length = max a1.length a2.length := by
  induction a1 generalizing a2 with
  | nil =>
    cases a2 with
    | nil => simp [mergeArrP]
    | cons y b => simp [mergeArrP]
  | cons x a ih =>
    cases a2 with
    | nil => simp [mergeArrP]
    | cons y b => simp [mergeArrP, ih] <;> omega

/-- index-wise: below both lengths the element is the merge of the two elements -/
theorem mergeArr_index (h : Handling) (a1 a2 : List Val) (i : Nat) (x y : Val)
    (hx : a1[i]? = some x) (hy : a2[i]? = some y) :
    (mergeArrP h a1 a2)[i]? = some (store (some x) y (mergeValsP h (some x) y)) := by
  induction a1 generalizing a2 i with
  | nil => simp at hx
  | cons x0 a ih =>
    cases a2 with
    | nil => simp at hy
    | cons y0 b =>
      cases i with
      | zero => simp at hx hy; subst hx; subst hy; simp [mergeArrP]
      | succ j =>
        simp at hx hy
        simp only [mergeArrP, List.getElem?_cons_succ]
        exact ih b j hx hy

/-! ### non-vacuity -/
example : (dkeysOf [("a", Val.nilV), ("b", Val.nilV)]).Nodup := by decide
example : toCfg? (.prim (.int 1)) = none := rfl
example : (Val.sub [] [.prim (.int 1)] false true).isSub = true := rfl

end Ucfg.C01
