import Ucfg.Lemmas.Forest
import Ucfg.Lemmas.ForestMerge
import Ucfg.Lemmas.ForestBuild
/-!
  C10 — merging copies: the source is untouched and nothing is shared.

  Everything Merge stores into the destination is `x.cpy(ctx)` (mergeConfigDict, mergeConfigMergeArr) or goes through
  fields.append, which copies (`a[i].cpy(ctx)`); since the repair of D18 the same holds for a *Config embedded in the
  source value (normalizeValue).  On the identity-level model:
  * `copy_leaves_every_node_untouched`: a copy only allocates - every node that existed (the source, its parents, the
    rest of the heap) is identical afterwards, so the source's content, path, parent and the expressions it holds are;
  * `copy_is_made_of_new_nodes`: the copy is the first new node, and no node of it points at a node that existed
    before - destination and source share no state;
  * `copy_has_requested_context`: it is linked to its new place;
  * `append_leaves_sources_untouched` / `append_stores_new_nodes`: the same for the list merge policies;
  * `write_is_local_*`: the in-place writes change one node, so a later write to one config is invisible through any
    node that is not that node (with the two theorems above: through the other config).
  * `merge_leaves_separated_untouched` (whole Merge, every list policy, any depth): Merge on the heap
    (Model/Forest.lean `mergeH`, the function the correspondence driver runs histories through) is a composition of the
    primitives above; for any set `S` of nodes that nothing outside of it points into - the source config's tree, or any
    third config - a merge whose destination is outside `S` leaves every node of `S` identical and keeps `S` separated:
    afterwards no node outside `S` (none of the destination's, old or new) points into `S`;
  * `merges_leave_separated_untouched`: the same for every sequence of merges (induction over the history);
  * `copy_separates_old_heap` / `merge_into_copy_leaves_everything_else`: the hypothesis is met by construction for a
    config that was itself made by copying (NewFrom of a config, the clone Merge stores): everything that existed
    before the copy is a separated set, so merging anything into the copy leaves *every* older node untouched.
  * `mergeSrc_leaves_everything_else` / `newFrom_leaves_everything_untouched`: Merge and NewFrom of a source VALUE - plain
    data with existing configs embedded at any position (`Src`, `buildH`: merge.go normalize*, normalizeValue copies an
    embedded config) - leave every node that existed, the embedded configs included, identical: what is built consists of
    new nodes listing new nodes only (`buildH_ok`), so the old heap is a separated set when the merge starts.
  Not proved: merges in which a null meets a value (`mergeH` answers `none`
  there - which value wins is the content model's business, Model/Merge.lean).
-/
namespace Ucfg.C10
open Ucfg.Forest

/-- the source (and everything else that existed) is bit-for-bit what it was -/
theorem copy_leaves_every_node_untouched (n : Nat) (h h' : Heap) (id id' : Id) (p : Option Id) (f : String)
    (he : cpy n h id p f = some (h', id')) : ∀ (i : Nat) (nd : Node), h[i]? = some nd → h'[i]? = some nd :=
  fun i nd hi => cpy_old_nodes he i nd hi

/-- the copy consists of new nodes only, and none of them points at an old node -/
theorem copy_is_made_of_new_nodes (n : Nat) (h h' : Heap) (id id' : Id) (p : Option Id) (f : String)
    (he : cpy n h id p f = some (h', id')) :
    id' = h.length ∧ h.length < h'.length ∧
    ∀ (i : Nat) (nd : Node), h.length ≤ i → h'[i]? = some nd → ∀ c ∈ nd.body.children, h.length ≤ c := by
  obtain ⟨t, rfl, hid, hfresh, ⟨b, hb⟩⟩ := cpy_good n h.length h id p f h' id' (Nat.le_refl _) he
  refine ⟨hid, ?_, ?_⟩
  · subst hid
    rcases Nat.lt_or_ge h.length (h ++ t).length with hl | hl
    · exact hl
    · rw [List.getElem?_eq_none hl] at hb; cases hb
  · intro i nd hi hnd c hc
    rw [List.getElem?_append_right hi] at hnd
    exact hfresh nd (List.mem_of_getElem? hnd) c hc

theorem copy_has_requested_context (n : Nat) (h h' : Heap) (id id' : Id) (p : Option Id) (f : String)
    (he : cpy n h id p f = some (h', id')) : ∃ b, h'[id']? = some ⟨p, f, b⟩ := by
  obtain ⟨_, _, _, _, hb⟩ := cpy_good n 0 h id p f h' id' (Nat.zero_le _) he
  exact hb

/-- non-vacuity: copying a two-node tree -/
example : cpy 3 [⟨none, "", .sub [("a", 1)] []⟩, ⟨some 0, "a", .prim "int" "7"⟩] 0 (some 9) "k" =
    some ([⟨none, "", .sub [("a", 1)] []⟩, ⟨some 0, "a", .prim "int" "7"⟩, ⟨some 9, "k", .sub [("a", 3)] []⟩, ⟨some 2, "a", .prim "int" "7"⟩], 2) := by
  decide

/-- list merges (append, prepend, replace, longer list): every node except the destination's own is untouched -/
theorem append_leaves_sources_untouched (fuel : Nat) (src : List Id) (h h' : Heap) (to : Id) (p : Option Id) (f : String)
    (d : List (String × Id)) (a : List Id)
    (hg : getSub h to = some (p, f, d, a)) (he : appendCpy fuel h to src = some h') :
    ∀ (i : Nat) (nd : Node), i ≠ to → h[i]? = some nd → h'[i]? = some nd := by
  obtain ⟨_, _, _, _, _, _, hframe⟩ := appendCpy_spec fuel src h h' to p f d a hg he
  exact hframe

/-- ... and what the destination gains are new nodes -/
theorem append_stores_new_nodes (fuel : Nat) (src : List Id) (h h' : Heap) (to : Id) (p : Option Id) (f : String)
    (d : List (String × Id)) (a : List Id)
    (hg : getSub h to = some (p, f, d, a)) (he : appendCpy fuel h to src = some h') :
    ∃ new, getSub h' to = some (p, f, d, a ++ new) ∧ ∀ c ∈ new, h.length ≤ c := by
  obtain ⟨new, h1, _, _, h4, _⟩ := appendCpy_spec fuel src h h' to p f d a hg he
  exact ⟨new, h1, h4⟩

/-- the in-place writes of Set*/Remove/Merge change exactly one node each -/
theorem write_is_local_body (h : Heap) (id i : Id) (b : Body) (hne : i ≠ id) : (setBody h id b)[i]? = h[i]? :=
  setBody_other h id i b hne

theorem write_is_local_field (h : Heap) (id i : Id) (f : String) (hne : i ≠ id) : (setField h id f)[i]? = h[i]? :=
  setField_other h id i f hne

/-- Remove from a list touches the list's node and the elements it moves, nothing else -/
theorem delAt_is_local (h : Heap) (to : Id) (i j : Nat) (p : Option Id) (f : String) (d : List (String × Id)) (a : List Id)
    (hg : getSub h to = some (p, f, d, a)) (hj : j ≠ to) (hja : j ∉ a) : (delAt h to i)[j]? = h[j]? := by
  unfold delAt
  rw [hg]
  simp only
  split
  · have : j ∉ (a.eraseIdx i).drop i := fun hc => hja (List.mem_of_mem_eraseIdx (List.mem_of_mem_drop hc))
    rw [renumber_other _ _ _ _ this, setBody_other _ _ _ _ hj]
  · rfl

/-! ### the whole Merge -/

/-- Merge, as a whole and under every list policy, leaves every node of a separated set `S` (e.g. the source config's
tree) identical, and no node outside `S` points into `S` afterwards either: destination and source share nothing. -/
theorem merge_leaves_separated_untouched (S : Id → Prop) (n cf : Nat) (pol : ArrPol) (h h' : Heap) (to frm : Id)
    (hS : ∀ i : Nat, S i → i < h.length) (hsep : Sep S h) (hto : ¬ S to)
    (he : mergeH n cf pol h to frm = some h') :
    (∀ i, S i → h'[i]? = h[i]?) ∧ Sep S h' ∧ h.length ≤ h'.length := by
  obtain ⟨a, b, _⟩ := (mclaims S h.length hS n).mh cf pol h h' to frm (Nat.le_refl _) hsep hto he
  exact ⟨b.1, a, b.2⟩

/-- a history of merges: (policy, destination, source) one after the other -/
def mergeAll (n cf : Nat) : Heap → List (ArrPol × Id × Id) → Option Heap
  | h, [] => some h
  | h, (pol, to, frm) :: r =>
    match mergeH n cf pol h to frm with
    | some h1 => mergeAll n cf h1 r
    | none => none

/-- every history of merges into destinations outside `S` leaves `S` untouched -/
theorem merges_leave_separated_untouched (S : Id → Prop) (n cf : Nat) (ops : List (ArrPol × Id × Id)) :
    ∀ (h h' : Heap), (∀ i : Nat, S i → i < h.length) → Sep S h → (∀ op ∈ ops, ¬ S op.2.1) →
      mergeAll n cf h ops = some h' → (∀ i, S i → h'[i]? = h[i]?) ∧ Sep S h' := by
  induction ops with
  | nil =>
    intro h h' _ hsep _ he
    simp only [mergeAll, Option.some.injEq] at he
    subst he
    exact ⟨fun _ _ => rfl, hsep⟩
  | cons op r ih =>
    intro h h' hS hsep hto he
    obtain ⟨pol, to, frm⟩ := op
    simp only [mergeAll] at he
    cases hm : mergeH n cf pol h to frm with
    | none => rw [hm] at he; cases he
    | some h1 =>
      rw [hm] at he
      simp only at he
      obtain ⟨k1, s1, l1⟩ := merge_leaves_separated_untouched S n cf pol h h1 to frm hS hsep (hto _ (List.mem_cons_self ..)) hm
      obtain ⟨k2, s2⟩ := ih h1 h' (fun i hi => Nat.lt_of_lt_of_le (hS i hi) l1) s1
        (fun op hop => hto op (List.mem_cons_of_mem _ hop)) he
      exact ⟨fun i hi => by rw [k2 i hi, k1 i hi], s2⟩

/-- after a copy, everything that existed before is a separated set: no node of the copy points at an older node -/
theorem copy_separates_old_heap (n : Nat) (h h' : Heap) (id id' : Id) (p : Option Id) (f : String)
    (he : cpy n h id p f = some (h', id')) :
    Sep (fun i : Nat => i < h.length) h' ∧ ¬ (id' < h.length) ∧ h.length ≤ h'.length := by
  obtain ⟨t, rfl, hid, hfr, _⟩ := cpy_good n h.length h id p f h' id' (Nat.le_refl _) he
  refine ⟨?_, by rw [hid]; exact Nat.lt_irrefl _, by simp⟩
  intro x nd hx hnx c hc
  have hge : h.length ≤ x := Nat.le_of_not_lt hnx
  rw [List.getElem?_append_right hge] at hx
  exact Nat.not_lt.mpr (hfr nd (List.mem_of_getElem? hx) c hc)

/-- ... so a config made by copying can be merged into, from any source and under any policy, without any node that
existed before the copy changing: not the config it was copied from, not the source of the merge, no third config -/
theorem merge_into_copy_leaves_everything_else (n m cf : Nat) (pol : ArrPol) (h h1 h2 : Heap) (id cp frm : Id)
    (p : Option Id) (f : String) (hc : cpy n h id p f = some (h1, cp)) (hm : mergeH m cf pol h1 cp frm = some h2) :
    ∀ i, i < h.length → h2[i]? = h[i]? := by
  obtain ⟨hsep, hcp, hl⟩ := copy_separates_old_heap n h h1 id cp p f hc
  obtain ⟨keep, _, _⟩ := merge_leaves_separated_untouched (fun i : Nat => i < h.length) m cf pol h1 h2 cp frm
    (fun i hi => Nat.lt_of_lt_of_le hi hl) hsep hcp hm
  intro i hi
  rw [keep i hi]
  obtain ⟨t, rfl, _⟩ := cpy_good n 0 h id p f h1 cp (Nat.zero_le _) hc
  exact List.getElem?_append_left hi

/-- what `buildH` makes of a source value leaves the old heap a separated set -/
theorem build_separates_old_heap (cf : Nat) (h h1 : Heap) (s : Src) (p : Option Id) (f : String) (id : Id)
    (hb : buildH cf h s p f = some (h1, id)) :
    Sep (fun i : Nat => i < h.length) h1 ∧ ¬ (id < h.length) ∧ h.length ≤ h1.length ∧
      (∀ i, i < h.length → h1[i]? = h[i]?) := by
  have ok := buildH_ok cf s h p f h1 id hb
  refine ⟨?_, by rw [ok.id_eq]; exact Nat.lt_irrefl _, ok.ext.len, fun i hi => ok.ext.old hi⟩
  intro x nd hx hnx c hc
  exact Nat.not_lt.mpr (ok.fresh x nd (Nat.le_of_not_lt hnx) hx c hc)

/-- Merge(value) into a config that is not part of the value: every node that existed apart from the destination's own
tree - the configs embedded in the value, any third config - is identical afterwards.  `S` is any separated set the
destination is outside of; for a value without a directly given config it can be taken to be everything but the
destination's tree. -/
theorem mergeSrc_leaves_separated_untouched (S : Id → Prop) (n cf : Nat) (pol : ArrPol) (h h' : Heap) (to : Id) (src : Src)
    (hS : ∀ i : Nat, S i → i < h.length) (hsep : Sep S h) (hto : ¬ S to)
    (he : mergeSrcH n cf pol h to src = some h') : ∀ i, S i → h'[i]? = h[i]? := by
  cases src with
  | reg frm => exact (merge_leaves_separated_untouched S n cf pol h h' to frm hS hsep hto he).1
  | nil | prim _ _ | arr _ | map _ =>
    all_goals
      simp only [mergeSrcH] at he
      cases hb : buildH cf h _ none "" with
      | none => rw [hb] at he; cases he
      | some r =>
        obtain ⟨h1, frm⟩ := r
        rw [hb] at he
        simp only at he
        have ok := buildH_ok cf _ h none "" h1 frm hb
        -- the set stays separated: the new nodes list new nodes only
        have hsep1 : Sep S h1 := by
          intro x nd hx hnx c hc hSc
          by_cases hlt : x < h.length
          · rw [ok.ext.old hlt] at hx
            exact hsep x nd hx hnx c hc hSc
          · have := ok.fresh x nd (Nat.le_of_not_lt hlt) hx c hc
            exact absurd (hS c hSc) (Nat.not_lt.mpr this)
        have hS1 : ∀ i : Nat, S i → i < h1.length := fun i hi => Nat.lt_of_lt_of_le (hS i hi) ok.ext.len
        intro i hi
        rw [(merge_leaves_separated_untouched S n cf pol h1 h' to frm hS1 hsep1 hto he).1 i hi]
        exact ok.ext.old (hS i hi)

/-- NewFrom(value): nothing that existed changes - not the configs embedded in the value, nothing else -/
theorem newFrom_leaves_everything_untouched (n cf : Nat) (pol : ArrPol) (h h' : Heap) (src : Src) (root : Id)
    (he : newFromH n cf pol h src = some (h', root)) : ∀ i, i < h.length → h'[i]? = h[i]? := by
  unfold newFromH at he
  cases hm : mergeSrcH n cf pol (h ++ [⟨none, "", .sub [] []⟩]) h.length src with
  | none => rw [hm] at he; cases he
  | some h2 =>
    rw [hm] at he
    simp only [Option.some.injEq, Prod.mk.injEq] at he
    obtain ⟨rfl, _⟩ := he
    have hsep : Sep (fun i : Nat => i < h.length) (h ++ [(⟨none, "", .sub [] []⟩ : Node)]) := by
      intro x nd hx hnx c hc
      have hge : h.length ≤ x := Nat.le_of_not_lt hnx
      rw [List.getElem?_append_right hge] at hx
      cases hxi : x - h.length with
      | zero =>
        rw [hxi] at hx
        simp only [List.getElem?_cons_zero, Option.some.injEq] at hx
        subst hx
        simp [Body.children] at hc
      | succ k => rw [hxi] at hx; simp at hx
    intro i hi
    rw [mergeSrc_leaves_separated_untouched (fun i : Nat => i < h.length) n cf pol _ h2 h.length src
      (fun i hi => by simp; omega) hsep (Nat.lt_irrefl _) hm i hi]
    exact List.getElem?_append_left hi

/-- non-vacuity: NewFrom of `{k: <config 0>, n: 1}` copies config 0 (`{a: 7}`) and leaves it alone -/
example : (newFromH 20 20 .merge [⟨none, "", .sub [("a", 1)] []⟩, ⟨some 0, "a", .prim "int" "7"⟩]
    (.map [("k", .reg 0), ("n", .prim "int" "1")])).map (fun r => (r.1.length, r.1[0]?, r.1[1]?)) =
    some (10, some ⟨none, "", .sub [("a", 1)] []⟩, some ⟨some 0, "a", .prim "int" "7"⟩) := by decide

/-- worked example: `{a: {x: 1}}` (nodes 0-2) merged from `{a: {y: 2}, l: [3]}` (nodes 3-7); `S` is the source's tree -/
def exHeap : Heap :=
  [⟨none, "", .sub [("a", 1)] []⟩, ⟨some 0, "a", .sub [("x", 2)] []⟩, ⟨some 1, "x", .prim "int" "1"⟩,
   ⟨none, "", .sub [("a", 4), ("l", 6)] []⟩, ⟨some 3, "a", .sub [("y", 5)] []⟩, ⟨some 4, "y", .prim "int" "2"⟩,
   ⟨some 3, "l", .sub [] [7]⟩, ⟨some 6, "0", .prim "int" "3"⟩]

/-- the merge runs and allocates three nodes (y, l, l.0 - nothing for `a`, which is merged in place) -/
example : (mergeH 20 20 .merge exHeap 0 3).map (·.length) = some 11 := by rfl

/-- the source's tree -/
def exS : Nat → Prop := fun i => 3 ≤ i ∧ i < 8

/-- the hypotheses are met: the source's tree is separated from the destination's -/
example : (∀ i : Nat, exS i → i < exHeap.length) ∧ Sep exS exHeap ∧ ¬ exS 0 := by
  refine ⟨fun i hi => hi.2, ?_, fun h => by unfold exS at h; omega⟩
  intro x nd hx hnx c hc
  unfold exS at hnx ⊢
  match x, hx with
  | 0, hx => simp [exHeap] at hx; subst hx; simp [Body.children] at hc; subst hc; omega
  | 1, hx => simp [exHeap] at hx; subst hx; simp [Body.children] at hc; subst hc; omega
  | 2, hx => simp [exHeap] at hx; subst hx; simp [Body.children] at hc
  | n+3, hx =>
    by_cases hn : n + 3 < 8
    · exact absurd ⟨by omega, hn⟩ hnx
    · have : exHeap.length ≤ n + 3 := by simp only [exHeap, List.length_cons, List.length_nil]; omega
      rw [List.getElem?_eq_none this] at hx; cases hx

end Ucfg.C10
