import Ucfg.Lemmas.Forest
/-!
  C10 — merging copies: the source is untouched and nothing is shared.

  Everything Merge stores into the destination is `x.cpy(ctx)` (mergeConfigDict, mergeConfigMergeArr) or goes through
  fields.append, which copies (`a[i].cpy(ctx)`); since the repair of D18 the same holds for a *Config embedded in the
  source value (normalizeValue).  On the identity-level model:
  * `copy_leaves_every_node_untouched`: a copy only allocates - every node that existed (the source, its parents, the
    rest of the heap) is identical afterwards, so the source's content, path, parent and the expressions it holds are;
  * `copy_is_made_of_new_nodes`: the copy is the first new node, and no node of it points at a node that existed
    before - destination and source share no state;
  * `copy_has_requested_context`: it is linked to its new place;
  * `append_leaves_sources_untouched` / `append_stores_new_nodes`: the same for the list merge policies;
  * `write_is_local_*`: the in-place writes change one node, so a later write to one config is invisible through any
    node that is not that node (with the two theorems above: through the other config).
  Not proved: that Merge is a composition of these primitives for every policy (the model's header records where each
  is used; histories through the fingerprint hook check it), and the embedded-config path of normalize.
-/
namespace Ucfg.C10
open Ucfg.Forest

/-- the source (and everything else that existed) is bit-for-bit what it was -/
theorem copy_leaves_every_node_untouched (n : Nat) (h h' : Heap) (id id' : Id) (p : Option Id) (f : String)
    (he : cpy n h id p f = some (h', id')) : ∀ (i : Nat) (nd : Node), h[i]? = some nd → h'[i]? = some nd :=
  fun i nd hi => cpy_old_nodes he i nd hi

/-- the copy consists of new nodes only, and none of them points at an old node -/
theorem copy_is_made_of_new_nodes (n : Nat) (h h' : Heap) (id id' : Id) (p : Option Id) (f : String)
    (he : cpy n h id p f = some (h', id')) :
    id' = h.length ∧ h.length < h'.length ∧
    ∀ (i : Nat) (nd : Node), h.length ≤ i → h'[i]? = some nd → ∀ c ∈ nd.body.children, h.length ≤ c := by
  obtain ⟨t, rfl, hid, hfresh, ⟨b, hb⟩⟩ := cpy_good n h.length h id p f h' id' (Nat.le_refl _) he
  refine ⟨hid, ?_, ?_⟩
  · subst hid
    rcases Nat.lt_or_ge h.length (h ++ t).length with hl | hl
    · exact hl
    · rw [List.getElem?_eq_none hl] at hb; cases hb
  · intro i nd hi hnd c hc
    rw [List.getElem?_append_right hi] at hnd
    exact hfresh nd (List.mem_of_getElem? hnd) c hc

theorem copy_has_requested_context (n : Nat) (h h' : Heap) (id id' : Id) (p : Option Id) (f : String)
    (he : cpy n h id p f = some (h', id')) : ∃ b, h'[id']? = some ⟨p, f, b⟩ := by
  obtain ⟨_, _, _, _, hb⟩ := cpy_good n 0 h id p f h' id' (Nat.zero_le _) he
  exact hb

/-- non-vacuity: copying a two-node tree -/
example : cpy 3 [⟨none, "", .sub [("a", 1)] []⟩, ⟨some 0, "a", .prim "int" "7"⟩] 0 (some 9) "k" =
    some ([⟨none, "", .sub [("a", 1)] []⟩, ⟨some 0, "a", .prim "int" "7"⟩, ⟨some 9, "k", .sub [("a", 3)] []⟩, ⟨some 2, "a", .prim "int" "7"⟩], 2) := by
  decide

/-- list merges (append, prepend, replace, longer list): every node except the destination's own is untouched -/
theorem append_leaves_sources_untouched (fuel : Nat) (src : List Id) (h h' : Heap) (to : Id) (p : Option Id) (f : String)
    (d : List (String × Id)) (a : List Id)
    (hg : getSub h to = some (p, f, d, a)) (he : appendCpy fuel h to src = some h') :
    ∀ (i : Nat) (nd : Node), i ≠ to → h[i]? = some nd → h'[i]? = some nd := by
  obtain ⟨_, _, _, _, _, _, hframe⟩ := appendCpy_spec fuel src h h' to p f d a hg he
  exact hframe

/-- ... and what the destination gains are new nodes -/
theorem append_stores_new_nodes (fuel : Nat) (src : List Id) (h h' : Heap) (to : Id) (p : Option Id) (f : String)
    (d : List (String × Id)) (a : List Id)
    (hg : getSub h to = some (p, f, d, a)) (he : appendCpy fuel h to src = some h') :
    ∃ new, getSub h' to = some (p, f, d, a ++ new) ∧ ∀ c ∈ new, h.length ≤ c := by
  obtain ⟨new, h1, _, _, h4, _⟩ := appendCpy_spec fuel src h h' to p f d a hg he
  exact ⟨new, h1, h4⟩

/-- the in-place writes of Set*/Remove/Merge change exactly one node each -/
theorem write_is_local_body (h : Heap) (id i : Id) (b : Body) (hne : i ≠ id) : (setBody h id b)[i]? = h[i]? :=
  setBody_other h id i b hne

theorem write_is_local_field (h : Heap) (id i : Id) (f : String) (hne : i ≠ id) : (setField h id f)[i]? = h[i]? :=
  setField_other h id i f hne

/-- Remove from a list touches the list's node and the elements it moves, nothing else -/
theorem delAt_is_local (h : Heap) (to : Id) (i j : Nat) (p : Option Id) (f : String) (d : List (String × Id)) (a : List Id)
    (hg : getSub h to = some (p, f, d, a)) (hj : j ≠ to) (hja : j ∉ a) : (delAt h to i)[j]? = h[j]? := by
  unfold delAt
  rw [hg]
  simp only
  split
  · have : j ∉ (a.eraseIdx i).drop i := fun hc => hja (List.mem_of_mem_eraseIdx (List.mem_of_mem_drop hc))
    rw [renumber_other _ _ _ _ this, setBody_other _ _ _ _ hj]
  · rfl

end Ucfg.C10
