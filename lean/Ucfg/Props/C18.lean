import Ucfg.Model.Frontends
import Ucfg.Model.Conv
import Ucfg.Props.C03
import Ucfg.Lemmas.F64Int
/-!
  C18 — the three front-ends agree.  The decoders themselves are third-party; the model starts at the decoded
  document.  What is proved here: the JSON/HJSON re-representation of a document (`jsonFlavour`) keeps its shape and
  every non-numeric leaf, and a number keeps its *value*: the float64 an integer below 2^53 becomes converts back to
  exactly that integer (and to the same float) through the conversions every typed and generic read uses.
-/
namespace Ucfg.C18
open Ucfg

/-- keys and order of a dictionary are those of the yaml-decoded document -/
theorem jsonFlavourM_keys (m : List (String × GoData)) : (jsonFlavourM m).map (·.1) = m.map (·.1) := by
  induction m with
  | nil => simp [jsonFlavourM]
  | cons kv r ih => obtain ⟨k, d⟩ := kv; simp [jsonFlavourM, ih]

theorem jsonFlavourL_length (l : List GoData) : (jsonFlavourL l).length = l.length := by
  induction l with
  | nil => simp [jsonFlavourL]
  | cons d r ih => simp [jsonFlavourL, ih]

/-- strings, booleans and nulls are the same value in every front-end -/
theorem jsonFlavour_str (s : String) : jsonFlavour (.str s) = .str s := by simp [jsonFlavour]
theorem jsonFlavour_bool (b : Bool) : jsonFlavour (.bool b) = .bool b := by simp [jsonFlavour]
theorem jsonFlavour_nil : jsonFlavour .nil = .nil := by simp [jsonFlavour]
/-- a float literal is the same float64 in every front-end -/
theorem jsonFlavour_float (b : Nat) : jsonFlavour (.float b) = .float b := by simp [jsonFlavour]

end Ucfg.C18

namespace Ucfg.C18
open Ucfg Ucfg.C03 Ucfg.Spec.C03

theorem truncMag_zero (e : Int) : F64.truncMag 0 e = 0 := by
  unfold F64.truncMag; split <;> simp

/-! ### numbers keep their value

yaml.v2 hands an integer literal to NewFrom as an `int`, encoding/json and hjson-go as the `float64` nearest to it.
For |i| < 2^53 that float64 *is* i, and every numeric read gives the same result on both. -/

/-- |i| < 2^53: reading the JSON flavour of an integer setting as an integer gives that integer -/
theorem int_setting_same_toInt (i : Int) (h : i.natAbs < 2 ^ 53) :
    toOpt (Prim.toInt (.float (F64.ofInt i))) = toOpt (Prim.toInt (.int i)) := by
  rw [float_toInt]
  simp only [Prim.toInt, toOpt]
  by_cases h0 : i = 0
  · subst h0
    rw [F64.decode_ofInt_zero]
    simp [F64.truncFin, truncMag_zero, F64.sgn, intRange]
  · have hm : i.natAbs ≠ 0 := by omega
    rw [F64.decode_ofInt i h0 h]
    simp only [F64.truncFin, F64.truncMag_normMant _ hm h]
    have hs : F64.sgn (decide (i < 0)) i.natAbs = i := by
      unfold F64.sgn
      by_cases hn : i < 0
      · simp [hn]; omega
      · simp [hn]; omega
    rw [hs]
    have hr : intRange 64 i = true := by
      unfold intRange
      simp only [Bool.and_eq_true, decide_eq_true_eq]
      constructor <;> omega
    simp [hr]

/-- 0 ≤ i < 2^53: the same for unsigned reads -/
theorem int_setting_same_toUint (i : Int) (hnn : 0 ≤ i) (h : i.natAbs < 2 ^ 53) :
    toOpt (Prim.toUint (.float (F64.ofInt i))) = toOpt (Prim.toUint (.int i)) := by
  rw [float_toUint]
  have hg : Extracted.guard_intToUint_negative i = false := by
    simp [Extracted.guard_intToUint_negative]; omega
  simp only [Prim.toUint, hg, toOpt, Bool.false_eq_true, if_false]
  by_cases h0 : i = 0
  · subst h0
    rw [F64.decode_ofInt_zero]
    simp [truncMag_zero, uintRange]
  · have hm : i.natAbs ≠ 0 := by omega
    rw [F64.decode_ofInt i h0 h]
    have hneg : decide (i < 0) = false := by simp; omega
    simp only [hneg, Bool.false_and, Bool.false_eq_true, if_false, F64.truncMag_normMant _ hm h]
    have hr : uintRange 64 ((i.natAbs : Nat) : Int) = true := by
      unfold uintRange
      simp only [Bool.and_eq_true, decide_eq_true_eq]
      constructor <;> omega
    simp only [hr, if_true]
    have hnat : i.natAbs = i.toNat := by omega
    rw [hnat]

/-- negative integers are rejected by unsigned reads in both flavours -/
theorem negative_setting_rejected_toUint (i : Int) (hneg : i < 0) (h : i.natAbs < 2 ^ 53) :
    toOpt (Prim.toUint (.float (F64.ofInt i))) = none ∧ toOpt (Prim.toUint (.int i)) = none := by
  constructor
  · rw [float_toUint]
    have h0 : i ≠ 0 := by omega
    have hm : i.natAbs ≠ 0 := by omega
    rw [F64.decode_ofInt i h0 h]
    have hn : decide (i < 0) = true := by simp; omega
    have ⟨nb1, _⟩ := F64.normMant_bounds _ hm h
    have hne : (F64.normMant i.natAbs != 0) = true := by simp; omega
    simp [hn, hne]
  · have hg : Extracted.guard_intToUint_negative i = true := by
      simp [Extracted.guard_intToUint_negative]; omega
    simp [Prim.toUint, hg, toOpt, Outcome.raiseRaw]

/-- reading as a float gives the same float64 in both flavours, for every integer -/
theorem int_setting_same_toFloat (std : Stdlib) (i : Int) :
    Prim.toFloat std (.float (F64.ofInt i)) = Prim.toFloat std (.int i) := by
  simp [Prim.toFloat]

/-- non-vacuity: 2^53 - 1 and -(2^53 - 1) are covered, 2^53 + 1 is where float64 stops being exact -/
example : ((2 : Int) ^ 53 - 1).natAbs < 2 ^ 53 ∧ (-((2 : Int) ^ 53 - 1)).natAbs < 2 ^ 53 := by decide
example : F64.ofInt (2 ^ 53 + 1) = F64.ofInt (2 ^ 53) := by decide

end Ucfg.C18
