import Ucfg.Model.Tree
namespace Ucfg.C15
/-- placeholder while the forest model is being written -/
theorem stub : True := trivial
end Ucfg.C15
