import Ucfg.Lemmas.Forest
import Ucfg.Lemmas.ForestSet
import Ucfg.Lemmas.ForestPlacedSet
import Ucfg.Lemmas.ForestBuild
import Ucfg.Lemmas.ForestPlacedDel
/-!
  C15 — Path, Parent, FlattenedKeys and diff describe the actual structure.

  Stated on the identity-level model (Model/Forest.lean), where every node stores its context like the Go values do.
  * `storedPath_is_position`: along nodes that store their container and name, `context.path` is the actual position;
  * the primitives that place or move list elements keep "every element stores its index and its container":
    `append_assigns_indices` (fields.append, used by every list merge policy), `delAt_renumbers` (fields.delAt, the
    repaired defect D19), `setNamed_stores_context` / `setIdx_stores_context` (SetValue);
  * `copy_has_context`: a deep copy carries the context it was made for;
  * CompareConfigs partitions the two key sets (`compare_keep/add/remove`, `compare_exhaustive`, `compare_disjoint`)
    and reports no change for equal key sets (`compare_equal_sets_unchanged`).
  * Set* through a whole path (`setPathH`: phase 1 walk, one new object per missing segment): `set_builds_chain` - the new
    nodes form a chain below the container the walk stopped at, each storing the node above as parent and its segment as
    name, the last one being the value; `set_keeps_contexts` - no existing node's stored parent or name changes;
    `set_at_root_path` - for a container that is a root, `Path()` of the new value is exactly the address it was written
    to.
  * THE INVARIANT OVER HISTORIES: `WP h` - every entry of every node's dictionary is a node that stores this node as its
    parent and the entry's key as its name, every list element stores this node and its index - holds for the empty
    heap and is kept by deep copies (`cpy_wp`), by fields.append (`appendCpy_wp`), by Merge as a whole under every list
    policy (`merge_keeps_positions`, induction over the fuel with a claim per merge function), by Set* along a whole path
    (`set_keeps_positions`) and so by every history of such operations (`history_keeps_positions`); and under `WP` what
    `Path()` returns for a node reached from a root along entries is the list of keys and indices that led to it
    (`wp_path_is_position`).  Outside: SetChild of a config that already has a parent (known finding D20 - it breaks
    `WP`, `attach_attached_child_keeps_old_context`).  Remove keeps `WP` as single steps (`remove_name_keeps_positions`,
    `remove_index_keeps_positions` for lists whose nodes are listed once); NewFrom and Merge of source values are part of
    the histories (`HOp.new`, `HOp.mergeVal`).
  What is *not* proved: that every public operation is a composition of these primitives (that is the reading of
  merge.go/path.go the model's header records, checked on histories through the fingerprint hook), and the claim for a
  node attached at two positions (known finding D20).
-/
namespace Ucfg.C15
open Ucfg.Forest

/-- Path(): for a root without a name and a chain of nodes each storing its container and a non-empty name, the stored
path of the last node is the list of names leading to it -/
theorem storedPath_is_position (h : Heap) (root : Id) (links : List (String × Id)) (rb : Body)
    (hroot : h[root]? = some ⟨none, "", rb⟩) (hch : Chain h root links) (fuel : Nat) (hf : links.length < fuel) :
    storedPath fuel h ((links.getLast?.map (·.2)).getD root) = links.map (·.1) := by
  have hup : ∀ m, links.length ≤ m → storedPath (m - links.length + 1) h root = [] := by
    intro m _
    simp [storedPath, hroot]
  have := storedPath_chain h links 1 root [] hup hch (fuel - 1) (by omega)
  have e : fuel - 1 + 1 = fuel := by omega
  rw [e] at this
  simpa using this

/-- non-vacuity: a two-level tree -/
example : storedPath 5 [⟨none, "", .sub [("a", 1)] []⟩, ⟨some 0, "a", .sub [] [2]⟩, ⟨some 1, "0", .prim "int" "7"⟩] 2 = ["a", "0"] := by
  decide

/-- fields.append (append / prepend / replace / "longer list" merges): the copies are stored behind the existing
elements, each with its own index as name and the list's node as parent -/
theorem append_assigns_indices (fuel : Nat) (src : List Id) (h h' : Heap) (to : Id) (p : Option Id) (f : String)
    (d : List (String × Id)) (a : List Id)
    (hg : getSub h to = some (p, f, d, a)) (he : appendCpy fuel h to src = some h') :
    ∃ new, getSub h' to = some (p, f, d, a ++ new) ∧ new.length = src.length ∧ IndexedFrom h' to a.length new := by
  obtain ⟨new, h1, h2, h3, _⟩ := appendCpy_spec fuel src h h' to p f d a hg he
  exact ⟨new, h1, h2, h3⟩

/-- fields.delAt: after removing element `i`, every remaining element stores the index it now has (and still the list's
node as parent) -/
theorem delAt_renumbers (h : Heap) (to : Id) (i : Nat) (p : Option Id) (f : String) (d : List (String × Id)) (a : List Id)
    (hg : getSub h to = some (p, f, d, a)) (hi : i < a.length) (hnd : a.Nodup) (hlt : ∀ c ∈ a, c < h.length)
    (hto : to ∉ a) (hidx : IndexedFrom h to 0 a) :
    getSub (delAt h to i) to = some (p, f, d, a.eraseIdx i) ∧ IndexedFrom (delAt h to i) to 0 (a.eraseIdx i) := by
  have hnode := getSub_node hg
  have hdel : delAt h to i = renumber (setBody h to (.sub d (a.eraseIdx i))) ((a.eraseIdx i).drop i) i := by
    unfold delAt; rw [hg]; simp [hi]
  have hnd' : (a.eraseIdx i).Nodup := List.Nodup.eraseIdx i hnd
  have hsubmem : ∀ c, c ∈ (a.eraseIdx i).drop i → c ∈ a := fun c hc =>
    List.mem_of_mem_eraseIdx (List.mem_of_mem_drop hc)
  have htod : to ∉ (a.eraseIdx i).drop i := fun hc => hto (hsubmem _ hc)
  constructor
  · rw [hdel]
    apply getSub_of_node
    rw [renumber_other _ _ _ _ htod]
    exact setBody_same _ _ _ _ hnode
  · intro j c hj
    have hc_a : c ∈ a := List.mem_of_mem_eraseIdx (List.mem_of_getElem? hj)
    have hc_to : c ≠ to := fun e => hto (e ▸ hc_a)
    have hjlt : j < (a.eraseIdx i).length := by
      rcases Nat.lt_or_ge j (a.eraseIdx i).length with hl | hl
      · exact hl
      · rw [List.getElem?_eq_none hl] at hj; cases hj
    rw [hdel]
    by_cases hji : j < i
    · -- in front of the removed element: untouched
      have hnotin : c ∉ (a.eraseIdx i).drop i := by
        intro hc
        obtain ⟨k, hk⟩ := List.getElem?_of_mem hc
        rw [List.getElem?_drop] at hk
        have := (List.getElem?_inj hjlt hnd').mp (hj.trans hk.symm)
        omega
      rw [renumber_other _ _ _ _ hnotin, setBody_other _ _ _ _ hc_to]
      have hja : a[j]? = some c := by
        rw [List.getElem?_eraseIdx] at hj
        simpa [hji] using hj
      simpa using hidx j c hja
    · -- behind it: renumbered
      have hji' : i ≤ j := Nat.le_of_not_lt hji
      have hk : ((a.eraseIdx i).drop i)[j - i]? = some c := by
        rw [List.getElem?_drop]
        have : i + (j - i) = j := by omega
        rw [this]; exact hj
      have hlt' : ∀ x ∈ (a.eraseIdx i).drop i, x < (setBody h to (.sub d (a.eraseIdx i))).length := by
        intro x hx; rw [setBody_length]; exact hlt x (hsubmem x hx)
      have hndd : ((a.eraseIdx i).drop i).Nodup := List.Nodup.sublist (List.drop_sublist _ _) hnd'
      obtain ⟨nd, hnd0, hres⟩ := renumber_spec _ (setBody h to (.sub d (a.eraseIdx i))) i hndd hlt' (j - i) c hk
      rw [setBody_other _ _ _ _ hc_to] at hnd0
      have hja : a[j + 1]? = some c := by
        rw [List.getElem?_eraseIdx] at hj
        simpa [hji] using hj
      obtain ⟨b, hb⟩ := hidx (j + 1) c hja
      rw [hb] at hnd0
      simp only [Option.some.injEq] at hnd0
      subst hnd0
      refine ⟨b, ?_⟩
      rw [hres]
      have : i + (j - i) = j := by omega
      simp [this]

/-- non-vacuity and the defect itself: removing the first of three elements -/
example :
    let h : Heap := [⟨none, "", .sub [] [1, 2, 3]⟩, ⟨some 0, "0", .prim "int" "1"⟩, ⟨some 0, "1", .prim "int" "2"⟩, ⟨some 0, "2", .prim "int" "3"⟩]
    (delAt h 0 0)[2]? = some ⟨some 0, "0", .prim "int" "2"⟩ ∧ (delAt h 0 0)[3]? = some ⟨some 0, "1", .prim "int" "3"⟩ := by
  decide

/-- namedField.SetValue: the stored value carries the node it is stored in and the name it is stored under -/
theorem setNamed_stores_context (h : Heap) (to : Id) (name kind val : String) (p : Option Id) (f : String)
    (d : List (String × Id)) (a : List Id) (hg : getSub h to = some (p, f, d, a)) :
    (setNamedPrim h to name kind val)[h.length]? = some ⟨some to, name, .prim kind val⟩ ∧
    getSub (setNamedPrim h to name kind val) to = some (p, f, dictSet d name h.length, a) := by
  have hto := getSub_lt hg
  have hne : h.length ≠ to := Nat.ne_of_gt hto
  unfold setNamedPrim
  rw [hg]
  simp only
  constructor
  · rw [setBody_other _ _ _ _ hne]; simp
  · apply getSub_of_node
    have : (h ++ [(⟨some to, name, .prim kind val⟩ : Node)])[to]? = some ⟨p, f, .sub d a⟩ := by
      rw [List.getElem?_append_left hto]; exact getSub_node hg
    exact setBody_same _ _ _ _ this

/-- a deep copy carries the context it was made for -/
theorem copy_has_context (n : Nat) (h h' : Heap) (id id' : Id) (p : Option Id) (f : String)
    (he : cpy n h id p f = some (h', id')) : ∃ b, h'[id']? = some ⟨p, f, b⟩ := by
  obtain ⟨_, _, _, _, hb⟩ := cpy_good n 0 h id p f h' id' (Nat.zero_le _) he
  exact hb

/-! ### CompareConfigs -/

theorem mem_dedup (l : List String) (k : String) : k ∈ dedup l ↔ k ∈ l := by
  induction l with
  | nil => simp [dedup]
  | cons x r ih =>
    simp only [dedup]
    by_cases hx : r.contains x = true
    · rw [if_pos hx, ih]
      have hxr : x ∈ r := by simpa using hx
      constructor
      · intro h; exact List.mem_cons_of_mem _ h
      · intro h
        rcases List.mem_cons.mp h with rfl | h
        · exact hxr
        · exact h
    · rw [if_neg hx]
      simp [ih]

theorem compare_keep (old new : List String) (k : String) : k ∈ (compareKeys old new).keep ↔ k ∈ old ∧ k ∈ new := by
  simp [compareKeys, mem_dedup]

theorem compare_add (old new : List String) (k : String) : k ∈ (compareKeys old new).add ↔ k ∈ new ∧ k ∉ old := by
  simp [compareKeys, mem_dedup]

theorem compare_remove (old new : List String) (k : String) : k ∈ (compareKeys old new).remove ↔ k ∈ old ∧ k ∉ new := by
  simp [compareKeys, mem_dedup]

/-- every setting of either config is in one of the three classes -/
theorem compare_exhaustive (old new : List String) (k : String) (hk : k ∈ old ∨ k ∈ new) :
    k ∈ (compareKeys old new).keep ∨ k ∈ (compareKeys old new).add ∨ k ∈ (compareKeys old new).remove := by
  rw [compare_keep, compare_add, compare_remove]
  by_cases ho : k ∈ old <;> by_cases hn : k ∈ new <;> simp_all

/-- ... and in only one -/
theorem compare_disjoint (old new : List String) (k : String) :
    ¬ (k ∈ (compareKeys old new).keep ∧ k ∈ (compareKeys old new).add) ∧
    ¬ (k ∈ (compareKeys old new).keep ∧ k ∈ (compareKeys old new).remove) ∧
    ¬ (k ∈ (compareKeys old new).add ∧ k ∈ (compareKeys old new).remove) := by
  rw [compare_keep, compare_add, compare_remove]
  refine ⟨?_, ?_, ?_⟩ <;> intro ⟨h1, h2⟩ <;> simp_all

/-- two configs with the same settings: nothing added, nothing removed -/
theorem compare_equal_sets_unchanged (old new : List String) (h : ∀ k, k ∈ old ↔ k ∈ new) :
    (compareKeys old new).hasChanged = false := by
  have ha : (compareKeys old new).add = [] := by
    apply List.eq_nil_iff_forall_not_mem.mpr
    intro k hk; rw [compare_add] at hk; exact hk.2 ((h k).mpr hk.1)
  have hr : (compareKeys old new).remove = [] := by
    apply List.eq_nil_iff_forall_not_mem.mpr
    intro k hk; rw [compare_remove] at hk; exact hk.2 ((h k).mp hk.1)
  simp [Diff.hasChanged, ha, hr]

end Ucfg.C15

namespace Ucfg.C15
open Ucfg.Forest

/-! ### SetChild (attach) -/

/-- a config without a parent that is attached gets the place it is attached at as its context -/
theorem attach_fresh_child_gets_context (h : Heap) (child to : Id) (f : String) (n : Node)
    (hn : h[child]? = some n) (hp : n.parent = none) :
    (attachCtx h child to f)[child]? = some { n with parent := some to, field := f } := by
  unfold attachCtx
  rw [hn]
  simp only [hp, Option.isNone_none, if_true]
  have hlt : child < h.length := by
    rcases Nat.lt_or_ge child h.length with hl | hl
    · exact hl
    · rw [List.getElem?_eq_none hl] at hn; cases hn
  rw [List.getElem?_set_self hlt]

/-- known finding D20, as the model has it: a config that already has a parent is stored as it is - it keeps the name
and parent of its first position (cfgSub.SetContext's else-branch is lost with its value receiver) -/
theorem attach_attached_child_keeps_old_context (h : Heap) (child to q : Id) (f : String) (n : Node)
    (hn : h[child]? = some n) (hp : n.parent = some q) : attachCtx h child to f = h := by
  unfold attachCtx
  rw [hn]
  simp [hp]

end Ucfg.C15

namespace Ucfg.C15
open Ucfg.Forest

/-! ### fields.setAt pads with nil nodes that carry their index -/

/-- IndexedFrom survives an extension of the heap and a rewrite of the list's own node -/
theorem indexed_frame (h h' : Heap) (to : Id) (a : List Id) (hidx : IndexedFrom h to 0 a)
    (hframe : ∀ (i : Nat) (nd : Node), i ≠ to → h[i]? = some nd → h'[i]? = some nd) (hto : to ∉ a) :
    IndexedFrom h' to 0 a := by
  intro j c hj
  obtain ⟨b, hb⟩ := hidx j c hj
  have hne : c ≠ to := fun e => hto (e ▸ List.mem_of_getElem? hj)
  exact ⟨b, hframe c _ hne hb⟩

theorem padTo_spec : ∀ (n : Nat) (h : Heap) (to : Id) (idx : Nat) (p : Option Id) (f : String)
    (d : List (String × Id)) (a : List Id),
    getSub h to = some (p, f, d, a) → IndexedFrom h to 0 a → to ∉ a → (∀ c ∈ a, c < h.length) →
    idx ≤ a.length + n →
    ∃ pad, getSub (padTo n h to idx) to = some (p, f, d, a ++ pad) ∧ (a ++ pad).length = max a.length idx ∧
      IndexedFrom (padTo n h to idx) to 0 (a ++ pad) := by
  intro n
  induction n with
  | zero =>
    intro h to idx p f d a hg hidx _ _ hle
    refine ⟨[], by simpa [padTo] using hg, by simp; omega, by simpa [padTo] using hidx⟩
  | succ n ih =>
    intro h to idx p f d a hg hidx hto hlt hle
    unfold padTo
    rw [hg]
    simp only
    by_cases hlen : a.length < idx
    · rw [if_pos hlen]
      have htol := getSub_lt hg
      have hne : h.length ≠ to := Nat.ne_of_gt htol
      have hnode : (h ++ [nilNode (some to) (idxName a.length)])[to]? = some ⟨p, f, .sub d a⟩ := by
        rw [List.getElem?_append_left htol]; exact getSub_node hg
      have hg1 : getSub (setBody (h ++ [nilNode (some to) (idxName a.length)]) to (.sub d (a ++ [h.length]))) to =
          some (p, f, d, a ++ [h.length]) := getSub_of_node (setBody_same _ _ _ _ hnode)
      have hframe : ∀ (i : Nat) (nd : Node), i ≠ to → h[i]? = some nd →
          (setBody (h ++ [nilNode (some to) (idxName a.length)]) to (.sub d (a ++ [h.length])))[i]? = some nd := by
        intro i nd hi hnd
        rw [setBody_other _ _ _ _ hi]
        have hl : i < h.length := by
          rcases Nat.lt_or_ge i h.length with hl | hl
          · exact hl
          · rw [List.getElem?_eq_none hl] at hnd; cases hnd
        rw [List.getElem?_append_left hl]; exact hnd
      have hidx1 : IndexedFrom (setBody (h ++ [nilNode (some to) (idxName a.length)]) to (.sub d (a ++ [h.length]))) to 0
          (a ++ [h.length]) := by
        intro j c hj
        by_cases hja : j < a.length
        · rw [List.getElem?_append_left hja] at hj
          exact indexed_frame h _ to a hidx hframe hto j c hj
        · have hj' : j = a.length := by
            have : j < (a ++ [h.length]).length := by
              rcases Nat.lt_or_ge j (a ++ [h.length]).length with hl | hl
              · exact hl
              · rw [List.getElem?_eq_none hl] at hj; cases hj
            simp at this; omega
          subst hj'
          simp at hj
          subst hj
          refine ⟨.prim "nil" "", ?_⟩
          rw [setBody_other _ _ _ _ hne]
          simp [nilNode]
      have hto1 : to ∉ a ++ [h.length] := by
        simp only [List.mem_append, List.mem_singleton, not_or]
        exact ⟨hto, fun e => hne e.symm⟩
      have hlt1 : ∀ c ∈ a ++ [h.length], c < (setBody (h ++ [nilNode (some to) (idxName a.length)]) to (.sub d (a ++ [h.length]))).length := by
        intro c hc
        rw [setBody_length]
        simp only [List.mem_append, List.mem_singleton] at hc
        rcases hc with hc | hc
        · have hc' := hlt c hc
          simp only [List.length_append, List.length_singleton]
          exact Nat.lt_succ_of_lt hc'
        · subst hc; simp
      obtain ⟨pad, hgp, hlenp, hidxp⟩ := ih _ to idx p f d (a ++ [h.length]) hg1 hidx1 hto1 hlt1 (by simp; omega)
      refine ⟨h.length :: pad, by simpa using hgp, ?_, by simpa using hidxp⟩
      have : (a ++ [h.length] ++ pad).length = max (a ++ [h.length]).length idx := hlenp
      simp at this ⊢
      omega
    · rw [if_neg hlen]
      refine ⟨[], by simpa using hg, by simp; omega, by simpa using hidx⟩

end Ucfg.C15

namespace Ucfg.C15
open Ucfg.Forest

/-- a Set* call that succeeds: below the container the walk stopped at, the missing objects and the value are a chain of
nodes each storing the node above as its parent and its own segment as its name -/
theorem set_builds_chain (h h' : Heap) (root : Id) (segs : List Seg) (k v : String)
    (hs : setPathH h root segs (.prim k v) = .ok h') (hnames : ∀ s ∈ segs, s.str ≠ "") (hne : segs ≠ []) :
    ∃ (to : Id) (rest : List Seg) (links : List (String × Id)), walkSet h root segs = .stop to rest ∧
      links.map (·.1) = rest.map Seg.str ∧ Chain h' to links ∧
      ∃ nm leaf p, links.getLast? = some (nm, leaf) ∧ h'[leaf]? = some ⟨some p, nm, .prim k v⟩ := by
  unfold setPathH at hs
  cases hw : walkSet h root segs with
  | unmodelled => rw [hw] at hs; cases hs
  | err => rw [hw] at hs; cases hs
  | stop to rest =>
    rw [hw] at hs
    simp only at hs
    cases hg : getSub h to with
    | none => rw [hg] at hs; cases hs
    | some q =>
      rw [hg] at hs
      simp only [SetRes.ok.injEq] at hs
      subst hs
      have hrest : rest ≠ [] ∧ ∀ s ∈ rest, s ∈ segs := walkSet_rest h root segs to rest hne hw
      obtain ⟨links, hm, hch, hl⟩ := setChain_chain k v rest h to (getSub_lt hg) hrest.1
        (fun s hs => hnames s (hrest.2 s hs))
      exact ⟨to, rest, links, rfl, hm, hch, hl⟩

/-- ... and no node that existed keeps anything but its stored parent and name: a write moves nothing -/
theorem set_keeps_contexts (h h' : Heap) (root : Id) (segs : List Seg) (k v : String)
    (hs : setPathH h root segs (.prim k v) = .ok h') : SameCtx h h' := by
  unfold setPathH at hs
  cases hw : walkSet h root segs with
  | unmodelled => rw [hw] at hs; cases hs
  | err => rw [hw] at hs; cases hs
  | stop to rest =>
    rw [hw] at hs
    simp only at hs
    cases hg : getSub h to with
    | none => rw [hg] at hs; cases hs
    | some q =>
      rw [hg] at hs
      simp only [SetRes.ok.injEq] at hs
      subst hs
      exact setChain_sameCtx k v rest h to

/-- written below a root: Path() of the new value is the address that was built -/
theorem set_at_root_path (h : Heap) (root : Id) (rb : Body) (rest : List Seg) (k v : String)
    (hroot : h[root]? = some ⟨none, "", rb⟩) (hne : rest ≠ []) (hnames : ∀ s ∈ rest, s.str ≠ "") :
    ∃ leaf, (∃ p nm, (setChain h root rest (.prim k v))[leaf]? = some ⟨some p, nm, .prim k v⟩) ∧
      storedPath (rest.length + 1) (setChain h root rest (.prim k v)) leaf = rest.map Seg.str := by
  have hlt : root < h.length := by
    apply Nat.lt_of_not_le
    intro hle
    rw [List.getElem?_eq_none hle] at hroot
    cases hroot
  obtain ⟨links, hm, hch, nm, leaf, p, hlast, hl⟩ := setChain_chain k v rest h root hlt hne hnames
  obtain ⟨b, hb⟩ := (setChain_sameCtx k v rest h root).2 root _ hroot
  have hlen : links.length = rest.length := by
    have := congrArg List.length hm
    simpa using this
  have := storedPath_is_position (setChain h root rest (.prim k v)) root links b hb hch (rest.length + 1) (by omega)
  rw [hlast] at this
  simp only [Option.map_some, Option.getD_some] at this
  exact ⟨leaf, ⟨p, nm, hl⟩, by rw [this, hm]⟩

/-- non-vacuity: `a.b.0 = 7` written into an empty root builds the two objects and pads nothing -/
example : setPathH [⟨none, "", .sub [] []⟩] 0 [.name "a", .name "b", .idx 0] (.prim "int" "7") =
    .ok [⟨none, "", .sub [("a", 1)] []⟩, ⟨some 0, "a", .sub [("b", 2)] []⟩, ⟨some 1, "b", .sub [] [3]⟩,
         ⟨some 2, "0", .prim "int" "7"⟩] := by decide

example : storedPath 4 [⟨none, "", .sub [("a", 1)] []⟩, ⟨some 0, "a", .sub [("b", 2)] []⟩, ⟨some 1, "b", .sub [] [3]⟩,
         ⟨some 2, "0", .prim "int" "7"⟩] 3 = ["a", "b", "0"] := by decide

end Ucfg.C15

/-! ### the invariant over histories -/
namespace Ucfg.C15
open Ucfg.Forest

/-- the empty heap stores all positions correctly, and so does a heap holding one empty root -/
theorem wp_empty : WP [] := by intro a nd hn; simp at hn

theorem wp_new_root : WP [⟨none, "", .sub [] []⟩] := by
  intro a nd hn
  cases a with
  | zero =>
    simp only [List.getElem?_cons_zero, Option.some.injEq] at hn
    subst hn
    exact ⟨fun kc hkc => (by cases hkc), fun i c hc => (by simp at hc)⟩
  | succ j => simp at hn

/-- Merge, as a whole and under every list policy, keeps every stored position right -/
theorem merge_keeps_positions (n cf : Nat) (pol : ArrPol) (h h' : Heap) (to frm : Id) (w : WP h)
    (he : mergeH n cf pol h to frm = some h') : WP h' :=
  (wclaims n).mh cf pol h h' to frm w he

/-- Set* along a whole path keeps every stored position right -/
theorem set_keeps_positions (h h' : Heap) (root : Id) (segs : List Seg) (k v : String) (w : WP h)
    (hs : setPathH h root segs (.prim k v) = .ok h') : WP h' := by
  unfold setPathH at hs
  cases hw : walkSet h root segs with
  | unmodelled => rw [hw] at hs; cases hs
  | err => rw [hw] at hs; cases hs
  | stop to rest =>
    rw [hw] at hs
    simp only at hs
    cases hg : getSub h to with
    | none => rw [hg] at hs; cases hs
    | some q =>
      rw [hg] at hs
      simp only [SetRes.ok.injEq] at hs
      subst hs
      exact setChain_wp k v rest h to (getSub_lt hg) w

/-- Merge(value) keeps every stored position right: what is built from the value stores its positions (`buildH_ok`) -/
theorem mergeSrc_keeps_positions (n cf : Nat) (pol : ArrPol) (h h' : Heap) (to : Id) (src : Src) (w : WP h)
    (he : mergeSrcH n cf pol h to src = some h') : WP h' := by
  cases src with
  | reg frm => exact merge_keeps_positions n cf pol h h' to frm w he
  | nil | prim _ _ | arr _ | map _ =>
    all_goals
      simp only [mergeSrcH] at he
      cases hb : buildH cf h _ none "" with
      | none => rw [hb] at he; cases he
      | some r =>
        obtain ⟨h1, frm⟩ := r
        rw [hb] at he
        simp only at he
        exact merge_keeps_positions n cf pol h1 h' to frm ((buildH_ok cf _ h none "" h1 frm hb).wp w) he

/-- NewFrom(value) keeps every stored position right -/
theorem newFrom_keeps_positions (n cf : Nat) (pol : ArrPol) (h h' : Heap) (src : Src) (root : Id) (w : WP h)
    (he : newFromH n cf pol h src = some (h', root)) : WP h' := by
  unfold newFromH at he
  cases hm : mergeSrcH n cf pol (h ++ [⟨none, "", .sub [] []⟩]) h.length src with
  | none => rw [hm] at he; cases he
  | some h2 =>
    rw [hm] at he
    simp only [Option.some.injEq, Prod.mk.injEq] at he
    obtain ⟨rfl, _⟩ := he
    apply mergeSrc_keeps_positions n cf pol _ h2 h.length src _ hm
    apply wp_append _ w
    intro j nd hj
    cases j with
    | zero =>
      simp only [List.getElem?_cons_zero, Option.some.injEq] at hj
      subst hj
      exact ⟨fun kc hkc => (by cases hkc), fun i c hc => (by simp at hc)⟩
    | succ j => simp at hj

/-- the operations of a history: NewFrom and Merge of values (plain data with configs embedded anywhere), merges between
any two nodes, primitive writes along any path -/
inductive HOp where
  | new (pol : ArrPol) (src : Src)
  | mergeVal (pol : ArrPol) (to : Id) (src : Src)
  | merge (pol : ArrPol) (to frm : Id)
  | set (root : Id) (segs : List Seg) (kind val : String)

/-- run a history; an operation the model does not describe (`none` / `unmodelled`) or that Go refuses leaves the heap -/
def runOps (n cf : Nat) : Heap → List HOp → Heap
  | h, [] => h
  | h, .new pol src :: r =>
    (match newFromH n cf pol h src with
     | some (h1, _) => runOps n cf h1 r
     | none => runOps n cf h r)
  | h, .mergeVal pol to src :: r =>
    (match mergeSrcH n cf pol h to src with
     | some h1 => runOps n cf h1 r
     | none => runOps n cf h r)
  | h, .merge pol to frm :: r =>
    (match mergeH n cf pol h to frm with
     | some h1 => runOps n cf h1 r
     | none => runOps n cf h r)
  | h, .set root segs k v :: r =>
    (match setPathH h root segs (.prim k v) with
     | .ok h1 => runOps n cf h1 r
     | _ => runOps n cf h r)

/-- after ANY history of NewFrom, Merge and Set* calls - starting from nothing (`wp_empty`) - every node stores the
position it is at -/
theorem history_keeps_positions (n cf : Nat) (ops : List HOp) : ∀ h, WP h → WP (runOps n cf h ops) := by
  induction ops with
  | nil => intro h w; exact w
  | cons op r ih =>
    intro h w
    cases op with
    | new pol src =>
      simp only [runOps]
      cases hm : newFromH n cf pol h src with
      | none => exact ih h w
      | some r1 => obtain ⟨h1, root⟩ := r1; exact ih h1 (newFrom_keeps_positions n cf pol h h1 src root w hm)
    | mergeVal pol to src =>
      simp only [runOps]
      cases hm : mergeSrcH n cf pol h to src with
      | none => exact ih h w
      | some h1 => exact ih h1 (mergeSrc_keeps_positions n cf pol h h1 to src w hm)
    | merge pol to frm =>
      simp only [runOps]
      cases hm : mergeH n cf pol h to frm with
      | none => exact ih h w
      | some h1 => exact ih h1 (merge_keeps_positions n cf pol h h1 to frm w hm)
    | set root segs k v =>
      simp only [runOps]
      cases hs : setPathH h root segs (.prim k v) with
      | ok h1 => exact ih h1 (set_keeps_positions h h1 root segs k v w hs)
      | err => exact ih h w
      | unmodelled => exact ih h w

/-- `links` leads from `up` down through entries that are actually stored: each node is listed in the one above under
the name given (a dictionary key, or the index of a list element) -/
def Descends (h : Heap) : Id → List (String × Id) → Prop
  | _, [] => True
  | up, (name, id) :: r =>
    (∃ p f d a, getSub h up = some (p, f, d, a) ∧ ((name, id) ∈ d ∨ ∃ i, a[i]? = some id ∧ name = idxName i)) ∧
    Descends h id r

theorem wp_chain {h : Heap} (w : WP h) : ∀ (links : List (String × Id)) (up : Id),
    Descends h up links → (∀ l ∈ links, l.1 ≠ "") → Chain h up links := by
  intro links
  induction links with
  | nil => intro up _ _; trivial
  | cons l r ih =>
    intro up hd hne
    obtain ⟨name, id⟩ := l
    obtain ⟨⟨p, f, d, a, hg, hin⟩, hrest⟩ := hd
    have pl := placed_of_getSub w hg
    refine ⟨?_, hne _ (List.mem_cons_self ..), ih id hrest (fun l hl => hne l (List.mem_cons_of_mem _ hl))⟩
    rcases hin with hin | ⟨i, hi, rfl⟩
    · exact pl.1 _ hin
    · exact pl.2 i id hi

/-- under the invariant, Path() of a node reached from a root along stored entries is exactly the keys and indices that
led to it -/
theorem wp_path_is_position {h : Heap} (w : WP h) (root : Id) (rb : Body) (links : List (String × Id))
    (hroot : h[root]? = some ⟨none, "", rb⟩) (hd : Descends h root links) (hne : ∀ l ∈ links, l.1 ≠ "")
    (fuel : Nat) (hf : links.length < fuel) :
    storedPath fuel h ((links.getLast?.map (·.2)).getD root) = links.map (·.1) :=
  storedPath_is_position h root links rb hroot (wp_chain w links root hd hne) fuel hf

/-- non-vacuity: two roots, `{a: {x: 1}}` and `{a: {y: 2}, l: [3]}`; the heap is well placed, stays so under the merge, and
the merged-in `l.0` reports its path -/
def exH : Heap :=
  [⟨none, "", .sub [("a", 1)] []⟩, ⟨some 0, "a", .sub [("x", 2)] []⟩, ⟨some 1, "x", .prim "int" "1"⟩,
   ⟨none, "", .sub [("a", 4), ("l", 6)] []⟩, ⟨some 3, "a", .sub [("y", 5)] []⟩, ⟨some 4, "y", .prim "int" "2"⟩,
   ⟨some 3, "l", .sub [] [7]⟩, ⟨some 6, "0", .prim "int" "3"⟩]

example : (mergeH 20 20 .merge exH 0 3).map (fun h' => storedPath 5 h' 10) = some ["l", "0"] := by decide

/-- the invariant as a check that can be run -/
def storesB (h : Heap) (a : Id) (name : String) (c : Id) : Bool :=
  match h[c]? with
  | some nd => nd.parent == some a && nd.field == name
  | none => false

def placedB (h : Heap) (a : Id) : Body → Bool
  | .prim .. => true
  | .sub d arr => d.all (fun kc => storesB h a kc.1 kc.2) && arr.zipIdx.all (fun ci => storesB h a (idxName ci.2) ci.1)

def wpB (h : Heap) : Bool := h.zipIdx.all (fun na => placedB h na.2 na.1.body)

theorem storesB_sound {h : Heap} {a : Id} {name : String} {c : Id} (hs : storesB h a name c = true) :
    ∃ b, h[c]? = some (⟨some a, name, b⟩ : Node) := by
  unfold storesB at hs
  cases hn : h[c]? with
  | none => rw [hn] at hs; cases hs
  | some nd =>
    rw [hn] at hs
    simp only [Bool.and_eq_true, beq_iff_eq] at hs
    obtain ⟨np, nf, nb⟩ := nd
    simp only at hs
    obtain ⟨rfl, rfl⟩ := hs
    exact ⟨nb, rfl⟩

theorem wpB_sound {h : Heap} (hb : wpB h = true) : WP h := by
  intro a nd hn
  unfold wpB at hb
  rw [List.all_eq_true] at hb
  have := hb (nd, a) (List.mem_zipIdx_iff_getElem?.mpr hn)
  simp only at this
  cases hbody : nd.body with
  | prim k v => trivial
  | sub d arr =>
    rw [hbody] at this
    simp only [placedB, Bool.and_eq_true, List.all_eq_true] at this
    refine ⟨fun kc hkc => storesB_sound (this.1 kc hkc), ?_⟩
    intro i c hc
    exact storesB_sound (this.2 (c, i) (List.mem_zipIdx_iff_getElem?.mpr hc))

/-- the two-root heap is well placed; so is what the merge makes of it (by the theorem, and by the check) -/
example : WP exH := wpB_sound (by decide)
example : (mergeH 20 20 .merge exH 0 3).map wpB = some true := by decide

end Ucfg.C15

/-! ### Remove -/
namespace Ucfg.C15
open Ucfg.Forest

/-- Remove of a named setting keeps every stored position right -/
theorem remove_name_keeps_positions (h : Heap) (to : Id) (name : String) (w : WP h) : WP (dictDel h to name) :=
  dictDel_wp h to name w

/-- removing a list element: the elements behind it move down and are renumbered.  The list's nodes have to be listed
once: not also as named settings of the same node, and the node is not its own element (both hold in every heap a
program can build without attaching a config twice). -/
theorem remove_index_keeps_positions (h : Heap) (to : Id) (i : Nat) (w : WP h)
    (hdisj : ∀ p f d a, getSub h to = some (p, f, d, a) → (∀ kc ∈ d, kc.2 ∉ a) ∧ to ∉ a) : WP (delAt h to i) := by
  cases hg : getSub h to with
  | none => unfold delAt; rw [hg]; exact w
  | some q =>
    obtain ⟨p, f, d, a⟩ := q
    by_cases hi : i < a.length
    · obtain ⟨hdis, hto⟩ := hdisj p f d a hg
      have pl := placed_of_getSub w hg
      have hnd : a.Nodup := wp_arr_nodup w hg
      have hlt : ∀ c ∈ a, c < h.length := by
        intro c hc
        obtain ⟨k, hk⟩ := List.getElem?_of_mem hc
        obtain ⟨b, hb⟩ := pl.2 k c hk
        exact lt_of_getElem?_some hb
      have hidx : IndexedFrom h to 0 a := by
        intro j c hj
        obtain ⟨b, hb⟩ := pl.2 j c hj
        exact ⟨b, by simpa using hb⟩
      -- the shape of the result
      let a' := a.eraseIdx i
      let cs := a'.drop i
      let h1 := setBody h to (.sub d a')
      have hdel : delAt h to i = renumber h1 cs i := by unfold delAt; rw [hg]; simp [hi, h1, cs, a']
      have hcs_a : ∀ c, c ∈ cs → c ∈ a := fun c hc => List.mem_of_mem_eraseIdx (List.mem_of_mem_drop hc)
      have s1 : SameCtx h h1 := (upd_setBody h to _).sameCtx
      -- every node keeps its parent; nodes outside `cs` keep their name too
      have keep_parent : ∀ x nd, h[x]? = some nd → ∃ f' b', (delAt h to i)[x]? = some (⟨nd.parent, f', b'⟩ : Node) ∧
          (x ∉ cs → f' = nd.field) := by
        intro x nd hx
        obtain ⟨b1, hb1⟩ := s1.2 x nd hx
        by_cases hxc : x ∈ cs
        · obtain ⟨f', hf'⟩ := renumber_field_only cs h1 i x _ hb1
          exact ⟨f', b1, by rw [hdel, hf'], fun hn => absurd hxc hn⟩
        · exact ⟨nd.field, b1, by rw [hdel, renumber_other _ _ _ _ hxc, hb1], fun _ => rfl⟩
      -- a child of a node other than `to` is not among the renumbered ones
      have child_not_cs : ∀ x nd, h[x]? = some nd → x ≠ to → ∀ c ∈ nd.body.children, c ∉ cs := by
        intro x nd hx hne c hc hcs
        have hca := hcs_a c hcs
        obtain ⟨k, hk⟩ := List.getElem?_of_mem hca
        obtain ⟨b, hb⟩ := pl.2 k c hk
        -- c stores `to` as its parent (element of to) and `x` (child of x)
        have plx := w x nd hx
        cases hbody : nd.body with
        | prim k0 v0 => rw [hbody] at hc; simp [Body.children] at hc
        | sub dx ax =>
          rw [hbody] at hc plx
          simp only [Body.children, List.mem_append, List.mem_map] at hc
          rcases hc with ⟨kc, hkc, rfl⟩ | hc
          · obtain ⟨b2, hb2⟩ := plx.1 kc hkc
            rw [hb] at hb2
            simp only [Option.some.injEq, Node.mk.injEq, Option.some.injEq] at hb2
            exact hne hb2.1.symm
          · obtain ⟨k2, hk2⟩ := List.getElem?_of_mem hc
            obtain ⟨b2, hb2⟩ := plx.2 k2 c hk2
            rw [hb] at hb2
            simp only [Option.some.injEq, Node.mk.injEq, Option.some.injEq] at hb2
            exact hne hb2.1.symm
      obtain ⟨hgs, hidx'⟩ := delAt_renumbers h to i p f d a hg hi hnd hlt hto hidx
      intro x nd' hx'
      by_cases hxt : x = to
      · -- the node written to: its new body
        subst hxt
        have : nd'.body = .sub d a' := by
          have := getSub_node hgs
          rw [this] at hx'
          simp only [Option.some.injEq] at hx'
          rw [← hx']
        rw [this]
        refine ⟨?_, ?_⟩
        · intro kc hkc
          obtain ⟨b, hb⟩ := pl.1 kc hkc
          obtain ⟨f', b', hres, hf⟩ := keep_parent kc.2 _ hb
          have : kc.2 ∉ cs := fun hc => hdis kc hkc (hcs_a _ hc)
          rw [hf this] at hres
          exact ⟨b', hres⟩
        · intro j c hj
          obtain ⟨b, hb⟩ := hidx' j c hj
          exact ⟨b, by simpa using hb⟩
      · -- any other node: it has the body it had, and none of its children was renumbered
        have hxlt : x < h.length := by
          have : x < (delAt h to i).length := lt_of_getElem?_some hx'
          rw [hdel, renumber_length, setBody_length] at this
          exact this
        obtain ⟨nd, hnd0⟩ : ∃ nd, h[x]? = some nd := ⟨h[x], List.getElem?_eq_getElem hxlt⟩
        have hbody : nd'.body = nd.body := by
          have h1x : h1[x]? = some nd := by rw [setBody_other _ _ _ _ hxt]; exact hnd0
          obtain ⟨f', hf'⟩ := renumber_field_only cs h1 i x nd h1x
          rw [hdel, hf'] at hx'
          simp only [Option.some.injEq] at hx'
          rw [← hx']
        rw [hbody]
        have plx := w x nd hnd0
        have hch := child_not_cs x nd hnd0 hxt
        cases hb : nd.body with
        | prim k0 v0 => trivial
        | sub dx ax =>
          rw [hb] at plx hch
          refine ⟨?_, ?_⟩
          · intro kc hkc
            obtain ⟨b, hbb⟩ := plx.1 kc hkc
            obtain ⟨f', b', hres, hf⟩ := keep_parent kc.2 _ hbb
            have : kc.2 ∉ cs := hch kc.2 (by simp only [Body.children, List.mem_append, List.mem_map]; exact Or.inl ⟨kc, hkc, rfl⟩)
            rw [hf this] at hres
            exact ⟨b', hres⟩
          · intro j c hj
            obtain ⟨b, hbb⟩ := plx.2 j c hj
            obtain ⟨f', b', hres, hf⟩ := keep_parent c _ hbb
            have : c ∉ cs := hch c (by simp only [Body.children, List.mem_append]; exact Or.inr (List.mem_of_getElem? hj))
            rw [hf this] at hres
            exact ⟨b', hres⟩
    · unfold delAt; rw [hg]; simp only [hi, if_false]; exact w


/-- Remove through a whole path (`removePathH`: the walk of cfgPath.Remove, then fields.del / fields.delAt): every stored
position stays right.  `htree`: the nodes of the list an element is removed from are listed once (see
`remove_index_keeps_positions`). -/
theorem remove_path_keeps_positions (h h' : Heap) (root : Id) (segs : List Seg) (w : WP h)
    (htree : ∀ to p f d a, getSub h to = some (p, f, d, a) → (∀ kc ∈ d, kc.2 ∉ a) ∧ to ∉ a)
    (hr : removePathH h root segs = some h') : WP h' := by
  unfold removePathH at hr
  split at hr
  · cases hr
  · rename_i last revInit _
    split at hr
    · cases hr
    · simp only [Option.some.injEq] at hr; subst hr; exact w
    · rename_i cont _
      split at hr
      · simp only [Option.some.injEq] at hr; subst hr; exact w
      · cases last with
        | idx i =>
          simp only [Option.some.injEq] at hr
          subst hr
          exact remove_index_keeps_positions h cont i w (fun p f d a hg => htree cont p f d a hg)
        | name k =>
          simp only [Option.some.injEq] at hr
          subst hr
          exact remove_name_keeps_positions h cont k w

end Ucfg.C15
