import Ucfg.Model.Unpack
/-
  C13 — Unpack changes only what the config mentions and nothing when it fails.

  reifyStruct works on a copy and assigns it back on success only; in the model this is the fact
  that `reifyStructT` returns the new field list (`Outcome`), so a failure has no field list to
  assign.  Proved: the frame laws of the field loop.  The before/after comparison on the real
  code (shallow snapshot) is the correspondence check's job.
-/
namespace Ucfg.C13
open Ucfg Outcome

/-- an ignored or unexported field is never touched (and never validated) -/
theorem skipped_field_unchanged (std : Stdlib) (n : Nat) (o : Opts) (g tag vtag : String) (t : Ty)
    (fr : List (String × String × String × Ty)) (x : GoVal) (xr : List GoVal) (cfg : Val) (res : List GoVal)
    (hskip : accessField o g tag vtag = .ok none)
    (h : reifyStructT std (n + 1) o ((g, tag, vtag, t) :: fr) (x :: xr) cfg = .ok res) :
    res.head? = some x := by
  unfold reifyStructT at h
  simp only [hskip, Outcome.bind_ok] at h
  cases hrest : reifyStructT std n o fr xr cfg with
  | ok rest => rw [hrest] at h; simp only [Outcome.bind_ok] at h; cases h; rfl
  | err e => rw [hrest] at h; simp at h
  | panic s => rw [hrest] at h; simp at h
  | fuel => rw [hrest] at h; simp at h

/-- a primitive field the configuration has no setting for keeps its value -/
theorem unmentioned_primitive_unchanged (std : Stdlib) (n : Nat) (fo : FOpts) (k : Kind) (x r : GoVal) (cfg : Val) (name : String)
    (habs : pathGet tcPlain (parsePathOpts name fo.opts) cfg = .ok none)
    (h : getField' std (n + 1) fo (.prim k) x cfg name = .ok r) : r = x := by
  unfold getField' at h
  simp only [habs, Val.isNilOpt, if_true] at h
  cases hr : recValidate std fo.opts (.prim k) fo.validators x with
  | none => simp only [hr] at h; cases h; rfl
  | some e => simp [hr, raiseValidation] at h

/-- … and so does a pointer field: it is not allocated for an absent setting -/
theorem unmentioned_pointer_unchanged (std : Stdlib) (n : Nat) (fo : FOpts) (t : Ty) (x r : GoVal) (cfg : Val) (name : String)
    (habs : pathGet tcPlain (parsePathOpts name fo.opts) cfg = .ok none)
    (h : getField' std (n + 1) fo (.ptr t) x cfg name = .ok r) : r = x := by
  unfold getField' at h
  simp only [habs, Val.isNilOpt, if_true] at h
  cases hr : recValidate std fo.opts (.ptr t) fo.validators x with
  | none => simp only [hr] at h; cases h; rfl
  | some e => simp [hr, raiseValidation] at h

/-- the element loop of reifyDoArray neither adds nor drops slots -/
theorem doArray_length (std : Stdlib) : ∀ (n : Nat) (fo : FOpts) (t : Ty) (start : Nat) (xs : List GoVal) (arr : List Val) (res : List GoVal),
    doArray std n fo t start xs arr = .ok res → res.length = xs.length := by
  intro n
  induction n with
  | zero => intro fo t start xs arr res h; unfold doArray at h; simp at h
  | succ n ih =>
    intro fo t start xs arr res h
    cases xs with
    | nil => unfold doArray at h; simp at h; subst h; rfl
    | cons x xr =>
      cases start with
      | succ st =>
        unfold doArray at h
        cases hv : recValidate std fo.opts t [] x with
        | some e => simp [hv, raiseValidation] at h
        | none =>
          simp only [hv] at h
          cases hr : doArray std n fo t st xr arr with
          | ok rest => rw [hr] at h; simp at h; subst h; simp [ih fo t st xr arr rest hr]
          | err e => rw [hr] at h; simp at h
          | panic s => rw [hr] at h; simp at h
          | fuel => rw [hr] at h; simp at h
      | zero =>
        cases arr with
        | nil =>
          unfold doArray at h
          cases hv : recValidate std fo.opts t [] x with
          | some e => simp [hv, raiseValidation] at h
          | none =>
            simp only [hv] at h
            cases hr : doArray std n fo t 0 xr [] with
            | ok rest => rw [hr] at h; simp at h; subst h; simp [ih fo t 0 xr [] rest hr]
            | err e => rw [hr] at h; simp at h
            | panic s => rw [hr] at h; simp at h
            | fuel => rw [hr] at h; simp at h
        | cons v vr =>
          unfold doArray at h
          cases hm : mergeValue std n fo t x v with
          | ok nx =>
            rw [hm] at h
            simp only [Outcome.bind_ok] at h
            cases hr : doArray std n fo t 0 xr vr with
            | ok rest => rw [hr] at h; simp at h; subst h; simp [ih fo t 0 xr vr rest hr]
            | err e => rw [hr] at h; simp at h
            | panic s => rw [hr] at h; simp at h
            | fuel => rw [hr] at h; simp at h
          | err e => rw [hm] at h; simp at h
          | panic s => rw [hm] at h; simp at h
          | fuel => rw [hm] at h; simp at h

/-- unpacking a list setting into a nil slice gives a slice with exactly one slot per element -/
theorem fresh_slice_length (std : Stdlib) (n : Nat) (fo : FOpts) (t : Ty) (v : Val) (l : List GoVal)
    (h : sliceMerge std (n + 1) fo t none v = .ok (.slice (some l))) : l.length = (castArr v).length := by
  unfold sliceMerge at h
  simp only at h
  cases hd : doArray std n fo t 0 (List.replicate (castArr v).length (zeroOf t)) (castArr v) with
  | ok xs =>
    rw [hd] at h
    simp only [Outcome.bind_ok] at h
    have := doArray_length std n fo t 0 _ _ xs hd
    unfold finishArray at h
    simp only [] at h
    cases hr : runValidators std fo.validators (.slice (some xs)) with
    | none => simp only [hr] at h; cases h; simpa using this
    | some e => simp [hr, raiseValidation] at h
  | err e => rw [hd] at h; simp at h
  | panic s => rw [hd] at h; simp at h
  | fuel => rw [hd] at h; simp at h

end Ucfg.C13
