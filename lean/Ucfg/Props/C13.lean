import Ucfg.Model.Unpack
import Ucfg.Lemmas.UnpackValid
/-
  C13 — Unpack changes only what the config mentions and nothing when it fails.

  reifyStruct works on a copy and assigns it back on success only; in the model this is the fact
  that `reifyStructT` returns the new field list (`Outcome`), so a failure has no field list to
  assign.  Proved: the frame laws of the field loop.  The before/after comparison on the real
  code (shallow snapshot) is the correspondence check's job.
-/
namespace Ucfg.C13
open Ucfg Outcome

/-- an ignored or unexported field is never touched (and never validated) -/
theorem skipped_field_unchanged (std : Stdlib) (n : Nat) (o : Opts) (g tag vtag : String) (t : Ty)
    (fr : List (String × String × String × Ty)) (x : GoVal) (xr : List GoVal) (cfg : Val) (res : List GoVal)
    (hskip : accessField o g tag vtag = .ok none)
    (h : reifyStructT std (n + 1) o ((g, tag, vtag, t) :: fr) (x :: xr) cfg = .ok res) :
    res.head? = some x := by
  unfold reifyStructT at h
  simp only [hskip, Outcome.bind_ok] at h
  cases hrest : reifyStructT std n o fr xr cfg with
  | ok rest => rw [hrest] at h; simp only [Outcome.bind_ok] at h; cases h; rfl
  | err e => rw [hrest] at h; simp at h
  | panic s => rw [hrest] at h; simp at h
  | fuel => rw [hrest] at h; simp at h

/-- a primitive field the configuration has no setting for keeps its value -/
theorem unmentioned_primitive_unchanged (std : Stdlib) (n : Nat) (fo : FOpts) (k : Kind) (x r : GoVal) (cfg : Val) (name : String)
    (habs : pathGet tcPlain (parsePathOpts name fo.opts) cfg = .ok none)
    (h : getField' std (n + 1) fo (.prim k) x cfg name = .ok r) : r = x := by
  unfold getField' at h
  simp only [habs, Val.isNilOpt, if_true] at h
  cases hr : recValidate std fo.opts (.prim k) fo.validators x with
  | none => simp only [hr] at h; cases h; rfl
  | some e => simp [hr, raiseValidation] at h

/-- … and so does a pointer field: it is not allocated for an absent setting -/
theorem unmentioned_pointer_unchanged (std : Stdlib) (n : Nat) (fo : FOpts) (t : Ty) (x r : GoVal) (cfg : Val) (name : String)
    (habs : pathGet tcPlain (parsePathOpts name fo.opts) cfg = .ok none)
    (h : getField' std (n + 1) fo (.ptr t) x cfg name = .ok r) : r = x := by
  unfold getField' at h
  simp only [habs, Val.isNilOpt, if_true] at h
  cases hr : recValidate std fo.opts (.ptr t) fo.validators x with
  | none => simp only [hr] at h; cases h; rfl
  | some e => simp [hr, raiseValidation] at h

/-- the element loop of reifyDoArray neither adds nor drops slots -/
theorem doArray_length (std : Stdlib) : ∀ (n : Nat) (fo : FOpts) (t : Ty) (start : Nat) (xs : List GoVal) (arr : List Val) (res : List GoVal),
    doArray std n fo t start xs arr = .ok res → res.length = xs.length := by
  intro n
  induction n with
  | zero => intro fo t start xs arr res h; unfold doArray at h; simp at h
  | succ n ih =>
    intro fo t start xs arr res h
    cases xs with
    | nil => unfold doArray at h; simp at h; subst h; rfl
    | cons x xr =>
      cases start with
      | succ st =>
        unfold doArray at h
        cases hv : recValidate std fo.opts t [] x with
        | some e => simp [hv, raiseValidation] at h
        | none =>
          simp only [hv] at h
          cases hr : doArray std n fo t st xr arr with
          | ok rest => rw [hr] at h; simp at h; subst h; simp [ih fo t st xr arr rest hr]
          | err e => rw [hr] at h; simp at h
          | panic s => rw [hr] at h; simp at h
          | fuel => rw [hr] at h; simp at h
      | zero =>
        cases arr with
        | nil =>
          unfold doArray at h
          cases hv : recValidate std fo.opts t [] x with
          | some e => simp [hv, raiseValidation] at h
          | none =>
            simp only [hv] at h
            cases hr : doArray std n fo t 0 xr [] with
            | ok rest => rw [hr] at h; simp at h; subst h; simp [ih fo t 0 xr [] rest hr]
            | err e => rw [hr] at h; simp at h
            | panic s => rw [hr] at h; simp at h
            | fuel => rw [hr] at h; simp at h
        | cons v vr =>
          unfold doArray at h
          cases hm : mergeValue std n fo t x v with
          | ok nx =>
            rw [hm] at h
            simp only [Outcome.bind_ok] at h
            cases hr : doArray std n fo t 0 xr vr with
            | ok rest => rw [hr] at h; simp at h; subst h; simp [ih fo t 0 xr vr rest hr]
            | err e => rw [hr] at h; simp at h
            | panic s => rw [hr] at h; simp at h
            | fuel => rw [hr] at h; simp at h
          | err e => rw [hm] at h; simp at h
          | panic s => rw [hm] at h; simp at h
          | fuel => rw [hm] at h; simp at h

/-- unpacking a list setting into a nil slice gives a slice with exactly one slot per element -/
theorem fresh_slice_length (std : Stdlib) (n : Nat) (fo : FOpts) (t : Ty) (v : Val) (l : List GoVal)
    (h : sliceMerge std (n + 1) fo t none v = .ok (.slice (some l))) : l.length = (castArr v).length := by
  unfold sliceMerge at h
  simp only at h
  cases hd : doArray std n fo t 0 (List.replicate (castArr v).length (zeroOf t)) (castArr v) with
  | ok xs =>
    rw [hd] at h
    simp only [Outcome.bind_ok] at h
    have := doArray_length std n fo t 0 _ _ xs hd
    unfold finishArray at h
    simp only [] at h
    cases hr : runValidators std fo.validators (.slice (some xs)) with
    | none => simp only [hr] at h; cases h; simpa using this
    | some e => simp [hr, raiseValidation] at h
  | err e => rw [hd] at h; simp at h
  | panic s => rw [hd] at h; simp at h
  | fuel => rw [hd] at h; simp at h

/-! ### the frame of a whole struct

`Untouched` describes the fields the configuration has nothing for: ignored / unexported ones, and fields of primitive
or pointer type whose name the configuration does not hold. The lifted frame law: after a successful field loop every
such field - at any position, among any other fields - holds exactly what it held. -/

/-- the configuration has no say about this field -/
def Untouched (o : Opts) (cfg : Val) (f : String × String × String × Ty) : Prop :=
  accessField o f.1 f.2.1 f.2.2.1 = .ok none ∨
  ∃ fi, accessField o f.1 f.2.1 f.2.2.1 = .ok (some fi) ∧ fi.tag.squash = false ∧
    ((∃ k, f.2.2.2 = Ty.prim k) ∨ (∃ t, f.2.2.2 = Ty.ptr t)) ∧
    pathGet tcPlain (parsePathOpts fi.name { o with handling := fi.handling }) cfg = .ok none

theorem struct_frame (std : Stdlib) (o : Opts) (cfg : Val) :
    ∀ (fs : List (String × String × String × Ty)) (n : Nat) (xs xs' : List GoVal),
      reifyStructT std n o fs xs cfg = .ok xs' →
      ∀ (i : Nat) (f : String × String × String × Ty) (x : GoVal),
        fs[i]? = some f → xs[i]? = some x → Untouched o cfg f → xs'[i]? = some x := by
  intro fs
  induction fs with
  | nil => intro n xs xs' _ i f x hf; simp at hf
  | cons f0 fr ih =>
    intro n xs xs' h i f x hf hx hu
    obtain ⟨g, tag, vtag, t⟩ := f0
    cases n with
    | zero => simp [reifyStructT] at h
    | succ m =>
      cases xs with
      | nil => simp at hx
      | cons x0 xr =>
        unfold reifyStructT at h
        simp only [Bind.bind, Outcome.bind] at h
        cases ha : accessField o g tag vtag with
        | err e => rw [ha] at h; simp at h
        | panic s => rw [ha] at h; simp at h
        | fuel => rw [ha] at h; simp at h
        | ok fio =>
          rw [ha] at h
          simp only at h
          -- the head of the result, and the rest
          have key : ∃ x0' rest, xs' = x0' :: rest ∧ reifyStructT std m o fr xr cfg = .ok rest ∧
              (Untouched o cfg (g, tag, vtag, t) → x0' = x0) := by
            cases fio with
            | none =>
              simp only at h
              cases hr : reifyStructT std m o fr xr cfg with
              | ok rest =>
                rw [hr] at h; simp only [Outcome.ok.injEq] at h
                exact ⟨x0, rest, h.symm, rfl, fun _ => rfl⟩
              | err e => rw [hr] at h; simp at h
              | panic s => rw [hr] at h; simp at h
              | fuel => rw [hr] at h; simp at h
            | some fi =>
              simp only at h
              generalize hx0 : (if fi.tag.squash = true then _ else _ : Outcome GoVal) = r0 at h
              cases r0 with
              | ok x0' =>
                simp only at h
                cases hr : reifyStructT std m o fr xr cfg with
                | ok rest =>
                  rw [hr] at h; simp only [Outcome.ok.injEq] at h
                  refine ⟨x0', rest, h.symm, rfl, ?_⟩
                  intro hu0
                  rcases hu0 with hnone | ⟨fi', hfi', hsq, hty, habs⟩
                  · simp only at hnone; rw [ha] at hnone; cases hnone
                  · simp only at hfi' hty
                    rw [ha] at hfi'
                    simp only [Outcome.ok.injEq, Option.some.injEq] at hfi'
                    subst hfi'
                    simp only [hsq, Bool.false_eq_true, if_false] at hx0
                    cases m with
                    | zero => simp [getField'] at hx0
                    | succ m' =>
                      rcases hty with ⟨k, rfl⟩ | ⟨t', rfl⟩
                      · exact unmentioned_primitive_unchanged std m' _ k x0 x0' cfg fi.name habs hx0
                      · exact unmentioned_pointer_unchanged std m' _ t' x0 x0' cfg fi.name habs hx0
                | err e => rw [hr] at h; simp at h
                | panic s => rw [hr] at h; simp at h
                | fuel => rw [hr] at h; simp at h
              | err e => simp at h
              | panic s => simp at h
              | fuel => simp at h
          obtain ⟨x0', rest, rfl, hrest, hhead⟩ := key
          cases i with
          | zero =>
            simp only [List.getElem?_cons_zero, Option.some.injEq] at hf hx
            subst hf; subst hx
            simp only [List.getElem?_cons_zero, Option.some.injEq]
            exact hhead hu
          | succ j =>
            simp only [List.getElem?_cons_succ] at hf hx ⊢
            exact ih m xr rest hrest j f x hf hx hu

/-- at the API: `cfg.Unpack(&target)` leaves every untouched field of the struct passed in as it was -/
theorem unpack_frame (std : Stdlib) (o : Opts) (cfg : Val) (fs : List (String × String × String × Ty))
    (xs : List GoVal) (v : GoVal) (h : unpack std o (.strct fs) (.strct xs) cfg = .ok v) :
    ∃ xs', v = .strct xs' ∧ ∀ (i : Nat) (f : String × String × String × Ty) (x : GoVal),
      fs[i]? = some f → xs[i]? = some x → Untouched o cfg f → xs'[i]? = some x := by
  unfold unpack at h
  simp only [Bind.bind, Outcome.bind] at h
  cases hr : reifyStructT std unpackFuel o fs xs cfg with
  | ok xs' =>
    rw [hr] at h
    simp only [Outcome.ok.injEq] at h
    exact ⟨xs', h.symm, struct_frame std o cfg fs unpackFuel xs xs' hr⟩
  | err e => rw [hr] at h; simp at h
  | panic s => rw [hr] at h; simp at h
  | fuel => rw [hr] at h; simp at h

/-- a failing Unpack returns no struct at all: there is nothing to assign back (reifyStruct works on a copy) -/
theorem failed_unpack_has_no_result (std : Stdlib) (o : Opts) (ty : Ty) (old : GoVal) (cfg : Val) (e : Err)
    (h : unpack std o ty old cfg = .err e) : ∀ v, unpack std o ty old cfg ≠ .ok v := by
  intro v hv; rw [h] at hv; cases hv

/-- what a struct tag option does, in the vocabulary of util.go -/
def tagEffect (t : TagOpts) : String :=
  if t.squash then "squash" else if t.ignore then "ignore"
  else (Extracted.configHandlingNames[t.handling.code]?).getD "?"

/-- the struct tag options the model understands are exactly the cases of the switch in util.go parseTags, with the same
effect (regenerated from the source on every run: a new or renamed tag option breaks this) -/
theorem tag_options_match_source :
    Extracted.tagOptionWords.all (fun w => tagEffect (parseTags ("f," ++ w.1)).2 == w.2) = true := by decide

/-! ### the frame, recursively

`FrameIn o ty old new v`: going from `old` to `new` under the setting `v`, everything the setting has nothing for is
unchanged - at every depth reachable through struct fields, non-nil pointers and fixed-size arrays (slices are rebuilt
according to the list policy and map entries are merged into copies: their frames are the correspondence check's).
One induction over the fuel proves it for `mergeValue`, `reifyStructT`, `getField'` and `doArray` together. -/

mutual
def FrameIn (o : Opts) : Ty → GoVal → GoVal → Val → Prop
  | .strct fs, .strct os, .strct ns, v =>
    match toCfg? v with
    | some cfg => FrameFields o fs os ns cfg
    | none => True
  | .ptr t, .ptr (some ox), .ptr (some nx), v => FrameIn o t ox nx v
  | .array _ t, .array ol, .array nl, v =>
    ∀ (i : Nat) (ox nx : GoVal) (s : Val), ol[i]? = some ox → nl[i]? = some nx → (castArr v)[i]? = some s →
      FrameIn o t ox nx s
  | _, _, _, _ => True
def FrameFields (o : Opts) : List (String × String × String × Ty) → List GoVal → List GoVal → Val → Prop
  | (g, tag, vtag, t) :: fr, ox :: or, nx :: nr, cfg =>
    (match accessField o g tag vtag with
     | .ok none => nx = ox                                   -- ignored / unexported: untouched
     | .ok (some fi) =>
       if fi.tag.squash then True
       else
         match pathGet tcPlain (parsePathOpts fi.name { o with handling := fi.handling }) cfg with
         | .ok (some s) =>
           if s.isNilPrim then (if t.isStrct then FrameIn { o with handling := fi.handling } t ox nx Val.nilV else nx = ox)
           else FrameIn { o with handling := fi.handling } t ox nx s
         | .ok none => if t.isStrct then FrameIn { o with handling := fi.handling } t ox nx Val.nilV else nx = ox
         | .err e => if e.reason = .missing then (if t.isStrct then FrameIn { o with handling := fi.handling } t ox nx Val.nilV else nx = ox) else True
         | _ => True
     | _ => True) ∧ FrameFields o fr or nr cfg
  | _, _, _, _ => True
end

/-- what `getField'` guarantees for one field -/
def GetFrame (o' : Opts) (t : Ty) (ox nx : GoVal) (cfg : Val) (name : String) : Prop :=
  match pathGet tcPlain (parsePathOpts name o') cfg with
  | .ok (some s) =>
    if s.isNilPrim then (if t.isStrct then FrameIn o' t ox nx Val.nilV else nx = ox)
    else FrameIn o' t ox nx s
  | .ok none => if t.isStrct then FrameIn o' t ox nx Val.nilV else nx = ox
  | .err e => if e.reason = .missing then (if t.isStrct then FrameIn o' t ox nx Val.nilV else nx = ox) else True
  | _ => True

theorem frameFields_cons (o : Opts) (g tag vtag : String) (t : Ty) (fr : List (String × String × String × Ty))
    (ox nx : GoVal) (or nr : List GoVal) (cfg : Val) :
    FrameFields o ((g, tag, vtag, t) :: fr) (ox :: or) (nx :: nr) cfg =
    ((match accessField o g tag vtag with
      | .ok none => nx = ox
      | .ok (some fi) => if fi.tag.squash then True else GetFrame { o with handling := fi.handling } t ox nx cfg fi.name
      | _ => True) ∧ FrameFields o fr or nr cfg) := by
  conv => lhs; unfold FrameFields
  rfl

theorem frameIn_ptr (o : Opts) (t : Ty) (ox nx : GoVal) (v : Val) :
    FrameIn o (.ptr t) (.ptr (some ox)) (.ptr (some nx)) v = FrameIn o t ox nx v := by
  conv => lhs; unfold FrameIn

theorem frameIn_strct (o : Opts) (fs : List (String × String × String × Ty)) (os ns : List GoVal) (v cfg : Val)
    (h : toCfg? v = some cfg) : FrameIn o (.strct fs) (.strct os) (.strct ns) v = FrameFields o fs os ns cfg := by
  conv => lhs; unfold FrameIn
  simp only [h]

theorem frameIn_array (o : Opts) (k : Nat) (t : Ty) (ol nl : List GoVal) (v : Val) :
    FrameIn o (.array k t) (.array ol) (.array nl) v =
    ∀ (i : Nat) (ox nx : GoVal) (s : Val), ol[i]? = some ox → nl[i]? = some nx → (castArr v)[i]? = some s →
      FrameIn o t ox nx s := by
  conv => lhs; unfold FrameIn

structure FClaims (std : Stdlib) (n : Nat) : Prop where
  merge : ∀ (fo : FOpts) (ty : Ty) (old : GoVal) (v : Val) (r : GoVal),
    mergeValue std n fo ty old v = .ok r → FrameIn fo.opts ty old r v
  strct : ∀ (o : Opts) (fs : List (String × String × String × Ty)) (xs : List GoVal) (cfg : Val) (xs' : List GoVal),
    reifyStructT std n o fs xs cfg = .ok xs' → FrameFields o fs xs xs' cfg
  getf : ∀ (fo : FOpts) (t : Ty) (x : GoVal) (cfg : Val) (name : String) (r : GoVal),
    getField' std n fo t x cfg name = .ok r → GetFrame fo.opts t x r cfg name
  arr : ∀ (fo : FOpts) (t : Ty) (xs : List GoVal) (vs : List Val) (xs' : List GoVal),
    doArray std n fo t 0 xs vs = .ok xs' →
    ∀ (i : Nat) (ox nx : GoVal) (s : Val), xs[i]? = some ox → xs'[i]? = some nx → vs[i]? = some s →
      FrameIn fo.opts t ox nx s

theorem f_arr_step (std : Stdlib) (n : Nat) (IH : FClaims std n) :
    ∀ (fo : FOpts) (t : Ty) (xs : List GoVal) (vs : List Val) (xs' : List GoVal),
    doArray std (n+1) fo t 0 xs vs = .ok xs' →
    ∀ (i : Nat) (ox nx : GoVal) (s : Val), xs[i]? = some ox → xs'[i]? = some nx → vs[i]? = some s →
      FrameIn fo.opts t ox nx s := by
  intro fo t xs vs xs' h i ox nx s hox hnx hs
  cases xs with
  | nil => simp at hox
  | cons x xr =>
    cases vs with
    | nil => simp at hs
    | cons v vr =>
      simp only [doArray] at h
      obtain ⟨mx, hmx, h2⟩ := bind_eq_ok h
      obtain ⟨rest, hrest, hr⟩ := bind_eq_ok h2
      simp only [Outcome.ok.injEq] at hr
      subst hr
      cases i with
      | zero =>
        simp only [List.getElem?_cons_zero, Option.some.injEq] at hox hnx hs
        have hm := IH.merge fo t x v mx hmx
        subst hox hs
        split at hnx
        · -- interface{} slot: no frame claimed
          unfold FrameIn; trivial
        · subst hnx; exact hm
      | succ j =>
        simp only [List.getElem?_cons_succ] at hox hnx hs
        exact IH.arr fo t xr vr rest hrest j ox nx s hox hnx hs

theorem f_getf_step (std : Stdlib) (n : Nat) (IH : FClaims std n) :
    ∀ (fo : FOpts) (t : Ty) (x : GoVal) (cfg : Val) (name : String) (r : GoVal),
    getField' std (n+1) fo t x cfg name = .ok r → GetFrame fo.opts t x r cfg name := by
  intro fo t x cfg name r h
  -- the branch for an absent / null setting
  have absent : (match t with
       | .strct _ => mergeValue std n fo t x Val.nilV
       | _ =>
         (match recValidate std fo.opts t fo.validators x with
          | some e => raiseValidation e
          | none => (.ok x : Outcome GoVal))) = .ok r →
      (if t.isStrct then FrameIn fo.opts t x r Val.nilV else r = x) := by
    intro ha
    have keep : (match recValidate std fo.opts t fo.validators x with
          | some e => raiseValidation e
          | none => (.ok x : Outcome GoVal)) = .ok r → r = x := by
      intro hk
      cases hc : recValidate std fo.opts t fo.validators x with
      | some e => rw [hc] at hk; simp [raiseValidation] at hk
      | none => rw [hc] at hk; simp only [Outcome.ok.injEq] at hk; exact hk.symm
    cases t with
    | strct fs => simp only [Ty.isStrct, if_true]; exact IH.merge fo _ x Val.nilV r ha
    | prim k => simp only [Ty.isStrct]; exact keep ha
    | ptr t' => simp only [Ty.isStrct]; exact keep ha
    | slice t' => simp only [Ty.isStrct]; exact keep ha
    | array k t' => simp only [Ty.isStrct]; exact keep ha
    | map t' => simp only [Ty.isStrct]; exact keep ha
    | regexp => simp only [Ty.isStrct]; exact keep ha
    | iface => simp only [Ty.isStrct]; exact keep ha
    | config => simp only [Ty.isStrct]; exact keep ha
    | unsupported => simp only [Ty.isStrct]; exact keep ha
    | badmap => simp only [Ty.isStrct]; exact keep ha
  unfold getField' at h
  simp only at h
  unfold GetFrame
  cases hpg : pathGet tcPlain (parsePathOpts name fo.opts) cfg with
  | ok vo =>
    rw [hpg] at h
    simp only at h
    cases vo with
    | none =>
      simp only [Val.isNilOpt, if_true] at h
      exact absent h
    | some s =>
      by_cases hn : s.isNilPrim = true
      · simp only [Val.isNilOpt, hn, if_true] at h ⊢
        exact absent h
      · have hn' : s.isNilPrim = false := by simpa using hn
        simp only [Val.isNilOpt, hn', Bool.false_eq_true, if_false] at h ⊢
        obtain ⟨mx, hmx, h2⟩ := bind_eq_ok h
        have hm := IH.merge fo t x s mx hmx
        split at h2
        · unfold FrameIn; trivial
        · simp only [Outcome.ok.injEq] at h2; subst h2; exact hm
  | err e =>
    rw [hpg] at h
    simp only at h
    by_cases hm : e.reason = Reason.missing
    · simp only [hm, if_true, Val.isNilOpt] at h ⊢
      exact absent h
    · simp only [hm, if_false]
  | panic s => trivial
  | fuel => trivial

theorem f_strct_step (std : Stdlib) (n : Nat) (IH : FClaims std n) :
    ∀ (o : Opts) (fs : List (String × String × String × Ty)) (xs : List GoVal) (cfg : Val) (xs' : List GoVal),
    reifyStructT std (n+1) o fs xs cfg = .ok xs' → FrameFields o fs xs xs' cfg := by
  intro o fs xs cfg xs' h
  cases fs with
  | nil => unfold FrameFields; trivial
  | cons f fr =>
    obtain ⟨g, tag, vtag, t⟩ := f
    cases xs with
    | nil => unfold FrameFields; trivial
    | cons x xr =>
      unfold reifyStructT at h
      obtain ⟨fio, hacc, h2⟩ := bind_eq_ok h
      cases fio with
      | none =>
        simp only at h2
        obtain ⟨rest, hrest, hr⟩ := bind_eq_ok h2
        simp only [Outcome.ok.injEq] at hr
        subst hr
        rw [frameFields_cons, hacc]
        exact ⟨rfl, IH.strct o fr xr cfg rest hrest⟩
      | some fi =>
        simp only at h2
        obtain ⟨x', hx', h3⟩ := bind_eq_ok h2
        obtain ⟨rest, hrest, hr⟩ := bind_eq_ok h3
        simp only [Outcome.ok.injEq] at hr
        subst hr
        rw [frameFields_cons, hacc]
        refine ⟨?_, IH.strct o fr xr cfg rest hrest⟩
        simp only
        by_cases hsq : fi.tag.squash = true
        · simp only [hsq, if_true]
        · simp only [hsq, Bool.false_eq_true, if_false] at hx' ⊢
          exact IH.getf _ t x cfg fi.name x' hx'

theorem f_merge_step (std : Stdlib) (n : Nat) (IH : FClaims std n) :
    ∀ (fo : FOpts) (ty : Ty) (old : GoVal) (v : Val) (r : GoVal),
    mergeValue std (n+1) fo ty old v = .ok r → FrameIn fo.opts ty old r v := by
  intro fo ty old v r h
  cases ty with
  | ptr t =>
    cases old with
    | ptr p =>
      cases p with
      | none => unfold FrameIn; trivial
      | some x =>
        simp only [mergeValue] at h
        obtain ⟨x', hx', hr⟩ := bind_eq_ok h
        simp only [Outcome.ok.injEq] at hr
        subst hr
        rw [frameIn_ptr]
        exact IH.merge fo t x v x' hx'
    | _ => unfold FrameIn; trivial
  | strct fs =>
    cases old with
    | strct xs =>
      simp only [mergeValue] at h
      cases hc : toCfg? v with
      | none => rw [hc] at h; simp [Outcome.raise] at h
      | some sub =>
        rw [hc] at h
        simp only at h
        obtain ⟨xs', hxs, hr⟩ := bind_eq_ok h
        simp only [Outcome.ok.injEq] at hr
        subst hr
        rw [frameIn_strct _ _ _ _ _ _ hc]
        exact IH.strct fo.opts fs xs sub xs' hxs
    | _ => unfold FrameIn; trivial
  | array sz t =>
    cases old with
    | array xs =>
      simp only [mergeValue] at h
      by_cases hl : ((castArr v).length != sz) = true
      · simp [hl, Outcome.raise] at h
      · simp only [hl, Bool.false_eq_true, if_false] at h
        obtain ⟨xs', hxs, hf⟩ := bind_eq_ok h
        have hr : r = .array xs' := by
          unfold finishArray at hf
          simp only at hf
          cases hv : runValidators std fo.validators (.array xs') with
          | none => rw [hv] at hf; simp only [Outcome.ok.injEq] at hf; exact hf.symm
          | some e => rw [hv] at hf; simp [raiseValidation] at hf
        subst hr
        rw [frameIn_array]
        exact IH.arr fo t xs (castArr v) xs' hxs
    | _ => unfold FrameIn; trivial
  | prim k => unfold FrameIn; trivial
  | regexp => unfold FrameIn; trivial
  | iface => unfold FrameIn; trivial
  | slice t => unfold FrameIn; trivial
  | map t => unfold FrameIn; trivial
  | config => unfold FrameIn; trivial
  | unsupported => unfold FrameIn; trivial
  | badmap => unfold FrameIn; trivial

theorem fclaims (std : Stdlib) : ∀ n, FClaims std n := by
  intro n
  induction n with
  | zero =>
    refine ⟨?_, ?_, ?_, ?_⟩
    · intro fo ty old v r h; simp [mergeValue] at h
    · intro o fs xs cfg xs' h; simp [reifyStructT] at h
    · intro fo t x cfg name r h; simp [getField'] at h
    · intro fo t xs vs xs' h; simp [doArray] at h
  | succ k ih => exact ⟨f_merge_step std k ih, f_strct_step std k ih, f_getf_step std k ih, f_arr_step std k ih⟩

/-- **C13, recursively.** After a successful Unpack into a struct - of any field types, with any tags, validators,
pre-filled values and configuration - everything the configuration has nothing for holds what it held, at every depth
reachable through struct fields, non-nil pointers and fixed-size arrays: ignored and unexported fields, fields of
primitive / pointer / container type without a setting (or with a null one), and the same inside every nested struct. -/
theorem unpack_frame_rec (std : Stdlib) (o : Opts) (fs : List (String × String × String × Ty)) (xs : List GoVal)
    (cfg : Val) (v : GoVal) (h : unpack std o (.strct fs) (.strct xs) cfg = .ok v) :
    ∃ xs', v = .strct xs' ∧ FrameFields o fs xs xs' cfg := by
  unfold unpack at h
  simp only at h
  obtain ⟨xs', hxs, hr⟩ := bind_eq_ok h
  simp only [Outcome.ok.injEq] at hr
  exact ⟨xs', hr.symm, (fclaims std unpackFuel).strct o fs xs cfg xs' hxs⟩

/-! non-vacuity: what the predicate says for a concrete struct - an ignored field and a nested struct with an unmentioned
field; a change of either is refused -/
def exFs : List (String × String × String × Ty) :=
  [("A", "a,ignore", "", .prim (.int 64)), ("S", "s", "", .strct [("X", "x", "", .prim (.int 64)), ("Y", "y", "", .prim .string)])]
def exCfg : Val := .sub [("s", .sub [("x", .prim (.uint 5))] [] true false)] [] true false
example : FrameFields {} exFs [.scalar (.int 1), .strct [.scalar (.int 2), .scalar (.str "keep")]]
    [.scalar (.int 1), .strct [.scalar (.int 5), .scalar (.str "keep")]] exCfg := by
  unfold exFs exCfg
  rw [frameFields_cons]
  have ha0 : accessField {} "A" "a,ignore" "" = .ok none := by rfl
  rw [ha0]
  refine ⟨rfl, ?_⟩
  rw [frameFields_cons]
  refine ⟨?_, by unfold FrameFields; trivial⟩
  have ha : accessField {} "S" "s" "" = .ok (some ⟨"s", {}, [], .dflt⟩) := by rfl
  rw [ha]
  simp only [Bool.false_eq_true, if_false]
  unfold GetFrame
  have hp : pathGet tcPlain (parsePathOpts "s" { ({} : Opts) with handling := Handling.dflt })
      (.sub [("s", .sub [("x", .prim (.uint 5))] [] true false)] [] true false) =
      .ok (some (.sub [("x", .prim (.uint 5))] [] true false)) := by rfl
  rw [hp]
  simp only [Val.isNilPrim, Bool.false_eq_true, if_false]
  rw [frameIn_strct _ _ _ _ _ _ (rfl : toCfg? _ = some _)]
  rw [frameFields_cons]
  refine ⟨?_, ?_⟩
  · have hx : accessField { ({} : Opts) with handling := Handling.dflt } "X" "x" "" = .ok (some ⟨"x", {}, [], .dflt⟩) := by rfl
    rw [hx]
    simp only [Bool.false_eq_true, if_false]
    unfold GetFrame
    have hpx : pathGet tcPlain (parsePathOpts "x" { ({ ({} : Opts) with handling := Handling.dflt } : Opts) with handling := Handling.dflt })
        (.sub [("x", .prim (.uint 5))] [] true false) = .ok (some (.prim (.uint 5))) := by rfl
    rw [hpx]
    simp only [Val.isNilPrim, Bool.false_eq_true, if_false]
    unfold FrameIn; trivial
  · rw [frameFields_cons]
    refine ⟨?_, by unfold FrameFields; trivial⟩
    have hy : accessField { ({} : Opts) with handling := Handling.dflt } "Y" "y" "" = .ok (some ⟨"y", {}, [], .dflt⟩) := by rfl
    rw [hy]
    simp only [Bool.false_eq_true, if_false]
    unfold GetFrame
    have hpy : pathGet tcPlain (parsePathOpts "y" { ({ ({} : Opts) with handling := Handling.dflt } : Opts) with handling := Handling.dflt })
        (.sub [("x", .prim (.uint 5))] [] true false) = .ok none := by rfl
    rw [hpy]
    simp [Ty.isStrct]

end Ucfg.C13
