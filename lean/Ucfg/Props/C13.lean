import Ucfg.Model.Unpack
/-
  C13 — Unpack changes only what the config mentions and nothing when it fails.

  reifyStruct works on a copy and assigns it back on success only; in the model this is the fact
  that `reifyStructT` returns the new field list (`Outcome`), so a failure has no field list to
  assign.  Proved: the frame laws of the field loop.  The before/after comparison on the real
  code (shallow snapshot) is the correspondence check's job.
-/
namespace Ucfg.C13
open Ucfg Outcome

/-- an ignored or unexported field is never touched (and never validated) -/
theorem skipped_field_unchanged (std : Stdlib) (n : Nat) (o : Opts) (g tag vtag : String) (t : Ty)
    (fr : List (String × String × String × Ty)) (x : GoVal) (xr : List GoVal) (cfg : Val) (res : List GoVal)
    (hskip : accessField o g tag vtag = .ok none)
    (h : reifyStructT std (n + 1) o ((g, tag, vtag, t) :: fr) (x :: xr) cfg = .ok res) :
    res.head? = some x := by
  unfold reifyStructT at h
  simp only [hskip, Outcome.bind_ok] at h
  cases hrest : reifyStructT std n o fr xr cfg with
  | ok rest => rw [hrest] at h; simp only [Outcome.bind_ok] at h; cases h; rfl
  | err e => rw [hrest] at h; simp at h
  | panic s => rw [hrest] at h; simp at h
  | fuel => rw [hrest] at h; simp at h

/-- a primitive field the configuration has no setting for keeps its value -/
theorem unmentioned_primitive_unchanged (std : Stdlib) (n : Nat) (fo : FOpts) (k : Kind) (x r : GoVal) (cfg : Val) (name : String)
    (habs : pathGet tcPlain (parsePathOpts name fo.opts) cfg = .ok none)
    (h : getField' std (n + 1) fo (.prim k) x cfg name = .ok r) : r = x := by
  unfold getField' at h
  simp only [habs, Val.isNilOpt, if_true] at h
  cases hr : recValidate std fo.opts (.prim k) fo.validators x with
  | none => simp only [hr] at h; cases h; rfl
  | some e => simp [hr, raiseValidation] at h

/-- … and so does a pointer field: it is not allocated for an absent setting -/
theorem unmentioned_pointer_unchanged (std : Stdlib) (n : Nat) (fo : FOpts) (t : Ty) (x r : GoVal) (cfg : Val) (name : String)
    (habs : pathGet tcPlain (parsePathOpts name fo.opts) cfg = .ok none)
    (h : getField' std (n + 1) fo (.ptr t) x cfg name = .ok r) : r = x := by
  unfold getField' at h
  simp only [habs, Val.isNilOpt, if_true] at h
  cases hr : recValidate std fo.opts (.ptr t) fo.validators x with
  | none => simp only [hr] at h; cases h; rfl
  | some e => simp [hr, raiseValidation] at h

/-- the element loop of reifyDoArray neither adds nor drops slots -/
theorem doArray_length (std : Stdlib) : ∀ (n : Nat) (fo : FOpts) (t : Ty) (start : Nat) (xs : List GoVal) (arr : List Val) (res : List GoVal),
    doArray std n fo t start xs arr = .ok res → res.length = xs.length := by
  intro n
  induction n with
  | zero => intro fo t start xs arr res h; unfold doArray at h; simp at h
  | succ n ih =>
    intro fo t start xs arr res h
    cases xs with
    | nil => unfold doArray at h; simp at h; subst h; rfl
    | cons x xr =>
      cases start with
      | succ st =>
        unfold doArray at h
        cases hv : recValidate std fo.opts t [] x with
        | some e => simp [hv, raiseValidation] at h
        | none =>
          simp only [hv] at h
          cases hr : doArray std n fo t st xr arr with
          | ok rest => rw [hr] at h; simp at h; subst h; simp [ih fo t st xr arr rest hr]
          | err e => rw [hr] at h; simp at h
          | panic s => rw [hr] at h; simp at h
          | fuel => rw [hr] at h; simp at h
      | zero =>
        cases arr with
        | nil =>
          unfold doArray at h
          cases hv : recValidate std fo.opts t [] x with
          | some e => simp [hv, raiseValidation] at h
          | none =>
            simp only [hv] at h
            cases hr : doArray std n fo t 0 xr [] with
            | ok rest => rw [hr] at h; simp at h; subst h; simp [ih fo t 0 xr [] rest hr]
            | err e => rw [hr] at h; simp at h
            | panic s => rw [hr] at h; simp at h
            | fuel => rw [hr] at h; simp at h
        | cons v vr =>
          unfold doArray at h
          cases hm : mergeValue std n fo t x v with
          | ok nx =>
            rw [hm] at h
            simp only [Outcome.bind_ok] at h
            cases hr : doArray std n fo t 0 xr vr with
            | ok rest => rw [hr] at h; simp at h; subst h; simp [ih fo t 0 xr vr rest hr]
            | err e => rw [hr] at h; simp at h
            | panic s => rw [hr] at h; simp at h
            | fuel => rw [hr] at h; simp at h
          | err e => rw [hm] at h; simp at h
          | panic s => rw [hm] at h; simp at h
          | fuel => rw [hm] at h; simp at h

/-- unpacking a list setting into a nil slice gives a slice with exactly one slot per element -/
theorem fresh_slice_length (std : Stdlib) (n : Nat) (fo : FOpts) (t : Ty) (v : Val) (l : List GoVal)
    (h : sliceMerge std (n + 1) fo t none v = .ok (.slice (some l))) : l.length = (castArr v).length := by
  unfold sliceMerge at h
  simp only at h
  cases hd : doArray std n fo t 0 (List.replicate (castArr v).length (zeroOf t)) (castArr v) with
  | ok xs =>
    rw [hd] at h
    simp only [Outcome.bind_ok] at h
    have := doArray_length std n fo t 0 _ _ xs hd
    unfold finishArray at h
    simp only [] at h
    cases hr : runValidators std fo.validators (.slice (some xs)) with
    | none => simp only [hr] at h; cases h; simpa using this
    | some e => simp [hr, raiseValidation] at h
  | err e => rw [hd] at h; simp at h
  | panic s => rw [hd] at h; simp at h
  | fuel => rw [hd] at h; simp at h

/-! ### the frame of a whole struct

`Untouched` describes the fields the configuration has nothing for: ignored / unexported ones, and fields of primitive
or pointer type whose name the configuration does not hold. The lifted frame law: after a successful field loop every
such field - at any position, among any other fields - holds exactly what it held. -/

/-- the configuration has no say about this field -/
def Untouched (o : Opts) (cfg : Val) (f : String × String × String × Ty) : Prop :=
  accessField o f.1 f.2.1 f.2.2.1 = .ok none ∨
  ∃ fi, accessField o f.1 f.2.1 f.2.2.1 = .ok (some fi) ∧ fi.tag.squash = false ∧
    ((∃ k, f.2.2.2 = Ty.prim k) ∨ (∃ t, f.2.2.2 = Ty.ptr t)) ∧
    pathGet tcPlain (parsePathOpts fi.name { o with handling := fi.handling }) cfg = .ok none

theorem struct_frame (std : Stdlib) (o : Opts) (cfg : Val) :
    ∀ (fs : List (String × String × String × Ty)) (n : Nat) (xs xs' : List GoVal),
      reifyStructT std n o fs xs cfg = .ok xs' →
      ∀ (i : Nat) (f : String × String × String × Ty) (x : GoVal),
        fs[i]? = some f → xs[i]? = some x → Untouched o cfg f → xs'[i]? = some x := by
  intro fs
  induction fs with
  | nil => intro n xs xs' _ i f x hf; simp at hf
  | cons f0 fr ih =>
    intro n xs xs' h i f x hf hx hu
    obtain ⟨g, tag, vtag, t⟩ := f0
    cases n with
    | zero => simp [reifyStructT] at h
    | succ m =>
      cases xs with
      | nil => simp at hx
      | cons x0 xr =>
        unfold reifyStructT at h
        simp only [Bind.bind, Outcome.bind] at h
        cases ha : accessField o g tag vtag with
        | err e => rw [ha] at h; simp at h
        | panic s => rw [ha] at h; simp at h
        | fuel => rw [ha] at h; simp at h
        | ok fio =>
          rw [ha] at h
          simp only at h
          -- the head of the result, and the rest
          have key : ∃ x0' rest, xs' = x0' :: rest ∧ reifyStructT std m o fr xr cfg = .ok rest ∧
              (Untouched o cfg (g, tag, vtag, t) → x0' = x0) := by
            cases fio with
            | none =>
              simp only at h
              cases hr : reifyStructT std m o fr xr cfg with
              | ok rest =>
                rw [hr] at h; simp only [Outcome.ok.injEq] at h
                exact ⟨x0, rest, h.symm, rfl, fun _ => rfl⟩
              | err e => rw [hr] at h; simp at h
              | panic s => rw [hr] at h; simp at h
              | fuel => rw [hr] at h; simp at h
            | some fi =>
              simp only at h
              generalize hx0 : (if fi.tag.squash = true then _ else _ : Outcome GoVal) = r0 at h
              cases r0 with
              | ok x0' =>
                simp only at h
                cases hr : reifyStructT std m o fr xr cfg with
                | ok rest =>
                  rw [hr] at h; simp only [Outcome.ok.injEq] at h
                  refine ⟨x0', rest, h.symm, rfl, ?_⟩
                  intro hu0
                  rcases hu0 with hnone | ⟨fi', hfi', hsq, hty, habs⟩
                  · simp only at hnone; rw [ha] at hnone; cases hnone
                  · simp only at hfi' hty
                    rw [ha] at hfi'
                    simp only [Outcome.ok.injEq, Option.some.injEq] at hfi'
                    subst hfi'
                    simp only [hsq, Bool.false_eq_true, if_false] at hx0
                    cases m with
                    | zero => simp [getField'] at hx0
                    | succ m' =>
                      rcases hty with ⟨k, rfl⟩ | ⟨t', rfl⟩
                      · exact unmentioned_primitive_unchanged std m' _ k x0 x0' cfg fi.name habs hx0
                      · exact unmentioned_pointer_unchanged std m' _ t' x0 x0' cfg fi.name habs hx0
                | err e => rw [hr] at h; simp at h
                | panic s => rw [hr] at h; simp at h
                | fuel => rw [hr] at h; simp at h
              | err e => simp at h
              | panic s => simp at h
              | fuel => simp at h
          obtain ⟨x0', rest, rfl, hrest, hhead⟩ := key
          cases i with
          | zero =>
            simp only [List.getElem?_cons_zero, Option.some.injEq] at hf hx
            subst hf; subst hx
            simp only [List.getElem?_cons_zero, Option.some.injEq]
            exact hhead hu
          | succ j =>
            simp only [List.getElem?_cons_succ] at hf hx ⊢
            exact ih m xr rest hrest j f x hf hx hu

/-- at the API: `cfg.Unpack(&target)` leaves every untouched field of the struct passed in as it was -/
theorem unpack_frame (std : Stdlib) (o : Opts) (cfg : Val) (fs : List (String × String × String × Ty))
    (xs : List GoVal) (v : GoVal) (h : unpack std o (.strct fs) (.strct xs) cfg = .ok v) :
    ∃ xs', v = .strct xs' ∧ ∀ (i : Nat) (f : String × String × String × Ty) (x : GoVal),
      fs[i]? = some f → xs[i]? = some x → Untouched o cfg f → xs'[i]? = some x := by
  unfold unpack at h
  simp only [Bind.bind, Outcome.bind] at h
  cases hr : reifyStructT std unpackFuel o fs xs cfg with
  | ok xs' =>
    rw [hr] at h
    simp only [Outcome.ok.injEq] at h
    exact ⟨xs', h.symm, struct_frame std o cfg fs unpackFuel xs xs' hr⟩
  | err e => rw [hr] at h; simp at h
  | panic s => rw [hr] at h; simp at h
  | fuel => rw [hr] at h; simp at h

/-- a failing Unpack returns no struct at all: there is nothing to assign back (reifyStruct works on a copy) -/
theorem failed_unpack_has_no_result (std : Stdlib) (o : Opts) (ty : Ty) (old : GoVal) (cfg : Val) (e : Err)
    (h : unpack std o ty old cfg = .err e) : ∀ v, unpack std o ty old cfg ≠ .ok v := by
  intro v hv; rw [h] at hv; cases hv

end Ucfg.C13
