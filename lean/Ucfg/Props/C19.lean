import Ucfg.Model.Flag
/-
  C19 — repeated flags accumulate like sequential merges with the flag's options.
-/
namespace Ucfg.C19
open Ucfg

/-- after the first failing argument the collector keeps reporting that first error and its
config no longer changes, whatever follows -/
theorem error_sticky (std : Stdlib) (o : Opts) (ab : Bool) (c : Collector) (e : Err) (later : List String)
    (h : c.err = some e) : flagSets std o ab c later = c := by
  induction later generalizing c with
  | nil => rfl
  | cons a r ih =>
    simp only [flagSets, List.foldl_cons]
    have : flagSet std o ab c a = c := by simp [flagSet, collectorAdd, h]
    rw [this]
    exact ih c h

theorem sets_append (std : Stdlib) (o : Opts) (ab : Bool) (c : Collector) (xs ys : List String) :
    flagSets std o ab c (xs ++ ys) = flagSets std o ab (flagSets std o ab c xs) ys := by
  simp [flagSets, List.foldl_append]

/-- … in particular arguments after a failing one cannot repair or change the outcome -/
theorem first_error_wins (std : Stdlib) (o : Opts) (ab : Bool) (c : Collector) (xs later : List String) (e : Err)
    (h : (flagSets std o ab c xs).err = some e) :
    flagSets std o ab c (xs ++ later) = flagSets std o ab c xs := by
  rw [sets_append]
  exact error_sticky std o ab _ e later h

/-- a key with an empty value is ignored -/
theorem empty_value_ignored (std : Stdlib) (o : Opts) (ab : Bool) (c : Collector) (arg key : String)
    (h : splitEq arg = (key, some "")) : flagSet std o ab c arg = c := by
  simp only [flagSet, flagLoad, h]
  cases hc : c.err with
  | none => simp [collectorAdd, hc]
  | some e => simp [collectorAdd, hc]

/-- while no argument has failed, every accepted argument is merged into the accumulated config
with the flag's own options — the fold the statement describes -/
theorem set_is_merge (std : Stdlib) (o : Opts) (ab : Bool) (c : Collector) (arg : String) (cfg : Val)
    (hc : c.err = none) (hl : flagLoad std o ab arg = .ok (some cfg)) :
    flagSet std o ab c arg = { c with config := mergeCfg o c.config cfg } := by
  simp [flagSet, collectorAdd, hc, hl]

/-- a bare key means true -/
theorem bare_key_true (std : Stdlib) (o : Opts) (arg : String) (h : splitEq arg = (arg, none)) :
    flagLoad std o true arg = (newFrom o (.map [(arg, .bool true)])).bind (fun c => .ok (some c)) := by
  simp [flagLoad, h]

/-! non-vacuity -/
example : splitEq "a=" = ("a", some "") := by decide
example : splitEq "ab" = ("ab", none) := by decide
example : splitEq "a=b=c" = ("a", some "b=c") := by decide

end Ucfg.C19
