import Ucfg.Model.Flag
/-
  C19 — repeated flags accumulate like sequential merges with the flag's options.
-/
namespace Ucfg.C19
open Ucfg

/-- after the first failing argument the collector keeps reporting that first error and its
config no longer changes, whatever follows -/
theorem error_sticky (std : Stdlib) (o : Opts) (ab : Bool) (c : Collector) (e : Err) (later : List String)
    (h : c.err = some e) : flagSets std o ab c later = c := by
  induction later generalizing c with
  | nil => rfl
  | cons a r ih =>
    simp only [flagSets, List.foldl_cons]
    have : flagSet std o ab c a = c := by simp [flagSet, collectorAdd, h]
    rw [this]
    exact ih c h

theorem sets_append (std : Stdlib) (o : Opts) (ab : Bool) (c : Collector) (xs ys : List String) :
    flagSets std o ab c (xs ++ ys) = flagSets std o ab (flagSets std o ab c xs) ys := by
  simp [flagSets, List.foldl_append]

/-- … in particular arguments after a failing one cannot repair or change the outcome -/
theorem first_error_wins (std : Stdlib) (o : Opts) (ab : Bool) (c : Collector) (xs later : List String) (e : Err)
    (h : (flagSets std o ab c xs).err = some e) :
    flagSets std o ab c (xs ++ later) = flagSets std o ab c xs := by
  rw [sets_append]
  exact error_sticky std o ab _ e later h

/-- a key with an empty value is ignored -/
theorem empty_value_ignored (std : Stdlib) (o : Opts) (ab : Bool) (c : Collector) (arg key : String)
    (h : splitEq arg = (key, some "")) : flagSet std o ab c arg = c := by
  simp only [flagSet, flagLoad, h]
  cases hc : c.err with
  | none => simp [collectorAdd, hc]
  | some e => simp [collectorAdd, hc]

/-- while no argument has failed, every accepted argument is merged into the accumulated config
with the flag's own options — the fold the statement describes -/
theorem set_is_merge (std : Stdlib) (o : Opts) (ab : Bool) (c : Collector) (arg : String) (cfg : Val)
    (hc : c.err = none) (hl : flagLoad std o ab arg = .ok (some cfg)) :
    flagSet std o ab c arg = { c with config := mergeCfg o c.config cfg } := by
  simp [flagSet, collectorAdd, hc, hl]

/-- a bare key means true -/
theorem bare_key_true (std : Stdlib) (o : Opts) (arg : String) (h : splitEq arg = (arg, none)) :
    flagLoad std o true arg = (newFrom o (.map [(arg, .bool true)])).bind (fun c => .ok (some c)) := by
  simp [flagLoad, h]

/-! ### the statement as a whole, for any loader -/

/-- what the statement says the flag holds: the configs of the arguments before the first failing one, merged in order
with the flag's options, and that first failure -/
def specRun (o : Opts) : Val → List (Outcome (Option Val)) → Val × Option Err
  | cfg, [] => (cfg, none)
  | cfg, .ok none :: r => specRun o cfg r
  | cfg, .ok (some x) :: r => specRun o (mergeCfg o cfg x) r
  | cfg, .err e :: _ => (cfg, some e)
  | cfg, .panic s :: _ => (cfg, some { reason := .other, msg := some s })
  | cfg, .fuel :: _ => (cfg, some { reason := .other, msg := some "fuel" })

theorem collect_sticky (o : Opts) (c : Collector) (e : Err) (rs : List (Outcome (Option Val))) (h : c.err = some e) :
    collect o c rs = c := by
  induction rs with
  | nil => rfl
  | cons r rest ih =>
    simp only [collect, List.foldl_cons]
    have : collectorAdd o c r = c := by simp [collectorAdd, h]
    rw [this]
    exact ih

/-- any sequence of Set calls, any loader: the collector holds exactly what the statement describes -/
theorem collect_eq_spec (o : Opts) (rs : List (Outcome (Option Val))) :
    ∀ (c : Collector), c.err = none →
      collect o c rs = { config := (specRun o c.config rs).1, err := (specRun o c.config rs).2 } := by
  induction rs with
  | nil => intro c hc; cases c; simp_all [collect, specRun]
  | cons r rest ih =>
    intro c hc
    simp only [collect, List.foldl_cons]
    cases r with
    | ok v =>
      cases v with
      | none =>
        have : collectorAdd o c (.ok none) = c := by simp [collectorAdd, hc]
        rw [this]; exact ih c hc
      | some x =>
        have : collectorAdd o c (.ok (some x)) = { c with config := mergeCfg o c.config x } := by simp [collectorAdd, hc]
        rw [this]
        exact ih _ hc
    | err e =>
      have h1 : collectorAdd o c (.err e) = { c with err := some e } := by simp [collectorAdd, hc]
      rw [h1]
      exact collect_sticky o _ e rest rfl
    | panic s =>
      have h1 : collectorAdd o c (.panic s) = { c with err := some { reason := .other, msg := some s } } := by simp [collectorAdd, hc]
      rw [h1]
      exact collect_sticky o _ _ rest rfl
    | fuel =>
      have h1 : collectorAdd o c .fuel = { c with err := some { reason := .other, msg := some "fuel" } } := by simp [collectorAdd, hc]
      rw [h1]
      exact collect_sticky o _ _ rest rfl

theorem flagSets_eq_collect (std : Stdlib) (o : Opts) (ab : Bool) (c : Collector) (args : List String) :
    flagSets std o ab c args = collect o c (args.map (flagLoad std o ab)) := by
  simp only [flagSets, collect, List.foldl_map]
  rfl

theorem fileSets_eq_collect (o : Opts) (c : Collector) (args : List FileArg) :
    fileSets o c args = collect o c (args.map (fileLoad o)) := by
  simp [fileSets, collect, List.foldl_map]

/-- -flag key=value: after any sequence of arguments the flag holds the fold of the statement -/
theorem flag_is_fold_of_merges (std : Stdlib) (o : Opts) (ab : Bool) (args : List String) :
    flagSets std o ab { config := Val.empty, err := none } args =
      { config := (specRun o Val.empty (args.map (flagLoad std o ab))).1,
        err := (specRun o Val.empty (args.map (flagLoad std o ab))).2 } := by
  rw [flagSets_eq_collect]; exact collect_eq_spec o _ _ rfl

/-- file flags: the same, with the files' configs created by the flag's options -/
theorem fileflag_is_fold_of_merges (o : Opts) (args : List FileArg) :
    fileSets o { config := Val.empty, err := none } args =
      { config := (specRun o Val.empty (args.map (fileLoad o))).1, err := (specRun o Val.empty (args.map (fileLoad o))).2 } := by
  rw [fileSets_eq_collect]; exact collect_eq_spec o _ _ rfl

/-- a file without a loader, a missing or a malformed file is recorded: it is the error from then on and nothing after it
is merged -/
theorem file_failure_recorded (o : Opts) (c : Collector) (later : List FileArg) (hc : c.err = none) :
    ∃ e, (fileSets o c (.fail :: later)).err = some e ∧ (fileSets o c (.fail :: later)).config = c.config := by
  refine ⟨{ reason := .other, typed := false }, ?_⟩
  have h1 : collectorAdd o c (fileLoad o .fail) = { c with err := some { reason := .other, typed := false } } := by
    simp [collectorAdd, hc, fileLoad, Outcome.raiseRaw]
  have : fileSets o c (.fail :: later) = { c with err := some { reason := .other, typed := false } } := by
    simp only [fileSets, List.foldl_cons]
    rw [h1]
    have := collect_sticky o { c with err := some { reason := .other, typed := false } } { reason := .other, typed := false } (later.map (fileLoad o)) rfl
    simpa [collect, List.foldl_map] using this
  rw [this]
  exact ⟨rfl, rfl⟩

/-! non-vacuity -/
example : splitEq "a=" = ("a", some "") := by decide
example : splitEq "ab" = ("ab", none) := by decide
example : splitEq "a=b=c" = ("a", some "b=c") := by decide

end Ucfg.C19
