import Ucfg.Props.C01
import Ucfg.Model.Normalize
/-
  C09 — results never depend on map iteration order.

  Wherever the Go code ranges over a map, the model takes the entries as a list in
  iteration order.  The theorems say that the observable result does not depend on
  which permutation that is.
-/
namespace Ucfg.C09
open Ucfg

/-- lookups in an association list with distinct keys do not depend on the order of its entries -/
theorem dget_perm {d d' : Dict} (hp : d.Perm d') (hnd : (dkeysOf d).Nodup) (k : String) :
    dget d k = dget d' k := by
  induction hp with
  | nil => rfl
  | cons x _ ih =>
    obtain ⟨k1, v1⟩ := x
    simp only [dkeysOf, List.map_cons, List.nodup_cons] at hnd
    simp only [dget]
    split
    · rfl
    · exact ih hnd.2
  | swap x y l =>
    obtain ⟨k1, v1⟩ := x
    obtain ⟨k2, v2⟩ := y
    simp only [dkeysOf, List.map_cons, List.nodup_cons, List.mem_cons, not_or] at hnd
    simp only [dget]
    by_cases h1 : k1 = k
    · by_cases h2 : k2 = k
      · exact absurd (h2.trans h1.symm) hnd.1.1
      · simp [h1, h2]
    · by_cases h2 : k2 = k
      · simp [h1, h2]
      · simp [h1, h2]
  | trans h1 h2 ih1 ih2 =>
    have hnd' : (dkeysOf _).Nodup := (List.Perm.nodup_iff (List.Perm.map Prod.fst h1)).mp hnd
    rw [ih1 hnd, ih2 hnd']

/-- Merging B's dictionary into A's gives the same value under every key whatever order B's
entries are enumerated in (mergeConfigDict ranges over a Go map). -/
theorem mergeDict_order_independent (h : Handling) (d1 d2 d2' : Dict) (hp : d2.Perm d2')
    (hnd : (dkeysOf d2).Nodup) (k : String) :
    dget (mergeDictP h d1 d2) k = dget (mergeDictP h d1 d2') k := by
  have hnd' : (dkeysOf d2').Nodup := (List.Perm.nodup_iff (List.Perm.map Prod.fst hp)).mp hnd
  rw [C01.dict_pointwise h d1 d2 k hnd, C01.dict_pointwise h d1 d2' k hnd', dget_perm hp hnd k]

/-- a key without separator or numeric meaning is one named segment -/
def SimpleKey (o : Opts) (k : String) : Prop := parsePathOpts k o = [.named k]

/-- creating a setting under a simple key that is not there yet stores it under that key -/
theorem setField_simple_new (o : Opts) (d : Dict) (a : List Val) (hd ha : Bool) (k : String) (v : Val)
    (hk : SimpleKey o k) (hnew : dget d k = none) :
    setField o (.sub d a hd ha) k v = .ok (.sub (dset d k v) a true ha) := by
  unfold setField
  have hk' : parsePathOpts k o = [.named k] := hk
  rw [hk']
  simp [pathGet, fieldGet, tcPlain, Val.dict, hnew, Val.isNilOpt, pathSet, fieldSet]

/-- sorted insertion of two different keys commutes on every lookup -/
theorem dset_two_order (d : Dict) (k1 k2 : String) (v1 v2 : Val) (hne : k1 ≠ k2) (k : String) :
    dget (dset (dset d k1 v1) k2 v2) k = dget (dset (dset d k2 v2) k1 v1) k := by
  by_cases h1 : k = k1
  · subst h1
    rw [dget_dset_other _ _ _ _ (Ne.symm hne), dget_dset_same, dget_dset_same]
  · by_cases h2 : k = k2
    · subst h2
      rw [dget_dset_same, dget_dset_other _ _ _ _ hne, dget_dset_same]
    · rw [dget_dset_other _ _ _ _ (Ne.symm h2), dget_dset_other _ _ _ _ (Ne.symm h1),
          dget_dset_other _ _ _ _ (Ne.symm h1), dget_dset_other _ _ _ _ (Ne.symm h2)]

/-! ### any number of simple keys, any order -/

/-- the value the entries define for key `k`: the normalized value of the (first) entry under `k` -/
def entryFor (o : Opts) : List (String × GoData) → String → Option Val
  | [], _ => none
  | (k', x) :: r, k => if k' = k then (match normValue o x with | .ok v => some v | _ => none) else entryFor o r k

theorem entryFor_perm (o : Opts) {es es' : List (String × GoData)} (hp : es.Perm es')
    (hnd : (es.map (·.1)).Nodup) (k : String) : entryFor o es k = entryFor o es' k := by
  induction hp with
  | nil => rfl
  | cons x _ ih =>
    obtain ⟨k1, v1⟩ := x
    simp only [List.map_cons, List.nodup_cons] at hnd
    simp only [entryFor]
    split
    · rfl
    · exact ih hnd.2
  | swap x y l =>
    obtain ⟨k1, v1⟩ := x
    obtain ⟨k2, v2⟩ := y
    simp only [List.map_cons, List.nodup_cons, List.mem_cons, not_or] at hnd
    simp only [entryFor]
    by_cases h1 : k1 = k
    · by_cases h2 : k2 = k
      · exact absurd (h2.trans h1.symm) hnd.1.1
      · simp [h1, h2]
    · by_cases h2 : k2 = k
      · simp [h1, h2]
      · simp [h1, h2]
  | trans h1 h2 ih1 ih2 =>
    have hnd' := (List.Perm.nodup_iff (List.Perm.map Prod.fst h1)).mp hnd
    rw [ih1 hnd, ih2 hnd']

theorem entryFor_none_of_not_key (o : Opts) (r : List (String × GoData)) (k : String) (h : k ∉ r.map (·.1)) :
    entryFor o r k = none := by
  induction r with
  | nil => rfl
  | cons e2 r2 ih2 =>
    obtain ⟨k2, x2⟩ := e2
    simp only [List.map_cons, List.mem_cons, not_or] at h
    simp only [entryFor]
    rw [if_neg (Ne.symm h.1)]
    exact ih2 h.2

/-- normalizeMapInto over entries with distinct simple keys that are new to the config: it succeeds, leaves the list
part alone, and the dictionary answers every key with the entry for it, else with what was there -/
theorem normMapInto_simple (o : Opts) (a : List Val) (ha : Bool) :
    ∀ (es : List (String × GoData)) (d : Dict) (hd : Bool),
      (∀ e ∈ es, SimpleKey o e.1) → (es.map (·.1)).Nodup → (∀ e ∈ es, dget d e.1 = none) →
      (∀ e ∈ es, ∃ v, normValue o e.2 = .ok v) →
      ∃ d' hd', normMapInto o (.sub d a hd ha) es = .ok (.sub d' a hd' ha) ∧
        ∀ k, dget d' k = (match entryFor o es k with | some v => some v | none => dget d k) := by
  intro es
  induction es with
  | nil =>
    intro d hd _ _ _ _
    exact ⟨d, hd, rfl, fun k => by simp [entryFor]⟩
  | cons e r ih =>
    intro d hd hs hnd hnew hok
    obtain ⟨k1, x1⟩ := e
    simp only [List.map_cons, List.nodup_cons] at hnd
    obtain ⟨v1, hv1⟩ := hok (k1, x1) (by simp)
    have hs1 : SimpleKey o k1 := hs (k1, x1) (by simp)
    have hn1 : dget d k1 = none := hnew (k1, x1) (by simp)
    have hnew' : ∀ e ∈ r, dget (dset d k1 v1) e.1 = none := by
      intro e he
      have hne : k1 ≠ e.1 := fun h => hnd.1 (h ▸ List.mem_map_of_mem he)
      rw [dget_dset_other _ _ _ _ hne]
      exact hnew e (List.mem_cons_of_mem _ he)
    obtain ⟨d', hd', hrun, hlook⟩ := ih (dset d k1 v1) true (fun e he => hs e (List.mem_cons_of_mem _ he)) hnd.2 hnew'
      (fun e he => hok e (List.mem_cons_of_mem _ he))
    refine ⟨d', hd', ?_, ?_⟩
    · simp only [normMapInto, hv1, Outcome.bind_ok, setField_simple_new o d a hd ha k1 v1 hs1 hn1]
      exact hrun
    · intro k
      rw [hlook k]
      simp only [entryFor, hv1]
      by_cases hk : k1 = k
      · subst hk
        have : entryFor o r k1 = none := entryFor_none_of_not_key o r k1 hnd.1
        rw [this]
        simp [dget_dset_same]
      · rw [if_neg hk]
        cases entryFor o r k with
        | some v => rfl
        | none => simp [dget_dset_other _ _ _ _ hk]

/-- C09 for maps with simple keys: whatever order Go's map iteration produces the entries in, every key of the
resulting config holds the same value -/
theorem normMapInto_order_independent (o : Opts) (a : List Val) (ha hd : Bool) (d : Dict)
    (es es' : List (String × GoData)) (hp : es.Perm es')
    (hs : ∀ e ∈ es, SimpleKey o e.1) (hnd : (es.map (·.1)).Nodup) (hnew : ∀ e ∈ es, dget d e.1 = none)
    (hok : ∀ e ∈ es, ∃ v, normValue o e.2 = .ok v) :
    ∃ d1 d2 h1 h2, normMapInto o (.sub d a hd ha) es = .ok (.sub d1 a h1 ha) ∧
      normMapInto o (.sub d a hd ha) es' = .ok (.sub d2 a h2 ha) ∧ ∀ k, dget d1 k = dget d2 k := by
  have hs' : ∀ e ∈ es', SimpleKey o e.1 := fun e he => hs e (hp.symm.subset he)
  have hnd' : (es'.map (·.1)).Nodup := (List.Perm.nodup_iff (List.Perm.map Prod.fst hp)).mp hnd
  have hnew' : ∀ e ∈ es', dget d e.1 = none := fun e he => hnew e (hp.symm.subset he)
  have hok' : ∀ e ∈ es', ∃ v, normValue o e.2 = .ok v := fun e he => hok e (hp.symm.subset he)
  obtain ⟨d1, h1, r1, l1⟩ := normMapInto_simple o a ha es d hd hs hnd hnew hok
  obtain ⟨d2, h2, r2, l2⟩ := normMapInto_simple o a ha es' d hd hs' hnd' hnew' hok'
  refine ⟨d1, d2, h1, h2, r1, r2, ?_⟩
  intro k
  rw [l1 k, l2 k, entryFor_perm o hp hnd k]

/-! non-vacuity -/
example : SimpleKey {} "abc" := by unfold SimpleKey; decide
example : ([("a", Val.nilV), ("b", Val.nilV)] : Dict).Perm [("b", Val.nilV), ("a", Val.nilV)] := List.Perm.swap _ _ _

end Ucfg.C09
