import Ucfg.Props.C01
import Ucfg.Model.Normalize
/-
  C09 — results never depend on map iteration order.

  Wherever the Go code ranges over a map, the model takes the entries as a list in
  iteration order.  The theorems say that the observable result does not depend on
  which permutation that is.
-/
namespace Ucfg.C09
open Ucfg

/-- lookups in an association list with distinct keys do not depend on the order of its entries -/
theorem dget_perm {d d' : Dict} (hp : d.Perm d') (hnd : (dkeysOf d).Nodup) (k : String) :
    dget d k = dget d' k := by
  induction hp with
  | nil => rfl
  | cons x _ ih =>
    obtain ⟨k1, v1⟩ := x
    simp only [dkeysOf, List.map_cons, List.nodup_cons] at hnd
    simp only [dget]
    split
    · rfl
    · exact ih hnd.2
  | swap x y l =>
    obtain ⟨k1, v1⟩ := x
    obtain ⟨k2, v2⟩ := y
    simp only [dkeysOf, List.map_cons, List.nodup_cons, List.mem_cons, not_or] at hnd
    simp only [dget]
    by_cases h1 : k1 = k
    · by_cases h2 : k2 = k
      · exact absurd (h2.trans h1.symm) hnd.1.1
      · simp [h1, h2]
    · by_cases h2 : k2 = k
      · simp [h1, h2]
      · simp [h1, h2]
  | trans h1 h2 ih1 ih2 =>
    have hnd' : (dkeysOf _).Nodup := (List.Perm.nodup_iff (List.Perm.map Prod.fst h1)).mp hnd
    rw [ih1 hnd, ih2 hnd']

/-- Merging B's dictionary into A's gives the same value under every key whatever order B's
entries are enumerated in (mergeConfigDict ranges over a Go map). -/
theorem mergeDict_order_independent (h : Handling) (d1 d2 d2' : Dict) (hp : d2.Perm d2')
    (hnd : (dkeysOf d2).Nodup) (k : String) :
    dget (mergeDictP h d1 d2) k = dget (mergeDictP h d1 d2') k := by
  have hnd' : (dkeysOf d2').Nodup := (List.Perm.nodup_iff (List.Perm.map Prod.fst hp)).mp hnd
  rw [C01.dict_pointwise h d1 d2 k hnd, C01.dict_pointwise h d1 d2' k hnd', dget_perm hp hnd k]

/-- a key without separator or numeric meaning is one named segment -/
def SimpleKey (o : Opts) (k : String) : Prop := parsePathOpts k o = [.named k]

/-- creating a setting under a simple key that is not there yet stores it under that key -/
theorem setField_simple_new (o : Opts) (d : Dict) (a : List Val) (hd ha : Bool) (k : String) (v : Val)
    (hk : SimpleKey o k) (hnew : dget d k = none) :
    setField o (.sub d a hd ha) k v = .ok (.sub (dset d k v) a true ha) := by
  unfold setField
  have hk' : parsePathOpts k o = [.named k] := hk
  rw [hk']
  simp [pathGet, fieldGet, tcPlain, Val.dict, hnew, Val.isNilOpt, pathSet, fieldSet]

/-- sorted insertion of two different keys commutes on every lookup -/
theorem dset_two_order (d : Dict) (k1 k2 : String) (v1 v2 : Val) (hne : k1 ≠ k2) (k : String) :
    dget (dset (dset d k1 v1) k2 v2) k = dget (dset (dset d k2 v2) k1 v1) k := by
  by_cases h1 : k = k1
  · subst h1
    rw [dget_dset_other _ _ _ _ (Ne.symm hne), dget_dset_same, dget_dset_same]
  · by_cases h2 : k = k2
    · subst h2
      rw [dget_dset_same, dget_dset_other _ _ _ _ hne, dget_dset_same]
    · rw [dget_dset_other _ _ _ _ (Ne.symm h2), dget_dset_other _ _ _ _ (Ne.symm h1),
          dget_dset_other _ _ _ _ (Ne.symm h1), dget_dset_other _ _ _ _ (Ne.symm h2)]

/-! non-vacuity -/
example : SimpleKey {} "abc" := by unfold SimpleKey; decide
example : ([("a", Val.nilV), ("b", Val.nilV)] : Dict).Perm [("b", Val.nilV), ("a", Val.nilV)] := List.Perm.swap _ _ _

end Ucfg.C09
