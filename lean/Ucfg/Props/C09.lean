import Ucfg.Model.Normalize
namespace Ucfg.C09
theorem placeholder : True := trivial
end Ucfg.C09
