import Ucfg.Model.Eval
/-
  C02 — variable expansion is late-bound substitution with a fixed lookup order.
  (C07 shares `parseSplice_never_panics`.)
-/
namespace Ucfg.C02
open Ucfg Outcome

def WellNested : Nat → List Tok → Prop
  | _, [] => True
  | d, .opn :: r => WellNested (d + 1) r
  | d, .cls :: r => 0 < d ∧ WellNested (d - 1) r
  | d, .sep op :: r => (op = ":" ∨ op = ":+" ∨ op = ":?") ∧ WellNested d r
  | d, .str _ :: r => WellNested d r

theorem strTok_wn (d : Nat) (pend : List Char) (rest : List Tok) (h : WellNested d rest) :
    WellNested d (strTok pend ++ rest) := by
  unfold strTok
  split
  · simpa using h
  · simpa [WellNested] using h

theorem lexGo_wn_aux (n : Nat) : ∀ (r : List Char), r.length ≤ n → ∀ (vc : Nat) (pend : List Char),
    WellNested vc (lexGo vc pend r) := by
  induction n with
  | zero =>
    intro r hr vc pend
    have : r = [] := by cases r <;> simp_all
    subst this
    unfold lexGo
    simpa using strTok_wn vc pend [] trivial
  | succ n ih =>
    intro r hr vc pend
    cases r with
    | nil => unfold lexGo; simpa using strTok_wn vc pend [] trivial
    | cons c r =>
      have hr' : r.length ≤ n := by simpa using hr
      unfold lexGo
      split
      · -- c == '$'
        split
        · simpa using strTok_wn vc (pend ++ ['$']) [] trivial
        · rename_i r' 
          have hl : r'.length ≤ n := by simp at hr'; omega
          simp only [List.append_assoc]
          apply strTok_wn
          simp only [List.singleton_append, WellNested]
          exact ih r' hl (vc + 1) []
        · rename_i r'
          have hl : r'.length ≤ n := by simp at hr'; omega
          exact ih r' hl vc _
        · rename_i r'
          have hl : r'.length ≤ n := by simp at hr'; omega
          exact ih r' hl vc _
        · rename_i c2 r2 _ _ _
          exact ih (c2 :: r2) hr' vc _
      · split
        · -- ':' inside a variable
          split
          · simpa using strTok_wn vc (pend ++ [':']) [] trivial
          · rename_i r'
            have hl : r'.length ≤ n := by simp at hr'; omega
            simp only [List.append_assoc]
            apply strTok_wn
            simp only [List.singleton_append, WellNested]
            first | exact ih r' hl vc [] | exact ⟨by decide, ih r' hl vc []⟩ | exact ⟨trivial, ih r' hl vc []⟩
          · rename_i r'
            have hl : r'.length ≤ n := by simp at hr'; omega
            simp only [List.append_assoc]
            apply strTok_wn
            simp only [List.singleton_append, WellNested]
            first | exact ih r' hl vc [] | exact ⟨by decide, ih r' hl vc []⟩ | exact ⟨trivial, ih r' hl vc []⟩
          · rename_i c2 r2 _ _
            simp only [List.append_assoc]
            apply strTok_wn
            simp only [List.singleton_append, WellNested]
            first | exact ih (c2 :: r2) hr' vc [] | exact ⟨by decide, ih (c2 :: r2) hr' vc []⟩ | exact ⟨trivial, ih (c2 :: r2) hr' vc []⟩
        · split
          · rename_i hc
            simp only [List.append_assoc]
            apply strTok_wn
            simp only [List.singleton_append, WellNested]
            simp only [Bool.and_eq_true, decide_eq_true_eq] at hc
            exact ⟨hc.1, ih r hr' (vc - 1) []⟩
          · exact ih r hr' vc _

/-- the lexer only closes what it opened, and only emits the three known operators -/
theorem lexer_wellNested (s : String) : WellNested 0 (lexer s) :=
  lexGo_wn_aux s.toList.length s.toList (Nat.le_refl _) 0 []

def KnownOp (op : String) : Prop := op = ":" ∨ op = ":+" ∨ op = ":?"

def StackOK (stack : List PState) : Prop := ∀ st ∈ stack, st.right = true → KnownOp st.op

theorem finalize_noPanic (st : PState) (c : VarCfg) (h : st.right = true → KnownOp st.op) :
    (st.finalize c).isPanic = false := by
  unfold PState.finalize
  split
  · rfl
  · split
    · rfl
    · split
      · split <;> rfl
      · rename_i hr
        have hk := h (by simpa using hr)
        rcases hk with h1 | h1 | h1 <;> simp [h1, isPanic]

theorem stackOK_add (st : PState) (e : Expr) (h : st.right = true → KnownOp st.op) :
    (st.add e).right = true → KnownOp (st.add e).op := by
  unfold PState.add; split <;> simpa using h

theorem stackOK_addStr (st : PState) (s : String) (h : st.right = true → KnownOp st.op) :
    (st.addStr s).right = true → KnownOp (st.addStr s).op := by
  unfold PState.addStr; split <;> simpa using h

/-- with a stack one deeper than the nesting depth, parseVarExp never indexes an empty stack and
never meets an unknown operator -/
theorem parseToks_noPanic (c : VarCfg) : ∀ (toks : List Tok) (d : Nat) (stack : List PState),
    stack.length = d + 1 → StackOK stack → WellNested d toks → (parseToks c stack toks).isPanic = false := by
  intro toks
  induction toks with
  | nil =>
    intro d stack hl _ _
    unfold parseToks
    split
    · split <;> rfl
    · rfl
    · rfl
  | cons tok rest ih =>
    intro d stack hl hs hw
    cases tok with
    | opn =>
      simp only [WellNested] at hw
      unfold parseToks
      apply ih (d + 1) _ (by simp [hl]) _ hw
      intro st hst
      simp only [List.mem_cons] at hst
      rcases hst with rfl | hst
      · intro h; simp at h
      · exact hs st hst
    | cls =>
      simp only [WellNested] at hw
      obtain ⟨hd, hw⟩ := hw
      unfold parseToks
      match stack, hl, hs with
      | top :: nxt :: more, hl, hs =>
        simp only
        have hf := finalize_noPanic top c (hs top (by simp))
        cases hfin : top.finalize c with
        | ok piece =>
          simp only
          apply ih (d - 1) _ (by simp at hl ⊢; omega) _ hw
          intro st hst
          simp only [List.mem_cons] at hst
          rcases hst with rfl | hst
          · exact stackOK_add nxt piece (hs nxt (by simp))
          · exact hs st (by simp [hst])
        | err e => rfl
        | panic s => rw [hfin] at hf; simp [isPanic] at hf
        | fuel => rfl
      | [_], hl, _ => simp at hl; omega
      | [], hl, _ => simp at hl
    | sep op =>
      simp only [WellNested] at hw
      obtain ⟨hop, hw⟩ := hw
      unfold parseToks
      match stack, hl, hs with
      | top :: more, hl, hs =>
        simp only
        split
        · rfl
        · split
          · apply ih d _ (by simpa using hl) _ hw
            intro st hst
            simp only [List.mem_cons] at hst
            rcases hst with rfl | hst
            · exact stackOK_addStr top op (hs top (by simp))
            · exact hs st (by simp [hst])
          · apply ih d _ (by simpa using hl) _ hw
            intro st hst
            simp only [List.mem_cons] at hst
            rcases hst with rfl | hst
            · intro _; exact hop
            · exact hs st (by simp [hst])
      | [], hl, _ => simp at hl
    | str s =>
      simp only [WellNested] at hw
      unfold parseToks
      match stack, hl, hs with
      | top :: more, hl, hs =>
        simp only
        apply ih d _ (by simpa using hl) _ hw
        intro st hst
        simp only [List.mem_cons] at hst
        rcases hst with rfl | hst
        · exact stackOK_addStr top s (hs top (by simp))
        · exact hs st (by simp [hst])
      | [], hl, _ => simp at hl

/-- parsing the `${…}` syntax of any string never panics: the parser's stack accesses are always in
range and makeOpExpansion's `panic("Unknown operator")` is unreachable -/
theorem parseSplice_never_panics (s : String) (c : VarCfg) : (parseSplice s c).isPanic = false := by
  unfold parseSplice
  apply parseToks_noPanic c (lexer s) 0 [{}] rfl _ (lexer_wellNested s)
  intro st hst
  simp only [List.mem_singleton] at hst
  subst hst
  intro h; simp at h


/-! ### escapes -/

/-- `$$` is a literal `$`, inside and outside of `${…}` -/
theorem lex_escape_dollar (vc : Nat) (pend r : List Char) :
    lexGo vc pend ('$' :: '$' :: r) = lexGo vc (pend ++ ['$']) r := by
  rw [lexGo]; simp

/-- `$}` is a literal `}` -/
theorem lex_escape_brace (vc : Nat) (pend r : List Char) :
    lexGo vc pend ('$' :: '}' :: r) = lexGo vc (pend ++ ['}']) r := by
  rw [lexGo]; simp

/-- outside of `${…}` nothing but `$` is special: text without `$` is one literal -/
theorem lex_plain (s pend : List Char) (h : ∀ c ∈ s, c ≠ '$') : lexGo 0 pend s = strTok (pend ++ s) := by
  induction s generalizing pend with
  | nil => simp [lexGo]
  | cons c r ih =>
    have hc : (c == '$') = false := by simpa using h c (by simp)
    unfold lexGo
    simp only [hc, Bool.false_eq_true, if_false, Nat.lt_irrefl, decide_false, Bool.false_and]
    rw [ih (pend ++ [c]) (fun x hx => h x (by simp [hx]))]
    simp

/-! ### lookup order -/

/-- a reference is looked up in the tree the setting lives in first, then in the Env configs, most
recently added first (unless it is being re-entered) -/
theorem lookup_order (C : ECtx) (n : Nat) (home : Val) (active : List String) (fs : List Field) (sep : String)
    (h : active.contains (pathString fs sep) = false) :
    resolveRef C (n + 1) home active fs sep =
      lookupTrees C n (pathString fs sep :: active) fs (home :: C.opts.env.reverse) := by
  rw [resolveRef]
  simp only [h, Bool.false_eq_true, if_false]

/-- without any resolver a name that no tree defines stays unresolved: an error, never "" -/
theorem unresolved_is_error (C : ECtx) (key : String) (h : C.opts.resolvers = []) :
    resolveEnv C key = .error errMissingRaw := by
  simp [resolveEnv, h, resolveEnv.go]

/-- resolvers are consulted most recently added first: the last one that knows the name answers -/
theorem resolver_last_wins (C : ECtx) (rs : List Resolver) (r : Resolver) (key k : String) (v : String) (cfg : ParseCfg)
    (hr : C.opts.resolvers = rs ++ [r]) (hk : r.table.find? (·.1 == key) = some (k, v, cfg)) :
    resolveEnv C key = .ok (v, cfg) := by
  simp [resolveEnv, hr, resolveEnv.go, hk]

/-- a setting that is exactly one reference takes the referenced value as it is (with its type):
the found value is returned, not its text -/
theorem single_ref_keeps_value (C : ECtx) (n : Nat) (home : Val) (here active : List String)
    (fs : List Field) (sep : String) (f : Found) (cache cache' : Cache)
    (h : resolveRef C n home active fs sep cache = (.ok (.found f), cache')) :
    dynGet C (n + 1) home here active (.ref fs sep) cache = (.ok (f, pathString fs sep :: active), cache') := by
  rw [dynGet]
  show EM.bind (resolveRef C n home active fs sep) _ cache = _
  unfold EM.bind
  rw [h]
  rfl

/-! non-vacuity -/
example : WellNested 0 [.opn, .str "a", .sep ":", .str "d", .cls] := by simp [WellNested]
example : ¬ WellNested 0 [.cls] := by simp [WellNested]

end Ucfg.C02

namespace Ucfg.C02
open Ucfg

/-! ### the operator table (`${name:default}`, `${name:+alt}`, `${name:?msg}`), for a constant name

Stated relative to what looking the name up does (`refEval` / `refResolve` at the fuel the operator gives it), on any
cache: the operator adds exactly the documented choice and nothing else. -/

/-- the path an operator with the constant name `nm` looks up -/
def opPath (C : ECtx) (nm sep : String) : List Field :=
  parsePath nm sep C.opts.maxIdx C.opts.enableNumKeys C.opts.escapePath

theorem em_pure {α : Type} (a : α) (c : Cache) : (pure a : EM α) c = (.ok a, c) := rfl

theorem const_eval (C : ECtx) (m : Nat) (home : Val) (active : List String) (nm : String) :
    evalExpr C (m+1) home active (.const nm) = EM.pure nm := by
  rw [evalExpr]; rfl

/-- `${name:default}`: a name that resolves to non-empty text is that text -/
theorem default_keeps_value (C : ECtx) (m : Nat) (home : Val) (active : List String) (nm sep : String) (r : Expr)
    (c c1 : Cache) (v : String) (hnm : (nm == "") = false) (hv : (v == "") = false)
    (h : refEval C (m+1) home active (opPath C nm sep) sep c = (.ok v, c1)) :
    evalExpr C (m+2) home active (.dflt (.const nm) r sep) c = (.ok v, c1) := by
  unfold opPath at h
  rw [evalExpr]
  simp only [const_eval, em_pure, bind, EM.bind, EM.attempt, EM.pure, hnm, Bool.false_eq_true, if_false, h, hv]

/-- `${name:default}`: a name whose lookup fails gives the default (evaluated on the cache the attempt left) -/
theorem default_used_when_lookup_fails (C : ECtx) (m : Nat) (home : Val) (active : List String) (nm sep : String) (r : Expr)
    (c c1 : Cache) (e : Err) (hnm : (nm == "") = false)
    (h : refEval C (m+1) home active (opPath C nm sep) sep c = (.err e, c1)) :
    evalExpr C (m+2) home active (.dflt (.const nm) r sep) c = evalExpr C (m+1) home active r c1 := by
  unfold opPath at h
  rw [evalExpr]
  simp only [const_eval, em_pure, bind, EM.bind, EM.attempt, EM.pure, hnm, Bool.false_eq_true, if_false, h]

/-- `${name:default}`: a name that resolves to the empty string gives the default -/
theorem default_used_when_empty (C : ECtx) (m : Nat) (home : Val) (active : List String) (nm sep : String) (r : Expr)
    (c c1 : Cache) (hnm : (nm == "") = false)
    (h : refEval C (m+1) home active (opPath C nm sep) sep c = (.ok "", c1)) :
    evalExpr C (m+2) home active (.dflt (.const nm) r sep) c = evalExpr C (m+1) home active r c1 := by
  unfold opPath at h
  rw [evalExpr]
  simp only [const_eval, em_pure, bind, EM.bind, EM.attempt, EM.pure, hnm, Bool.false_eq_true, if_false, h, beq_self_eq_true, if_true]

/-- `${name:+alt}`: when the name is set (its lookup finds something) the alternative is evaluated ... -/
theorem alternative_when_set (C : ECtx) (m : Nat) (home : Val) (active : List String) (nm sep : String) (r : Expr)
    (c c1 : Cache) (f : Found) (hnm : (nm == "") = false)
    (h : refResolve C (m+1) home active (opPath C nm sep) sep c = (.ok (some f), c1)) :
    evalExpr C (m+2) home active (.alt (.const nm) r sep) c = evalExpr C (m+1) home active r c1 := by
  unfold opPath at h
  rw [evalExpr]
  simp only [const_eval, em_pure, bind, EM.bind, EM.attempt, EM.pure, hnm, Bool.false_eq_true, if_false, h]

/-- ... and when it is not set, or looking it up fails, the result is the empty string -/
theorem alternative_when_unset (C : ECtx) (m : Nat) (home : Val) (active : List String) (nm sep : String) (r : Expr)
    (c c1 : Cache) (hnm : (nm == "") = false)
    (h : refResolve C (m+1) home active (opPath C nm sep) sep c = (.ok none, c1) ∨
         ∃ e, refResolve C (m+1) home active (opPath C nm sep) sep c = (.err e, c1)) :
    evalExpr C (m+2) home active (.alt (.const nm) r sep) c = (.ok "", c1) := by
  unfold opPath at h
  rw [evalExpr]
  rcases h with h | ⟨e, h⟩ <;>
    simp only [const_eval, em_pure, bind, EM.bind, EM.attempt, EM.pure, hnm, Bool.false_eq_true, if_false, h]

/-- `${name:?msg}`: a name that resolves to non-empty text is that text -/
theorem required_keeps_value (C : ECtx) (m : Nat) (home : Val) (active : List String) (nm sep : String) (r : Expr)
    (c c1 : Cache) (v : String) (hnm : (nm == "") = false) (hv : (v == "") = false)
    (h : refEval C (m+1) home active (opPath C nm sep) sep c = (.ok v, c1)) :
    evalExpr C (m+2) home active (.errx (.const nm) r sep) c = (.ok v, c1) := by
  unfold opPath at h
  rw [evalExpr]
  simp only [const_eval, em_pure, bind, EM.bind, EM.attempt, EM.pure, hnm, Bool.false_eq_true, if_false, h, hv]

/-- `${name:?msg}`: a name whose lookup fails is an error carrying the evaluated message -/
theorem required_raises_message (C : ECtx) (m : Nat) (home : Val) (active : List String) (nm sep : String) (r : Expr)
    (c c1 c2 : Cache) (e : Err) (msg : String) (hnm : (nm == "") = false)
    (h : refEval C (m+1) home active (opPath C nm sep) sep c = (.err e, c1))
    (hm : evalExpr C (m+1) home active r c1 = (.ok msg, c2)) :
    evalExpr C (m+2) home active (.errx (.const nm) r sep) c =
      (.err { reason := .other, typed := false, msg := some msg }, c2) := by
  unfold opPath at h
  rw [evalExpr]
  simp only [const_eval, em_pure, bind, EM.bind, EM.attempt, EM.pure, hnm, Bool.false_eq_true, if_false, h, hm, EM.fail]

end Ucfg.C02
