import Ucfg.Model.Parse
import Ucfg.Spec.C17
/-
  C17 — parse.Value accepts every JSON value and reads it back faithfully.
  (C07 shares `value_never_panics`.)
-/
namespace Ucfg.C17
open Ucfg Ucfg.Parse Outcome




theorem bind_noPanic {α β : Type} (x : Outcome α) (f : α → Outcome β)
    (hx : x.isPanic = false) (hf : ∀ a, (f a).isPanic = false) : (x >>= f).isPanic = false := by
  cases x with
  | ok a => exact hf a
  | err e => rfl
  | panic s => simp [isPanic] at hx
  | fuel => rfl

theorem parseStringDQuote_noPanic (c : Char) (r : List Char) : (parseStringDQuote (c :: r)).isPanic = false := by
  unfold parseStringDQuote
  simp only
  split
  · rfl
  · split <;> rfl

theorem parseStringSQuote_noPanic (c : Char) (r : List Char) : (parseStringSQuote (c :: r)).isPanic = false := by
  unfold parseStringSQuote
  simp only
  split <;> rfl

theorem parseNonQuoted_noPanic (stop inp : List Char) : (parseNonQuotedString stop inp).isPanic = false := by
  unfold parseNonQuotedString
  split
  · rfl
  · split <;> rfl

theorem parsePrimitive_noPanic (std : Stdlib) (stop inp : List Char) : (parsePrimitive std stop inp).isPanic = false := by
  unfold parsePrimitive
  apply bind_noPanic
  · exact parseNonQuoted_noPanic stop inp
  · intro a; rfl

theorem parseKey_noPanic (inp : List Char) : (parseKey inp).isPanic = false := by
  unfold parseKey
  split
  · rfl
  · exact parseStringDQuote_noPanic _ _
  · exact parseStringSQuote_noPanic _ _
  · exact parseNonQuoted_noPanic _ _




def AllNoPanic (std : Stdlib) (cfg : ParseCfg) (n : Nat) : Prop :=
  (∀ stop inp, (parseValue std cfg n stop inp).isPanic = false) ∧
  (∀ c r, (parseArray std cfg n (c :: r)).isPanic = false) ∧
  (∀ acc inp, (arrayLoop std cfg n acc inp).isPanic = false) ∧
  (∀ c r, (parseObj std cfg n (c :: r)).isPanic = false) ∧
  (∀ acc inp, (objLoop std cfg n acc inp).isPanic = false)

theorem allNoPanic (std : Stdlib) (cfg : ParseCfg) : ∀ n, AllNoPanic std cfg n := by
  intro n
  induction n with
  | zero =>
    refine ⟨?_, ?_, ?_, ?_, ?_⟩ <;> intros <;> simp [parseValue, parseArray, arrayLoop, parseObj, objLoop, isPanic]
  | succ n ih =>
    obtain ⟨hv, ha, hal, ho, hol⟩ := ih
    refine ⟨?_, ?_, ?_, ?_, ?_⟩
    · intro stop inp
      simp only [parseValue]
      split
      · rfl
      · rename_i c r hc
        split
        · rw [hc]; exact ha _ _
        · split
          · rw [hc]; exact ho _ _
          · split
            · apply bind_noPanic
              · rw [hc]; exact parseStringDQuote_noPanic _ _
              · intro a; rfl
            · split
              · apply bind_noPanic
                · rw [hc]; exact parseStringSQuote_noPanic _ _
                · intro a; rfl
              · exact parsePrimitive_noPanic _ _ _
    · intro c r
      simp only [parseArray]
      apply bind_noPanic
      · exact hal _ _
      · intro a; rfl
    · intro acc inp
      simp only [arrayLoop]
      split
      · rfl
      · split
        · rfl
        · apply bind_noPanic
          · exact hv _ _
          · intro a
            split
            · rfl
            · split
              · rfl
              · split
                · exact hal _ _
                · rfl
    · intro c r
      simp only [parseObj]
      apply bind_noPanic
      · exact hol _ _
      · intro a; rfl
    · intro acc inp
      simp only [objLoop]
      split
      · rfl
      · split
        · rfl
        · apply bind_noPanic
          · exact parseKey_noPanic _
          · intro a
            split
            · apply bind_noPanic
              · exact hv _ _
              · intro b
                split
                · rfl
                · split
                  · rfl
                  · split
                    · exact hol _ _
                    · rfl
            · rfl


theorem topLoop_noPanic (std : Stdlib) (cfg : ParseCfg) :
    ∀ n acc inp, (topLoop std cfg n acc inp).isPanic = false := by
  intro n
  induction n with
  | zero => intros; rfl
  | succ n ih =>
    intro acc inp
    simp only [topLoop]
    apply bind_noPanic
    · exact (allNoPanic std cfg (n + 1)).1 _ _
    · intro a
      split
      · rfl
      · split
        · exact ih _ _
        · rfl

/-- parse.Value / ValueWithConfig never panics: for every input string, every parser
configuration and every behaviour of strconv.ParseFloat.  (On the Go side this is
the statement that every `p.input[0]` is guarded.) -/
theorem value_never_panics (std : Stdlib) (s : String) (cfg : ParseCfg) :
    (valueWithConfig std s cfg).isPanic = false := by
  unfold valueWithConfig
  split
  · rfl
  · have hp := topLoop_noPanic std cfg (4 * (trimSpace s.toList).length + 8) [] (trimSpace s.toList)
    simp only []
    generalize topLoop std cfg (4 * (trimSpace s.toList).length + 8) [] (trimSpace s.toList) = t at hp
    match t, hp with
    | .ok [], _ => rfl
    | .ok [_], _ => rfl
    | .ok (_ :: _ :: _), _ => rfl
    | .err _, _ => rfl
    | .fuel, _ => rfl
    | .panic _, hp => simp [isPanic] at hp

/-- **IgnoreCommas**: the top-level loop returns exactly one value - the first one - or fails; no comma builds a
list (the repaired D49: before, a comma after a quoted string, an array or an object still did) -/
theorem ignoreCommas_single (std : Stdlib) (cfg : ParseCfg) (hc : cfg.ignoreCommas = true) :
    ∀ n inp vs, topLoop std cfg n [] inp = .ok vs → vs.length = 1 := by
  intro n inp vs h
  cases n with
  | zero => simp [topLoop] at h
  | succ n =>
    simp only [topLoop, hc, if_true, Bool.not_true, Bool.and_false] at h
    cases hv : parseValue std cfg (n + 1) [] inp with
    | ok p =>
      obtain ⟨v, r1⟩ := p
      rw [hv] at h
      simp only [Bind.bind, Outcome.bind] at h
      split at h
      · simp only [List.nil_append, Outcome.ok.injEq] at h
        rw [← h]; rfl
      · simp [raiseRaw] at h
    | err e => rw [hv] at h; simp [Bind.bind, Outcome.bind] at h
    | panic e => rw [hv] at h; simp [Bind.bind, Outcome.bind] at h
    | fuel => rw [hv] at h; simp [Bind.bind, Outcome.bind] at h

/-- hence under IgnoreCommas what `ValueWithConfig` returns is the value `parseValue` read from the start of the
text, never a list assembled from several values -/
theorem ignoreCommas_value_is_first (std : Stdlib) (s : String) (cfg : ParseCfg) (hc : cfg.ignoreCommas = true)
    (d : Data) (h : valueWithConfig std s cfg = .ok d) :
    ∃ n, topLoop std cfg n [] (trimSpace s.toList) = .ok [d] := by
  unfold valueWithConfig at h
  split at h
  · simp [raiseRaw] at h
  · refine ⟨4 * (trimSpace s.toList).length + 8, ?_⟩
    have hl := ignoreCommas_single std cfg hc (4 * (trimSpace s.toList).length + 8) (trimSpace s.toList)
    simp only [] at h
    generalize topLoop std cfg (4 * (trimSpace s.toList).length + 8) [] (trimSpace s.toList) = t at h hl
    match t, h, hl with
    | .ok [], _, hl => simpa using hl [] rfl
    | .ok [v], h, _ => simp only [Outcome.ok.injEq] at h; rw [h]
    | .ok (_ :: _ :: _), _, hl => simpa using hl _ rfl
    | .err _, h, _ => simp at h
    | .fuel, h, _ => simp at h
    | .panic _, h, _ => simp at h

/-- a configuration with objects enabled but arrays disabled is rejected -/
theorem invalid_config_rejected (std : Stdlib) (s : String) (cfg : ParseCfg)
    (h : cfg.array = false ∧ cfg.object = true) : (valueWithConfig std s cfg).isErr = true := by
  unfold valueWithConfig
  simp [h.1, h.2, isErr, raiseRaw]

/-! ### double-quoted strings without escapes are read back verbatim -/

def Plain (s : List Char) : Prop := ∀ c ∈ s, c ≠ '"' ∧ c ≠ '\\' ∧ c ≠ '\n'

theorem unquoteBody_plain (acc s : List Char) (h : Plain s) :
    unquoteBody .norm acc (s ++ ['"']) = .ok (acc.reverse ++ s) := by
  induction s generalizing acc with
  | nil => simp [unquoteBody]
  | cons c r ih =>
    have hc := h c (by simp)
    have hr : Plain r := fun x hx => h x (by simp [hx])
    rw [List.cons_append, unquoteBody]
    simp only [beq_iff_eq, hc.1, hc.2.1, hc.2.2, if_false]
    rw [ih _ hr]
    simp

theorem scanDQ_plain (pre s rest : List Char) (h : Plain s) (hpre : trailingBackslashes pre = 0) :
    scanDQ pre (s ++ '"' :: rest) = some (('"' :: pre.reverse) ++ s ++ ['"'], rest) := by
  induction s generalizing pre with
  | nil => simp [scanDQ, hpre]
  | cons c r ih =>
    have hc := h c (by simp)
    have hr : Plain r := fun x hx => h x (by simp [hx])
    simp only [List.cons_append, scanDQ]
    have : (c == '"') = false := by simp [hc.1]
    simp only [this, Bool.false_and, Bool.false_eq_true, if_false]
    rw [ih (c :: pre) hr]
    · simp
    · cases c using Char.casesOn with
      | _ => unfold trailingBackslashes; split
             · rename_i heq; cases heq; exact absurd rfl hc.2.1
             · rfl

/-- the string parser returns exactly the text between the quotes -/
theorem parseStringDQuote_plain (s rest : List Char) (h : Plain s) :
    parseStringDQuote ('"' :: s ++ '"' :: rest) = .ok (String.ofList s, rest) := by
  unfold parseStringDQuote
  simp only [List.cons_append]
  rw [scanDQ_plain [] s rest h rfl]
  simp only [List.reverse_nil, List.append_nil, List.cons_append, List.nil_append]
  unfold unquote
  have : (s ++ ['"']).isEmpty = false := by cases s <;> rfl
  simp only [this, Bool.false_eq_true, if_false]
  rw [unquoteBody_plain [] s h]
  simp

/-! non-vacuity (small inputs as character lists; kernel evaluation of long `String`
literals is avoided on purpose) -/
example : (parseValue default {} 5 [','] ['[', '1', ',', 'a', ']']).isOk = true := by decide
example : (parseValue default {} 5 [','] ['[']).isErr = true := by decide
example : (parseValue default {} 5 [','] ['{', 'a', ':', '1', ',']).isErr = true := by decide
example : Plain ['a', 'b'] := by intro c hc; simp at hc; rcases hc with rfl | rfl <;> decide

end Ucfg.C17
