import Ucfg.Lemmas.Dict
import Ucfg.Model.Ops
/-
  C12 — path-addressed reads, writes and removals behave like a tree.
-/
namespace Ucfg.C12
open Ucfg

/-- a value written under a name is read back unchanged from that name -/
theorem get_set_named_same (o : Opts) (d : Dict) (a : List Val) (hd ha : Bool) (n : String) (v t : Val)
    (h : fieldSet o (.named n) (.sub d a hd ha) v = .ok t) :
    fieldGet tcPlain (.named n) t = .ok (some v) := by
  simp [fieldSet] at h
  subst h
  simp [fieldGet, tcPlain, Val.dict, dget_dset_same]

/-- … and a write under one name does not change what another name reads -/
theorem get_set_named_other (o : Opts) (d : Dict) (a : List Val) (hd ha : Bool) (n n' : String) (v t : Val)
    (hne : n ≠ n') (h : fieldSet o (.named n) (.sub d a hd ha) v = .ok t) :
    fieldGet tcPlain (.named n') t = fieldGet tcPlain (.named n') (.sub d a hd ha) := by
  simp [fieldSet] at h
  subst h
  simp [fieldGet, tcPlain, Val.dict, dget_dset_other _ _ _ _ hne]

/-- a named write leaves the list part alone, an indexed write leaves the dictionary alone -/
theorem set_named_keeps_list (o : Opts) (d : Dict) (a : List Val) (hd ha : Bool) (n : String) (v t : Val)
    (h : fieldSet o (.named n) (.sub d a hd ha) v = .ok t) : t.arr = a := by
  simp [fieldSet] at h; subst h; rfl

theorem asetNat_get_same (a : List Val) (n : Nat) (v : Val) : (asetNat a n v)[n]? = some v := by
  induction a generalizing n with
  | nil =>
    induction n with
    | zero => simp [asetNat]
    | succ k ih => simp [asetNat, ih]
  | cons x r ih =>
    cases n with
    | zero => simp [asetNat]
    | succ k => simp [asetNat, ih]

/-- writing past the end pads with nil values, and earlier slots keep their content -/
theorem asetNat_get_other (a : List Val) (n m : Nat) (v : Val) (hne : m ≠ n) :
    (asetNat a n v)[m]? = if m < a.length then a[m]? else if m < n then some Val.nilV else none := by
  induction a generalizing n m with
  | nil =>
    induction n generalizing m with
    | zero =>
      cases m with
      | zero => exact absurd rfl hne
      | succ j => simp [asetNat]
    | succ k ih =>
      cases m with
      | zero => simp [asetNat]
      | succ j =>
        have : j ≠ k := fun e => hne (by rw [e])
        simp only [asetNat, List.getElem?_cons_succ, ih j this]
        simp
  | cons x r ih =>
    cases n with
    | zero =>
      cases m with
      | zero => exact absurd rfl hne
      | succ j => simp [asetNat]
    | succ k =>
      cases m with
      | zero => simp [asetNat]
      | succ j =>
        have : j ≠ k := fun e => hne (by rw [e])
        simp only [asetNat, List.getElem?_cons_succ, ih k j this, List.length_cons]
        simp

/-- removing element i from a list shifts the later elements down by one -/
theorem remove_shifts (a : List Val) (i : Nat) (j : Nat) (hi : i < a.length) :
    ((adel a i).1)[j]? = if j < i then a[j]? else a[j + 1]? := by
  have hg : Extracted.guard_delAt_reject (i : Int) (a.length : Int) = false := by
    simp [Extracted.guard_delAt_reject]; omega
  simp only [adel, hg, Bool.false_eq_true, if_false, Int.toNat_natCast]
  rw [List.getElem?_eraseIdx]

/-- a handle on element j keeps addressing its node when an element in front of it is removed: the node is found one
index lower (this is the renumbering `opStep` applies to the handles of a history) -/
theorem shifted_handle_same_node (a : List Val) (i j : Nat) (hi : i < a.length) (hj : i < j) :
    ((adel a i).1)[j - 1]? = a[j]? := by
  rw [remove_shifts a i (j - 1) hi]
  have h1 : ¬ (j - 1 < i) := by omega
  have h2 : j - 1 + 1 = j := by omega
  simp [h1, h2]

/-- ... and a handle on an element in front of the removed one is not affected at all -/
theorem earlier_handle_same_node (a : List Val) (i j : Nat) (hi : i < a.length) (hj : j < i) :
    ((adel a i).1)[j]? = a[j]? := by
  rw [remove_shifts a i j hi]
  simp [hj]

/-- … and reports that something was removed exactly when the index was inside the list -/
theorem remove_flag (a : List Val) (i : Int) : (adel a i).2 = true ↔ (0 ≤ i ∧ i < a.length) := by
  unfold adel
  by_cases hg : Extracted.guard_delAt_reject i a.length = true
  · simp only [hg, if_true]
    simp [Extracted.guard_delAt_reject] at hg
    constructor
    · intro h; cases h
    · intro h; omega
  · simp only [hg, Bool.false_eq_true, if_false]
    simp [Extracted.guard_delAt_reject] at hg
    constructor
    · intro _; omega
    · intro _; trivial

/-- Has agrees with GetValue at a single field -/
theorem has_iff_get (f : Field) (c : Val) :
    pathHas tcPlain [f] c = (match fieldGet tcPlain f c with
      | .ok (some _) => .ok true
      | .ok none => .ok false
      | .err e => if e.reason = .missing then .ok false else .err e
      | .panic s => .panic s
      | .fuel => .fuel) := by
  simp only [pathHas]
  cases fieldGet tcPlain f c with
  | ok v => cases v <;> rfl
  | err e => rfl
  | panic s => rfl
  | fuel => rfl

/-! ### whole paths: a write is read back through the same path

`pathSet` descends through existing containers, builds the missing ones bottom-up (`buildChain`) and puts every updated
child back where it was found.  For every path (names and indices, any length), every node and every value: when the
write succeeds, reading the same path in the result yields exactly the value written. -/

theorem fieldGet_fieldSet_same (o : Opts) (f : Field) (node v t : Val) (h : fieldSet o f node v = .ok t) :
    fieldGet tcPlain f t = .ok (some v) := by
  cases node with
  | sub d a hd ha =>
    cases f with
    | named n =>
      simp only [fieldSet, Outcome.ok.injEq] at h
      subst h
      simp [fieldGet, tcPlain, Val.dict, dget_dset_same]
    | idx i =>
      simp only [fieldSet] at h
      by_cases hg : Extracted.guard_idxSet_reject i o.maxIdx = true
      · simp [hg, Outcome.raise] at h
      · simp only [hg, Bool.false_eq_true, if_false] at h
        by_cases hneg : i < 0
        · simp [hneg] at h
        · simp only [hneg, if_false] at h
          by_cases hh : i ≥ hugeAlloc
          · simp [hh] at h
          · simp only [hh, if_false, Outcome.ok.injEq] at h
            subst h
            have hlen : i.toNat < (asetNat a i.toNat v).length := by
              have := asetNat_get_same a i.toNat v
              exact (List.getElem?_eq_some_iff.mp this).1
            have hm : Extracted.guard_idxGet_missing i ((asetNat a i.toNat v).length : Int) = false := by
              simp only [Extracted.guard_idxGet_missing, Bool.or_eq_false_iff, decide_eq_false_iff_not]
              constructor <;> omega
            simp only [fieldGet, tcPlain, Val.arr, hm, Bool.false_eq_true, if_false, hneg, asetNat_get_same]
  | prim p => simp [fieldSet, Outcome.raise] at h
  | dyn i e => simp [fieldSet, Outcome.raise] at h

theorem pathGet_cons (f : Field) (rest : List Field) (hr : rest ≠ []) (cur c : Val)
    (h : fieldGet tcPlain f cur = .ok (some c)) : pathGet tcPlain (f :: rest) cur = pathGet tcPlain rest c := by
  cases rest with
  | nil => exact absurd rfl hr
  | cons g r => simp [pathGet, h]

theorem pathGet_single (f : Field) (cur v : Val) (h : fieldGet tcPlain f cur = .ok (some v)) :
    pathGet tcPlain [f] cur = .ok (some v) := by
  simp [pathGet, h]

/-- the containers built for the missing part of a path lead to the value -/
theorem buildChain_get (o : Opts) : ∀ (p : List Field) (v t : Val), p ≠ [] → buildChain o p v = .ok t →
    pathGet tcPlain p t = .ok (some v)
  | [], _, _, hp, _ => absurd rfl hp
  | [f], v, t, _, h => by
    simp only [buildChain, Outcome.bind_ok] at h
    exact pathGet_single f t v (fieldGet_fieldSet_same o f Val.empty v t h)
  | f :: g :: r, v, t, _, h => by
    simp only [buildChain] at h
    cases hi : buildChain o (g :: r) v with
    | ok inner =>
      have hi' := hi
      simp only [buildChain] at hi'
      rw [hi'] at h
      simp only [Outcome.bind_ok] at h
      rw [pathGet_cons f (g :: r) (by simp) t inner (fieldGet_fieldSet_same o f Val.empty inner t h)]
      exact buildChain_get o (g :: r) v inner (by simp) hi
    | err e => simp only [buildChain] at hi; rw [hi] at h; simp at h
    | panic s => simp only [buildChain] at hi; rw [hi] at h; simp at h
    | fuel => simp only [buildChain] at hi; rw [hi] at h; simp at h

theorem fieldGet_putChild_same (f : Field) (node c c' t : Val)
    (hg : fieldGet tcPlain f node = .ok (some c)) (hnode : node.isSub = true) (hp : putChild node f c' = .ok t) :
    fieldGet tcPlain f t = .ok (some c') := by
  cases node with
  | sub d a hd ha =>
    cases f with
    | named n =>
      simp only [putChild, Outcome.ok.injEq] at hp
      subst hp
      simp [fieldGet, tcPlain, Val.dict, dget_dset_same]
    | idx i =>
      simp only [putChild, Outcome.ok.injEq] at hp
      subst hp
      -- the child was found at index i: the index is inside the list
      simp only [fieldGet, tcPlain, Val.arr] at hg
      by_cases hm : Extracted.guard_idxGet_missing i (a.length : Int) = true
      · simp [hm, Outcome.raise] at hg
      · simp only [hm, Bool.false_eq_true, if_false] at hg
        by_cases hneg : i < 0
        · simp [hneg] at hg
        · simp only [hneg, if_false] at hg
          have hlt : i.toNat < a.length := by
            cases hq : a[i.toNat]? with
            | none => rw [hq] at hg; simp at hg
            | some x => exact (List.getElem?_eq_some_iff.mp hq).1
          have hm' : Extracted.guard_idxGet_missing i ((a.set i.toNat c').length : Int) = false := by
            simp only [List.length_set]
            simpa using hm
          simp only [fieldGet, tcPlain, Val.arr, hm', Bool.false_eq_true, if_false, hneg]
          simp [List.getElem?_set_self hlt]
  | prim p => simp [Val.isSub] at hnode
  | dyn i e => simp [Val.isSub] at hnode

/-- **read-your-writes for whole paths**: whatever the path (names and indices, any length), the node and the value, a write
that succeeds is read back through the same path -/
theorem pathGet_pathSet_same (o : Opts) : ∀ (p : List Field) (node v t : Val),
    pathSet tcPlain o p node v = .ok t → pathGet tcPlain p t = .ok (some v)
  | [], node, v, t, h => by simp [pathSet] at h
  | [f], node, v, t, h => by
    simp only [pathSet] at h
    exact pathGet_single f t v (fieldGet_fieldSet_same o f node v t h)
  | f :: g :: r, node, v, t, h => by
    -- the branch that builds the missing containers
    have build : (do
        let inner ← buildChain o (g :: r) v
        fieldSet o f node inner) = .ok t → pathGet tcPlain (f :: g :: r) t = .ok (some v) := by
      intro hb
      cases hi : buildChain o (g :: r) v with
      | ok inner =>
        rw [hi] at hb
        simp only [Outcome.bind_ok] at hb
        rw [pathGet_cons f (g :: r) (by simp) t inner (fieldGet_fieldSet_same o f node inner t hb)]
        exact buildChain_get o (g :: r) v inner (by simp) hi
      | err e => rw [hi] at hb; simp at hb
      | panic s => rw [hi] at hb; simp at hb
      | fuel => rw [hi] at hb; simp at hb
    simp only [pathSet] at h
    cases hg : fieldGet tcPlain f node with
    | err e =>
      rw [hg] at h
      simp only at h
      by_cases hm : e.reason = Reason.missing
      · simp only [hm, if_true] at h; exact build h
      · simp [hm] at h
    | panic s => rw [hg] at h; simp at h
    | fuel => rw [hg] at h; simp at h
    | ok co =>
      rw [hg] at h
      cases co with
      | none => simp only at h; exact build h
      | some c =>
        simp only at h
        by_cases hn : c.isNilPrim = true
        · simp only [hn, if_true] at h; exact build h
        · simp only [hn, Bool.false_eq_true, if_false] at h
          cases hc : pathSet tcPlain o (g :: r) c v with
          | ok c' =>
            rw [hc] at h
            simp only [Outcome.bind_ok] at h
            have hsub : node.isSub = true := by
              cases node with
              | sub d a hd ha => rfl
              | prim p => cases f <;> simp [putChild, Outcome.raise] at h
              | dyn i e => cases f <;> simp [putChild, Outcome.raise] at h
            rw [pathGet_cons f (g :: r) (by simp) t c' (fieldGet_putChild_same f node c c' t hg hsub h)]
            exact pathGet_pathSet_same o (g :: r) c v c' hc
          | err e => rw [hc] at h; simp at h
          | panic s => rw [hc] at h; simp at h
          | fuel => rw [hc] at h; simp at h

/-- ... hence Has answers true for a path that has just been written -/
theorem pathHas_of_get : ∀ (p : List Field) (t v : Val), pathGet tcPlain p t = .ok (some v) → p ≠ [] →
    pathHas tcPlain p t = .ok true
  | [], _, _, _, hp => absurd rfl hp
  | [f], t, v, h, _ => by
    simp only [pathGet] at h
    cases hf : fieldGet tcPlain f t with
    | ok vo =>
      rw [hf] at h
      simp only [Outcome.ok.injEq] at h
      subst h
      simp [pathHas, hf]
    | err e => rw [hf] at h; simp [Outcome.raise] at h
    | panic s => rw [hf] at h; simp at h
    | fuel => rw [hf] at h; simp at h
  | f :: g :: r, t, v, h, _ => by
    simp only [pathGet] at h
    cases hf : fieldGet tcPlain f t with
    | ok vo =>
      rw [hf] at h
      cases vo with
      | none => simp [Outcome.raise] at h
      | some n =>
        simp only at h
        simp only [pathHas, hf]
        exact pathHas_of_get (g :: r) n v h (by simp)
    | err e => rw [hf] at h; simp at h
    | panic s => rw [hf] at h; simp at h
    | fuel => rw [hf] at h; simp at h

theorem pathHas_pathSet_same (o : Opts) (p : List Field) (node v t : Val) (hp : p ≠ [])
    (h : pathSet tcPlain o p node v = .ok t) : pathHas tcPlain p t = .ok true :=
  pathHas_of_get p t v (pathGet_pathSet_same o p node v t h) hp


/-- a write below the name `n` changes, at the node it starts from, the entry `n` and nothing else: every other name and
every list element of that node is found as before -/
theorem pathSet_named_frame (o : Opts) (n : String) (p : List Field) (d : Dict) (a : List Val) (hd ha : Bool) (v t : Val)
    (h : pathSet tcPlain o (.named n :: p) (.sub d a hd ha) v = .ok t) :
    (∀ n', n ≠ n' → fieldGet tcPlain (.named n') t = fieldGet tcPlain (.named n') (.sub d a hd ha)) ∧
    (∀ j, fieldGet tcPlain (.idx j) t = fieldGet tcPlain (.idx j) (.sub d a hd ha)) := by
  -- in every branch the result is the node with `dset d n _`
  have shape : ∃ x hd', t = .sub (dset d n x) a hd' ha := by
    cases p with
    | nil =>
      simp only [pathSet, fieldSet, Outcome.ok.injEq] at h
      exact ⟨v, true, h.symm⟩
    | cons g r =>
      have build : (do
          let inner ← buildChain o (g :: r) v
          fieldSet o (.named n) (.sub d a hd ha) inner) = .ok t → ∃ x hd', t = .sub (dset d n x) a hd' ha := by
        intro hb
        cases hi : buildChain o (g :: r) v with
        | ok inner =>
          rw [hi] at hb
          simp only [Outcome.bind_ok, fieldSet, Outcome.ok.injEq] at hb
          exact ⟨inner, true, hb.symm⟩
        | err e => rw [hi] at hb; simp at hb
        | panic s => rw [hi] at hb; simp at hb
        | fuel => rw [hi] at hb; simp at hb
      simp only [pathSet] at h
      cases hg : fieldGet tcPlain (.named n) (.sub d a hd ha) with
      | err e =>
        rw [hg] at h
        simp only at h
        by_cases hm : e.reason = Reason.missing
        · simp only [hm, if_true] at h; exact build h
        · simp [hm] at h
      | panic s => rw [hg] at h; simp at h
      | fuel => rw [hg] at h; simp at h
      | ok co =>
        rw [hg] at h
        cases co with
        | none => simp only at h; exact build h
        | some c =>
          simp only at h
          by_cases hn : c.isNilPrim = true
          · simp only [hn, if_true] at h; exact build h
          · simp only [hn, Bool.false_eq_true, if_false] at h
            cases hc : pathSet tcPlain o (g :: r) c v with
            | ok c' =>
              rw [hc] at h
              simp only [Outcome.bind_ok, putChild, Outcome.ok.injEq] at h
              exact ⟨c', hd, h.symm⟩
            | err e => rw [hc] at h; simp at h
            | panic s => rw [hc] at h; simp at h
            | fuel => rw [hc] at h; simp at h
  obtain ⟨x, hd', rfl⟩ := shape
  constructor
  · intro n' hne
    simp [fieldGet, tcPlain, Val.dict, dget_dset_other _ _ _ _ hne]
  · intro j
    rfl

/-- ... so a read through any path that starts with another name, or with an index, returns what it returned before -/
theorem pathGet_after_set_elsewhere (o : Opts) (n : String) (p : List Field) (d : Dict) (a : List Val) (hd ha : Bool)
    (v t : Val) (h : pathSet tcPlain o (.named n :: p) (.sub d a hd ha) v = .ok t) (f' : Field) (q : List Field)
    (hf : ∀ n', f' = .named n' → n ≠ n') :
    pathGet tcPlain (f' :: q) t = pathGet tcPlain (f' :: q) (.sub d a hd ha) := by
  obtain ⟨h1, h2⟩ := pathSet_named_frame o n p d a hd ha v t h
  have hfg : fieldGet tcPlain f' t = fieldGet tcPlain f' (.sub d a hd ha) := by
    cases f' with
    | named n' => exact h1 n' (hf n' rfl)
    | idx j => exact h2 j
  cases q with
  | nil => simp only [pathGet, hfg]
  | cons g r => simp only [pathGet, hfg]


/-! non-vacuity -/
example : (fieldSet {} (.named "a") Val.empty (.prim (.int 1))).isOk = true := by decide
example : (adel [Val.nilV, Val.nilV] 0).2 = true := by decide
example : (pathSet tcPlain {} [.named "a", .idx 2, .named "b"] Val.empty (.prim (.int 7))).isOk = true := by decide

end Ucfg.C12
