import Ucfg.Lemmas.Dict
import Ucfg.Model.Ops
/-
  C12 — path-addressed reads, writes and removals behave like a tree.
-/
namespace Ucfg.C12
open Ucfg

/-- a value written under a name is read back unchanged from that name -/
theorem get_set_named_same (o : Opts) (d : Dict) (a : List Val) (hd ha : Bool) (n : String) (v t : Val)
    (h : fieldSet o (.named n) (.sub d a hd ha) v = .ok t) :
    fieldGet tcPlain (.named n) t = .ok (some v) := by
  simp [fieldSet] at h
  subst h
  simp [fieldGet, tcPlain, Val.dict, dget_dset_same]

/-- … and a write under one name does not change what another name reads -/
theorem get_set_named_other (o : Opts) (d : Dict) (a : List Val) (hd ha : Bool) (n n' : String) (v t : Val)
    (hne : n ≠ n') (h : fieldSet o (.named n) (.sub d a hd ha) v = .ok t) :
    fieldGet tcPlain (.named n') t = fieldGet tcPlain (.named n') (.sub d a hd ha) := by
  simp [fieldSet] at h
  subst h
  simp [fieldGet, tcPlain, Val.dict, dget_dset_other _ _ _ _ hne]

/-- a named write leaves the list part alone, an indexed write leaves the dictionary alone -/
theorem set_named_keeps_list (o : Opts) (d : Dict) (a : List Val) (hd ha : Bool) (n : String) (v t : Val)
    (h : fieldSet o (.named n) (.sub d a hd ha) v = .ok t) : t.arr = a := by
  simp [fieldSet] at h; subst h; rfl

theorem asetNat_get_same (a : List Val) (n : Nat) (v : Val) : (asetNat a n v)[n]? = some v := by
  induction a generalizing n with
  | nil =>
    induction n with
    | zero => simp [asetNat]
    | succ k ih => simp [asetNat, ih]
  | cons x r ih =>
    cases n with
    | zero => simp [asetNat]
    | succ k => simp [asetNat, ih]

/-- writing past the end pads with nil values, and earlier slots keep their content -/
theorem asetNat_get_other (a : List Val) (n m : Nat) (v : Val) (hne : m ≠ n) :
    (asetNat a n v)[m]? = if m < a.length then a[m]? else if m < n then some Val.nilV else none := by
  induction a generalizing n m with
  | nil =>
    induction n generalizing m with
    | zero =>
      cases m with
      | zero => exact absurd rfl hne
      | succ j => simp [asetNat]
    | succ k ih =>
      cases m with
      | zero => simp [asetNat]
      | succ j =>
        have : j ≠ k := fun e => hne (by rw [e])
        simp only [asetNat, List.getElem?_cons_succ, ih j this]
        simp
  | cons x r ih =>
    cases n with
    | zero =>
      cases m with
      | zero => exact absurd rfl hne
      | succ j => simp [asetNat]
    | succ k =>
      cases m with
      | zero => simp [asetNat]
      | succ j =>
        have : j ≠ k := fun e => hne (by rw [e])
        simp only [asetNat, List.getElem?_cons_succ, ih k j this, List.length_cons]
        simp

/-- removing element i from a list shifts the later elements down by one -/
theorem remove_shifts (a : List Val) (i : Nat) (j : Nat) (hi : i < a.length) :
    ((adel a i).1)[j]? = if j < i then a[j]? else a[j + 1]? := by
  have hg : Extracted.guard_delAt_reject (i : Int) (a.length : Int) = false := by
    simp [Extracted.guard_delAt_reject]; omega
  simp only [adel, hg, Bool.false_eq_true, if_false, Int.toNat_natCast]
  rw [List.getElem?_eraseIdx]

/-- a handle on element j keeps addressing its node when an element in front of it is removed: the node is found one
index lower (this is the renumbering `opStep` applies to the handles of a history) -/
theorem shifted_handle_same_node (a : List Val) (i j : Nat) (hi : i < a.length) (hj : i < j) :
    ((adel a i).1)[j - 1]? = a[j]? := by
  rw [remove_shifts a i (j - 1) hi]
  have h1 : ¬ (j - 1 < i) := by omega
  have h2 : j - 1 + 1 = j := by omega
  simp [h1, h2]

/-- ... and a handle on an element in front of the removed one is not affected at all -/
theorem earlier_handle_same_node (a : List Val) (i j : Nat) (hi : i < a.length) (hj : j < i) :
    ((adel a i).1)[j]? = a[j]? := by
  rw [remove_shifts a i j hi]
  simp [hj]

/-- … and reports that something was removed exactly when the index was inside the list -/
theorem remove_flag (a : List Val) (i : Int) : (adel a i).2 = true ↔ (0 ≤ i ∧ i < a.length) := by
  unfold adel
  by_cases hg : Extracted.guard_delAt_reject i a.length = true
  · simp only [hg, if_true]
    simp [Extracted.guard_delAt_reject] at hg
    constructor
    · intro h; cases h
    · intro h; omega
  · simp only [hg, Bool.false_eq_true, if_false]
    simp [Extracted.guard_delAt_reject] at hg
    constructor
    · intro _; omega
    · intro _; trivial

/-- Has agrees with GetValue at a single field -/
theorem has_iff_get (f : Field) (c : Val) :
    pathHas tcPlain [f] c = (match fieldGet tcPlain f c with
      | .ok (some _) => .ok true
      | .ok none => .ok false
      | .err e => if e.reason = .missing then .ok false else .err e
      | .panic s => .panic s
      | .fuel => .fuel) := by
  simp only [pathHas]
  cases fieldGet tcPlain f c with
  | ok v => cases v <;> rfl
  | err e => rfl
  | panic s => rfl
  | fuel => rfl

/-! non-vacuity -/
example : (fieldSet {} (.named "a") Val.empty (.prim (.int 1))).isOk = true := by decide
example : (adel [Val.nilV, Val.nilV] 0).2 = true := by decide

end Ucfg.C12
