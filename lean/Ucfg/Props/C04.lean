import Ucfg.Model.Unpack
import Ucfg.Lemmas.UnpackValid
/-
  C04 — a successful Unpack returns only values that satisfy every declared validator.

  `recValidate` (Model/Unpack.lean) is tryRecursiveValidate: every validator of every field
  reachable in a finished value.  It doubles as the oracle applied to the implementation's
  populated target.  Proved here, for every type, value, option set and fuel: each place where
  the unpacker *produces or keeps* a value runs the validators declared for it — primitives,
  absent settings (defaults), whole lists and maps, inline fields — and a value that passed them
  where the code checks (on the pointee) also passes where the result is inspected (on the
  pointer).  These local facts are composed into one statement about `unpack` twice: `unpack_flat_valid` (structs of
  primitive fields) and, by one induction over the fuel carrying a claim for each function of the model,
  `unpack_plain_valid` / `unpack_plain_list_valid` / `unpack_plain_map_valid` (structs, pointers, slices, arrays and maps nested to any
  depth, maps included).  PARTIAL: interface{}, inline fields, regexp and Config targets are outside the universe of the
  lifted theorem; for them the correspondence check applies `recValidate` to every successful result instead.
-/
namespace Ucfg.C04
open Ucfg Outcome

/-- a primitive that is stored has passed the field's validators -/
theorem primitive_validated (std : Stdlib) (fo : FOpts) (k : Kind) (v : Val) (s : Scalar)
    (hv : v.isNilPrim = false)
    (h : reifyPrimitiveT std fo (.prim k) v = .ok (.scalar s)) :
    runValidators std fo.validators (.scalar s) = none := by
  unfold reifyPrimitiveT at h
  simp only [hv, Bool.false_eq_true, if_false] at h
  cases v with
  | prim p =>
    simp only at h
    cases hp : reifyPrim std k p with
    | ok s' =>
      rw [hp] at h
      simp only at h
      cases hr : runValidators std fo.validators (.scalar s') with
      | none => rw [hr] at h; simp only at h; cases h; exact hr
      | some e => rw [hr] at h; simp [raiseValidation] at h
    | err e => rw [hp] at h; simp at h
    | panic m => rw [hp] at h; simp at h
    | fuel => rw [hp] at h; simp at h
  | dyn i e => simp at h
  | sub d a hd ha => simp at h

/-- a whole list (slice or array) that is returned has passed the field's validators -/
theorem list_validated (std : Stdlib) (fo : FOpts) (v r : GoVal) (h : finishArray std fo v = .ok r) :
    r = v ∧ runValidators std fo.validators r = none := by
  unfold finishArray at h
  simp only [] at h
  cases hr : runValidators std fo.validators v with
  | none => simp only [hr] at h; cases h; exact ⟨rfl, hr⟩
  | some e => simp [hr, raiseValidation] at h

/-- validators look at pointers the way validator.go does: required / positive / min / max do not
look through pointers, so a non-nil pointer passes them whatever it points to (the unpacker has
run them on the pointee, which is the stricter check) -/
theorem pointer_passes_shallow_validators (std : Stdlib) (t : VTag) (x : GoVal)
    (hnz : (t.name == "nonzero") = false) : runValidator std t (.ptr (some x)) = none := by
  unfold runValidator
  simp only [hnz, Bool.false_eq_true, if_false]
  by_cases h2 : (t.name == "positive") = true
  · simp [h2, validatePositive]
  · by_cases h3 : (t.name == "min") = true
    · simp [h2, h3, validateBound]
    · by_cases h4 : (t.name == "max") = true
      · simp [h2, h3, h4, validateBound]
      · by_cases h5 : (t.name == "required") = true
        · simp [h2, h3, h4, h5, validateRequired, GoVal.isNilIface, isZeroNum, validateNonEmpty]
        · simp [h2, h3, h4, h5]

/-- **The open finding D55, as the model has it**: a pre-filled pointer to a number passes `min` whatever the number is -
validation hands the validators the pointer, and `min` / `max` / `positive` look at the kind of what they are handed. (What the
configuration sets is validated as the value itself; `unpack_plain_valid` below is about `recValidate`, i.e. about validation as
validator.go does it, which is weaker than the statement of C04 at exactly this point.) -/
theorem prefilled_pointer_passes_min_D55 (std : Stdlib) (o : Opts) (param : String) (i : Int) :
    recValidate std o (.ptr (.prim (.int 64))) [⟨"min", param⟩] (.ptr (some (.scalar (.int i)))) = none := by
  unfold recValidate
  simp [runValidators, List.findSome?, runValidator, validateBound]
  unfold recValidate
  simp [runValidators]

/-- nonzero follows pointers: a pointer to a number is checked like the number -/
theorem nonzero_follows_pointer_int (i : Int) :
    validateNonZero (.ptr (some (.scalar (.int i)))) = validateNonZero (.scalar (.int i)) := by
  simp [validateNonZero, GoVal.isNilIface, GoVal.chase, isZeroNum]

/-- A setting that is absent from the configuration leaves a primitive field as it is — and the
value it keeps (a pre-filled default or the zero value) is validated. -/
theorem absent_field_validated (std : Stdlib) (n : Nat) (fo : FOpts) (k : Kind) (x r : GoVal) (cfg : Val) (name : String)
    (habs : pathGet tcPlain (parsePathOpts name fo.opts) cfg = .ok none)
    (h : getField' std (n + 1) fo (.prim k) x cfg name = .ok r) :
    r = x ∧ recValidate std fo.opts (.prim k) fo.validators x = none := by
  unfold getField' at h
  simp only [habs, Val.isNilOpt, if_true] at h
  cases hr : recValidate std fo.opts (.prim k) fo.validators x with
  | none => simp only [hr] at h; cases h; exact ⟨rfl, rfl⟩
  | some e => simp [hr, raiseValidation] at h

/-- an unknown validator name in a tag is an error, never ignored -/
theorem unknown_validator_rejected (o : Opts) (g tag : String)
    (hex : exported g = true) (hig : (parseTags tag).2.ignore = false) :
    (accessField o g tag "nosuchvalidator").isErr = true := by
  unfold accessField
  simp only [hex, Bool.not_true, Bool.false_eq_true, if_false]
  have : parseValidatorTags "nosuchvalidator" = none := by decide
  simp [hig, this, isErr]

/-- the validator names the model knows are the ones validator.go registers at init (regenerated from the source on every
run: registering another built-in validator, or renaming one, breaks this) -/
theorem validators_are_the_registered_ones : knownValidators = Extracted.validatorNames := rfl

/-! non-vacuity -/
example : runValidator default ⟨"min", "3"⟩ (.scalar (.int 1)) = some .bound := by decide
example : runValidator default ⟨"min", "3"⟩ (.scalar (.int 5)) = none := by decide
example : runValidator default ⟨"required", ""⟩ (.ptr none) = some .required := by decide

end Ucfg.C04

namespace Ucfg.C04
open Ucfg

/-! ### the lifted statement for structs of primitive fields

For a target struct all of whose fields are of primitive kinds (any tags, any validators, any pre-filled values),
a successful field loop returns a struct on which the recursive validation used by Unpack itself
(`recValidateFields`, i.e. tryRecursiveValidate) reports nothing. The proof goes through every branch a primitive
field can take: skipped, absent from the configuration (validated as it is), present (converted, then validated). -/

/-- a primitive slot is filled by reifyPrimitive whatever it held -/
theorem mergeValue_prim (std : Stdlib) (n : Nat) (fo : FOpts) (k : Kind) (old : GoVal) (v : Val) :
    mergeValue std (n+1) fo (.prim k) old v = reifyPrimitiveT std fo (.prim k) v := by
  unfold mergeValue
  cases old <;> rfl

/-- validating a value of primitive type looks at the field's validators only -/
theorem recValidate_prim (std : Stdlib) (o : Opts) (k : Kind) (vs : List VTag) (x : GoVal) :
    recValidate std o (.prim k) vs x = runValidators std vs x := by
  unfold recValidate
  cases h : runValidators std vs x with
  | some e => rfl
  | none => cases x <;> rfl

/-- what reifyPrimitive returns for a primitive kind passes the field's validators (nil settings give the zero value
and are the one exception the Go code makes: "zero initialize value if val==nil") -/
theorem reifyPrimitiveT_prim_validated (std : Stdlib) (fo : FOpts) (k : Kind) (v : Val) (r : GoVal)
    (hv : v.isNilPrim = false) (h : reifyPrimitiveT std fo (.prim k) v = .ok r) :
    runValidators std fo.validators r = none := by
  have hs : ∃ s, r = .scalar s := by
    unfold reifyPrimitiveT at h
    simp only [hv, Bool.false_eq_true, if_false] at h
    cases v with
    | prim p =>
      simp only at h
      cases hp : reifyPrim std k p with
      | ok s' =>
        rw [hp] at h
        simp only at h
        cases hr : runValidators std fo.validators (.scalar s') with
        | none => rw [hr] at h; simp only at h; cases h; exact ⟨s', rfl⟩
        | some e => rw [hr] at h; simp [raiseValidation] at h
      | err e => rw [hp] at h; simp at h
      | panic m => rw [hp] at h; simp at h
      | fuel => rw [hp] at h; simp at h
    | dyn i e => simp at h
    | sub d a hd ha => simp at h
  obtain ⟨s, rfl⟩ := hs
  exact primitive_validated std fo k v s hv h

/-- reifyGetField for a field of primitive kind: whatever comes back (the untouched pre-filled value when the setting is
absent, the converted setting otherwise) passes the field's validators -/
theorem getField_prim_validated (std : Stdlib) (n : Nat) (fo : FOpts) (k : Kind) (x : GoVal) (cfg : Val) (name : String)
    (r : GoVal) (h : getField' std n fo (.prim k) x cfg name = .ok r) :
    runValidators std fo.validators r = none := by
  cases n with
  | zero => simp [getField'] at h
  | succ m =>
    -- everything after the lookup, for whatever the lookup produced
    have core : ∀ vo : Option Val,
        (if Val.isNilOpt vo = true then
            (match recValidate std fo.opts (.prim k) fo.validators x with
             | some e => raiseValidation e
             | none => (.ok x : Outcome GoVal))
          else
            match vo with
            | some v => (do
                let nx ← mergeValue std m fo (.prim k) x v
                match (Ty.prim k), nx with
                | .iface, .iface none => .ok x
                | _, nx => .ok nx)
            | none => .ok x) = .ok r → runValidators std fo.validators r = none := by
      intro vo hcore
      by_cases hnil : Val.isNilOpt vo = true
      · simp only [hnil, if_true] at hcore
        rw [recValidate_prim] at hcore
        cases hr : runValidators std fo.validators x with
        | some e => rw [hr] at hcore; simp [raiseValidation] at hcore
        | none => rw [hr] at hcore; simp only at hcore; cases hcore; exact hr
      · have hnil' : Val.isNilOpt vo = false := by simpa using hnil
        simp only [hnil', Bool.false_eq_true, if_false] at hcore
        cases vo with
        | none => simp [Val.isNilOpt] at hnil'
        | some v =>
          have hv : v.isNilPrim = false := by simpa [Val.isNilOpt] using hnil'
          simp only at hcore
          cases m with
          | zero => simp [mergeValue, Outcome.bind] at hcore
          | succ m' =>
            rw [mergeValue_prim] at hcore
            cases hp : reifyPrimitiveT std fo (.prim k) v with
            | ok nx =>
              rw [hp] at hcore
              simp only [Outcome.bind_ok] at hcore
              have hval := reifyPrimitiveT_prim_validated std fo k v nx hv hp
              cases nx <;> simp at hcore <;> (subst hcore; exact hval)
            | err e => rw [hp] at hcore; simp [Outcome.bind] at hcore
            | panic s => rw [hp] at hcore; simp [Outcome.bind] at hcore
            | fuel => rw [hp] at hcore; simp [Outcome.bind] at hcore
    unfold getField' at h
    simp only at h
    cases hpg : pathGet tcPlain (parsePathOpts name fo.opts) cfg with
    | ok vo => rw [hpg] at h; simp only at h; exact core vo h
    | err e =>
      rw [hpg] at h
      simp only at h
      by_cases hm : e.reason = Reason.missing
      · simp only [hm, if_true] at h; exact core none h
      · simp [hm] at h
    | panic s => rw [hpg] at h; simp at h
    | fuel => rw [hpg] at h; simp at h

/-- every field of the struct type is of a primitive kind -/
def FlatPrim (fs : List (String × String × String × Ty)) : Prop := ∀ f ∈ fs, ∃ k, f.2.2.2 = Ty.prim k

/-- C04 for structs of primitive fields: a field loop that succeeds returns values on which the recursive validation
reports nothing - for every list of fields, tags and validators, every pre-filled struct and every configuration -/
theorem flat_struct_valid (std : Stdlib) (o : Opts) :
    ∀ (fs : List (String × String × String × Ty)) (n : Nat) (xs xs' : List GoVal) (cfg : Val),
      FlatPrim fs → reifyStructT std n o fs xs cfg = .ok xs' → recValidateFields std o fs xs' = none := by
  intro fs
  induction fs with
  | nil =>
    intro n xs xs' cfg _ h
    cases xs' <;> simp [recValidateFields]
  | cons f fr ih =>
    intro n xs xs' cfg hflat h
    obtain ⟨g, tag, vtag, t⟩ := f
    obtain ⟨k, hk⟩ := hflat (g, tag, vtag, t) (by simp)
    simp only at hk
    subst hk
    have hflat' : FlatPrim fr := fun f hf => hflat f (List.mem_cons_of_mem _ hf)
    cases n with
    | zero => simp [reifyStructT] at h
    | succ m =>
      cases xs with
      | nil =>
        simp only [reifyStructT] at h
        cases h
        simp [recValidateFields]
      | cons x xr =>
        unfold reifyStructT at h
        simp only [bind, Outcome.bind] at h
        cases ha : accessField o g tag vtag with
        | err e => rw [ha] at h; simp at h
        | panic s => rw [ha] at h; simp at h
        | fuel => rw [ha] at h; simp at h
        | ok fio =>
          rw [ha] at h
          simp only at h
          cases fio with
          | none =>
            simp only at h
            cases hr : reifyStructT std m o fr xr cfg with
            | ok rest =>
              rw [hr] at h
              simp only [Outcome.ok.injEq] at h
              subst h
              simp only [recValidateFields, ha]
              exact ih m xr rest cfg hflat' hr
            | err e => rw [hr] at h; simp at h
            | panic s => rw [hr] at h; simp at h
            | fuel => rw [hr] at h; simp at h
          | some fi =>
            simp only at h
            by_cases hsq : fi.tag.squash = true
            · -- ',inline' on a primitive field is an error
              simp only [hsq, if_true] at h
              have hseq : (Outcome.ok () *> (Outcome.raise Reason.typeMismatch : Outcome GoVal)) =
                  Outcome.raise Reason.typeMismatch := rfl
              rw [hseq] at h
              simp [Outcome.raise] at h
            · have hsq' : fi.tag.squash = false := by simpa using hsq
              simp only [hsq', Bool.false_eq_true, if_false] at h
              cases hg : getField' std m { opts := { o with handling := fi.handling }, handling := fi.tag.handling, validators := fi.validators }
                  (.prim k) x cfg fi.name with
              | ok x' =>
                rw [hg] at h
                simp only at h
                have hval := getField_prim_validated std m _ k x cfg fi.name x' hg
                cases hr : reifyStructT std m o fr xr cfg with
                | ok rest =>
                  rw [hr] at h
                  simp only [Outcome.ok.injEq] at h
                  subst h
                  simp only [recValidateFields, ha, recValidate_prim]
                  simp only at hval
                  rw [hval]
                  exact ih m xr rest cfg hflat' hr
                | err e => rw [hr] at h; simp at h
                | panic s => rw [hr] at h; simp at h
                | fuel => rw [hr] at h; simp at h
              | err e => rw [hg] at h; simp at h
              | panic s => rw [hg] at h; simp at h
              | fuel => rw [hg] at h; simp at h

/-- the same at the API: `cfg.Unpack(&target)` for a struct of primitive fields -/
theorem unpack_flat_valid (std : Stdlib) (o : Opts) (fs : List (String × String × String × Ty)) (xs : List GoVal)
    (cfg : Val) (v : GoVal) (hflat : FlatPrim fs) (h : unpack std o (.strct fs) (.strct xs) cfg = .ok v) :
    recValidate std o (.strct fs) [] v = none := by
  unfold unpack at h
  simp only [bind, Outcome.bind] at h
  cases hr : reifyStructT std unpackFuel o fs xs cfg with
  | ok xs' =>
    rw [hr] at h
    simp only [Outcome.ok.injEq] at h
    subst h
    unfold recValidate
    simp only [runValidators, List.findSome?_nil]
    exact flat_struct_valid std o fs unpackFuel xs xs' cfg hflat hr
  | err e => rw [hr] at h; simp at h
  | panic s => rw [hr] at h; simp at h
  | fuel => rw [hr] at h; simp at h

/-- non-vacuity: a two-field struct, one field with a validator -/
example : FlatPrim [("A", "", "min=1", Ty.prim (.int 64)), ("B", "name", "", Ty.prim .string)] := by
  intro f hf
  simp at hf
  rcases hf with rfl | rfl
  · exact ⟨.int 64, rfl⟩
  · exact ⟨.string, rfl⟩

end Ucfg.C04

/-! ### the nested lift

The same statement for target types nested to any depth: structs (without inline fields) of primitives, pointers, slices,
fixed-size arrays, maps and further structs.  One induction over the fuel carries eight claims, one per function of the
model (`mergeValue`, `reifyValue`, `reifyStructT`, `getField'`, `sliceMerge`, `doArray`, `reifyMapT`, `mapEntries`); each
step uses only the claims one level below.  Map values are sorted association lists: `mapEntries` keeps them sorted
(`gmapSet_sorted`) and every entry of its result is either an entry the configuration does not mention (validated
explicitly afterwards) or a value the unpacker produced.  The attempt to prove the claim for `reifyValue` at array types is what exposed defect D43 (a null setting
creating a fixed-size array returned the zero array unvalidated); the model now follows the repaired code. -/
namespace Ucfg.C04
open Ucfg Outcome

/-- what a step of the unpacker returns for a slot of type `ty` from setting `v`: valid recursively (under any options),
and - unless the setting is null, which stands for "zero value" - passing the validators declared for the slot -/
def Good (std : Stdlib) (fo : FOpts) (ty : Ty) (v : Val) (r : GoVal) : Prop :=
  fits ty r = true ∧ (∀ ov, recValidate std ov ty [] r = none) ∧
  ((v.isNilPrim = false ∨ ty.isStrct = true) → runValidators std fo.validators r = none)

/-- a value that has to be created (`reifyValue`): the same, except that a fresh map is built without the slot's
validators (reifyValue passes none to reifyMap; a pointer to it passes them whatever the map holds) -/
def GoodR (std : Stdlib) (fo : FOpts) (ty : Ty) (v : Val) (r : GoVal) : Prop :=
  fits ty r = true ∧ (∀ ov, recValidate std ov ty [] r = none) ∧
  ((v.isNilPrim = false ∨ ty.isStrct = true) → ty.isMap = false → runValidators std fo.validators r = none)

structure Claims (std : Stdlib) (n : Nat) : Prop where
  merge : ∀ (fo : FOpts) (ty : Ty) (old : GoVal) (v : Val) (r : GoVal), ty.plain = true → fits ty old = true →
    mergeValue std n fo ty old v = .ok r → Good std fo ty v r
  reify : ∀ (fo : FOpts) (ty : Ty) (v : Val) (r : GoVal), ty.plain = true →
    reifyValue std n fo ty v = .ok r → GoodR std fo ty v r
  strct : ∀ (o : Opts) (fs : List (String × String × String × Ty)) (xs : List GoVal) (cfg : Val) (xs' : List GoVal),
    plainFields fs = true → fitsFields fs xs = true →
    reifyStructT std n o fs xs cfg = .ok xs' → fitsFields fs xs' = true ∧ ∀ ov, recValidateFields std ov fs xs' = none
  getf : ∀ (fo : FOpts) (t : Ty) (x : GoVal) (cfg : Val) (name : String) (r : GoVal), t.plain = true → fits t x = true →
    getField' std n fo t x cfg name = .ok r → fits t r = true ∧ ∀ ov, recValidate std ov t fo.validators r = none
  slice : ∀ (fo : FOpts) (t : Ty) (old : Option (List GoVal)) (v : Val) (r : GoVal), t.plain = true →
    (∀ l, old = some l → fitsAll t l = true) → sliceMerge std n fo t old v = .ok r →
    fits (.slice t) r = true ∧ (∀ ov, recValidate std ov (.slice t) [] r = none) ∧ runValidators std fo.validators r = none
  arr : ∀ (fo : FOpts) (t : Ty) (start : Nat) (xs : List GoVal) (vs : List Val) (xs' : List GoVal), t.plain = true →
    fitsAll t xs = true → doArray std n fo t start xs vs = .ok xs' →
    fitsAll t xs' = true ∧ ∀ ov, recValidateList std ov t xs' = none
  mapc : ∀ (o : Opts) (vs : List VTag) (t : Ty) (m0 : Option (List (String × GoVal))) (sub : Val) (r : GoVal), t.plain = true →
    (∀ m, m0 = some m → fitsVals t m = true ∧ keysSorted m = true) → reifyMapT std n o vs t m0 sub = .ok r →
    fits (.map t) r = true ∧ (∀ ov, recValidate std ov (.map t) [] r = none) ∧ runValidators std vs r = none
  ents : ∀ (o : Opts) (t : Ty) (m : List (String × GoVal)) (d : List (String × Val)) (m' : List (String × GoVal)),
    t.plain = true → fitsVals t m = true → keysSorted m = true → mapEntries std n o t m d = .ok m' →
    fitsVals t m' = true ∧ keysSorted m' = true ∧
    ∀ e ∈ m', (e ∈ m ∧ d.any (fun kv => kv.1 == e.1) = false) ∨ (∀ ov, recValidate std ov t [] e.2 = none)

/-- a plain type is not interface{}: the "invalid reflect.Value" escape does not apply -/
theorem keep_of_plain (t : Ty) (x nx : GoVal) : t.plain = true →
    (match t, nx with
     | .iface, .iface none => x
     | _, nx => nx) = nx := by
  intro ht
  cases t <;> first | rfl | simp [Ty.plain] at ht

theorem arr_step (std : Stdlib) (n : Nat) (IH : Claims std n) :
    ∀ (fo : FOpts) (t : Ty) (start : Nat) (xs : List GoVal) (vs : List Val) (xs' : List GoVal), t.plain = true →
    fitsAll t xs = true → doArray std (n+1) fo t start xs vs = .ok xs' →
    fitsAll t xs' = true ∧ ∀ ov, recValidateList std ov t xs' = none := by
  intro fo t start xs vs xs' ht hfit h
  cases xs with
  | nil =>
    simp only [doArray] at h
    cases h
    exact ⟨by simp [fitsAll], fun ov => recValidateList_nil std ov t⟩
  | cons x xr =>
    simp only [fitsAll, Bool.and_eq_true] at hfit
    -- an element that is kept: validated as it is
    have kept : ∀ (st : Nat) (arr : List Val),
        (match recValidate std fo.opts t [] x with
         | some e => raiseValidation e
         | none => do
           let rest ← doArray std n fo t st xr arr
           (.ok (x :: rest) : Outcome (List GoVal))) = .ok xs' →
        fitsAll t xs' = true ∧ ∀ ov, recValidateList std ov t xs' = none := by
      intro st arr hk
      cases hc : recValidate std fo.opts t [] x with
      | some e => rw [hc] at hk; exact absurd hk (raiseValidation_ne_ok e xs')
      | none =>
        rw [hc] at hk
        simp only at hk
        obtain ⟨rest, hrest, hr⟩ := bind_eq_ok hk
        simp only [Outcome.ok.injEq] at hr
        subst hr
        obtain ⟨hf, hv⟩ := IH.arr fo t st xr arr rest ht hfit.2 hrest
        refine ⟨by simp [fitsAll, hfit.1, hf], fun ov => ?_⟩
        rw [recValidateList_cons]
        exact ⟨by rw [recValidate_opts std ov fo.opts]; exact hc, hv ov⟩
    cases start with
    | succ st =>
      simp only [doArray] at h
      exact kept st vs h
    | zero =>
      cases vs with
      | nil =>
        simp only [doArray] at h
        exact kept 0 [] h
      | cons v vr =>
        simp only [doArray] at h
        obtain ⟨nx, hnx, h2⟩ := bind_eq_ok h
        obtain ⟨rest, hrest, hr⟩ := bind_eq_ok h2
        have hg := IH.merge fo t x v nx ht hfit.1 hnx
        obtain ⟨hf, hv⟩ := IH.arr fo t 0 xr vr rest ht hfit.2 hrest
        split at hr
        · simp [Ty.plain] at ht
        · simp only [Outcome.ok.injEq] at hr
          subst hr
          refine ⟨by simp [fitsAll, hg.1, hf], fun ov => ?_⟩
          rw [recValidateList_cons]
          exact ⟨hg.2.1 ov, hv ov⟩

theorem slice_step (std : Stdlib) (n : Nat) (IH : Claims std n) :
    ∀ (fo : FOpts) (t : Ty) (old : Option (List GoVal)) (v : Val) (r : GoVal), t.plain = true →
    (∀ l, old = some l → fitsAll t l = true) → sliceMerge std (n+1) fo t old v = .ok r →
    fits (.slice t) r = true ∧ (∀ ov, recValidate std ov (.slice t) [] r = none) ∧
      runValidators std fo.validators r = none := by
  intro fo t old v r ht hold h
  have hz : fits t (zeroOf t) = true := fits_zeroOf t ht
  -- both branches end in: doArray over a well-shaped list, then the validators of the whole list
  have fin : ∀ (start : Nat) (tmp : List GoVal), fitsAll t tmp = true →
      (do let xs ← doArray std n fo t start tmp (castArr v); finishArray std fo (.slice (some xs))) = .ok r →
      fits (.slice t) r = true ∧ (∀ ov, recValidate std ov (.slice t) [] r = none) ∧
        runValidators std fo.validators r = none := by
    intro start tmp htmp hh
    obtain ⟨xs, hxs, hf⟩ := bind_eq_ok hh
    obtain ⟨hr, hv⟩ := list_validated std fo _ r hf
    subst hr
    obtain ⟨hfx, hvx⟩ := IH.arr fo t start tmp (castArr v) xs ht htmp hxs
    refine ⟨by simpa [fits] using hfx, fun ov => ?_, hv⟩
    rw [recValidate_slice]
    exact hvx ov
  cases old with
  | none =>
    simp only [sliceMerge] at h
    exact fin 0 _ (fitsAll_replicate t _ hz _) h
  | some ol =>
    have hol : fitsAll t ol = true := hold ol rfl
    simp only [sliceMerge] at h
    refine fin _ _ ?_ h
    rw [fitsAll_all]
    intro x hx
    simp only [List.mem_append, List.mem_replicate] at hx
    rcases hx with ⟨_, rfl⟩ | hx | ⟨_, rfl⟩
    · exact hz
    · exact (fitsAll_all t ol).mp hol x (List.mem_of_mem_take hx)
    · exact hz

theorem getf_step (std : Stdlib) (n : Nat) (IH : Claims std n) :
    ∀ (fo : FOpts) (t : Ty) (x : GoVal) (cfg : Val) (name : String) (r : GoVal), t.plain = true → fits t x = true →
    getField' std (n+1) fo t x cfg name = .ok r →
    fits t r = true ∧ ∀ ov, recValidate std ov t fo.validators r = none := by
  intro fo t x cfg name r ht hfit h
  -- everything after the lookup, for whatever the lookup produced
  have core : ∀ vo : Option Val,
      (if Val.isNilOpt vo = true then
          (match t with
           | .strct _ => mergeValue std n fo t x Val.nilV
           | _ =>
             (match recValidate std fo.opts t fo.validators x with
              | some e => raiseValidation e
              | none => (.ok x : Outcome GoVal)))
        else
          match vo with
          | some v => (do
              let nx ← mergeValue std n fo t x v
              match t, nx with
              | .iface, .iface none => .ok x
              | _, nx => .ok nx)
          | none => .ok x) = .ok r → fits t r = true ∧ ∀ ov, recValidate std ov t fo.validators r = none := by
    intro vo hcore
    -- the branch that only validates what is there
    have keep : (match recValidate std fo.opts t fo.validators x with
              | some e => raiseValidation e
              | none => (.ok x : Outcome GoVal)) = .ok r →
        fits t r = true ∧ ∀ ov, recValidate std ov t fo.validators r = none := by
      intro hk
      cases hc : recValidate std fo.opts t fo.validators x with
      | some e => rw [hc] at hk; exact absurd hk (raiseValidation_ne_ok e r)
      | none =>
        rw [hc] at hk
        simp only [Outcome.ok.injEq] at hk
        subst hk
        refine ⟨hfit, fun ov => ?_⟩
        rw [recValidate_opts std ov fo.opts]
        exact hc
    by_cases hnil : Val.isNilOpt vo = true
    · simp only [hnil, if_true] at hcore
      cases t with
      | strct fs =>
        simp only at hcore
        have hg := IH.merge fo (.strct fs) x Val.nilV r ht hfit hcore
        exact ⟨hg.1, fun ov => (recValidate_split std ov _ _ r).mpr ⟨hg.2.2 (Or.inr rfl), hg.2.1 ov⟩⟩
      | prim k => exact keep hcore
      | ptr t' => exact keep hcore
      | slice t' => exact keep hcore
      | array k t' => exact keep hcore
      | map t' => exact keep hcore
      | regexp => simp [Ty.plain] at ht
      | iface => simp [Ty.plain] at ht
      | config => simp [Ty.plain] at ht
      | unsupported => simp [Ty.plain] at ht
      | badmap => simp [Ty.plain] at ht
    · have hnil' : Val.isNilOpt vo = false := by simpa using hnil
      simp only [hnil', Bool.false_eq_true, if_false] at hcore
      cases vo with
      | none => simp [Val.isNilOpt] at hnil'
      | some v =>
        have hv : v.isNilPrim = false := by simpa [Val.isNilOpt] using hnil'
        simp only at hcore
        obtain ⟨nx, hnx, h2⟩ := bind_eq_ok hcore
        have hg := IH.merge fo t x v nx ht hfit hnx
        have hr : r = nx := by
          split at h2
          · simp [Ty.plain] at ht
          · simp only [Outcome.ok.injEq] at h2; exact h2.symm
        subst hr
        exact ⟨hg.1, fun ov => (recValidate_split std ov _ _ r).mpr ⟨hg.2.2 (Or.inl hv), hg.2.1 ov⟩⟩
  unfold getField' at h
  simp only at h
  cases hpg : pathGet tcPlain (parsePathOpts name fo.opts) cfg with
  | ok vo => rw [hpg] at h; simp only at h; exact core vo h
  | err e =>
    rw [hpg] at h
    simp only at h
    by_cases hm : e.reason = Reason.missing
    · simp only [hm, if_true] at h; exact core none h
    · simp [hm] at h
  | panic s => rw [hpg] at h; simp at h
  | fuel => rw [hpg] at h; simp at h

theorem accessField_tag (o : Opts) (g tag vtag : String) (fi : FieldInfo)
    (h : accessField o g tag vtag = .ok (some fi)) : fi.tag = (parseTags tag).2 := by
  unfold accessField at h
  by_cases hx : exported g = true
  · simp only [hx, Bool.not_true, Bool.false_eq_true, if_false] at h
    by_cases hi : (parseTags tag).2.ignore = true
    · simp [hi] at h
    · simp only [hi, Bool.false_eq_true, if_false] at h
      cases hp : parseValidatorTags vtag with
      | none => rw [hp] at h; simp at h
      | some vs =>
        rw [hp] at h
        simp only [Outcome.ok.injEq, Option.some.injEq] at h
        subst h
        rfl
  · simp [hx] at h

theorem strct_step (std : Stdlib) (n : Nat) (IH : Claims std n) :
    ∀ (o : Opts) (fs : List (String × String × String × Ty)) (xs : List GoVal) (cfg : Val) (xs' : List GoVal),
    plainFields fs = true → fitsFields fs xs = true →
    reifyStructT std (n+1) o fs xs cfg = .ok xs' →
    fitsFields fs xs' = true ∧ ∀ ov, recValidateFields std ov fs xs' = none := by
  intro o fs xs cfg xs' hpl hfit h
  cases fs with
  | nil =>
    cases xs with
    | nil =>
      simp only [reifyStructT] at h
      cases h
      exact ⟨by simp [fitsFields], fun ov => by unfold recValidateFields; rfl⟩
    | cons x xr => simp [fitsFields] at hfit
  | cons f fr =>
    obtain ⟨g, tag, vtag, t⟩ := f
    cases xs with
    | nil => simp [fitsFields] at hfit
    | cons x xr =>
      simp only [plainFields, Bool.and_eq_true, Bool.not_eq_true'] at hpl
      simp only [fitsFields, Bool.and_eq_true] at hfit
      obtain ⟨⟨hsq, ht⟩, hplr⟩ := hpl
      unfold reifyStructT at h
      obtain ⟨fio, hacc, h2⟩ := bind_eq_ok h
      cases fio with
      | none =>
        simp only at h2
        obtain ⟨rest, hrest, hr⟩ := bind_eq_ok h2
        simp only [Outcome.ok.injEq] at hr
        subst hr
        obtain ⟨hf, hv⟩ := IH.strct o fr xr cfg rest hplr hfit.2 hrest
        refine ⟨by simp [fitsFields, hfit.1, hf], fun ov => ?_⟩
        unfold recValidateFields
        rw [(accessField_other o ov g tag vtag).1 hacc]
        exact hv ov
      | some fi =>
        simp only at h2
        have htag := accessField_tag o g tag vtag fi hacc
        have hsq' : fi.tag.squash = false := by rw [htag]; exact hsq
        simp only [hsq', Bool.false_eq_true, if_false] at h2
        obtain ⟨x', hx', h3⟩ := bind_eq_ok h2
        obtain ⟨rest, hrest, hr⟩ := bind_eq_ok h3
        simp only [Outcome.ok.injEq] at hr
        subst hr
        obtain ⟨hf, hv⟩ := IH.strct o fr xr cfg rest hplr hfit.2 hrest
        obtain ⟨hfx, hvx⟩ := IH.getf _ t x cfg fi.name x' ht hfit.1 hx'
        refine ⟨by simp [fitsFields, hfx, hf], fun ov => ?_⟩
        obtain ⟨fi', hfi', hvv, _, _⟩ := (accessField_other o ov g tag vtag).2.1 fi hacc
        unfold recValidateFields
        rw [hfi']
        simp only
        have hval := hvx ov
        simp only at hval
        rw [hvv, hval]
        exact hv ov

theorem reifyPrimitiveT_prim_scalar (std : Stdlib) (fo : FOpts) (k : Kind) (v : Val) (r : GoVal)
    (h : reifyPrimitiveT std fo (.prim k) v = .ok r) : ∃ s, r = .scalar s := by
  unfold reifyPrimitiveT at h
  by_cases hv : v.isNilPrim = true
  · simp only [hv, if_true, Outcome.ok.injEq] at h
    subst h
    cases k <;> exact ⟨_, rfl⟩
  · have hv' : v.isNilPrim = false := by simpa using hv
    simp only [hv', Bool.false_eq_true, if_false] at h
    cases v with
    | prim p =>
      simp only at h
      cases hp : reifyPrim std k p with
      | ok s' =>
        rw [hp] at h
        simp only at h
        cases hr : runValidators std fo.validators (.scalar s') with
        | none => rw [hr] at h; simp only at h; cases h; exact ⟨s', rfl⟩
        | some e => rw [hr] at h; simp [raiseValidation] at h
      | err e => rw [hp] at h; simp at h
      | panic m => rw [hp] at h; simp at h
      | fuel => rw [hp] at h; simp at h
    | dyn i e => simp at h
    | sub d a hd ha => simp at h

theorem good_prim (std : Stdlib) (fo : FOpts) (k : Kind) (v : Val) (r : GoVal)
    (h : reifyPrimitiveT std fo (.prim k) v = .ok r) : Good std fo (.prim k) v r := by
  obtain ⟨s, hs⟩ := reifyPrimitiveT_prim_scalar std fo k v r h
  refine ⟨by rw [hs]; rfl, fun ov => recValidate_prim' std ov k r, ?_⟩
  intro hv
  rcases hv with hv | hv
  · exact reifyPrimitiveT_prim_validated std fo k v r hv h
  · simp [Ty.isStrct] at hv

/-- validators look through a pointer only for numbers: a pointer whose chain does not end in a number passes -/
theorem runValidators_ptr_nonnum (std : Stdlib) (vs : List VTag) (x : GoVal) (hx : isZeroNum x.chase = none) :
    runValidators std vs (.ptr (some x)) = none := by
  unfold runValidators
  induction vs with
  | nil => rfl
  | cons t r ih =>
    simp only [List.findSome?]
    have : runValidator std t (.ptr (some x)) = none := by
      unfold runValidator
      split
      · simp [validateNonZero, GoVal.isNilIface, GoVal.chase, hx, validateNonEmpty]
      · split
        · simp [validatePositive]
        · split
          · simp [validateBound]
          · split
            · simp [validateBound]
            · split
              · simp [validateRequired, GoVal.isNilIface, isZeroNum, validateNonEmpty]
              · rfl
    rw [this]
    exact ih

theorem good_ptr (std : Stdlib) (fo : FOpts) (t : Ty) (v : Val) (x : GoVal) (hg : GoodR std fo t v x) :
    Good std fo (.ptr t) v (.ptr (some x)) := by
  refine ⟨by simpa [fits] using hg.1, fun ov => ?_, ?_⟩
  · rw [recValidate_ptr_some]; exact hg.2.1 ov
  · intro hv
    rcases hv with hv | hv
    · by_cases hm : t.isMap = true
      · -- a pointer to a map: nothing to look at through the pointer
        apply runValidators_ptr_nonnum
        have hf := hg.1
        cases t with
        | map t' =>
          cases x with
          | map m => cases m <;> simp [GoVal.chase, isZeroNum]
          | _ => simp [fits] at hf
        | _ => simp [Ty.isMap] at hm
      · exact runValidators_ptr_some std _ x (hg.2.2 (Or.inl hv) (by simpa using hm))
    · simp [Ty.isStrct] at hv

theorem goodR_of_good (std : Stdlib) (fo : FOpts) (t : Ty) (v : Val) (x : GoVal) (hg : Good std fo t v x) :
    GoodR std fo t v x := ⟨hg.1, hg.2.1, fun hv _ => hg.2.2 hv⟩

theorem good_of_goodR (std : Stdlib) (fo : FOpts) (t : Ty) (v : Val) (x : GoVal) (hm : t.isMap = false)
    (hg : GoodR std fo t v x) : Good std fo t v x := ⟨hg.1, hg.2.1, fun hv => hg.2.2 hv hm⟩

theorem reify_step (std : Stdlib) (n : Nat) (IH : Claims std n) :
    ∀ (fo : FOpts) (ty : Ty) (v : Val) (r : GoVal), ty.plain = true →
    reifyValue std (n+1) fo ty v = .ok r → GoodR std fo ty v r := by
  intro fo ty v r ht h
  cases ty with
  | prim k =>
    simp only [reifyValue] at h
    exact goodR_of_good _ _ _ _ _ (good_prim std fo k v r h)
  | ptr t =>
    simp only [Ty.plain] at ht
    simp only [reifyValue] at h
    obtain ⟨x, hx, hr⟩ := bind_eq_ok h
    simp only [Outcome.ok.injEq] at hr
    subst hr
    exact goodR_of_good _ _ _ _ _ (good_ptr std fo t v x (IH.reify fo t v x ht hx))
  | map t =>
    simp only [Ty.plain] at ht
    simp only [reifyValue] at h
    cases hc : toCfg? v with
    | none => rw [hc] at h; exact absurd h (raise_ne_ok _ r)
    | some sub =>
      rw [hc] at h
      simp only at h
      obtain ⟨h0, h1, _⟩ := IH.mapc fo.opts [] t none sub r ht (by intro m hm; cases hm) h
      exact ⟨h0, h1, fun _ hm => by simp [Ty.isMap] at hm⟩
  | strct fs =>
    simp only [Ty.plain] at ht
    simp only [reifyValue] at h
    cases hc : toCfg? v with
    | none => rw [hc] at h; exact absurd h (raise_ne_ok _ r)
    | some sub =>
      rw [hc] at h
      simp only at h
      obtain ⟨xs, hxs, hr⟩ := bind_eq_ok h
      simp only [Outcome.ok.injEq] at hr
      subst hr
      obtain ⟨hf, hv⟩ := IH.strct fo.opts fs (zeroFields fs) sub xs ht (fitsFields_zero fs ht) hxs
      refine ⟨by simpa [fits] using hf, fun ov => ?_, fun _ _ => runValidators_strct std _ xs⟩
      rw [recValidate_strct]
      exact hv ov
  | slice t =>
    simp only [Ty.plain] at ht
    simp only [reifyValue] at h
    obtain ⟨h0, h1, h2⟩ := IH.slice fo t none v r ht (by intro l hl; cases hl) h
    exact ⟨h0, h1, fun _ _ => h2⟩
  | array k t =>
    have ht' : t.plain = true := by simpa [Ty.plain] using ht
    simp only [reifyValue] at h
    by_cases hv : v.isNilPrim = true
    · simp only [hv, if_true] at h
      unfold reifyPrimitiveT at h
      simp only [hv, if_true] at h
      cases hc : recValidate std fo.opts (.array k t) [] (zeroOf (.array k t)) with
      | some e => rw [hc] at h; exact absurd h (raiseValidation_ne_ok e r)
      | none =>
        rw [hc] at h
        simp only [Outcome.ok.injEq] at h
        subst h
        refine ⟨fits_zeroOf _ ht, fun ov => by rw [recValidate_opts std ov fo.opts]; exact hc, ?_⟩
        intro hh _
        rcases hh with hh | hh
        · rw [hv] at hh; cases hh
        · simp [Ty.isStrct] at hh
    · have hv' : v.isNilPrim = false := by simpa using hv
      simp only [hv', Bool.false_eq_true, if_false] at h
      -- a fresh array is filled like an existing one
      by_cases hl : ((castArr v).length != k) = true
      · simp only [hl, if_true] at h
        exact absurd h (raise_ne_ok _ r)
      · simp only [hl, Bool.false_eq_true, if_false] at h
        obtain ⟨xs', hxs, hf⟩ := bind_eq_ok h
        obtain ⟨hr, hvv⟩ := list_validated std fo _ r hf
        subst hr
        obtain ⟨hfx, hvx⟩ := IH.arr fo t 0 _ (castArr v) xs' ht' (fitsAll_replicate t _ (fits_zeroOf t ht') k) hxs
        refine ⟨by simpa [fits] using hfx, fun ov => ?_, fun _ _ => hvv⟩
        rw [recValidate_array]
        exact hvx ov
  | regexp => simp [Ty.plain] at ht
  | iface => simp [Ty.plain] at ht
  | config => simp [Ty.plain] at ht
  | unsupported => simp [Ty.plain] at ht
  | badmap => simp [Ty.plain] at ht

theorem merge_step (std : Stdlib) (n : Nat) (IH : Claims std n) :
    ∀ (fo : FOpts) (ty : Ty) (old : GoVal) (v : Val) (r : GoVal), ty.plain = true → fits ty old = true →
    mergeValue std (n+1) fo ty old v = .ok r → Good std fo ty v r := by
  intro fo ty old v r ht hfit h
  cases ty with
  | prim k =>
    rw [mergeValue_prim] at h
    exact good_prim std fo k v r h
  | ptr t =>
    simp only [Ty.plain] at ht
    cases old with
    | ptr p =>
      cases p with
      | none =>
        simp only [mergeValue] at h
        exact good_of_goodR _ _ _ _ _ rfl (IH.reify fo (.ptr t) v r (by simpa [Ty.plain] using ht) h)
      | some x =>
        simp only [fits] at hfit
        simp only [mergeValue] at h
        obtain ⟨x', hx', hr⟩ := bind_eq_ok h
        simp only [Outcome.ok.injEq] at hr
        subst hr
        exact good_ptr std fo t v x' (goodR_of_good _ _ _ _ _ (IH.merge fo t x v x' ht hfit hx'))
    | _ => simp [fits] at hfit
  | map t =>
    simp only [Ty.plain] at ht
    cases old with
    | map m =>
      simp only [mergeValue] at h
      cases hc : toCfg? v with
      | none => rw [hc] at h; exact absurd h (raise_ne_ok _ r)
      | some sub =>
        rw [hc] at h
        simp only at h
        have hold : ∀ m', m = some m' → fitsVals t m' = true ∧ keysSorted m' = true := by
          intro m' hm
          subst hm
          simpa [fits] using hfit
        obtain ⟨h0, h1, h2⟩ := IH.mapc fo.opts fo.validators t m sub r ht hold h
        exact ⟨h0, h1, fun _ => h2⟩
    | _ => simp [fits] at hfit
  | strct fs =>
    simp only [Ty.plain] at ht
    cases old with
    | strct xs =>
      simp only [fits] at hfit
      simp only [mergeValue] at h
      cases hc : toCfg? v with
      | none => rw [hc] at h; exact absurd h (raise_ne_ok _ r)
      | some sub =>
        rw [hc] at h
        simp only at h
        obtain ⟨xs', hxs, hr⟩ := bind_eq_ok h
        simp only [Outcome.ok.injEq] at hr
        subst hr
        obtain ⟨hf, hv⟩ := IH.strct fo.opts fs xs sub xs' ht hfit hxs
        refine ⟨by simpa [fits] using hf, fun ov => ?_, fun _ => runValidators_strct std _ xs'⟩
        rw [recValidate_strct]
        exact hv ov
    | _ => simp [fits] at hfit
  | slice t =>
    simp only [Ty.plain] at ht
    cases old with
    | slice l =>
      simp only [mergeValue] at h
      have hold : ∀ l', l = some l' → fitsAll t l' = true := by
        intro l' hl
        subst hl
        simpa [fits] using hfit
      obtain ⟨h0, h1, h2⟩ := IH.slice fo t l v r ht hold h
      exact ⟨h0, h1, fun _ => h2⟩
    | _ => simp [fits] at hfit
  | array sz t =>
    simp only [Ty.plain] at ht
    cases old with
    | array xs =>
      simp only [fits] at hfit
      simp only [mergeValue] at h
      by_cases hl : ((castArr v).length != sz) = true
      · simp only [hl, if_true] at h
        exact absurd h (raise_ne_ok _ r)
      · simp only [hl, Bool.false_eq_true, if_false] at h
        obtain ⟨xs', hxs, hf⟩ := bind_eq_ok h
        obtain ⟨hr, hv⟩ := list_validated std fo _ r hf
        subst hr
        obtain ⟨hfx, hvx⟩ := IH.arr fo t 0 xs (castArr v) xs' ht hfit hxs
        refine ⟨by simpa [fits] using hfx, fun ov => ?_, fun _ => hv⟩
        rw [recValidate_array]
        exact hvx ov
    | _ => simp [fits] at hfit
  | regexp => simp [Ty.plain] at ht
  | iface => simp [Ty.plain] at ht
  | config => simp [Ty.plain] at ht
  | unsupported => simp [Ty.plain] at ht
  | badmap => simp [Ty.plain] at ht

theorem ents_step (std : Stdlib) (n : Nat) (IH : Claims std n) :
    ∀ (o : Opts) (t : Ty) (m : List (String × GoVal)) (d : List (String × Val)) (m' : List (String × GoVal)),
    t.plain = true → fitsVals t m = true → keysSorted m = true → mapEntries std (n+1) o t m d = .ok m' →
    fitsVals t m' = true ∧ keysSorted m' = true ∧
    ∀ e ∈ m', (e ∈ m ∧ d.any (fun kv => kv.1 == e.1) = false) ∨ (∀ ov, recValidate std ov t [] e.2 = none) := by
  intro o t m d m' ht hfit hs h
  cases d with
  | nil =>
    simp only [mapEntries, Outcome.ok.injEq] at h
    subst h
    exact ⟨hfit, hs, fun e he => Or.inl ⟨he, by simp⟩⟩
  | cons kv r =>
    obtain ⟨k, v⟩ := kv
    simp only [mapEntries] at h
    obtain ⟨nv, hnv, h2⟩ := bind_eq_ok h
    -- the new value of the entry: well shaped and valid
    have hgood : fits t nv = true ∧ ∀ ov, recValidate std ov t [] nv = none := by
      cases hg : gmapGet m k with
      | none =>
        rw [hg] at hnv
        have := IH.reify { opts := o } t v nv ht hnv
        exact ⟨this.1, this.2.1⟩
      | some old =>
        rw [hg] at hnv
        obtain ⟨e, he, heq⟩ := gmapGet_mem m k old hg
        have hfo : fits t old = true := by rw [← heq]; exact (fitsVals_all t m).mp hfit e he
        have := IH.merge { opts := o } t old v nv ht hfo hnv
        exact ⟨this.1, this.2.1⟩
    -- it is stored (a plain type never yields the invalid reflect.Value)
    have h2' : mapEntries std n o t (gmapSet m k nv) r = .ok m' := by
      split at h2
      · have := hgood.1
        rw [fits_iface_false] at this
        cases this
      · exact h2
    clear h2
    have h2 := h2'
    have hfit1 : fitsVals t (gmapSet m k nv) = true := by
      rw [fitsVals_all]
      intro e he
      rcases mem_gmapSet m k nv hs e he with h | ⟨h, _⟩
      · rw [h]; exact hgood.1
      · exact (fitsVals_all t m).mp hfit e h
    obtain ⟨hf', hs', hall⟩ := IH.ents o t (gmapSet m k nv) r m' ht hfit1 (gmapSet_sorted m k nv hs) h2
    refine ⟨hf', hs', ?_⟩
    intro e he
    rcases hall e he with ⟨hin, hnot⟩ | hval
    · rcases mem_gmapSet m k nv hs e hin with h | ⟨h, hne⟩
      · exact Or.inr (by rw [h]; exact hgood.2)
      · refine Or.inl ⟨h, ?_⟩
        simp only [List.any_cons, Bool.or_eq_false_iff]
        refine ⟨?_, hnot⟩
        simp only [beq_eq_false_iff_ne, ne_eq]
        exact fun hk => hne hk.symm
    · exact Or.inr hval

theorem mapc_step (std : Stdlib) (n : Nat) (IH : Claims std n) :
    ∀ (o : Opts) (vs : List VTag) (t : Ty) (m0 : Option (List (String × GoVal))) (sub : Val) (r : GoVal), t.plain = true →
    (∀ m, m0 = some m → fitsVals t m = true ∧ keysSorted m = true) → reifyMapT std (n+1) o vs t m0 sub = .ok r →
    fits (.map t) r = true ∧ (∀ ov, recValidate std ov (.map t) [] r = none) ∧ runValidators std vs r = none := by
  intro o vs t m0 sub r ht hold h
  have hm : fitsVals t (m0.getD []) = true ∧ keysSorted (m0.getD []) = true := by
    cases m0 with
    | none => simp [fitsVals, keysSorted]
    | some m => exact hold m rfl
  simp only [reifyMapT] at h
  cases hd : sub.dict with
  | nil =>
    rw [hd] at h
    simp only at h
    cases hc : recValidate std o (.map t) vs (.map (some (m0.getD []))) with
    | some e => rw [hc] at h; exact absurd h (raiseValidation_ne_ok e r)
    | none =>
      rw [hc] at h
      simp only [Outcome.ok.injEq] at h
      subst h
      obtain ⟨h1, h2⟩ := (recValidate_split std o _ _ _).mp hc
      refine ⟨by simp [fits, hm.1, hm.2], fun ov => ?_, h1⟩
      rw [recValidate_opts std ov o]
      exact h2
  | cons kv dr =>
    rw [hd] at h
    simp only at h
    obtain ⟨m', hents, h2⟩ := bind_eq_ok h
    obtain ⟨hf', hs', hall⟩ := IH.ents o t (m0.getD []) (kv :: dr) m' ht hm.1 hm.2 hents
    cases hc : recValidateMap std o t (m'.filter (fun x => !((kv :: dr).any (fun kv' => kv'.1 == x.1)))) with
    | some e => rw [hc] at h2; exact absurd h2 (raiseValidation_ne_ok e r)
    | none =>
      rw [hc] at h2
      simp only at h2
      cases hv : runValidators std vs (.map (some m')) with
      | some e => rw [hv] at h2; exact absurd h2 (raiseValidation_ne_ok e r)
      | none =>
        rw [hv] at h2
        simp only [Outcome.ok.injEq] at h2
        subst h2
        refine ⟨by simp [fits, hf', hs'], fun ov => ?_, hv⟩
        rw [recValidate_map, recValidateMap_all]
        intro e he
        rcases hall e he with ⟨_, hnot⟩ | hval
        · -- an entry the configuration does not mention: validated explicitly
          have hmem : e ∈ m'.filter (fun x => !((kv :: dr).any (fun kv' => kv'.1 == x.1))) := by
            rw [List.mem_filter]
            exact ⟨he, by rw [hnot]; rfl⟩
          rw [recValidate_opts std ov o]
          exact (recValidateMap_all std o t _).mp hc e hmem
        · exact hval ov

/-- the eight claims hold at every fuel -/
theorem claims (std : Stdlib) : ∀ n, Claims std n := by
  intro n
  induction n with
  | zero =>
    refine ⟨?_, ?_, ?_, ?_, ?_, ?_, ?_, ?_⟩
    · intro fo ty old v r _ _ h; simp [mergeValue] at h
    · intro fo ty v r _ h; simp [reifyValue] at h
    · intro o fs xs cfg xs' _ _ h; simp [reifyStructT] at h
    · intro fo t x cfg name r _ _ h; simp [getField'] at h
    · intro fo t old v r _ _ h; simp [sliceMerge] at h
    · intro fo t start xs vs xs' _ _ h; simp [doArray] at h
    · intro o vs t m0 sub r _ _ h; simp [reifyMapT] at h
    · intro o t m d m' _ _ _ h; simp [mapEntries] at h
  | succ k ih =>
    exact ⟨merge_step std k ih, reify_step std k ih, strct_step std k ih, getf_step std k ih, slice_step std k ih,
      arr_step std k ih, mapc_step std k ih, ents_step std k ih⟩

/-- **C04, nested.** For every struct type whose fields are primitives, pointers, slices, fixed-size arrays, maps and
further such structs, nested to any depth, with any tags (except `inline`), validators, pre-filled target and configuration:
when `Unpack` returns without error, the recursive validation of the populated target reports nothing. -/
theorem unpack_plain_valid (std : Stdlib) (o : Opts) (fs : List (String × String × String × Ty)) (xs : List GoVal)
    (cfg : Val) (v : GoVal) (hpl : plainFields fs = true) (hfit : fitsFields fs xs = true)
    (h : unpack std o (.strct fs) (.strct xs) cfg = .ok v) :
    ∀ ov, recValidate std ov (.strct fs) [] v = none := by
  intro ov
  unfold unpack at h
  simp only at h
  obtain ⟨xs', hxs, hr⟩ := bind_eq_ok h
  simp only [Outcome.ok.injEq] at hr
  subst hr
  rw [recValidate_strct]
  exact ((claims std unpackFuel).strct o fs xs cfg xs' hpl hfit hxs).2 ov

/-- ... and the same for a slice or fixed-size array as the target itself -/
theorem unpack_plain_list_valid (std : Stdlib) (o : Opts) (ty : Ty) (old : GoVal) (cfg : Val) (v : GoVal)
    (hty : (∃ t, ty = .slice t) ∨ (∃ k t, ty = .array k t)) (hpl : ty.plain = true) (hfit : fits ty old = true)
    (h : unpack std o ty old cfg = .ok v) :
    ∀ ov, recValidate std ov ty [] v = none := by
  intro ov
  have hm : mergeValue std unpackFuel { opts := o } ty old cfg = .ok v := by
    rcases hty with ⟨t, rfl⟩ | ⟨k, t, rfl⟩ <;> (unfold unpack at h; exact h)
  exact ((claims std unpackFuel).merge { opts := o } ty old cfg v hpl hfit hm).2.1 ov

/-- ... and for a map as the target itself -/
theorem unpack_plain_map_valid (std : Stdlib) (o : Opts) (t : Ty) (m : Option (List (String × GoVal))) (cfg : Val) (v : GoVal)
    (hpl : t.plain = true) (hfit : fits (.map t) (.map m) = true)
    (h : unpack std o (.map t) (.map m) cfg = .ok v) :
    ∀ ov, recValidate std ov (.map t) [] v = none := by
  intro ov
  unfold unpack at h
  simp only at h
  have hold : ∀ m', m = some m' → fitsVals t m' = true ∧ keysSorted m' = true := by
    intro m' hm
    subst hm
    simpa [fits] using hfit
  exact ((claims std unpackFuel).mapc o [] t m cfg v hpl hold h).2.1 ov

/-- what Unpack leaves in the target still has the shape of the target's type -/
theorem unpack_plain_fits (std : Stdlib) (o : Opts) (fs : List (String × String × String × Ty)) (xs : List GoVal)
    (cfg : Val) (v : GoVal) (hpl : plainFields fs = true) (hfit : fitsFields fs xs = true)
    (h : unpack std o (.strct fs) (.strct xs) cfg = .ok v) : fits (.strct fs) v = true := by
  unfold unpack at h
  simp only at h
  obtain ⟨xs', hxs, hr⟩ := bind_eq_ok h
  simp only [Outcome.ok.injEq] at hr
  subst hr
  simpa [fits] using ((claims std unpackFuel).strct o fs xs cfg xs' hpl hfit hxs).1

/-! non-vacuity: a struct nested through a pointer, a slice and an array, validators at two levels; it is in the universe,
its zero value is well shaped (the correspondence run evaluates `unpack` on thousands of such targets, accepted and
refused alike) -/
def exNested : List (String × String × String × Ty) :=
  [("Hosts", "hosts", "required", .slice (.strct [("Name", "name", "required", .prim .string), ("Port", "port", "min=1", .prim (.int 64))])),
   ("P", "p", "", .ptr (.array 1 (.strct [("N", "n", "nonzero", .prim (.int 64))]))),
   ("M", "m", "nonzero", .map (.ptr (.strct [("A", "a", "max=5", .prim (.uint 8))])))]
example : plainFields exNested = true := by decide
example : fitsFields exNested (zeroFields exNested) = true := by decide

end Ucfg.C04
