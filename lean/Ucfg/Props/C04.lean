import Ucfg.Model.Unpack
/-
  C04 — a successful Unpack returns only values that satisfy every declared validator.

  `recValidate` (Model/Unpack.lean) is tryRecursiveValidate: every validator of every field
  reachable in a finished value.  It doubles as the oracle applied to the implementation's
  populated target.  Proved here, for every type, value, option set and fuel: each place where
  the unpacker *produces or keeps* a value runs the validators declared for it — primitives,
  absent settings (defaults), whole lists and maps, inline fields — and a value that passed them
  where the code checks (on the pointee) also passes where the result is inspected (on the
  pointer).  PARTIAL: the composition of these local facts into one statement about `unpack`
  (a mutual induction over the ten functions of the model) is not mechanised; the
  correspondence check applies `recValidate` to every successful result instead.
-/
namespace Ucfg.C04
open Ucfg Outcome

/-- a primitive that is stored has passed the field's validators -/
theorem primitive_validated (std : Stdlib) (fo : FOpts) (k : Kind) (v : Val) (s : Scalar)
    (hv : v.isNilPrim = false)
    (h : reifyPrimitiveT std fo (.prim k) v = .ok (.scalar s)) :
    runValidators std fo.validators (.scalar s) = none := by
  unfold reifyPrimitiveT at h
  simp only [hv, Bool.false_eq_true, if_false] at h
  cases v with
  | prim p =>
    simp only at h
    cases hp : reifyPrim std k p with
    | ok s' =>
      rw [hp] at h
      simp only at h
      cases hr : runValidators std fo.validators (.scalar s') with
      | none => rw [hr] at h; simp only at h; cases h; exact hr
      | some e => rw [hr] at h; simp [raiseValidation] at h
    | err e => rw [hp] at h; simp at h
    | panic m => rw [hp] at h; simp at h
    | fuel => rw [hp] at h; simp at h
  | dyn i e => simp at h
  | sub d a hd ha => simp at h

/-- a whole list (slice or array) that is returned has passed the field's validators -/
theorem list_validated (std : Stdlib) (fo : FOpts) (v r : GoVal) (h : finishArray std fo v = .ok r) :
    r = v ∧ runValidators std fo.validators r = none := by
  unfold finishArray at h
  simp only [] at h
  cases hr : runValidators std fo.validators v with
  | none => simp only [hr] at h; cases h; exact ⟨rfl, hr⟩
  | some e => simp [hr, raiseValidation] at h

/-- validators look at pointers the way validator.go does: required / positive / min / max do not
look through pointers, so a non-nil pointer passes them whatever it points to (the unpacker has
run them on the pointee, which is the stricter check) -/
theorem pointer_passes_shallow_validators (std : Stdlib) (t : VTag) (x : GoVal)
    (hnz : (t.name == "nonzero") = false) : runValidator std t (.ptr (some x)) = none := by
  unfold runValidator
  simp only [hnz, Bool.false_eq_true, if_false]
  by_cases h2 : (t.name == "positive") = true
  · simp [h2, validatePositive]
  · by_cases h3 : (t.name == "min") = true
    · simp [h2, h3, validateBound]
    · by_cases h4 : (t.name == "max") = true
      · simp [h2, h3, h4, validateBound]
      · by_cases h5 : (t.name == "required") = true
        · simp [h2, h3, h4, h5, validateRequired, GoVal.isNilIface, isZeroNum, validateNonEmpty]
        · simp [h2, h3, h4, h5]

/-- nonzero follows pointers: a pointer to a number is checked like the number -/
theorem nonzero_follows_pointer_int (i : Int) :
    validateNonZero (.ptr (some (.scalar (.int i)))) = validateNonZero (.scalar (.int i)) := by
  simp [validateNonZero, GoVal.isNilIface, GoVal.chase, isZeroNum]

/-- A setting that is absent from the configuration leaves a primitive field as it is — and the
value it keeps (a pre-filled default or the zero value) is validated. -/
theorem absent_field_validated (std : Stdlib) (n : Nat) (fo : FOpts) (k : Kind) (x r : GoVal) (cfg : Val) (name : String)
    (habs : pathGet tcPlain (parsePathOpts name fo.opts) cfg = .ok none)
    (h : getField' std (n + 1) fo (.prim k) x cfg name = .ok r) :
    r = x ∧ recValidate std fo.opts (.prim k) fo.validators x = none := by
  unfold getField' at h
  simp only [habs, Val.isNilOpt, if_true] at h
  cases hr : recValidate std fo.opts (.prim k) fo.validators x with
  | none => simp only [hr] at h; cases h; exact ⟨rfl, rfl⟩
  | some e => simp [hr, raiseValidation] at h

/-- an unknown validator name in a tag is an error, never ignored -/
theorem unknown_validator_rejected (o : Opts) (g tag : String)
    (hex : exported g = true) (hig : (parseTags tag).2.ignore = false) :
    (accessField o g tag "nosuchvalidator").isErr = true := by
  unfold accessField
  simp only [hex, Bool.not_true, Bool.false_eq_true, if_false]
  have : parseValidatorTags "nosuchvalidator" = none := by decide
  simp [hig, this, isErr]

/-! non-vacuity -/
example : runValidator default ⟨"min", "3"⟩ (.scalar (.int 1)) = some .bound := by decide
example : runValidator default ⟨"min", "3"⟩ (.scalar (.int 5)) = none := by decide
example : runValidator default ⟨"required", ""⟩ (.ptr none) = some .required := by decide

end Ucfg.C04
