import Ucfg.Model.Unpack
/-
  C04 — a successful Unpack returns only values that satisfy every declared validator.

  `recValidate` (Model/Unpack.lean) is tryRecursiveValidate: every validator of every field
  reachable in a finished value.  It doubles as the oracle applied to the implementation's
  populated target.  Proved here, for every type, value, option set and fuel: each place where
  the unpacker *produces or keeps* a value runs the validators declared for it — primitives,
  absent settings (defaults), whole lists and maps, inline fields — and a value that passed them
  where the code checks (on the pointee) also passes where the result is inspected (on the
  pointer).  PARTIAL: the composition of these local facts into one statement about `unpack`
  (a mutual induction over the ten functions of the model) is not mechanised; the
  correspondence check applies `recValidate` to every successful result instead.
-/
namespace Ucfg.C04
open Ucfg Outcome

/-- a primitive that is stored has passed the field's validators -/
theorem primitive_validated (std : Stdlib) (fo : FOpts) (k : Kind) (v : Val) (s : Scalar)
    (hv : v.isNilPrim = false)
    (h : reifyPrimitiveT std fo (.prim k) v = .ok (.scalar s)) :
    runValidators std fo.validators (.scalar s) = none := by
  unfold reifyPrimitiveT at h
  simp only [hv, Bool.false_eq_true, if_false] at h
  cases v with
  | prim p =>
    simp only at h
    cases hp : reifyPrim std k p with
    | ok s' =>
      rw [hp] at h
      simp only at h
      cases hr : runValidators std fo.validators (.scalar s') with
      | none => rw [hr] at h; simp only at h; cases h; exact hr
      | some e => rw [hr] at h; simp [raiseValidation] at h
    | err e => rw [hp] at h; simp at h
    | panic m => rw [hp] at h; simp at h
    | fuel => rw [hp] at h; simp at h
  | dyn i e => simp at h
  | sub d a hd ha => simp at h

/-- a whole list (slice or array) that is returned has passed the field's validators -/
theorem list_validated (std : Stdlib) (fo : FOpts) (v r : GoVal) (h : finishArray std fo v = .ok r) :
    r = v ∧ runValidators std fo.validators r = none := by
  unfold finishArray at h
  simp only [] at h
  cases hr : runValidators std fo.validators v with
  | none => simp only [hr] at h; cases h; exact ⟨rfl, hr⟩
  | some e => simp [hr, raiseValidation] at h

/-- validators look at pointers the way validator.go does: required / positive / min / max do not
look through pointers, so a non-nil pointer passes them whatever it points to (the unpacker has
run them on the pointee, which is the stricter check) -/
theorem pointer_passes_shallow_validators (std : Stdlib) (t : VTag) (x : GoVal)
    (hnz : (t.name == "nonzero") = false) : runValidator std t (.ptr (some x)) = none := by
  unfold runValidator
  simp only [hnz, Bool.false_eq_true, if_false]
  by_cases h2 : (t.name == "positive") = true
  · simp [h2, validatePositive]
  · by_cases h3 : (t.name == "min") = true
    · simp [h2, h3, validateBound]
    · by_cases h4 : (t.name == "max") = true
      · simp [h2, h3, h4, validateBound]
      · by_cases h5 : (t.name == "required") = true
        · simp [h2, h3, h4, h5, validateRequired, GoVal.isNilIface, isZeroNum, validateNonEmpty]
        · simp [h2, h3, h4, h5]

/-- nonzero follows pointers: a pointer to a number is checked like the number -/
theorem nonzero_follows_pointer_int (i : Int) :
    validateNonZero (.ptr (some (.scalar (.int i)))) = validateNonZero (.scalar (.int i)) := by
  simp [validateNonZero, GoVal.isNilIface, GoVal.chase, isZeroNum]

/-- A setting that is absent from the configuration leaves a primitive field as it is — and the
value it keeps (a pre-filled default or the zero value) is validated. -/
theorem absent_field_validated (std : Stdlib) (n : Nat) (fo : FOpts) (k : Kind) (x r : GoVal) (cfg : Val) (name : String)
    (habs : pathGet tcPlain (parsePathOpts name fo.opts) cfg = .ok none)
    (h : getField' std (n + 1) fo (.prim k) x cfg name = .ok r) :
    r = x ∧ recValidate std fo.opts (.prim k) fo.validators x = none := by
  unfold getField' at h
  simp only [habs, Val.isNilOpt, if_true] at h
  cases hr : recValidate std fo.opts (.prim k) fo.validators x with
  | none => simp only [hr] at h; cases h; exact ⟨rfl, rfl⟩
  | some e => simp [hr, raiseValidation] at h

/-- an unknown validator name in a tag is an error, never ignored -/
theorem unknown_validator_rejected (o : Opts) (g tag : String)
    (hex : exported g = true) (hig : (parseTags tag).2.ignore = false) :
    (accessField o g tag "nosuchvalidator").isErr = true := by
  unfold accessField
  simp only [hex, Bool.not_true, Bool.false_eq_true, if_false]
  have : parseValidatorTags "nosuchvalidator" = none := by decide
  simp [hig, this, isErr]

/-! non-vacuity -/
example : runValidator default ⟨"min", "3"⟩ (.scalar (.int 1)) = some .bound := by decide
example : runValidator default ⟨"min", "3"⟩ (.scalar (.int 5)) = none := by decide
example : runValidator default ⟨"required", ""⟩ (.ptr none) = some .required := by decide

end Ucfg.C04

namespace Ucfg.C04
open Ucfg

/-! ### the lifted statement for structs of primitive fields

For a target struct all of whose fields are of primitive kinds (any tags, any validators, any pre-filled values),
a successful field loop returns a struct on which the recursive validation used by Unpack itself
(`recValidateFields`, i.e. tryRecursiveValidate) reports nothing. The proof goes through every branch a primitive
field can take: skipped, absent from the configuration (validated as it is), present (converted, then validated). -/

/-- a primitive slot is filled by reifyPrimitive whatever it held -/
theorem mergeValue_prim (std : Stdlib) (n : Nat) (fo : FOpts) (k : Kind) (old : GoVal) (v : Val) :
    mergeValue std (n+1) fo (.prim k) old v = reifyPrimitiveT std fo (.prim k) v := by
  unfold mergeValue
  cases old <;> rfl

/-- validating a value of primitive type looks at the field's validators only -/
theorem recValidate_prim (std : Stdlib) (o : Opts) (k : Kind) (vs : List VTag) (x : GoVal) :
    recValidate std o (.prim k) vs x = runValidators std vs x := by
  unfold recValidate
  cases h : runValidators std vs x with
  | some e => rfl
  | none => cases x <;> rfl

/-- what reifyPrimitive returns for a primitive kind passes the field's validators (nil settings give the zero value
and are the one exception the Go code makes: "zero initialize value if val==nil") -/
theorem reifyPrimitiveT_prim_validated (std : Stdlib) (fo : FOpts) (k : Kind) (v : Val) (r : GoVal)
    (hv : v.isNilPrim = false) (h : reifyPrimitiveT std fo (.prim k) v = .ok r) :
    runValidators std fo.validators r = none := by
  have hs : ∃ s, r = .scalar s := by
    unfold reifyPrimitiveT at h
    simp only [hv, Bool.false_eq_true, if_false] at h
    cases v with
    | prim p =>
      simp only at h
      cases hp : reifyPrim std k p with
      | ok s' =>
        rw [hp] at h
        simp only at h
        cases hr : runValidators std fo.validators (.scalar s') with
        | none => rw [hr] at h; simp only at h; cases h; exact ⟨s', rfl⟩
        | some e => rw [hr] at h; simp [raiseValidation] at h
      | err e => rw [hp] at h; simp at h
      | panic m => rw [hp] at h; simp at h
      | fuel => rw [hp] at h; simp at h
    | dyn i e => simp at h
    | sub d a hd ha => simp at h
  obtain ⟨s, rfl⟩ := hs
  exact primitive_validated std fo k v s hv h

/-- reifyGetField for a field of primitive kind: whatever comes back (the untouched pre-filled value when the setting is
absent, the converted setting otherwise) passes the field's validators -/
theorem getField_prim_validated (std : Stdlib) (n : Nat) (fo : FOpts) (k : Kind) (x : GoVal) (cfg : Val) (name : String)
    (r : GoVal) (h : getField' std n fo (.prim k) x cfg name = .ok r) :
    runValidators std fo.validators r = none := by
  cases n with
  | zero => simp [getField'] at h
  | succ m =>
    -- everything after the lookup, for whatever the lookup produced
    have core : ∀ vo : Option Val,
        (if Val.isNilOpt vo = true then
            (match recValidate std fo.opts (.prim k) fo.validators x with
             | some e => raiseValidation e
             | none => (.ok x : Outcome GoVal))
          else
            match vo with
            | some v => (do
                let nx ← mergeValue std m fo (.prim k) x v
                match (Ty.prim k), nx with
                | .iface, .iface none => .ok x
                | _, nx => .ok nx)
            | none => .ok x) = .ok r → runValidators std fo.validators r = none := by
      intro vo hcore
      by_cases hnil : Val.isNilOpt vo = true
      · simp only [hnil, if_true] at hcore
        rw [recValidate_prim] at hcore
        cases hr : runValidators std fo.validators x with
        | some e => rw [hr] at hcore; simp [raiseValidation] at hcore
        | none => rw [hr] at hcore; simp only at hcore; cases hcore; exact hr
      · have hnil' : Val.isNilOpt vo = false := by simpa using hnil
        simp only [hnil', Bool.false_eq_true, if_false] at hcore
        cases vo with
        | none => simp [Val.isNilOpt] at hnil'
        | some v =>
          have hv : v.isNilPrim = false := by simpa [Val.isNilOpt] using hnil'
          simp only at hcore
          cases m with
          | zero => simp [mergeValue, Outcome.bind] at hcore
          | succ m' =>
            rw [mergeValue_prim] at hcore
            cases hp : reifyPrimitiveT std fo (.prim k) v with
            | ok nx =>
              rw [hp] at hcore
              simp only [Outcome.bind_ok] at hcore
              have hval := reifyPrimitiveT_prim_validated std fo k v nx hv hp
              cases nx <;> simp at hcore <;> (subst hcore; exact hval)
            | err e => rw [hp] at hcore; simp [Outcome.bind] at hcore
            | panic s => rw [hp] at hcore; simp [Outcome.bind] at hcore
            | fuel => rw [hp] at hcore; simp [Outcome.bind] at hcore
    unfold getField' at h
    simp only at h
    cases hpg : pathGet tcPlain (parsePathOpts name fo.opts) cfg with
    | ok vo => rw [hpg] at h; simp only at h; exact core vo h
    | err e =>
      rw [hpg] at h
      simp only at h
      by_cases hm : e.reason = Reason.missing
      · simp only [hm, if_true] at h; exact core none h
      · simp [hm] at h
    | panic s => rw [hpg] at h; simp at h
    | fuel => rw [hpg] at h; simp at h

/-- every field of the struct type is of a primitive kind -/
def FlatPrim (fs : List (String × String × String × Ty)) : Prop := ∀ f ∈ fs, ∃ k, f.2.2.2 = Ty.prim k

/-- C04 for structs of primitive fields: a field loop that succeeds returns values on which the recursive validation
reports nothing - for every list of fields, tags and validators, every pre-filled struct and every configuration -/
theorem flat_struct_valid (std : Stdlib) (o : Opts) :
    ∀ (fs : List (String × String × String × Ty)) (n : Nat) (xs xs' : List GoVal) (cfg : Val),
      FlatPrim fs → reifyStructT std n o fs xs cfg = .ok xs' → recValidateFields std o fs xs' = none := by
  intro fs
  induction fs with
  | nil =>
    intro n xs xs' cfg _ h
    cases xs' <;> simp [recValidateFields]
  | cons f fr ih =>
    intro n xs xs' cfg hflat h
    obtain ⟨g, tag, vtag, t⟩ := f
    obtain ⟨k, hk⟩ := hflat (g, tag, vtag, t) (by simp)
    simp only at hk
    subst hk
    have hflat' : FlatPrim fr := fun f hf => hflat f (List.mem_cons_of_mem _ hf)
    cases n with
    | zero => simp [reifyStructT] at h
    | succ m =>
      cases xs with
      | nil =>
        simp only [reifyStructT] at h
        cases h
        simp [recValidateFields]
      | cons x xr =>
        unfold reifyStructT at h
        simp only [bind, Outcome.bind] at h
        cases ha : accessField o g tag vtag with
        | err e => rw [ha] at h; simp at h
        | panic s => rw [ha] at h; simp at h
        | fuel => rw [ha] at h; simp at h
        | ok fio =>
          rw [ha] at h
          simp only at h
          cases fio with
          | none =>
            simp only at h
            cases hr : reifyStructT std m o fr xr cfg with
            | ok rest =>
              rw [hr] at h
              simp only [Outcome.ok.injEq] at h
              subst h
              simp only [recValidateFields, ha]
              exact ih m xr rest cfg hflat' hr
            | err e => rw [hr] at h; simp at h
            | panic s => rw [hr] at h; simp at h
            | fuel => rw [hr] at h; simp at h
          | some fi =>
            simp only at h
            by_cases hsq : fi.tag.squash = true
            · -- ',inline' on a primitive field is an error
              simp only [hsq, if_true] at h
              have hseq : (Outcome.ok () *> (Outcome.raise Reason.typeMismatch : Outcome GoVal)) =
                  Outcome.raise Reason.typeMismatch := rfl
              rw [hseq] at h
              simp [Outcome.raise] at h
            · have hsq' : fi.tag.squash = false := by simpa using hsq
              simp only [hsq', Bool.false_eq_true, if_false] at h
              cases hg : getField' std m { opts := { o with handling := fi.handling }, handling := fi.tag.handling, validators := fi.validators }
                  (.prim k) x cfg fi.name with
              | ok x' =>
                rw [hg] at h
                simp only at h
                have hval := getField_prim_validated std m _ k x cfg fi.name x' hg
                cases hr : reifyStructT std m o fr xr cfg with
                | ok rest =>
                  rw [hr] at h
                  simp only [Outcome.ok.injEq] at h
                  subst h
                  simp only [recValidateFields, ha, recValidate_prim]
                  simp only at hval
                  rw [hval]
                  exact ih m xr rest cfg hflat' hr
                | err e => rw [hr] at h; simp at h
                | panic s => rw [hr] at h; simp at h
                | fuel => rw [hr] at h; simp at h
              | err e => rw [hg] at h; simp at h
              | panic s => rw [hg] at h; simp at h
              | fuel => rw [hg] at h; simp at h

/-- the same at the API: `cfg.Unpack(&target)` for a struct of primitive fields -/
theorem unpack_flat_valid (std : Stdlib) (o : Opts) (fs : List (String × String × String × Ty)) (xs : List GoVal)
    (cfg : Val) (v : GoVal) (hflat : FlatPrim fs) (h : unpack std o (.strct fs) (.strct xs) cfg = .ok v) :
    recValidate std o (.strct fs) [] v = none := by
  unfold unpack at h
  simp only [bind, Outcome.bind] at h
  cases hr : reifyStructT std unpackFuel o fs xs cfg with
  | ok xs' =>
    rw [hr] at h
    simp only [Outcome.ok.injEq] at h
    subst h
    unfold recValidate
    simp only [runValidators, List.findSome?_nil]
    exact flat_struct_valid std o fs unpackFuel xs xs' cfg hflat hr
  | err e => rw [hr] at h; simp at h
  | panic s => rw [hr] at h; simp at h
  | fuel => rw [hr] at h; simp at h

/-- non-vacuity: a two-field struct, one field with a validator -/
example : FlatPrim [("A", "", "min=1", Ty.prim (.int 64)), ("B", "name", "", Ty.prim .string)] := by
  intro f hf
  simp at hf
  rcases hf with rfl | rfl
  · exact ⟨.int 64, rfl⟩
  · exact ⟨.string, rfl⟩

end Ucfg.C04
