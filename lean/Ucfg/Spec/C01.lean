import Ucfg.Model.Data
import Ucfg.Model.Opts
/-
  C01 / C16 — the merge specification, written from the statements on plain trees
  (finite maps and lists), independently of merge.go's fold structure.

  A node has a dictionary part and a list part (a node with both arises when a
  dictionary is merged with a list at the same key).  `pol π` is the policy in
  force at the node reached by the key path π (C01: constant; C16: the per-field
  policy of the longest configured path that is a prefix of π, else the global one).
-/
namespace Ucfg.Spec.C01

inductive T where
  | leaf (d : Data)                              -- a primitive (or nil)
  | node (d : List (String × T)) (a : List T)
  deriving Repr, Inhabited

def T.isNil : T → Bool
  | .leaf .nil => true
  | _ => false

def lookup (d : List (String × T)) (k : String) : Option T := (d.find? (·.1 == k)).map (·.2)

/-- list index segments are written `#i`; they never equal a configured name -/
def idxSeg (i : Nat) : String := "#" ++ toString i

mutual
partial def merge (pol : List String → Handling) (π : List String) (a b : T) : T :=
  match a, b with
  | .node d1 a1, .node d2 a2 =>
    let p := pol π
    -- dictionaries: union at every level (replace: a non-empty dictionary of B replaces A's)
    let d :=
      if d2.isEmpty then d1
      else if p = .replace then d2
      else
        let ks := (d1.map (·.1) ++ (d2.map (·.1)).filter (fun k => !(d1.any (·.1 == k))))
        ks.filterMap (fun k =>
          match lookup d1 k, lookup d2 k with
          | some x, some y => some (k, merge pol (π ++ [k]) x y)
          | some x, none => some (k, x)
          | none, some y => some (k, y)
          | none, none => none)
    -- lists: by the active policy
    let l :=
      match p with
      | .replace | .arrReplace => if a2.isEmpty then a1 else a2
      | .prepend => a2 ++ a1
      | .append => a1 ++ a2
      | _ => mergeIdx pol π 0 a1 a2
    .node d l
  | .node d1 a1, .leaf .nil => .node d1 a1          -- a nil in B leaves a container of A in place
  | .leaf .nil, .node d2 a2 => .node d2 a2
  | _, b => b                                        -- otherwise B's value
partial def mergeIdx (pol : List String → Handling) (π : List String) (i : Nat) : List T → List T → List T
  | a, [] => a
  | [], b => b
  | x :: a, y :: b => merge pol (π ++ [idxSeg i]) x y :: mergeIdx pol π (i + 1) a b
end

/-- the generic view of a tree (as Unpack into interface{} renders it), with every
empty container read as nil -/
partial def render : T → Data
  | .leaf d => d
  | .node d a =>
    let m := d.map (fun (k, t) => (k, render t))
    let l := a.map render
    match m, l with
    | [], [] => .nil
    | _, [] => .map m
    | [], _ => .arr l
    | _, _ => .map (m ++ (l.zipIdx.map (fun (x, i) => (toString i, x))))

/-- empty containers are one value with nil -/
partial def canon : Data → Data
  | .arr l => if l.isEmpty then .nil else .arr (l.map canon)
  | .map m => if m.isEmpty then .nil else .map (m.map (fun (k, v) => (k, canon v)))
  | d => d

/-- the tree of a plain datum -/
partial def ofData : Data → T
  | .arr l => .node [] (l.map ofData)
  | .map m => .node (m.foldl (fun acc (k, v) =>
      if acc.any (·.1 == k) then acc.map (fun (k', v') => if k' == k then (k', ofData v) else (k', v'))
      else acc ++ [(k, ofData v)]) []) []
  | d => .leaf d

/-- a configured path segment against a segment of a setting's path: names match themselves, a number matches that list
index, `*` matches every list index (and nothing else) -/
def segMatch (pat seg : String) : Bool :=
  if seg.startsWith "#" then
    pat == "*" || (match pat.toNat? with | some n => idxSeg n == seg | none => false)
  else pat == seg

def patPrefix : List String → List String → Bool
  | [], _ => true
  | _ :: _, [] => false
  | p :: ps, s :: ss => segMatch p s && patPrefix ps ss

/-- two configured paths compete when, after a common prefix, one says `*` and the other names an index: the statement
does not say which of them governs that element, so the oracle does not decide such option sets -/
def competing : List String → List String → Bool
  | p :: ps, q :: qs =>
    if p == q then competing ps qs
    else (p == "*" && q.toNat?.isSome) || (q == "*" && p.toNat?.isSome)
  | _, _ => false

/-- the option stores the policy of path p under the key `*` below p, which is also where the entries of `p.*.…` live: the
two cannot be configured together (the later option displaces the earlier one) -/
def starClash (p q : List String) : Bool :=
  p.isPrefixOf q && (q.drop p.length).head? == some "*"

def ambiguous (fs : List (List String × Handling)) : Bool :=
  fs.any (fun (p, _) => fs.any (fun (q, _) => competing p q || starClash p q))

/-- C16: the policy in force at path π: the configured path that is the longest prefix of π -/
def polOf (g : Handling) (fs : List (List String × Handling)) (π : List String) : Handling :=
  let cands := fs.filter (fun (p, _) => patPrefix p π)
  match cands.foldl (fun (best : Option (List String × Handling)) c =>
      match best with
      | none => some c
      | some b => if c.1.length ≥ b.1.length then some c else some b) none with
  | some (_, h) => if h = .dflt then g else h
  | none => g

end Ucfg.Spec.C01
